"""C06 - the password file is bound to the server's static key."""
from checks.common import *

LEVEL = "proof"
RULE = ("registrations x alternative server setups that share the OPRF seed but carry another static key (fresh, another "
        "server's, the fake key), all identity/context variants; oracle: genuine setup reports its own public key at registration "
        "and login; the substituted-key login fails at the client's final step; the binding tag is compared in full (a stolen file "
        "whose tag is altered in one byte, or in all bytes but one, fails under the genuine and under another key). distinct = distinct (suite, setup pair, parameters)")
ASSUMPTIONS = ["substituted-key theorem holds up to an explicit HMAC collision event (Bad)"]


def substituted(ctx, idu, ids, context, variant):
    ctx.nontrivial = True
    L = ctx.L
    # server identities that LOOK like a key: "@spk" = the genuine server's public key spelled out explicitly,
    # "@npk" = an arbitrary string of exactly the public-key length
    r = ctx.call("setup_new", ctx.tape(2 * L.Nsk + L.Nh + 16))
    setup0 = r.b(0)
    r = ctx.call("ke_pub", setup0[L.Nh:L.Nh + L.Nsk])
    pk = r.b(0) if r.ok else None
    if ids == b"@spk":
        ids = pk
    elif ids == b"@npk":
        ids = b"\xff" * L.Npk
    f = honest_flow(ctx, b"hunter2", b"alice", context, idu, ids, "~", stop_on_error=False, count=True, setup=setup0)
    ctx.expect(f.ok, "honest login under the genuine setup succeeds")
    if not f.ok:
        return
    ctx.expect(f.spk_reg == pk and f.spk_login == pk and f.reg_response[L.Noe:] == pk,
               "server public key reported at registration and login is the setup's public key")
    other = honest_flow(ctx, b"x", b"y", registration_only=True)
    seed = f.setup[:L.Nh]
    if variant == "fresh-key":
        alt = seed + other.setup[L.Nh:L.Nh + L.Nsk] + f.setup[L.Nh + L.Nsk:]
    elif variant == "other-servers-key":
        alt = seed + other.setup[L.Nh:]
    else:  # the setup's own fake key as static key
        alt = seed + f.setup[L.Nh + L.Nsk:] + f.setup[L.Nh + L.Nsk:]
    r = ctx.call("dec", "ServerSetup", alt)
    ctx.expect(r.ok, "alternative setup is a valid server setup")
    g = Flow(); g.__dict__.update(f.__dict__)
    ctx.counting = True
    login(ctx, g, b"hunter2", b"alice", context, context, idu, ids, idu, ids, "~", alt, f.file)
    ctx.expect(not g.ok and g.failed_at == "login_finish" and g.error == "InvalidLogin",
               "stolen file served under another static key (same OPRF seed) fails at the client (%s at %s)"
               % ("Ok" if g.ok else g.error, g.failed_at))
    # the genuine setup still works afterwards
    h = Flow(); h.__dict__.update(f.__dict__)
    login(ctx, h, b"hunter2", b"alice", context, context, idu, ids, idu, ids, "~", f.setup, f.file)
    ctx.expect(h.ok and h.spk_login == pk, "control: genuine setup logs in and reports its key")


def tag_in_full(ctx, idu, ids, context, positions):
    """the binding is the envelope tag over (nonce, server public key, identities): the client must compare ALL of it.
    A stolen file whose tag is altered in any single byte (or in every byte but one), served by the genuine server
    or under another static key, fails at the client's final step."""
    ctx.nontrivial = True
    L = ctx.L
    f = honest_flow(ctx, b"hunter2", b"alice", context, idu, ids, "~", stop_on_error=False, count=True)
    if not ctx.expect(f.ok, "honest login under the genuine setup succeeds"):
        return
    other = honest_flow(ctx, b"x", b"y", registration_only=True)
    alt = f.setup[:L.Nh] + other.setup[L.Nh:L.Nh + L.Nsk] + f.setup[L.Nh + L.Nsk:]
    t0 = len(f.file) - L.Nh
    ctx.counting = True
    def served(file, setup, what):
        g = Flow(); g.__dict__.update(f.__dict__)
        login(ctx, g, b"hunter2", b"alice", context, context, idu, ids, idu, ids, "~", setup, file)
        ctx.expect(not g.ok and g.failed_at == "login_finish" and g.error == "InvalidLogin",
                   "file with %s fails at the client (%s at %s)" % (what, "Ok" if g.ok else g.error, g.failed_at))
    n = L.Nh
    for j in (range(n) if positions == "all" else sorted({0, 1, n // 2, n - 2, n - 1, int(positions.split("+")[1]) % n})):
        x = bytearray(f.file); x[t0 + j] ^= 1 << (j % 8)
        served(bytes(x), f.setup, "envelope tag altered in byte %d of %d" % (j, L.Nh))
    for keep in (0, L.Nh - 1, L.Nh // 2):
        x = bytearray(f.file)
        for j in range(L.Nh):
            if j != keep:
                x[t0 + j] ^= 0x5a
        served(bytes(x), f.setup, "envelope tag altered in every byte but byte %d" % keep)
        served(bytes(x), alt, "envelope tag altered in every byte but byte %d, under another static key" % keep)


def cases(tier, seed):
    out = []
    # all four shapes of (client identity, server identity) in {absent, explicit}^2
    idv = [(None, None, None), (b"u", b"s", b"c"), (None, b"server.example", None), (b"u" * 300, None, b""),
           (b"client", b"@spk", None), (b"client", b"@npk", b"c"), (None, b"@spk", None)]
    for si, s in enumerate(suites_for(tier, seed)):
        k = 0
        for v in ("fresh-key", "other-servers-key", "fake-key"):
            for (a, b, c) in idv:
                out.append(dict(cross=["login_finish", "srv_login_finish", "srv_reg_start"], cross_limit=60, script=substituted, suite=s, seed=seed * 100000 + si * 100 + k, mode="pattern+err",
                                params=dict(idu=a, ids=b, context=c, variant=v)))
                k += 1
        pos = "all" if tier == "thorough" else "ends+%d" % (7 * si + seed)
        for (a, b, c) in idv[:2]:
            out.append(dict(script=tag_in_full, suite=s, seed=seed * 100000 + si * 100 + k, mode="pattern+err",
                            params=dict(idu=a, ids=b, context=c, positions=pos)))
            k += 1
    return out
