"""C06 - the password file is bound to the server's static key."""
from checks.common import *

LEVEL = "proof"
RULE = ("registrations x alternative server setups that share the OPRF seed but carry another static key (fresh, another "
        "server's, the fake key), all identity/context variants; oracle: genuine setup reports its own public key at registration "
        "and login; the substituted-key login fails at the client's final step. distinct = distinct (suite, setup pair, parameters)")
ASSUMPTIONS = ["substituted-key theorem holds up to an explicit HMAC collision event (Bad)"]


def substituted(ctx, idu, ids, context, variant):
    ctx.nontrivial = True
    L = ctx.L
    f = honest_flow(ctx, b"hunter2", b"alice", context, idu, ids, "~", stop_on_error=False, count=True)
    ctx.expect(f.ok, "honest login under the genuine setup succeeds")
    if not f.ok:
        return
    r = ctx.call("ke_pub", f.setup[L.Nh:L.Nh + L.Nsk])
    pk = r.b(0) if r.ok else None
    ctx.expect(f.spk_reg == pk and f.spk_login == pk and f.reg_response[L.Noe:] == pk,
               "server public key reported at registration and login is the setup's public key")
    other = honest_flow(ctx, b"x", b"y", registration_only=True)
    seed = f.setup[:L.Nh]
    if variant == "fresh-key":
        alt = seed + other.setup[L.Nh:L.Nh + L.Nsk] + f.setup[L.Nh + L.Nsk:]
    elif variant == "other-servers-key":
        alt = seed + other.setup[L.Nh:]
    else:  # the setup's own fake key as static key
        alt = seed + f.setup[L.Nh + L.Nsk:] + f.setup[L.Nh + L.Nsk:]
    r = ctx.call("dec", "ServerSetup", alt)
    ctx.expect(r.ok, "alternative setup is a valid server setup")
    g = Flow(); g.__dict__.update(f.__dict__)
    ctx.counting = True
    login(ctx, g, b"hunter2", b"alice", context, context, idu, ids, idu, ids, "~", alt, f.file)
    ctx.expect(not g.ok and g.failed_at == "login_finish" and g.error == "InvalidLogin",
               "stolen file served under another static key (same OPRF seed) fails at the client (%s at %s)"
               % ("Ok" if g.ok else g.error, g.failed_at))
    # the genuine setup still works afterwards
    h = Flow(); h.__dict__.update(f.__dict__)
    login(ctx, h, b"hunter2", b"alice", context, context, idu, ids, idu, ids, "~", f.setup, f.file)
    ctx.expect(h.ok and h.spk_login == pk, "control: genuine setup logs in and reports its key")


def cases(tier, seed):
    out = []
    # all four shapes of (client identity, server identity) in {absent, explicit}^2
    idv = [(None, None, None), (b"u", b"s", b"c"), (None, b"server.example", None), (b"u" * 300, None, b"")]
    for si, s in enumerate(suites_for(tier, seed)):
        k = 0
        for v in ("fresh-key", "other-servers-key", "fake-key"):
            for (a, b, c) in idv:
                out.append(dict(cross=["login_finish", "srv_login_finish", "srv_reg_start"], cross_limit=60, script=substituted, suite=s, seed=seed * 100000 + si * 100 + k, mode="pattern+err",
                                params=dict(idu=a, ids=b, context=c, variant=v)))
                k += 1
    return out
