"""C02 - a wrong password never logs in.  Oracle: the client's final login step fails with InvalidLogin and yields
nothing; the pending server state cannot be completed with anything the failed client could send."""
from checks.common import *

LEVEL = "proof"
RULE = ("register with pw, log in with pw' != pw: near-miss pairs (every single-bit flip of a short password, proper "
        "prefixes/extensions, case change, empty vs non-empty, embedded/trailing NUL, trailing whitespace, 65535-byte "
        "passwords differing in the last byte, 255/256 boundary pairs); passwords of 65535 bytes (accepted) and beyond "
        "(refused: model and code agree where; if accepted, their digests and truncations must not log in); distinct = distinct (suite, pw, pw')")
ASSUMPTIONS = ["theorem holds up to explicit collision events (Bad) of HMAC/hash/expand, DESIGN.md 2.2"]


def pairs(rnd, thorough):
    base = b"Pa55w0rd"
    out = []
    flips = [(i, b) for i in range(len(base)) for b in range(8)]
    if not thorough:
        flips = rnd.sample(flips, 6)
    for i, b in flips:
        x = bytearray(base); x[i] ^= 1 << b
        out.append((base, bytes(x)))
    out += [(base, base[:-1]), (base, base + b"x"), (base[:-1], base), (base, base.lower()), (b"", b"x"), (b"x", b""),
            (b"", b"\x00"), (b"ab", b"ab\x00"), (b"a\x00b", b"ab"), (b"a\x00b", b"a\x00c"), (base, base + b" "),
            (base, base + b"\n"), (b"A" * 65535, b"A" * 65534 + b"B"), (b"A" * 255, b"A" * 256), (b"A" * 256, b"A" * 255),
            (b"A" * 255 + b"B", b"A" * 255 + b"C"), (b"\xff" * 16, b"\xff" * 15 + b"\xfe"), (b"pw", b"wp")]
    # what a normalising, pre-hashing or truncating implementation would confuse (both directions)
    longpw = b"A long pass-phrase, longer than any hash block: " + b"correct horse battery staple " * 6
    for p2 in related_passwords(longpw):
        out.append((longpw, p2)); out.append((p2, longpw))
    for p2 in related_passwords(base)[:8]:
        out.append((base, p2))
    return out


def wrong_pw(ctx, pw, pw2, idu, ids, context):
    ctx.nontrivial = True
    f = honest_flow(ctx, pw, b"user", context, idu, ids, "~", stop_on_error=False, count=True, login_pw=pw2)
    ctx.expect(not f.ok and f.failed_at == "login_finish" and f.error == "InvalidLogin",
               "login with a different password fails at the client's final step with InvalidLogin (got %s at %s)"
               % (f.error if not f.ok else "Ok", f.failed_at))
    ctx.expect(f.ke3 is None and f.session_client is None and f.export_login is None, "no finalization, no keys")
    if f.server_login is not None:
        L = ctx.L
        for cand in (bytes(L.Nh), b"\xff" * L.Nh, ctx.tape(L.Nh)):
            r = ctx.call("srv_login_finish", f.server_login, cand)
            ctx.expect(not r.ok, "server cannot complete the session of a failed client")
    # same password still works (the pair really differs only in the password)
    g = honest_flow(ctx, pw2, b"user", context, idu, ids, "~", stop_on_error=False, count=True)
    ctx.expect(g.ok, "control: the login password itself registers and logs in")


def two_things_wrong(ctx, pw, pw2, which, n):
    """a wrong password together with a second defect on the client's side (over-long context or identity): the login
    fails, and WHICH error is reported is the model's (the order of the checks is part of the proved acceptance
    characterisation): a wrong password is reported as InvalidLogin unless an earlier check refuses the parameters"""
    ctx.nontrivial = True
    big = b"z" * n
    over = {"context": {"cli_context": big}, "idu": {"cli_idu": big}, "ids": {"cli_ids": big}}[which]
    f = honest_flow(ctx, pw, b"user", None, None, None, "~", stop_on_error=False, count=True, login_pw=pw2, **over)
    ctx.expect(not f.ok and f.failed_at == "login_finish", "wrong password and over-long %s: the client's final step fails (%s at %s)"
               % (which, "Ok" if f.ok else f.error, f.failed_at))
    ctx.expect(f.ke3 is None and f.session_client is None, "no finalization, no keys")
    if which == "context":
        ctx.expect(f.error == "InvalidLogin", "the password is checked before the context is framed: InvalidLogin (%s)" % f.error)


def overlong(ctx, n, idu, ids, context):
    """passwords beyond what the OPRF can length-prefix (65535 bytes): the code refuses them (model and code must
    agree where); were one accepted, nothing it could be confused with (its digests, its truncations) may log in"""
    ctx.nontrivial = True
    pw = bytes((i * 7 + n) % 251 for i in range(n))
    f = honest_flow(ctx, pw, b"user", context, idu, ids, "~", stop_on_error=False, count=True)
    if n > 65535:
        ctx.expect(not f.ok, "a %d-byte password cannot be registered and used (the OPRF input is length-prefixed on 2 bytes)" % n)
    else:
        ctx.expect(f.ok, "a %d-byte password registers and logs in" % n)
    if f.ok:
        import hashlib
        cands = [hashlib.sha256(pw).digest(), hashlib.sha384(pw).digest(), hashlib.sha512(pw).digest(), pw[:65535],
                 pw[:n % 65536], pw[:-1], pw[1:]]
        for c in cands:
            if c == pw:
                continue
            g = honest_flow(ctx, pw, b"user", context, idu, ids, "~", stop_on_error=False, count=True, login_pw=c)
            ctx.expect(not g.ok, "login with a %d-byte password related to the registered %d-byte one is refused" % (len(c), n))


def cases(tier, seed):
    rnd = random.Random(seed)
    out = []
    for si, s in enumerate(suites_for(tier, seed)):
        ps = pairs(rnd, tier == "thorough")
        for i, (a, b) in enumerate(ps):
            ids = [(None, None, None), (b"client", b"server", b"ctx")][i % 2]
            out.append(dict(cross=["login_finish", "srv_login_finish", "srv_reg_start"], cross_limit=60, script=wrong_pw, suite=s, seed=seed * 100000 + si * 1000 + i, mode="pattern+err",
                            params=dict(pw=a, pw2=b, idu=ids[0], ids=ids[1], context=ids[2])))
        for j, (which, n) in enumerate([("context", 65536), ("idu", 65536), ("ids", 70000), ("context", 131072)][: (4 if tier == "thorough" else 2)]):
            out.append(dict(script=two_things_wrong, suite=s, seed=seed * 100000 + si * 1000 + 950 + j, mode="pattern+err",
                            params=dict(pw=b"right password", pw2=b"wrong password", which=which, n=n)))
        for j, n in enumerate([65536, 65535] + ([70000, 131072] if tier == "thorough" else [])):
            ids = [(None, None, None), (b"client", b"server", b"ctx")][j % 2]
            out.append(dict(script=overlong, suite=s, seed=seed * 100000 + si * 1000 + 900 + j, mode="pattern+err",
                            params=dict(n=n, idu=ids[0], ids=ids[1], context=ids[2])))
    return out
