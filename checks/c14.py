"""C14 - the OPRF is oblivious and keyed per credential."""
from checks.common import *

LEVEL = "proof"
RULE = ("re-registrations of one (password, credential id, setup) on independent blinding tapes: masking key equal, request "
        "different; pairs of credential ids (empty, prefixes, long), passwords and setups (sharing / not sharing the seed): masking "
        "keys differ; server evaluation compared across registration start / login start, setups that share the seed but not the "
        "static key, with and without a record; identifiers related by digest / truncation evaluate under other keys; the "
        "evaluation replayed on the model byte for byte; a setup restored from native bytes / serde answers as the live one. distinct = distinct (suite, op, args)")
ASSUMPTIONS = ["separation holds up to explicit collision events (Bad); group laws are hypotheses"]


def oblivious(ctx, pw, cred):
    ctx.nontrivial = True
    L = ctx.L
    f = honest_flow(ctx, pw, cred, registration_only=True, count=True)
    mk = lambda fl: fl.upload[L.Npk:L.Npk + L.Nh]
    regs = [f]
    for k in range(3):
        regs.append(honest_flow(ctx, pw, cred, setup=f.setup, registration_only=True, count=True, rejections=k % 2))
    for g in regs[1:]:
        ctx.expect(mk(g) == mk(f), "re-registration gives the same masking key (independent of the blind)")
    reqs = [g.reg_request for g in regs]
    ctx.expect(len(set(reqs)) == len(reqs), "registration requests differ every time")
    ctx.expect(len(set(g.reg_response[:L.Noe] for g in regs)) == len(regs), "evaluated elements differ with the request")
    for pw2, cred2, what in ((pw + b"x", cred, "password"), (pw, cred + b"x", "credential id (extension)"), (pw, cred[:-1] if cred else b"z", "credential id (prefix)"),
                             (pw, b"", "empty credential id") if cred else (pw, b"q" * 400, "long credential id")):
        g = honest_flow(ctx, pw2, cred2, setup=f.setup, registration_only=True, count=True)
        ctx.expect(mk(g) != mk(f), "different %s gives an unrelated masking key" % what)
    # identifiers a digesting / truncating key derivation would confuse with cred (no prefix relation needed)
    import hashlib
    rel = [hashlib.sha256(cred).digest(), hashlib.sha384(cred).digest(), hashlib.sha512(cred).digest(), cred[:64], cred[:128], cred[:255],
           cred[1:], cred + b"\x00", cred.upper()]
    ev0 = ctx.call("srv_reg_start", f.setup, f.reg_request, cred)
    for cred2 in dict.fromkeys(rel):
        if cred2 == cred:
            continue
        r = ctx.call("srv_reg_start", f.setup, f.reg_request, cred2)
        ctx.expect(r.ok and ev0.ok and r.b(0)[:L.Noe] != ev0.b(0)[:L.Noe],
                   "a related credential identifier (%d bytes for %d) evaluates under another key" % (len(cred2), len(cred)))
    for pw2 in related_passwords(pw)[:12]:
        g = honest_flow(ctx, pw2, cred, setup=f.setup, registration_only=True, count=True, stop_on_error=False)
        if g.upload is not None:
            ctx.expect(mk(g) != mk(f), "a related password (%d bytes) gives an unrelated masking key" % len(pw2))
    h = honest_flow(ctx, pw, cred, registration_only=True, count=True)       # another server seed
    ctx.expect(mk(h) != mk(f), "another server seed gives an unrelated masking key")
    # evaluation = function of (seed, credential id, request) only
    alt = f.setup[:L.Nh] + h.setup[L.Nh:]          # same seed, other static and fake keys
    r1 = ctx.call("srv_reg_start", f.setup, f.reg_request, cred)
    r2 = ctx.call("srv_reg_start", alt, f.reg_request, cred)
    ctx.expect(r1.ok and r2.ok and r1.b(0)[:L.Noe] == r2.b(0)[:L.Noe], "evaluation independent of the static key")
    ctx.expect(r1.b(0) == f.reg_response, "evaluation is deterministic")
    r = ctx.call("login_start", ctx.btape(L.Nsk + 64), pw)
    ke1 = r.b(1)
    evs = []
    for setup, file in ((f.setup, f.file), (f.setup, None), (alt, f.file), (f.setup, regs[1].file)):
        rr = ctx.call("srv_login_start", ctx.tape(L.Nh + 64 + L.Nsk + 16), setup, file, ke1, cred, None, None, None)
        evs.append(rr.b(1)[:L.Noe])
    rr = ctx.call("srv_reg_start", f.setup, ke1[:L.Noe], cred)
    evs.append(rr.b(0)[:L.Noe])
    ctx.expect(len(set(evs)) == 1, "login and registration evaluate the same function, independent of record and static key")
    rr = ctx.call("srv_login_start", ctx.tape(L.Nh + 64 + L.Nsk + 16), f.setup, f.file, ke1, cred + b"!", None, None, None)
    ctx.expect(rr.b(1)[:L.Noe] != evs[0], "another credential identifier evaluates under another key")


def overlong(ctx, n):
    """passwords beyond the OPRF's 2-byte length prefix are refused (model and code agree where); were they accepted,
    two of them sharing their first 65535 bytes (or their digest) must not get the same masking key"""
    ctx.nontrivial = True
    L = ctx.L
    base = bytes((i * 13 + 5) % 251 for i in range(65535))
    pws = [base + b"A" * (n - 65535), base + b"B" * (n - 65535), base]
    f0 = honest_flow(ctx, pws[2], b"alice", registration_only=True, count=True)
    ctx.expect(f0.ok, "a 65535-byte password registers")
    mks = []
    for p in pws[:2]:
        g = honest_flow(ctx, p, b"alice", setup=f0.setup, registration_only=True, count=True, stop_on_error=False)
        ctx.expect(not g.ok, "a %d-byte password is refused" % len(p))
        if g.upload is not None:
            mks.append(g.upload[L.Npk:L.Npk + L.Nh])
    if f0.ok and mks:
        allm = mks + [f0.upload[L.Npk:L.Npk + L.Nh]]
        ctx.expect(len(set(allm)) == len(allm), "passwords sharing their first 65535 bytes get unrelated masking keys")


def restored(ctx, pw, cred):
    """the evaluation is a function of the seed: a setup saved and restored (native bytes, serde) evaluates exactly
    like the live one it was saved from"""
    ctx.nontrivial = True
    L = ctx.L
    t = flow_tape(ctx)
    base = ctx.call("flow", 0, "none", t, pw, cred, None, None, None, "~", model_args=[t, pw, cred, None, None, None, "~"])
    if not ctx.expect(base.ok, "in-memory run succeeds"):
        return
    o = [unhx(x) for x in base.outs[:-1]]
    ctx.counting = True
    r = ctx.call("srv_reg_start", o[0], o[1], cred)
    ctx.expect(r.ok and r.b(0) == o[2], "the restored setup answers the registration request exactly as the live setup did")
    for fmt in ("bincode", "json"):
        s2 = persist(ctx, "ServerSetup", o[0], fmt)
        r = ctx.call("srv_reg_start", s2, o[1], cred)
        ctx.expect(r.ok and r.b(0) == o[2], "the setup restored through serde-%s answers as the live setup did" % fmt)
    d = ctx.call("dec", "ServerSetup", o[0])
    ctx.expect(d.ok and d.b(0) == o[0], "saving a restored setup gives the same bytes")
    # two setups that differ in the seed only are different setups (for whoever compares, caches or reloads-if-changed)
    for pos in (0, L.Nh // 2, L.Nh - 1):
        other = o[0][:pos] + bytes([o[0][pos] ^ 0x01]) + o[0][pos + 1:]
        q = ctx.call("dec_eq", "ServerSetup", o[0], other, impl_only=True)
        if q is not None and q.ok:
            ctx.expect(q.outs[0] == "0", "setups differing in seed byte %d compare unequal" % pos)
        r2 = ctx.call("srv_reg_start", other, o[1], cred)
        ctx.expect(r2.ok and r2.b(0)[:L.Noe] != o[2][:L.Noe], "and evaluate differently")


def cases(tier, seed):
    out = []
    shapes = [(b"password", b"alice"), (b"", b""), (b"A long pass-phrase, longer than any hash block: " + b"correct horse battery staple " * 6, b"record/" * 40 + b"a"), (b"\x00", b"alice\x00")]
    for si, s in enumerate(suites_for(tier, seed)):
        for k, (pw, cred) in enumerate(shapes if tier == "thorough" else shapes[:3]):
            out.append(dict(cross=["srv_reg_start", "login_finish", "srv_login_finish"], cross_limit=80, script=oblivious, suite=s, seed=seed * 10000 + si * 10 + k, mode="pattern", params=dict(pw=pw, cred=cred)))
        out.append(dict(script=overlong, suite=s, seed=seed * 10000 + si * 10 + 8, mode="pattern+err", params=dict(n=65536 + (si % 3) * 1000)))
        out.append(dict(script=restored, suite=s, seed=seed * 10000 + si * 10 + 9, mode="pattern", params=dict(pw=b"pw", cred=b"record/" * (si + 1))))
    return out
