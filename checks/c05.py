"""C05 - identities, context and credential identifier are bound, unambiguously."""
from checks.common import *

LEVEL = "proof"
USES_LABELS = True
RULE = ("triples (registration, server login start, client login finish) over {absent,'',1,255,256,65535,65536 bytes, explicit "
        "public key} for context / client identity / server identity; boundary-shifted splits of one concatenation across the "
        "three fields; pairs of credential identifiers (equal, prefix, empty, long, a long one against its digests and block-size truncations). Oracle: accepted iff effectively equal; "
        "over-long inputs refused. distinct = distinct (suite, parameters)")
ASSUMPTIONS = ["binding theorem holds up to explicit collision events (Bad); injectivity lemmas are unconditional"]

VALS = [None, b"", b"a", b"b" * 255, b"b" * 256, b"c" * 65535, b"d" * 65536, "@pk"]


def eff(v, pk, is_ctx=False):
    if is_ctx:
        return b"" if (v is None or v == "@pk") else v
    if v == "@pk":
        return pk
    if v is None:
        return b"" if is_ctx else pk
    return v


def triple(ctx, reg, srv, cli, cred_reg, cred_login):
    """reg = (idu, ids); srv = (ctx, idu, ids); cli = (ctx, idu, ids); '@pk' = explicit spelling of the default"""
    ctx.nontrivial = True
    L = ctx.L
    m = lambda v, which: ("@cpk" if which == "u" else "@spk") if v == "@pk" else v
    # "@cpk" cannot be spelled before the client key exists: at registration '@pk' for the client means absent
    reg_idu = None if reg[0] == "@pk" else reg[0]
    f = honest_flow(ctx, b"pw", cred_reg, None, reg_idu, m(reg[1], "s"), "~", stop_on_error=False, count=True,
                    login_cred=cred_login, srv_context=None if srv[0] == "@pk" else srv[0],
                    cli_context=None if cli[0] == "@pk" else cli[0],
                    srv_idu=m(srv[1], "u"), srv_ids=m(srv[2], "s"), cli_idu=m(cli[1], "u"), cli_ids=m(cli[2], "s"))
    too_long = lambda v: isinstance(v, bytes) and len(v) > 65535
    if too_long(reg[0]) or too_long(reg[1]):
        ctx.expect(f.failed_at == "reg_finish", "identity longer than 65535 bytes is refused at registration (%s/%s)" % (f.failed_at, f.error))
        return
    if f.upload is None:
        ctx.expect(False, "registration succeeds (%s: %s)" % (f.failed_at, f.error))
        return
    cpk, spk = f.upload[:L.Npk], f.spk_reg
    if any(too_long(v) for v in srv):
        ctx.expect(f.failed_at == "srv_login_start", "over-long identity/context refused by the server (%s/%s)" % (f.failed_at, f.error))
        return
    if any(too_long(v) for v in cli):
        ctx.expect(f.failed_at == "login_finish", "over-long identity/context refused by the client (%s/%s)" % (f.failed_at, f.error))
        return
    e_reg = (eff(reg_idu, cpk), eff(reg[1], spk))
    e_srv = (eff(srv[0], None, True), eff(srv[1], cpk), eff(srv[2], spk))
    e_cli = (eff(cli[0], None, True), eff(cli[1], cpk), eff(cli[2], spk))
    match = e_srv == e_cli and e_cli[1:] == e_reg and cred_reg == cred_login
    if match:
        ctx.expect(f.ok and f.session_client == f.session_server, "effectively equal parameters: login succeeds (%s: %s)" % (f.failed_at, f.error))
    else:
        ctx.expect(not f.ok and f.failed_at == "login_finish", "any disagreement makes the client's final step fail (%s at %s)"
                   % ("Ok" if f.ok else f.error, f.failed_at))


def cases(tier, seed):
    rnd = random.Random(seed)
    out = []
    S = bytes(rnd.getrandbits(8) for _ in range(600))
    for si, s in enumerate(suites_for(tier, seed)):
        trip = []
        # equal triples for every value; one-position mismatches; boundary crossings
        for v in VALS:
            trip.append(((v, v), (v, v, v), (v, v, v)))
        pairs = [(None, b""), (b"", b"a"), (b"b" * 255, b"b" * 256), (b"c" * 65535, b"c" * 65534), (None, "@pk"), (b"a", "@pk"),
                 (b"b" * 256, b"b" * 256 + b"\x00")]
        for (x, y) in pairs:
            for pos in range(3):
                srv = [x, x, x]; cli = [x, x, x]; cli[pos] = y
                trip.append(((x, x), tuple(srv), tuple(cli)))
            trip.append(((y, x), (x, x, x), (x, x, x)))     # registration identity differs
            trip.append(((x, y), (x, x, x), (x, x, x)))
        # boundary-shifted splits of one concatenation
        cuts = [(0, 0), (1, 2), (255, 256), (256, 256), (256, 512), (300, 599), (600, 600)]
        for (a, b) in cuts[: (4 if tier == "quick" else 7)]:
            for (c, d) in cuts[: (4 if tier == "quick" else 7)]:
                reg = (S[a:b], S[b:])
                trip.append((reg, (S[:a], S[a:b], S[b:]), (S[:c], S[c:d], S[d:])))
        # every shape of (client identity, server identity) in {absent, explicit spelling of the default, custom}^2 on the
        # server against every shape on the client (registration as the server): match iff effectively equal
        shapes = [None, "@pk", b"custom-id"]
        shape_trip = []
        for su in shapes:
            for ss in shapes:
                for cu in shapes:
                    for cs in shapes:
                        shape_trip.append(((su, ss), (None, su, ss), (None, cu, cs)))
        # one field over-long at one site only (everything else short and equal): refused at that site, never dropped,
        # wrapped (131072 = 2 * 65536) or replaced by a default
        over = []
        for n_ in ((65536, 131072) if tier == "quick" else (65536, 65537, 70000, 131072, 131073)):
            X = b"x" * n_
            for pos in range(3):
                srv = [b"k", b"u", b"s"]; cli = [b"k", b"u", b"s"]
                srv[pos] = X
                over.append(((b"u", b"s"), tuple(srv), tuple(cli)))
                srv = [b"k", b"u", b"s"]; cli[pos] = X
                over.append(((b"u", b"s"), tuple(srv), tuple(cli)))
            over.append(((X, b"s"), (b"k", b"u", b"s"), (b"k", b"u", b"s")))
            over.append(((b"u", X), (b"k", b"u", b"s"), (b"k", b"u", b"s")))
        # values of exactly the size of an internal field (public key, hash output, private key, nonce): two different
        # values of that size are different identities / contexts, and differ from the absent one
        Ls = Lens(s)
        sized = []
        for n_ in sorted({Ls.Npk, Ls.Nh, Ls.Nsk, NN, Ls.Noe}):
            A, B = b"A" * n_, b"B" * n_
            for pos in range(3):
                srv = [A, A, A]; cli = [A, A, A]; cli[pos] = B
                sized.append(((A, A), tuple(srv), tuple(cli)))
            sized.append(((B, A), (A, A, A), (A, A, A)))
            sized.append(((A, B), (A, A, A), (A, A, A)))
            sized.append(((A, A), (None, A, A), (None, None, A)))
            sized.append(((A, A), (None, A, A), (None, A, None)))
        if tier == "quick":
            own = [t_ for t_ in sized if len(t_[1][1] or b"") == Ls.Npk]
            keep = trip[:8] + rnd.sample(trip[8:], 28) + rnd.sample(shape_trip, 27) + over[si % 2::2] + own + rnd.sample(sized, 6)
        else:
            keep = trip + shape_trip + over + sized
        for i, (reg, srv, cli) in enumerate(keep):
            out.append(dict(cross=["login_finish", "srv_login_finish", "srv_reg_start"], cross_limit=60, script=triple, suite=s, seed=seed * 100000 + si * 1000 + i, mode="pattern",
                            params=dict(reg=reg, srv=srv, cli=cli, cred_reg=b"user", cred_login=b"user")))
        creds = [(b"", b""), (b"", b"a"), (b"a", b""), (b"alice", b"alic"), (b"alic", b"alice"), (b"x" * 300, b"x" * 299 + b"y"),
                 (b"x" * 70000, b"x" * 70000), (b"a\x00", b"a")]
        # identifiers a digesting / truncating derivation would confuse (no prefix relation): a long one and its digests
        import hashlib
        longc = b"credential-identifier/" * 10
        for hn in ("sha256", "sha384", "sha512"):
            d = hashlib.new(hn, longc).digest()
            creds += [(longc, d), (d, longc)]
        creds += [(longc, longc[:64]), (longc, longc[:128]), (longc[:128], longc)]
        for i, (c1, c2) in enumerate(creds):
            out.append(dict(cross=["login_finish", "srv_login_finish", "srv_reg_start"], cross_limit=60, script=triple, suite=s, seed=seed * 100000 + si * 1000 + 500 + i, mode="pattern",
                            params=dict(reg=(None, None), srv=(None, None, None), cli=(None, None, None), cred_reg=c1, cred_login=c2)))
    return out
