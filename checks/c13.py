"""C13 - persisted state survives save / restart unchanged."""
from checks.common import *

LEVEL = "proof"
RULE = ("in-memory registration + login (`flow`) and login without a record (`flow_nofile`) with every subset of the five "
        "persistence points reloaded through {native bytes, serde-bincode, serde-JSON} (quick: a seeded sample of subsets, always "
        "including none and all), compared with the uninterrupted run on the same tape and with the model (which treats a reload as "
        "the identity); plus the step-by-step run through native bytes at every hop; also on constant-byte tapes (keys, seeds and nonces at "
        "the edges of their ranges, e.g. Curve25519 keys whose clamped top byte is exactly 0x40 or 0x7f). distinct = distinct (suite, mask, format, inputs)")
EXHAUSTIVE = {"quick": False, "thorough": True}
ASSUMPTIONS = ["serde encodings are not modelled; the crate performs the real bincode/JSON round trip and the model predicts 'no change'"]


def reloads(ctx, masks, pw, cred, context, idu, ids, ksf, fill=None):
    ctx.nontrivial = True
    if fill is None:
        t = flow_tape(ctx)
    else:
        # constant-byte tapes: private keys, seeds and nonces at the edges of their ranges (for Curve25519 the clamped
        # key's top byte is exactly 0x40 for the fills 00/40/80 and 0x7f for 7f/ff; every fill below is a valid scalar in every group)
        real = ctx.tape
        ctx.tape = lambda n: bytes([fill]) * n
        try:
            t = flow_tape(ctx)
        finally:
            ctx.tape = real
    margs = [t, pw, cred, context, idu, ids, ksf]
    base = ctx.call("flow", 0, "none", t, pw, cred, context, idu, ids, ksf, model_args=margs)
    ctx.expect(base.ok, "uninterrupted run succeeds")
    for fmt in ("native", "bincode", "json"):
        for m in masks:
            r = ctx.call("flow", m, fmt, t, pw, cred, context, idu, ids, ksf, model_args=margs)
            ctx.expect(r.status == base.status and r.payload == base.payload,
                       "reloading persistence points %s through %s changes nothing observable" % (bin(m), fmt))
    nb = ctx.call("flow_nofile", 0, "none", t, pw, cred, context, idu, ids, ksf, model_args=margs)
    for fmt in ("native", "bincode", "json"):
        for m in (1, 8, 16, 25):
            r = ctx.call("flow_nofile", m, fmt, t, pw, cred, context, idu, ids, ksf, model_args=margs)
            ctx.expect(r.status == nb.status and r.payload == nb.payload, "no-record login: reload %s/%s changes nothing" % (bin(m), fmt))
    # the same run step by step, every object passing through its native encoding
    L = ctx.L
    if base.ok:
        o = [unhx(x) for x in base.outs[:-1]]
        pos = 0
        def take(n):
            nonlocal pos
            pos += n
            return t[pos - n:]
        r = ctx.call("setup_new", t)
        ctx.expect(r.ok and r.b(0) == o[0], "stepwise setup equals in-memory setup"); used = r.n(1)
        t1 = t[used:]
        r = ctx.call("reg_start", t1, pw); st = r.b(0); ctx.expect(r.b(1) == o[1], "stepwise registration request equal"); t2 = t1[r.n(2):]
        r = ctx.call("srv_reg_start", o[0], o[1], cred); ctx.expect(r.b(0) == o[2], "stepwise registration response equal")
        r = ctx.call("reg_finish", st, t2, pw, o[2], idu, ids, ksf)
        ctx.expect(r.ok and r.b(0) == o[3] and r.b(1) == o[4], "stepwise upload and export key equal"); t3 = t2[r.n(3):]
        r = ctx.call("login_start", t3, pw); cl = r.b(0); ctx.expect(r.b(1) == o[7], "stepwise KE1 equal"); t4 = t3[r.n(2):]
        r = ctx.call("srv_login_start", t4, o[0], o[6], o[7], cred, context, idu, ids); sl = r.b(0); ctx.expect(r.b(1) == o[8], "stepwise KE2 equal")
        r = ctx.call("login_finish", cl, pw, o[8], context, idu, ids, ksf)
        ctx.expect(r.ok and r.b(0) == o[9] and r.b(1) == o[10] and r.b(2) == o[12], "stepwise KE3, session key, export key equal")
        r = ctx.call("srv_login_finish", sl, o[9]); ctx.expect(r.ok and r.b(0) == o[11], "stepwise server session key equal")


def external_key(ctx):
    """a setup whose static key lives behind an external key holder (its serialized form is an opaque handle, not a
    scalar): saved and restored, it is the same setup and answers the same"""
    ctx.nontrivial = True
    L = ctx.L
    f = honest_flow(ctx, b"pw", b"alice", None, None, None)
    ctx.counting = True
    sk = f.setup[L.Nh:L.Nh + L.Nsk]
    NO = "~"
    for key in (sk, bytes([0x40] * (L.Nsk - 1) + [0x00]) if L.ke == "R255" else (bytes([0x00] + [0x40] * (L.Nsk - 1)) if L.ke == "P521" else b"\x40" * L.Nsk)):
        t = ctx.tape(L.Nh + L.Nsk + 8)
        r = ctx.call("ext_setup", t, key, 0, model_args=[t, key, NO, NO], impl_extra=1)
        if not ctx.expect(r.ok, "setup around an external key"):
            continue
        d = ctx.call("ext_dec_setup", r.b(0), 0, model_args=[r.b(0), NO, NO], impl_extra=1)
        ctx.expect(d.ok and d.b(0) == r.b(0), "the setup with an external key restores to itself (%s)" % d.err)
        g = honest_flow(ctx, b"pw", b"bob", None, None, None, setup=r.b(0), stop_on_error=False)
        ctx.expect(g.ok, "and serves registration and login after the restore")


def cases(tier, seed):
    rnd = random.Random(seed)
    out = []
    shapes = [(b"pw", b"alice", None, None, None, "~"), (b"", b"", b"ctx", b"client", b"server", "R"), (b"p" * 300, b"c" * 300, b"", None, b"s" * 256, "D")]
    for si, s in enumerate(suites_for(tier, seed)):
        for k, (pw, cred, c, a, b, ksf) in enumerate(shapes if tier == "thorough" else shapes[:2]):
            masks = list(range(1, 32)) if tier == "thorough" else sorted(set([31, 1, 2, 4, 8, 16] + rnd.sample(range(1, 32), 4)))
            out.append(dict(script=reloads, suite=s, seed=seed * 10000 + si * 10 + k, mode="raw",
                            params=dict(masks=masks, pw=pw, cred=cred, context=c, idu=a, ids=b, ksf=ksf)))
        out.append(dict(script=external_key, suite=s, seed=seed * 10000 + si * 10 + 4, mode="raw", params={}))
        for k, fill in enumerate((0x40, 0x7f, 0x80, 0x01, 0xc7) if tier == "thorough" else (0x40, 0x7f)):
            out.append(dict(script=reloads, suite=s, seed=seed * 10000 + si * 10 + 5 + k, mode="raw",
                            params=dict(masks=[31, 1, 8, 16], pw=b"pw", cred=b"alice", context=None, idu=None, ids=None, ksf="~", fill=fill)))
    return out
