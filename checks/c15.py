"""C15 - the key-stretching function is applied once and bound into every secret."""
from checks.common import *

LEVEL = "proof"
RULE = ("pairs of stretching instances at registration and login from {absent, explicit default, reverse, xor-constant, Argon2 "
        "default-size-reduced, another cost, and instances that differ in algorithm (i/d/id), version (0x10/0x13) or secret key only} x fail-always; oracle: equal instances log in, different ones fail with "
        "InvalidLogin, absent == explicit default, exactly one call per finish step whose argument is the OPRF output (the model's "
        "prediction of the call log is compared byte for byte), a failing function surfaces as KsfError. Argon2 is an oracle: the "
        "crate's logged (input, output) pairs are replayed by the model as a finite table. Three extra suites whose DEFAULT "
        "function is a zero-sized non-identity type: absent == explicit default == the model's explicit instance, byte for byte. distinct = distinct (suite, op, args)")
ASSUMPTIONS = ["Argon2 itself is not modelled (table replay); 'bound' holds up to explicit collision events (Bad)"]

INST = ["~", "D", "R", "X5a", "A8,1,1", "A16,2,1"]
# Argon2 instances that differ from A8,1,1 in something other than the cost numbers: algorithm, version, secret key
ARGON_VARIANTS = ["A8,1,1,i", "A8,1,1,d", "A8,1,1,id,16", "A8,1,1,id,19,736563726574206b6579", "A8,1,1,id,19,6f74686572"]


def table_for(ctx, tag, ksf, flog):
    """Argon2 replay: on the impl side remember the logged pairs; on the model side substitute a table"""
    return ksf


def pair(ctx, k1, k2):
    ctx.nontrivial = True
    L = ctx.L
    sh = ctx.shared

    def ksf_tok(k, slot):
        if not k.startswith("A"):
            return k
        if ctx.side == "impl":
            return k
        return "T" + sh.get(slot, "")
    f = honest_flow(ctx, b"pw", b"alice", None, None, None, ksf_tok(k1, "reg"), stop_on_error=False, count=True, registration_only=True)
    if not ctx.expect(f.ok, "registration under %s succeeds (%s)" % (k1, f.error)):
        return
    if ctx.side == "impl" and k1.startswith("A"):
        sh["reg"] = f.ksflog_reg
    log = f.ksflog_reg.split(",")
    ctx.expect(len(log) == 1 and ":" in log[0], "exactly one stretching call at registration finish")
    r = ctx.call("login_start", ctx.btape(L.Nsk + 64), b"pw")
    cl, ke1 = r.b(0), r.b(1)
    r = ctx.call("srv_login_start", ctx.tape(64 + L.Nsk + 16), f.setup, f.file, ke1, b"alice", None, None, None)
    sl, ke2 = r.b(0), r.b(1)
    same = (k1 == k2) or ({k1, k2} == {"~", "D"})
    # a differing Argon2 instance at login is an opaque function the model has no table for: the crate alone is asked
    r = ctx.call("login_finish", cl, b"pw", ke2, None, None, None, ksf_tok(k2, "reg"), impl_only=(k2.startswith("A") and not same))
    if r is None:
        return
    if same:
        ctx.expect(r.ok, "equal stretching parameters (%s / %s) log in (%s)" % (k1, k2, r.err))
        if r.ok:
            lg = r.outs[4].split(",")
            ctx.expect(len(lg) == 1, "exactly one stretching call at login finish")
            ctx.expect(lg[0].split(":")[0] == log[0].split(":")[0], "stretching is applied to the OPRF output (same input at registration and login)")
    else:
        ctx.expect(not r.ok and r.err == "InvalidLogin", "different stretching parameters (%s / %s) fail with InvalidLogin (%s)" % (k1, k2, r.err))


def failing(ctx):
    ctx.nontrivial = True
    L = ctx.L
    f = honest_flow(ctx, b"pw", b"alice", count=True)
    r = ctx.call("reg_finish", f.client_reg, ctx.tape(48), b"pw", f.reg_response, None, None, "F")
    ctx.expect(not r.ok and r.err == "Lib:KsfError", "a failing stretching function is returned as KsfError at registration (%s)" % r.err)
    r = ctx.call("login_finish", f.client_login, b"pw", f.ke2, None, None, None, "F")
    ctx.expect(not r.ok and r.err == "Lib:KsfError", "a failing stretching function is returned as KsfError at login (%s)" % r.err)
    t = flow_tape(ctx)
    r = ctx.call("flow", 0, "none", t, b"pw", b"u", None, None, None, "F", model_args=[t, b"pw", b"u", None, None, None, "F"])
    ctx.expect(not r.ok and r.err.startswith("Lib:KsfError"), "in-memory flow stops with KsfError")


def zero_sized_default(ctx, k1, k2):
    """suites whose default stretching function is a zero-sized type that is NOT the identity (it reverses): absent and
    explicit default are the same function, it is called exactly once per finish step, on the OPRF output, and its
    result - not the raw OPRF output - goes into the randomized password (the model is asked with the explicit
    instance `R` on the base suite: bytes and call log must agree)"""
    ctx.nontrivial = True
    L = ctx.L
    f = honest_flow(ctx, b"pw", b"alice", None, None, None, k1, stop_on_error=False, count=True, login_ksf=k2)
    ctx.expect(f.ok, "registration under %s and login under %s succeed (%s at %s)" % (k1, k2, f.error, f.failed_at))
    for nm, lg in (("registration", f.ksflog_reg), ("login", getattr(f, "ksflog_login", None))):
        if lg is None:
            continue
        items = lg.split(",")
        ctx.expect(len(items) == 1 and ":" in items[0], "exactly one stretching call at %s finish (%s)" % (nm, lg[:40]))
        if len(items) == 1 and ":" in items[0]:
            i, o = items[0].split(":")
            ctx.expect(len(i) == 2 * L.Nh and o == bytes.fromhex(i)[::-1].hex(), "the suite's default function was applied to the OPRF output at %s" % nm)
    # in memory as well
    t = flow_tape(ctx)
    r = ctx.call("flow", 0, "none", t, b"pw", b"u", None, None, None, k1, model_args=[t, b"pw", b"u", None, None, None, k1])
    ctx.expect(r.ok, "in-memory flow under the default instance")


def cases(tier, seed):
    out = []
    for zi, zs in enumerate(Z_SUITES):
        for j, (a, b) in enumerate((("~", "~"), ("~", "D"), ("D", "~"), ("D", "D"))):
            out.append(dict(script=zero_sized_default, suite=zs, seed=seed * 100000 + 90000 + zi * 10 + j, mode="raw", params=dict(k1=a, k2=b)))
    for si, s in enumerate(suites_for(tier, seed)):
        k = 0
        for a in INST:
            for b in INST:
                if tier == "quick" and a.startswith("A") and b.startswith("A") and a != b:
                    continue
                # differing Argon2 instances: the model cannot know the second table -> compare verdicts only
                out.append(dict(script=pair, suite=s, seed=seed * 100000 + si * 100 + k, mode="pattern+err", params=dict(k1=a, k2=b)))
                k += 1
        vs_ = ARGON_VARIANTS if tier == "thorough" else [ARGON_VARIANTS[(si + seed + j) % len(ARGON_VARIANTS)] for j in (0, 2)]
        for v in vs_:
            for (a, b) in (("A8,1,1", v), (v, "A8,1,1"), (v, v)):
                out.append(dict(script=pair, suite=s, seed=seed * 100000 + si * 100 + k, mode="pattern+err", params=dict(k1=a, k2=b)))
                k += 1
        if tier == "thorough":
            for (a, b) in ((ARGON_VARIANTS[0], ARGON_VARIANTS[1]), (ARGON_VARIANTS[3], ARGON_VARIANTS[4]), (ARGON_VARIANTS[2], ARGON_VARIANTS[0])):
                out.append(dict(script=pair, suite=s, seed=seed * 100000 + si * 100 + k, mode="pattern+err", params=dict(k1=a, k2=b)))
                k += 1
        out.append(dict(script=failing, suite=s, seed=seed * 100000 + si * 100 + 99, mode="pattern+err", params={}))
    return out
