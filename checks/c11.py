"""C11 - invalid group elements and scalars are never accepted (native decoders and serde alike)."""
from checks.common import *
import json as _json

LEVEL = "proof"
RULE = ("every group-element and scalar field of every message and state x every invalid encoding class of that field's group "
        "(identity, off-curve x, x >= p, wrong/compact/uncompressed tags, non-canonical or negative ristretto encodings and the "
        "RFC 9496 bad-encoding list, zero / >= order / unclamped scalars, the small-order Curve25519 u-coordinates in canonical, "
        "non-reduced and high-bit form), all other fields valid; through the native decoder, serde-bincode and serde-JSON. "
        "distinct = distinct (suite, type, format, bytes)")
ASSUMPTIONS = ["serde framing is the implementation's own (not modelled): the invalid field bytes are spliced into the crate's own "
               "bincode / JSON encoding of a valid object; the model supplies the native verdict only"]


def splice_serde(fmt, enc, valid_field, bad_field):
    """replace the field's bytes inside the crate's own serde encoding of a valid object"""
    if fmt == "bincode":
        i = enc.find(valid_field)
        if i < 0 or enc.find(valid_field, i + 1) >= 0:
            return None
        return enc[:i] + bad_field + enc[i + len(valid_field):]
    txt = enc.decode()
    a = ",".join(str(x) for x in valid_field)
    b = ",".join(str(x) for x in bad_field)
    if txt.count(a) != 1:
        return None
    return txt.replace(a, b).encode()


def invalid(ctx, thorough):
    ctx.nontrivial = True
    L, rnd = ctx.L, ctx.rnd
    f = honest_flow(ctx)
    enc_ = encodings(f)
    fl = fields(L)
    ctx.counting = True
    nserde = 0
    for ty in DEC_TYPES:
        v = enc_[ty]
        ser = {}
        for fmt in ("bincode", "json"):
            r = ctx.call("serde_enc", ty, fmt, v, impl_only=True)
            if r is not None and r.ok:
                ser[fmt] = r.b(0)
                rr = ctx.call("serde_dec", ty, fmt, ser[fmt], impl_only=True)
                ctx.expect(rr.ok and rr.b(0) == v, "%s: valid object round-trips through serde-%s" % (ty, fmt))
        for kind, off, ln in fl[ty]:
            grp = group_of(L, kind)
            bad = invalid_elements(grp, rnd) if kind in ("oe", "kp") else invalid_scalars(grp, rnd)
            for label, b in bad:
                if len(b) != ln or label == "tag-05":
                    # 0x05 || x (SEC1 compact) is an alternative encoding of a *valid* element: C10's business, not C11's
                    continue
                what = "%s: %s field at offset %d = %s" % (ty, kind, off, label)
                r = ctx.call("dec", ty, v[:off] + b + v[off + ln:])
                ctx.expect(not r.ok, what + " is rejected by the native decoder")
                for fmt, e in ser.items():
                    m = splice_serde(fmt, e, v[off:off + ln], b)
                    if m is None:
                        continue
                    nserde += 1
                    r = ctx.call("serde_dec", ty, fmt, m, impl_only=True)
                    if r is not None:
                        ctx.expect(not r.ok, what + " is rejected through serde-" + fmt)
    # fields that exist in the serde form only: the public halves of the two key pairs of a server setup
    v = enc_["ServerSetup"]
    sers = {}
    for fmt in ("bincode", "json"):
        r = ctx.call("serde_enc", "ServerSetup", fmt, v, impl_only=True)
        if r is not None and r.ok:
            sers[fmt] = r.b(0)
    npk = 0
    for which, sk in (("static", v[L.Nh:L.Nh + L.Nsk]), ("fake", v[L.Nh + L.Nsk:])):
        pkr = ctx.call("ke_pub", sk)
        if not pkr.ok:
            continue
        for label, b in invalid_elements(L.ke, rnd):
            if len(b) != L.Npk or label == "tag-05":
                continue
            for fmt, e in sers.items():
                m = splice_serde(fmt, e, pkr.b(0), b)
                if m is None:
                    continue
                npk += 1
                r = ctx.call("serde_dec", "ServerSetup", fmt, m, impl_only=True)
                if r is not None:
                    ctx.expect(not r.ok, "ServerSetup: stored %s public key = %s is rejected through serde-%s" % (which, label, fmt))
    if ctx.side == "impl":
        ctx.expect(nserde > 20, "serde splicing located the fields (%d cases)" % nserde)
        ctx.expect(npk > 4, "serde splicing located the stored public keys of the setup (%d cases)" % npk)
    # key-level decoders
    for label, b in invalid_elements(L.ke, rnd):
        if label == "tag-05":
            continue
        r = ctx.call("ke_pk", b)
        ctx.expect(not r.ok, "public key decoder rejects " + label)
    for label, b in invalid_scalars(L.ke, rnd):
        r = ctx.call("ke_sk", b)
        ctx.expect(not r.ok, "private key decoder rejects " + label)
    # a rejected key can never reach a Diffie-Hellman: ke_dh refuses it as an argument
    for label, b in [x for x in invalid_elements(L.ke, rnd) if x[0] != "tag-05"][:6]:
        r = ctx.call("ke_dh", b, f.setup[L.Nh:L.Nh + L.Nsk])
        ctx.expect(not r.ok, "Diffie-Hellman is never computed on " + label)


def cases(tier, seed):
    return [dict(script=invalid, suite=s, seed=seed * 1000 + i, mode="raw", params=dict(thorough=tier == "thorough"))
            for i, s in enumerate(suites_for(tier, seed))]
