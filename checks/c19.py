"""C19 - key-exchange group operations obey their laws (partial: concrete group laws are validated, not proved)."""
from checks.common import *

LEVEL = "proof"
RULE = ("per KE group (paired with every OPRF suite for seeded derivation): private keys {tape-sampled, 1, order-1, small, clamped "
        "extremes}, seeds {random, all-zero, all-ones}: Diffie-Hellman symmetric, public key consistent with derivation, encodings "
        "round-trip exactly, derived key valid, non-zero and byte-equal to the model's DeriveDiffieHellmanKeyPair (RFC 7748 clamping "
        "for Curve25519); Curve25519 shared secrets with arbitrary peer shares (twist points, torsion components, non-reduced and "
        "high-bit encodings) equal RFC 7748 X25519 (RFC vectors + the model's ladder). distinct = distinct (suite, op, args)")
ASSUMPTIONS = ["that the concrete curve formulas form a group is not proved in Coq; DH symmetry is validated against the crate"]


def special_sks(L):
    if L.ke in WCURVES:
        p, n, nfe, b = WCURVES[L.ke]
        return [(1).to_bytes(nfe, "big"), (2).to_bytes(nfe, "big"), (n - 1).to_bytes(nfe, "big"), (n - 2).to_bytes(nfe, "big")]
    if L.ke == "R255":
        return [(1).to_bytes(32, "little"), (2).to_bytes(32, "little"), (ELL - 1).to_bytes(32, "little")]
    lo = (2 ** 254).to_bytes(32, "little")
    hi = (2 ** 255 - 8).to_bytes(32, "little")
    return [lo, hi, (2 ** 254 + 8).to_bytes(32, "little")]


def laws(ctx, n):
    ctx.nontrivial = True
    L, rnd = ctx.L, ctx.rnd
    sks = list(special_sks(L))
    for _ in range(n):
        r = ctx.call("ke_random_sk", ctx.sk_tape())
        if ctx.expect(r.ok, "random_sk succeeds"):
            sks.append(r.b(0))
    # sampled keys are valid keys whatever the tape starts with: chunks that are not a key (zero, the order, beyond)
    # are skipped, never returned
    if L.ke in WCURVES:
        n_ = WCURVES[L.ke][1]
        bad_chunks = [bytes(L.Nsk), n_.to_bytes(L.Nsk, "big"), b"\xff" * L.Nsk]
    elif L.ke == "R255":
        bad_chunks = [bytes(64), ELL.to_bytes(32, "little") + bytes(32)]
    else:
        bad_chunks = []
    for ch in bad_chunks:
        r = ctx.call("ke_random_sk", ch + ctx.sk_tape())
        if ctx.expect(r.ok, "random_sk on a tape that starts with a chunk that is not a key"):
            v = ctx.call("ke_sk", r.b(0))
            ctx.expect(v.ok and v.b(0) == r.b(0) and any(r.b(0)), "the sampled key is a valid, non-zero key whose encoding round-trips")
            pk = ctx.call("ke_pub", r.b(0))
            ctx.expect(pk.status in ("OK", "ERR") and pk.ok, "and has a public key")
    seeds = [bytes(L.Nsk), b"\xff" * L.Nsk] + [ctx.tape(L.Nsk) for _ in range(n)]
    for sd in seeds:
        r = ctx.call("ke_derive", sd)
        if ctx.expect(r.ok, "derive_auth_keypair succeeds on seed %s.." % sd[:4].hex()):
            sk, pk = r.b(0), r.b(1)
            ctx.expect(sk != bytes(L.Nsk), "derived key is non-zero")
            r2 = ctx.call("ke_sk", sk)
            ctx.expect(r2.ok and r2.b(0) == sk, "derived private key is valid and round-trips")
            r3 = ctx.call("ke_pub", sk)
            ctx.expect(r3.ok and r3.b(0) == pk, "public key is derived consistently")
            if L.ke == "X25519":
                c = bytearray(sd); c[0] &= 248; c[31] &= 127; c[31] |= 64
                ctx.expect(sk == bytes(c), "Curve25519 derivation is RFC 7748 clamping of the seed")
            sks.append(sk)
    x25519_arbitrary_shares(ctx, 2 * n)
    # decoding is the inverse of encoding and of nothing else: other spellings of valid points (compact / hybrid /
    # uncompressed SEC1 tags, non-reduced coordinates, trailing bytes) and invalid encodings are refused - or, where the
    # group defines several byte strings for one key (Curve25519 ignores nothing here), re-encode to themselves
    for label, b in invalid_elements(L.ke, rnd) + alternative_point_encodings(L.ke, rnd, 2):
        r = ctx.call("ke_pk", b)
        ctx.expect(r.status in ("OK", "ERR") and (not r.ok or r.b(0) == b), "an accepted public-key encoding re-encodes to itself (%s)" % label)
    for label, b in invalid_scalars(L.ke, rnd):
        r = ctx.call("ke_sk", b)
        ctx.expect(r.status in ("OK", "ERR") and (not r.ok or r.b(0) == b), "an accepted private-key encoding re-encodes to itself (%s)" % label)
    pks = []
    for sk in sks:
        r = ctx.call("ke_sk", sk)
        ctx.expect(r.ok and r.b(0) == sk, "private key encoding round-trips exactly")
        r = ctx.call("ke_pub", sk)
        if ctx.expect(r.ok, "public key from private key"):
            pk = r.b(0)
            r2 = ctx.call("ke_pk", pk)
            ctx.expect(r2.ok and r2.b(0) == pk, "public key encoding round-trips exactly")
            pks.append((sk, pk))
    for i in range(len(pks)):
        j = (i * 7 + 3) % len(pks)
        a, b = pks[i], pks[j]
        r1 = ctx.call("ke_dh", b[1], a[0])
        r2 = ctx.call("ke_dh", a[1], b[0])
        ctx.expect(r1.ok and r2.ok and r1.b(0) == r2.b(0), "Diffie-Hellman is symmetric")
        if r1.ok:
            ctx.expect(r1.b(0) != bytes(L.Npk), "shared secret is not all-zero")


def serde_keys(ctx):
    """key encodings also round-trip exactly through the serde encodings of the objects that carry them"""
    ctx.nontrivial = True
    f = honest_flow(ctx)
    ctx.counting = True
    enc_ = encodings(f)
    for ty in ("RegistrationResponse", "RegistrationUpload", "ServerRegistration", "CredentialRequest", "CredentialResponse",
               "ServerSetup", "ClientLogin"):
        for fmt in ("bincode", "json"):
            r = ctx.call("serde_enc", ty, fmt, enc_[ty], impl_only=True)
            if r is None:
                continue
            if ctx.expect(r.ok, "%s (with its keys) encodes through serde-%s" % (ty, fmt)):
                rr = ctx.call("serde_dec", ty, fmt, r.b(0), impl_only=True)
                ctx.expect(rr.ok and rr.b(0) == enc_[ty], "keys inside %s round-trip exactly through serde-%s (%s)" % (ty, fmt, rr.err))


def cases(tier, seed):
    out = []
    ss = ALL_SUITES if tier == "thorough" else suites_for(tier, seed) + ["P256/X25519", "P384/R255", "P521/P256"]
    for si, s in enumerate(dict.fromkeys(ss)):
        out.append(dict(script=laws, suite=s, seed=seed * 1000 + si, mode="raw", params=dict(n=(4 if tier == "quick" else 24))))
        out.append(dict(script=serde_keys, suite=s, seed=seed * 1000 + 500 + si, mode="raw", params={}))
    return out
