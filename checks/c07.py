"""C07 - sessions are fresh and isolated under adversarial message routing."""
from checks.common import *
import itertools

LEVEL = "proof"
RULE = ("one server; 5 records (two users, a third sharing the first one's password, a re-registration, none); 4 client "
        "sessions (one with a wrong password); server sessions = (request, record, credential id) triples; every response routed "
        "to every pending client session; every finalization to every pending server session (thorough: all routings; quick: a "
        "seeded sample of server sessions). Oracle: acceptance exactly on matched conversations, key agreement, pairwise distinct "
        "session keys; the matched session's request and response with one bit flipped in transit (first / last byte of every field + 3 seeded offsets, bits 0 and 7) never complete on the client; pending client and server sessions wait in a store (native bytes, serde-bincode, serde-json) between "
        "steps. distinct = distinct (suite, op, args)")
EXHAUSTIVE = {"quick": False, "thorough": True}
ASSUMPTIONS = ["matched-conversation theorem holds up to explicit collision / freshness events (Bad)"]


def routing(ctx, sample, shape=0):
    ctx.nontrivial = True
    L, rnd = ctx.L, ctx.rnd
    r = ctx.call("setup_new", ctx.tape(2 * L.Nsk + L.Nh + 16))
    setup = r.b(0)
    # long credential identifiers with a long common prefix (truncation or prefix-only hashing would merge them)
    C1, C2, C3 = (b"credential-identifier/" * 5 + b"-%d" % k for k in (1, 2, 3))
    users = {"u1": (b"pw-one", C1), "u2": (b"pw-two", C2), "u3": (b"pw-one", C3)}
    # identity shape used consistently by every party of this run: {absent, explicit}^2
    EXPL, IDS = [(False, None), (True, None), (False, b"server-id"), (True, b"server-id")][shape % 4]
    # pending sessions wait in a session store between steps: native bytes, serde-bincode or serde-json
    STORE = ["native", "bincode", "json"][(shape // 4 + shape) % 3]
    # an explicit client identity is per user: the server looks it up by credential identifier, the client uses its own
    # (long, with a long common prefix and equal lengths: a transcript that depended on a prefix, a digest or only the
    # length of an identity would merge different users)
    idu_of = lambda user: (b"client-identity-with-a-long-common-prefix/" * 4 + b"of-" + user.encode()) if EXPL else None
    user_of_cred = {C1: "u1", C2: "u2", C3: "u3"}
    user_of_client = {"c1": "u1", "c2": "u2", "c3-wrong": "u1", "c4": "u3"}
    records = {}   # name -> (file, pw, cred)
    for name, (pw, cred) in list(users.items()) + [("u1-again", users["u1"])]:
        f = honest_flow(ctx, pw, cred, None, idu_of(user_of_cred[cred]), IDS, setup=setup, registration_only=True)
        records[name] = (f.file, pw, cred)
    records["none"] = (None, None, None)
    clients = {}   # name -> (state, request, pw)
    for name, pw in (("c1", b"pw-one"), ("c2", b"pw-two"), ("c3-wrong", b"pw-zzz"), ("c4", b"pw-one")):
        r = ctx.call("login_start", ctx.btape(L.Nsk + 64), pw)
        clients[name] = (persist(ctx, "ClientLogin", r.b(0), STORE), r.b(1), pw)
    ctx.counting = True
    creds = [C1, C2, C3]
    sessions = list(itertools.product(sorted(clients), sorted(records), creds))
    if sample:
        must = [("c1", "u1", C1), ("c2", "u2", C2), ("c4", "u3", C3), ("c1", "u1-again", C1),
                ("c1", "u3", C3), ("c3-wrong", "u1", C1), ("c1", "none", C1), ("c1", "u1", C3)]
        rest = [s for s in sessions if s not in must]
        sessions = must + rnd.sample(rest, sample)
    srv = {}
    # the clients of this run insist on a context (in half of the runs); a server session started without it, or with
    # another one, is not a matched conversation even for the right user, record and request
    CTX = b"application context v2" if (shape // 2) % 2 else None
    srv_ctx = {}
    for n_, sid in enumerate(sessions):
        srv_ctx[sid] = CTX
    if CTX is not None:
        # sessions that are right in everything - user, record, identifier, this client's own request - except the context
        for tag, cx in (("#no-context", None), ("#empty-context", b""), ("#other-context", b"application context v1")):
            records["u1" + tag] = records["u1"]
            sessions.append(("c1", "u1" + tag, C1))
            srv_ctx[("c1", "u1" + tag, C1)] = cx
    for (c, rec, cred) in sessions:
        r = ctx.call("srv_login_start", ctx.tape(L.Nh + 64 + L.Nsk + 16), setup, records[rec][0], clients[c][1], cred,
                     srv_ctx[(c, rec, cred)], idu_of(user_of_cred[cred]), IDS)
        if ctx.expect(r.ok, "server session starts"):
            srv[(c, rec, cred)] = (persist(ctx, "ServerLogin", r.b(0), STORE), r.b(1))
    if CTX is not None:
        big = ctx.call("srv_login_start", ctx.tape(L.Nh + 64 + L.Nsk + 16), setup, records["u1"][0], clients["c1"][1], C1,
                       b"x" * 65536, idu_of("u1"), IDS)
        ctx.expect(not big.ok, "a session cannot be started under a context that cannot be framed (65536 bytes)")
    # altered in transit: a request or a response changed by the network in ONE bit was produced by no session, so the login
    # must not complete on the client - also when the bit sits where an encoding could be tempted to ignore it (first / last
    # byte of every field: sign and tag bytes, the unused top bit of an X25519 coordinate, the last byte of a nonce)
    def alterations(msg, offsets):
        offs = sorted(set(o for o in offsets if 0 <= o < len(msg)) | set(rnd.sample(range(len(msg)), 3)))
        return [(o, m) for o in offs for m in (0x01, 0x80)]
    flip = lambda msg, o, m: msg[:o] + bytes([msg[o] ^ m]) + msg[o + 1:]
    st1, req1, pw1 = clients["c1"]
    idu1 = idu_of("u1")
    for (o, m) in alterations(req1, [0, L.Noe - 1, L.Noe, L.Noe + 31, L.Noe + 32, len(req1) - 1]):
        r = ctx.call("srv_login_start", ctx.tape(L.Nh + 64 + L.Nsk + 16), setup, records["u1"][0], flip(req1, o, m), C1, CTX, idu1, IDS)
        if r.ok:
            r2 = ctx.call("login_finish", st1, pw1, r.b(1), CTX, idu1, IDS, "~")
            ctx.expect(not r2.ok, "client c1 completed on the response to a request that no client session produced "
                       "(its own request with bit %#x of byte %d of %d flipped in transit)" % (m, o, len(req1)))
    if ("c1", "u1", C1) in srv:
        resp1 = srv[("c1", "u1", C1)][1]
        n = len(resp1)
        for (o, m) in alterations(resp1, [0, L.Noe - 1, L.Noe, L.Noe + 31, n - L.Nh - L.Npk - 32, n - L.Nh - L.Npk - 1,
                                          n - L.Nh - L.Npk, n - L.Nh - 1, n - L.Nh, n - 1]):
            r2 = ctx.call("login_finish", st1, pw1, flip(resp1, o, m), CTX, idu1, IDS, "~")
            ctx.expect(not r2.ok, "client c1 completed on a response that no server session produced (the response of its own "
                       "session with bit %#x of byte %d of %d flipped in transit)" % (m, o, n))
    # every response to every pending client
    fins = {}      # (client, server session) -> (ke3, key)
    keys = []
    for c in sorted(clients):
        st, _, pw = clients[c]
        for sid in sorted(srv, key=repr):
            r = ctx.call("login_finish", st, pw, srv[sid][1], CTX, idu_of(user_of_client[c]), IDS, "~")
            (c2, rec, cred) = sid
            matched = ((c2 == c) and records[rec][0] is not None and records[rec][1] == pw and records[rec][2] == cred
                       and (not EXPL or user_of_cred[cred] == user_of_client[c]) and srv_ctx[sid] == CTX)
            ctx.expect(r.ok == matched, "client %s on the response of session %s: accepted=%s, matched conversation=%s (%s)"
                       % (c, (c2, rec, cred), r.ok, matched, r.err))
            if r.ok:
                fins[(c, sid)] = (r.b(0), r.b(1))
    # every finalization to every pending server session
    for sid in sorted(srv, key=repr):
        for (c, sid2), (ke3, key) in sorted(fins.items(), key=repr):
            r = ctx.call("srv_login_finish", srv[sid][0], ke3)
            matched = sid2 == sid
            ctx.expect(r.ok == matched, "server session %s on the finalization of (%s, %s): accepted=%s, matched=%s"
                       % (sid, c, sid2, r.ok, matched))
            if r.ok:
                ctx.expect(r.b(0) == key, "keys agree within a completed session")
                keys.append(r.b(0))
    ctx.expect(len(set(keys)) == len(keys), "distinct completed sessions have distinct session keys")
    ctx.expect(len(keys) >= 4, "several sessions completed (non-vacuous)")
    # replay of an old finalization / response into a *new* session of the same user
    g = honest_flow(ctx, b"pw-one", C1, None, idu_of("u1"), IDS, setup=setup, registration_only=True)  # unrelated new record
    for (c, sid), (ke3, key) in list(sorted(fins.items(), key=repr))[:3]:
        r = ctx.call("login_start", ctx.btape(L.Nsk + 64), clients[c][2])
        st2, req2 = r.b(0), r.b(1)
        r = ctx.call("login_finish", st2, clients[c][2], srv[sid][1], CTX, idu_of(user_of_client[c]), IDS, "~")
        ctx.expect(not r.ok, "a response replayed into a later client session is rejected")
        r = ctx.call("srv_login_start", ctx.tape(L.Nh + 64 + L.Nsk + 16), setup, records[sid[1]][0], req2, sid[2], CTX, idu_of(user_of_cred[sid[2]]), IDS)
        r2 = ctx.call("srv_login_finish", r.b(0), ke3)
        ctx.expect(not r2.ok, "a finalization replayed into a later server session is rejected")


def cases(tier, seed):
    return [dict(cross=["login_finish", "srv_login_finish", "srv_reg_start"], cross_limit=60, script=routing, suite=s, seed=seed * 1000 + i, mode="pattern", params=dict(sample=(0 if tier == "thorough" else 10), shape=i + seed + k + 1))
            for i, s in enumerate(suites_for(tier, seed)) for k in (range(4) if tier == "thorough" else range(1))]
