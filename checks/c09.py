"""C09 - byte-exact conformance to RFC 9807 / RFC 9497.
(a) the extracted model must equal the crate byte for byte on honest and fake flows (raw mode, every message, state, key
    and tape position); (b) both must reproduce the RFC test vectors embedded in /repo/src/tests/opaque_vectors.rs when the
    vector's random choices are put on the tape (independent anchor of the model's transcription of the RFCs)."""
from checks.common import *
import re

LEVEL = "proof"
USES_LABELS = True
DISAGREEMENT_IS_COUNTEREXAMPLE = True
RULE = ("raw byte comparison model vs crate over stepwise honest flows, in-memory flows and logins without a record, on all "
        "parameter shapes (empty .. 65535 bytes); plus the RFC 9807 vectors found in the repository replayed through both sides "
        "with the vectors' blinds/seeds/nonces on the RNG tape. distinct = distinct (suite, op, args)")
ASSUMPTIONS = ["RFC texts are not available offline: Spec.v is my transcription, anchored by the embedded RFC vectors"]

VEC_FILE = "/repo/src/tests/opaque_vectors.rs"


def parse_vectors():
    try:
        txt = open(VEC_FILE).read()
    except OSError:
        return []
    vs = []
    for block in re.split(r"\n### ", txt)[1:]:
        title = block.split("\n", 1)[0]
        d = {"title": title}
        for body in re.findall(r"~~~\n(.*?)~~~", block, re.S):
            cur = None
            for line in body.split("\n"):
                m = re.match(r"^([A-Za-z_0-9]+): ?(.*)$", line)
                if m:
                    cur = m.group(1); d[cur] = m.group(2).strip()
                elif cur and line.strip():
                    d[cur] += line.strip()
        vs.append(d)
    return vs


def suite_of(d):
    o = {"ristretto255-SHA512": "R255", "P256-SHA256": "P256", "P384-SHA384": "P384", "P521-SHA512": "P521"}.get(d.get("OPRF"))
    g = d.get("Group", "")
    k = "R255" if g.startswith("ristretto") else "X25519" if g.startswith("curve25519") else "P256" if g.startswith("P256") else None
    return (o + "/" + k) if o and k else None


def vector(ctx, d):
    """replay one RFC vector with its random choices on the tape"""
    ctx.nontrivial = True
    L = ctx.L
    hxv = lambda k: bytes.fromhex(d[k]) if k in d and d[k] else None
    blind_tape = lambda b: (b + bytes(32)) if L.oprf == "R255" else b
    fakev = "Fake" in d["title"]
    idu, ids, context = hxv("client_identity"), hxv("server_identity"), hxv("Context")
    cred, seed, ssk = hxv("credential_identifier"), hxv("oprf_seed"), hxv("server_private_key")
    setup = seed + ssk + ssk      # the fake key is not exercised by the real vectors
    if not fakev:
        pw = hxv("password")
        r = ctx.call("reg_start", blind_tape(hxv("blind_registration")), pw)
        ctx.expect(r.ok and r.b(1) == hxv("registration_request"), "registration_request equals the RFC vector")
        st = r.b(0)
        r = ctx.call("srv_reg_start", setup, hxv("registration_request"), cred)
        ctx.expect(r.ok and r.b(0) == hxv("registration_response"), "registration_response equals the RFC vector")
        r = ctx.call("reg_finish", st, hxv("envelope_nonce"), pw, hxv("registration_response"), idu, ids, "~")
        ctx.expect(r.ok and r.b(0) == hxv("registration_upload"), "registration_upload equals the RFC vector")
        ctx.expect(r.ok and r.b(1) == hxv("export_key"), "export_key equals the RFC vector")
        r = ctx.call("login_start", blind_tape(hxv("blind_login")) + hxv("client_keyshare_seed") + hxv("client_nonce"), pw)
        ctx.expect(r.ok and r.b(1) == hxv("KE1"), "KE1 equals the RFC vector")
        cl = r.b(0)
        r = ctx.call("srv_login_start", hxv("masking_nonce") + hxv("server_keyshare_seed") + hxv("server_nonce"), setup,
                     hxv("registration_upload"), hxv("KE1"), cred, context, idu, ids)
        ctx.expect(r.ok and r.b(1) == hxv("KE2"), "KE2 equals the RFC vector")
        sl = r.b(0) if r.ok else None
        r = ctx.call("login_finish", cl, pw, hxv("KE2"), context, idu, ids, "~")
        ctx.expect(r.ok and r.b(0) == hxv("KE3"), "KE3 equals the RFC vector")
        ctx.expect(r.ok and r.b(1) == hxv("session_key"), "session_key equals the RFC vector")
        ctx.expect(r.ok and r.b(2) == hxv("export_key"), "export_key at login equals the RFC vector")
        if sl:
            ctx.expect(sl[-L.Nh:] == hxv("session_key"), "server state holds the vector's session key")
            r = ctx.call("srv_login_finish", sl, hxv("KE3"))
            ctx.expect(r.ok and r.b(0) == hxv("session_key"), "server finishes with the vector's session key")
    else:
        # fake vectors: record = (client_public_key, masking_key, zero envelope); our API draws the masking key from the tape
        # and derives the fake public key from the setup's fake secret, which the vectors give as a key pair
        csk = hxv("client_private_key")
        setup = seed + ssk + csk
        r = ctx.call("srv_login_start", hxv("masking_key") + hxv("masking_nonce") + hxv("server_keyshare_seed") + hxv("server_nonce"),
                     setup, None, hxv("KE1"), cred, context, idu, ids)
        ctx.expect(r.ok and r.b(1) == hxv("KE2"), "fake KE2 equals the RFC vector")


def raw_flow(ctx, pw, cred, context, idu, ids, ksf, rejections, nofile):
    ctx.nontrivial = True
    if nofile:
        f = honest_flow(ctx, pw, cred, context, idu, ids, ksf, stop_on_error=False, count=True, file=None)
        ctx.expect(f.failed_at == "login_finish", "no-record login fails at the client")
    else:
        f = honest_flow(ctx, pw, cred, context, idu, ids, ksf, stop_on_error=False, count=True, rejections=rejections)
        ctx.expect(f.ok, "honest flow succeeds")
    t = flow_tape(ctx, rejections)
    r = ctx.call("flow", 0, "none", t, pw, cred, context, idu, ids, ksf, model_args=[t, pw, cred, context, idu, ids, ksf])
    ctx.expect(r.ok, "in-memory flow succeeds")


def constant_tape_flow(ctx, fill):
    """the whole flow on a constant-byte tape: client and server draw the SAME nonce and seed bytes - the RFC defines the
    outputs for any randomness, coinciding values included (bytes compared with the model)"""
    ctx.nontrivial = True
    real = ctx.tape
    ctx.tape = lambda n: bytes([fill]) * n
    try:
        f = honest_flow(ctx, b"password", b"alice", b"ctx", b"client", b"server", "~", stop_on_error=False, count=True)
    finally:
        ctx.tape = real
    ctx.expect(f.ok and f.session_client == f.session_server, "login on a tape of 0x%02x bytes completes with equal keys (%s at %s)"
               % (fill, f.error, f.failed_at))


def primitives(ctx, n):
    """the primitive layer of the model against the crates it mirrors (sha2, hmac, hkdf, elliptic-curve hash2curve,
    curve25519-dalek, voprf): byte-exact on length sweeps across every padding / block boundary"""
    ctx.nontrivial = True
    L, rnd = ctx.L, ctx.rnd
    blk = 64 if L.oprf == "P256" else 128
    lens = sorted(set(list(range(0, 20)) + [blk - 18, blk - 17, blk - 10, blk - 9, blk - 8, blk - 1, blk, blk + 1, 2 * blk - 17, 2 * blk - 9, 2 * blk,
                                             2 * blk + 1, 255, 256, 257, 1000] + [rnd.randrange(0, 700) for _ in range(n)]))
    for l in lens:
        m = ctx.tape(l)
        r = ctx.call("p_hash", m)
        ctx.expect(r.ok and len(r.b(0)) == L.Nh, "hash of %d bytes" % l)
        k = ctx.tape(rnd.choice([0, 1, L.Nh, blk - 1, blk, blk + 1, 2 * blk + 3]))
        r = ctx.call("p_hmac", k, m)
        ctx.expect(r.ok and len(r.b(0)) == L.Nh, "hmac with a %d-byte key over %d bytes" % (len(k), l))
    for out in sorted(set([1, 2, L.Nh - 1, L.Nh, L.Nh + 1, 2 * L.Nh, 3 * L.Nh + 5, 255 * L.Nh, 255 * L.Nh + 1] + [rnd.randrange(1, 600) for _ in range(n // 2)])):
        prk = ctx.tape(rnd.choice([L.Nh, L.Nh + 7, L.Nh - 1]))
        r = ctx.call("p_expand", prk, ctx.tape(rnd.randrange(0, 90)), out)
        if len(prk) >= L.Nh and out <= 255 * L.Nh:
            ctx.expect(r.ok and len(r.b(0)) == out, "expand to %d bytes" % out)
        else:
            ctx.expect(not r.ok, "expand refuses a short PRK / more than 255 blocks")
    x25519_arbitrary_shares(ctx, n)
    if L.ke == "X25519":
        # ... and inside the protocol: the server answers a KE1 whose client share is an arbitrary u-coordinate; the 3DH
        # input, server MAC, pending state and session key are the RFC's (byte comparison with the model)
        f = honest_flow(ctx, b"pw", b"alice", b"ctx", None, None)
        for u in [ctx.tape(32) for _ in range(4)] + [v.to_bytes(32, "little") for v in (2, 5, 10)]:
            if not ctx.call("ke_pk", u).ok:
                continue
            ke1 = f.ke1[:L.Noe + NN] + u
            r = ctx.call("srv_login_start", ctx.tape(64 + L.Nsk + 16), f.setup, f.file, ke1, b"alice", b"ctx", None, None)
            ctx.expect(r.ok, "server answers a request whose key share is an arbitrary u-coordinate")
    elems, scalars = [], []
    for _ in range(n // 2 + 4):
        msg, dst = ctx.tape(rnd.randrange(0, 300)), ctx.tape(rnd.randrange(1, 200))
        r = ctx.call("p_h2g", msg, dst)
        if ctx.expect(r.ok and len(r.b(0)) == L.Noe, "hash_to_group"):
            elems.append(r.b(0))
        r = ctx.call("p_h2s", msg, dst)
        if ctx.expect(r.ok and len(r.b(0)) == L.Nok, "hash_to_scalar"):
            if any(r.b(0)):
                scalars.append(r.b(0))
    for e in elems[:6]:
        for s_ in scalars[:4]:
            r = ctx.call("p_smul", e, s_)
            ctx.expect(r.ok, "scalar multiplication")
            inv = ctx.call("p_sinv", s_)
            if r.ok and inv.ok:
                back = ctx.call("p_smul", r.b(0), inv.b(0))
                ctx.expect(back.ok and back.b(0) == e, "multiplying by a scalar and by its inverse gives the element back")


def cases(tier, seed):
    rnd = random.Random(seed)
    out = []
    shapes = [(b"", b"", None, None, None), (b"password", b"alice", b"ctx", b"client", b"server"),
              (b"\x00" * 255, b"c" * 256, b"", b"", b""), (b"p" * 65535, b"\xff" * 300, b"x" * 65535, b"y" * 65535, b"z" * 65535),
              (b"pw", b"id", b"a" * 256, None, b"s" * 255), (bytes(range(256)), b"", None, b"u" * 256, None)]
    for si, s in enumerate(suites_for(tier, seed)):
        for k, (pw, cred, c, a, b) in enumerate(shapes):
            out.append(dict(script=raw_flow, suite=s, seed=seed * 100000 + si * 100 + k, mode="raw",
                            params=dict(pw=pw, cred=cred, context=c, idu=a, ids=b, ksf=["~", "D", "R"][k % 3],
                                        rejections=(1 if k == 2 else 0), nofile=(k % 3 == 1))))
    for oi, o in enumerate(OPRFS):
        out.append(dict(script=constant_tape_flow, suite=o + "/" + ["P256", "X25519", "R255", "P521"][oi], seed=seed * 100 + 50 + oi, mode="raw", params=dict(fill=[0x01, 0x40, 0x7f, 0x33][oi])))
        out.append(dict(script=primitives, suite=o + "/" + ["R255", "P256", "X25519", "P384"][oi], seed=seed * 100 + oi, mode="raw",
                        params=dict(n=(24 if tier == "quick" else 200))))
    for i, d in enumerate(parse_vectors()):
        s = suite_of(d)
        if s:
            out.append(dict(script=vector, suite=s, seed=i, mode="raw", params=dict(d=d)))
    return out
