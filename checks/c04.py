"""C04 - the client completes login only on the server's genuine response."""
from checks.common import *

LEVEL = "proof"
RULE = ("per honest login: every offset of the serialized credential response x (thorough: all 255 other values; quick: "
        "1 random value + 1 bit flip), decoded by the crate first; all 62 field swaps with the response of another session "
        "of the same user; responses made for another user, by another server setup, from a fake record, a reflected "
        "request; re-randomised fields. distinct = distinct (suite, client state, response bytes)")
EXHAUSTIVE = {"quick": False, "thorough": True}
ASSUMPTIONS = ["partial: a response whose MAC field is replaced by a value no honest session produced is covered by the "
               "acceptance characterisation and the battery, not by a collision-style theorem (DESIGN.md C04)"]


def field_bounds(L):
    b = [0, L.Noe, L.Noe + NN, L.Noe + NN + L.masked, L.Noe + NN + L.masked + NN,
         L.Noe + NN + L.masked + NN + L.Npk, L.cred_response]
    return list(zip(b[:-1], b[1:]))


def sweep(ctx, chunk, nchunks, thorough, model_every):
    ctx.nontrivial = True
    L, rnd = ctx.L, ctx.rnd
    f = honest_flow(ctx, b"pw", b"alice", b"context", None, None)
    cl, ke2 = f.client_login, f.ke2
    ctx.counting = True
    n = len(ke2)
    k = 0
    for off in range(chunk, n, nchunks):
        vals = [x for x in range(256) if x != ke2[off]]
        if not thorough:
            vals = [rnd.choice(vals), ke2[off] ^ (1 << rnd.randrange(8))]
        for x in vals:
            k += 1
            m = ke2[:off] + bytes([x]) + ke2[off + 1:]
            r = ctx.call("login_finish", cl, b"pw", m, b"context", None, None, "~", impl_only=(k % model_every != 0))
            if r is not None:
                ctx.expect(not r.ok, "response with byte %d := %02x is rejected" % (off, x))


def splices(ctx, idu=None, ids=None):
    ctx.nontrivial = True
    L, rnd = ctx.L, ctx.rnd
    f = honest_flow(ctx, b"pw", b"alice", b"context", idu, ids)
    cl, ke2, ke1 = f.client_login, f.ke2, f.ke1

    def srv(setup, file, ke1_, cred=b"alice", context=b"context"):
        r = ctx.call("srv_login_start", ctx.tape(L.Nh + 64 + L.Nsk + 16), setup, file, ke1_, cred, context, idu, ids)
        return r.b(1) if r.ok else None
    # another response for the same request (fresh server randomness), and one for another session's request
    ke2_same_req = srv(f.setup, f.file, ke1)
    g = honest_flow(ctx, b"pw", b"alice", b"context", idu, ids, setup=f.setup)   # re-registration + its own login
    ke2_other_session = g.ke2
    u2 = honest_flow(ctx, b"pw2", b"bob", b"context", idu, ids, setup=f.setup)
    ke2_other_user = srv(f.setup, u2.file, ke1, b"bob")
    s2 = honest_flow(ctx, b"pw", b"alice", b"context", idu, ids)
    ke2_other_server = srv(s2.setup, s2.file, ke1)
    ke2_fake = srv(f.setup, None, ke1)
    ctx.counting = True

    def reject(m, what, klass=None):
        r = ctx.call("login_finish", cl, b"pw", m, b"context", idu, ids, "~")
        ctx.expect(not r.ok, "response %s is rejected" % what)
        if klass and not r.ok:
            ctx.expect(r.err == klass, "response %s is rejected with %s (got %s)" % (what, klass, r.err))
    r = ctx.call("login_finish", cl, b"pw", ke2, b"context", idu, ids, "~")
    ctx.expect(r.ok, "the genuine response is accepted")
    # a second, genuine response to the *same* request is also a genuine response for this client
    r = ctx.call("login_finish", cl, b"pw", ke2_same_req, b"context", idu, ids, "~")
    ctx.expect(r.ok, "a fresh genuine response to the same request is accepted")
    fb = field_bounds(L)
    for name, other in (("same-request", ke2_same_req), ("other-session", ke2_other_session), ("other-user", ke2_other_user),
                        ("other-server", ke2_other_server), ("fake-record", ke2_fake)):
        if other is None:
            ctx.expect(False, "could build response " + name)
            continue
        # (a whole response of another server that also holds a record for this password is a genuine login to
        #  that server: the client pins no server identity here; only its splices must be rejected)
        if name not in ("same-request", "other-server"):
            reject(other, "made for " + name)
        for mask in range(1, 63):
            m = b"".join((other if mask >> i & 1 else ke2)[a:b] for i, (a, b) in enumerate(fb))
            if m == ke2 or m == ke2_same_req:
                continue
            reject(m, "spliced with %s (field mask %d)" % (name, mask))
    # structured multi-byte alterations of the two MAC-protected tags: the server MAC field, and the envelope tag inside the
    # masked response (masking is an xor pad, so an xor on the masked bytes is the same xor on the tag)
    tag_lo = L.Noe + NN + L.Npk + NN
    for (lo, hi, nm) in ((fb[5][0], fb[5][1], "server MAC"), (tag_lo, tag_lo + L.Nh, "masked envelope tag"), (fb[2][0], fb[2][0] + L.Npk, "masked server key")):
        for label, m in structured_alterations(rnd, ke2, lo, hi, n_pairs=12, n_random=40):
            reject(m, "with %s altered: %s" % (nm, label))
    # encodings of group elements are where malleability hides (ignored high bits, sign bits, tags, non-reduced values):
    # every bit of the first and last byte of each element field, plainly and under the mask
    for (lo, hi, nm) in ((fb[0][0], fb[0][1], "evaluation element"), (fb[4][0], fb[4][1], "server ephemeral key"),
                         (fb[2][0], fb[2][0] + L.Npk, "masked server static key")):
        for pos in (lo, hi - 1):
            for bit in range(8):
                reject(ke2[:pos] + bytes([ke2[pos] ^ (1 << bit)]) + ke2[pos + 1:], "with bit %d of byte %d (%s) flipped" % (bit, pos, nm))
    # re-randomised fields
    for i, (a, b) in enumerate(fb):
        if i in (0, 4):
            continue  # group elements: random bytes rarely decode; covered by the sweep
        reject(ke2[:a] + ctx.tape(b - a) + ke2[b:], "with re-randomised field %d" % i)
    # Curve25519: the server's ephemeral key shifted by each of the 7 small-order points - a DIFFERENT key with the same
    # Diffie-Hellman outputs; only the transcript (which hashes the key as received) tells them apart
    if L.ke == "X25519":
        a_, b_ = fb[4]
        shifts = x25519_torsion_shifts(ke2[a_:b_])
        if shifts is not None:
            for t_, u_ in enumerate(shifts):
                if ctx.call("ke_pk", u_).ok:
                    reject(ke2[:a_] + u_ + ke2[b_:], "with the server's ephemeral key shifted by small-order point %d" % (t_ + 1))
        # and the client's own view: a request whose key share is shifted is another request
        a1 = L.Noe + NN
        sh1 = x25519_torsion_shifts(ke1[a1:])
        if sh1:
            m_ = srv(f.setup, f.file, ke1[:a1] + sh1[0])
            if m_ is not None:
                reject(m_, "made for the request with a shifted client key share")
    # reflected request: evaluation element := the client's own blinded element
    reject(ke1[:L.Noe] + ke2[L.Noe:], "reflecting the blinded element", "Reflected")
    # wrong context / identities on the client side also reject the genuine response
    r = ctx.call("login_finish", cl, b"pw", ke2, b"other", idu, ids, "~")
    ctx.expect(not r.ok, "genuine response under another context is rejected")


def cases(tier, seed):
    out = []
    for i, s in enumerate(suites_for(tier, seed)):
        nch = 4 if tier == "quick" else 16
        for c in range(nch):
            out.append(dict(cross=["login_finish", "srv_login_finish", "srv_reg_start"], cross_limit=60, script=sweep, suite=s, seed=seed * 100000 + i * 100 + c, mode="pattern",
                            params=dict(chunk=c, nchunks=nch, thorough=tier == "thorough",
                                        model_every=(2 if tier == "quick" else 37))))
        out.append(dict(cross=["login_finish", "srv_login_finish", "srv_reg_start"], cross_limit=60, script=splices, suite=s, seed=seed * 100000 + i * 100 + 99, mode="pattern",
                        params=dict(zip(("idu", "ids"), [(None, None), (b"cid", None), (None, b"sid"), (b"cid", b"sid")][(i + seed) % 4]))))
    return out
