"""C17 - deterministic in the supplied randomness, and every random value is fresh (production build)."""
from checks.common import *

LEVEL = "proof"
RULE = ("every randomised operation twice on the same tape (identical outputs), on tapes that differ in exactly one byte at every "
        "region boundary and at sampled positions (outputs change iff the position is below the number of bytes the operation draws "
        "and not masked by clamping - decided byte for byte by the model's prediction), on independent tapes (no random value "
        "repeats) and within a run (no two random values coincide); tape bytes consumed equal the model's; key generation on tapes "
        "that start with one or two chunks the sampler must reject (zero, the group order, beyond it) followed by boundary keys "
        "(1, order-1): the key comes from the following bytes; every tape operation also with a generator whose fallible entry "
        "point fails (`op!`): same answer or an error. distinct = distinct "
        "(suite, op, args)")
ASSUMPTIONS = ["raw comparison: the model predicts every output byte and every tape position"]


def rand_fields(L, f):
    """the values that are meant to be random, cut out of the messages / states of one flow"""
    ke2 = f.ke2
    o = L.Noe
    return {"reg blind": f.client_reg[:L.Nok], "login blind": f.client_login[:L.Nok],
            "envelope nonce": f.upload[L.Npk + L.Nh:L.Npk + L.Nh + NN], "masking nonce": ke2[o:o + NN],
            "client nonce": f.ke1[o:o + NN], "server nonce": ke2[o + NN + L.masked:o + NN + L.masked + NN],
            "client ephemeral key": f.ke1[o + NN:], "server ephemeral key": ke2[o + NN + L.masked + NN:o + NN + L.masked + NN + L.Npk],
            "oprf seed": f.setup[:L.Nh], "server static key": f.setup[L.Nh:L.Nh + L.Nsk], "fake key": f.setup[L.Nh + L.Nsk:]}


def determinism(ctx, npos):
    ctx.nontrivial = True
    L, rnd = ctx.L, ctx.rnd
    base = honest_flow(ctx)
    ctx.counting = True
    ops = [("setup_new", lambda t: [t], ctx.tape(2 * L.Nsk + L.Nh + 24)),
           ("reg_start", lambda t: [t, b"pw"], ctx.btape(40, 1)),
           ("reg_finish", lambda t: [base.client_reg, t, b"correct horse", base.reg_response, None, None, "~"], ctx.tape(56)),
           ("login_start", lambda t: [t, b"pw"], ctx.btape(L.Nsk + 56, 1)),
           ("srv_login_start", lambda t: [t, base.setup, base.file, base.ke1, b"alice", None, None, None], ctx.tape(64 + L.Nsk + 24)),
           ("srv_login_start", lambda t: [t, base.setup, None, base.ke1, b"alice", None, None, None], ctx.tape(L.Nh + 64 + L.Nsk + 24)),
           ("ke_random_sk", lambda t: [t], ctx.sk_tape(24))]
    for op, mk, tape in ops:
        r1 = ctx.call(op, *mk(tape))
        r2 = ctx.call(op, *mk(tape))
        if not ctx.expect(r1.ok and r2.ok, "%s succeeds on the tape" % op):
            continue
        ctx.expect(r1.payload == r2.payload, "%s: identical tapes give identical outputs" % op)
        fallible_rng_same(ctx, r1, op, *mk(tape))
        used = int([x for x in r1.outs if x.isdigit()][-1])
        pos = sorted(set([0, used - 1, used, used + 1, len(tape) - 1] + [rnd.randrange(len(tape)) for _ in range(npos)]))
        for p in pos:
            if p < 0 or p >= len(tape):
                continue
            t2 = tape[:p] + bytes([tape[p] ^ (1 << rnd.randrange(8))]) + tape[p + 1:]
            r3 = ctx.call(op, *mk(t2))
            if p >= used:
                ctx.expect(r3.payload == r1.payload, "%s: a tape byte beyond the %d bytes drawn (position %d) changes nothing" % (op, used, p))
            # below `used`: whether the flipped bit matters (rejected chunks, clamped bits) is the model's prediction (raw compare)
        # suffix independence: only the first `used` bytes matter
        r4 = ctx.call(op, *mk(tape[:used] + ctx.tape(17)))
        ctx.expect(r4.ok and r4.payload[:-1] == r1.payload[:-1] if op != "reg_finish" else r4.ok, "%s depends only on the bytes it draws" % op)


def freshness(ctx):
    ctx.nontrivial = True
    L = ctx.L
    a = honest_flow(ctx, count=True)
    b = honest_flow(ctx, count=True)
    fa, fb = rand_fields(L, a), rand_fields(L, b)
    for k in fa:
        ctx.expect(fa[k] != fb[k], "%s differs between runs on independent tapes" % k)
    vals = list(fa.values())
    for i in range(len(vals)):
        for j in range(i + 1, len(vals)):
            if len(vals[i]) == len(vals[j]):
                ctx.expect(vals[i] != vals[j], "no two random values coincide within a run (%s / %s)" % (list(fa)[i], list(fa)[j]))
    # fake-record masking key varies with the tape (it shows in the masked response)
    r1 = ctx.call("srv_login_start", ctx.tape(L.Nh + 64 + L.Nsk + 16), a.setup, None, a.ke1, b"alice", None, None, None)
    t = ctx.tape(L.Nh + 64 + L.Nsk + 16)
    r2 = ctx.call("srv_login_start", t, a.setup, None, a.ke1, b"alice", None, None, None)
    t3 = bytes([t[0] ^ 1]) + t[1:]
    r3 = ctx.call("srv_login_start", t3, a.setup, None, a.ke1, b"alice", None, None, None)
    o = L.Noe + NN
    ctx.expect(r2.b(1)[o:o + L.masked] != r3.b(1)[o:o + L.masked] and r2.b(1)[:o] == r3.b(1)[:o],
               "fake masking key is drawn from the tape (first tape byte changes only the masked response and what follows from it)")
    # a constant or password-derived blind would make two requests for one password equal
    q1 = ctx.call("reg_start", ctx.btape(), b"same-password")
    q2 = ctx.call("reg_start", ctx.btape(), b"same-password")
    ctx.expect(q1.b(1) != q2.b(1) and q1.b(0)[:L.Nok] != q2.b(0)[:L.Nok], "blinds and requests for one password differ across tapes")


ORDERS = {"P256": 0xffffffff00000000ffffffffffffffffbce6faada7179e84f3b9cac2fc632551,
          "P384": 0xffffffffffffffffffffffffffffffffffffffffffffffffc7634d81f4372ddf581a0db248b0a77aecec196accc52973,
          "P521": int("1ff" + "f" * 56 + "fffffffa" + "51868783bf2f966b7fcc0148f709a5d03bb5c9b8899c47aebb6fb71e91386409", 16),
          "R255": 2 ** 252 + 27742317777372353535851937790883648493}


def rejection(ctx):
    """key generation is rejection sampling: a chunk that is not a valid private key (zero, the group order, beyond it)
    is skipped and the key comes from the NEXT bytes of the tape - never from a constant or fallback value"""
    ctx.nontrivial = True
    L = ctx.L
    if L.ke == "X25519":
        r = ctx.call("ke_random_sk", bytes(32) + ctx.tape(8))      # clamping: every chunk is accepted, even all-zero
        ctx.expect(r.ok and r.n(1) == 32, "Curve25519 key generation clamps, no rejection")
        return
    n = ORDERS[L.ke]
    if L.ke == "R255":
        rej = [bytes(64), n.to_bytes(32, "little") + bytes(32), (2 * n).to_bytes(64, "little"), (n << 250).to_bytes(64, "little")]
        acc = [((n - 1).to_bytes(64, "little"), (n - 1).to_bytes(32, "little")), ((n + 1).to_bytes(64, "little"), (1).to_bytes(32, "little")),
               (ctx.tape(64), None)]
    else:
        rej = [bytes(L.Nsk), b"\xff" * L.Nsk, n.to_bytes(L.Nsk, "big"), (n + 1).to_bytes(L.Nsk, "big")]
        acc = [((n - 1).to_bytes(L.Nsk, "big"), (n - 1).to_bytes(L.Nsk, "big")), ((1).to_bytes(L.Nsk, "big"), (1).to_bytes(L.Nsk, "big")),
               ((n >> 9).to_bytes(L.Nsk, "big"), (n >> 9).to_bytes(L.Nsk, "big"))]
    ctx.counting = True
    for a, want in acc:
        spare = ctx.tape(9)
        r0 = ctx.call("ke_random_sk", a + spare)
        if not ctx.expect(r0.ok and r0.n(1) == len(a), "a valid chunk is accepted at once"):
            continue
        if want is not None:
            ctx.expect(r0.b(0) == want, "the key is the chunk's value")
        for k, c in enumerate(rej):
            r = ctx.call("ke_random_sk", c + a + spare)
            ctx.expect(r.ok and r.b(0) == r0.b(0) and r.n(1) == len(c) + len(a),
                       "rejected chunk %d is skipped and the key is drawn from the following bytes" % k)
            r = ctx.call("ke_random_sk", c + rej[(k + 1) % len(rej)] + a + spare)
            ctx.expect(r.ok and r.b(0) == r0.b(0) and r.n(1) == 2 * len(c) + len(a), "two rejected chunks in a row are both skipped")
    # the same inside the server setup: a rejected first chunk shifts everything, the keys stay tape-drawn (model compares bytes)
    t = ctx.tape(2 * L.Nsk + L.Nh + 200)
    r0 = ctx.call("setup_new", t)
    for c in rej[:2]:
        r = ctx.call("setup_new", c + t)
        ctx.expect(r.ok, "server setup on a tape that starts with a rejected chunk")


def cases(tier, seed):
    out = []
    for si, s in enumerate(suites_for(tier, seed)):
        out.append(dict(script=determinism, suite=s, seed=seed * 1000 + si, mode="raw", params=dict(npos=(6 if tier == "quick" else 60))))
        out.append(dict(script=rejection, suite=s, seed=seed * 1000 + 500 + si, mode="raw", params={}))
        for k in range(1 if tier == "quick" else 4):
            out.append(dict(script=freshness, suite=s, seed=seed * 1000 + 100 + si * 10 + k, mode="raw", params={}))
    return out
