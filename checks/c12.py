"""C12 - total, panic-free handling of every input (partial: model totality and refusal are proved; absence of runtime
panics in the compiled Rust is explored by this battery under catch_unwind + watchdog, overflow checks on)."""
from checks.common import *

LEVEL = "proof"
RULE = ("every decoder on random strings, on mutations of valid encodings (bit flips, truncation, extension, field splicing) and on "
        "lengths 0..L+64; every protocol step on well-formed messages from unrelated sessions / servers / suites of equal length; "
        "password, identity, context and credential-identifier lengths in {0,1,255,256,65535,65536,65537,131072}. Oracle: never "
        "PANIC / TIMEOUT / CRASH; over-long inputs end in an error value, never in a completed run. distinct = distinct (suite, op, args)")
ASSUMPTIONS = ["absence of panics is explored, not proved (runtime behaviour of compiled Rust is outside the Gallina model)"]

LENGTHS = [0, 1, 255, 256, 65535, 65536, 65537, 131072]


def fuzz_decoders(ctx, n):
    ctx.nontrivial = True
    L, rnd = ctx.L, ctx.rnd
    f = honest_flow(ctx)
    enc_ = encodings(f)
    ctx.counting = True
    tys = DEC_TYPES
    for ty in tys:
        v = enc_[ty]
        for k in range(n):
            mode = k % 6
            if mode == 0:
                m = ctx.tape(rnd.choice([0, 1, len(v) - 1, len(v), len(v) + 1, rnd.randrange(0, len(v) + 64)]))
            elif mode == 1:
                m = bytearray(v)
                for _ in range(rnd.randrange(1, 4)):
                    m[rnd.randrange(len(m))] ^= 1 << rnd.randrange(8)
                m = bytes(m)
            elif mode == 2:
                m = v[:rnd.randrange(0, len(v))]
            elif mode == 3:
                m = v + ctx.tape(rnd.randrange(1, 64))
            elif mode == 4:   # splice with another type's encoding
                o = enc_[rnd.choice(tys)]
                a = rnd.randrange(0, len(v))
                m = (v[:a] + o)[:len(v)] if rnd.random() < 0.5 else v[:a] + o
            else:
                m = bytes([rnd.choice([0, 0xff, 2, 3, 4, 5])]) * len(v)
            ctx.call("dec", ty, m)
    # every prefix of every valid encoding (a bound computed from the wrong group's length shows only in a narrow window)
    for ty in tys:
        v = enc_[ty]
        for l in range(len(v)):
            r = ctx.call("dec", ty, v[:l], impl_only=True)
            if r is not None:
                ctx.expect(r.status == "ERR", "%s: a %d-byte prefix of a valid encoding is refused with an error (%s)" % (ty, l, r.status))
    # the bare key decoders take a slice of ANY length: alternative encodings of valid points, wrong lengths
    for label, m in alternative_point_encodings(L.ke, rnd):
        r = ctx.call("ke_pk", m)
        ctx.expect(not r.ok and r.status == "ERR", "public-key decoder refuses %s (%d bytes) with an error (%s)" % (label, len(m), r.status))
    for m in (b"", bytes(L.Nsk - 1), bytes(L.Nsk + 1), ctx.tape(2 * L.Nsk), ctx.tape(L.Nsk)[:L.Nsk // 2], b"\xff" * (L.Nsk + 7)):
        r = ctx.call("ke_sk", m)
        ctx.expect(r.status in ("OK", "ERR"), "private-key decoder answers a %d-byte string without crashing (%s)" % (len(m), r.status))


def cross_feed(ctx, other_suite):
    """protocol steps fed structurally valid messages from unrelated sessions / servers"""
    ctx.nontrivial = True
    L = ctx.L
    a = honest_flow(ctx, b"pw-a", b"alice")
    b = honest_flow(ctx, b"pw-b", b"bob")
    ctx.counting = True
    r = ctx.call("reg_finish", a.client_reg, ctx.tape(48), b"pw-a", b.reg_response, None, None, "~")
    ctx.expect(r.status in ("OK", "ERR"), "registration finish on another server's response returns a value")
    r = ctx.call("login_finish", a.client_login, b"pw-a", b.ke2, None, None, None, "~")
    ctx.expect(not r.ok, "login finish on an unrelated response fails")
    r = ctx.call("srv_login_finish", a.server_login, b.ke3)
    ctx.expect(not r.ok, "server finish on an unrelated finalization fails")
    r = ctx.call("srv_login_start", ctx.tape(400), a.setup, b.file, a.ke1, b"alice", None, None, None)
    ctx.expect(r.status in ("OK", "ERR"), "server start with another server's file returns a value")
    r = ctx.call("srv_reg_start", b.setup, a.reg_request, b"")
    ctx.expect(r.ok, "registration start with empty identifier works")
    # state / message confusion between types of equal or different length
    for op, args in (("srv_login_finish", [a.ke3, a.server_login]), ("login_finish", [a.ke2, b"pw-a", a.client_login, None, None, None, "~"]),
                     ("reg_finish", [a.reg_request, ctx.tape(48), b"pw", a.reg_response, None, None, "~"]),
                     ("srv_reg_finish", [a.ke2]), ("srv_reg_start", [a.setup, a.ke1, b"x"]),
                     ("srv_login_start", [ctx.tape(400), a.setup, a.upload, a.reg_request, b"x", None, None, None])):
        ctx.call(op, *args)
    # empty tape / short tape
    for op, args in (("setup_new", [b""]), ("setup_new", [ctx.tape(L.Nsk)]), ("reg_start", [b"", b"pw"]), ("login_start", [ctx.blind_draw(), b"pw"]),
                     ("reg_finish", [a.client_reg, ctx.tape(5), b"pw-a", a.reg_response, None, None, "~"]),
                     ("srv_login_start", [ctx.tape(40), a.setup, None, a.ke1, b"alice", None, None, None])):
        r = ctx.call(op, *args)
        ctx.expect(r.err == "Tape", "exhausted RNG tape is reported by the harness as such (%s)" % r.err)


def lengths(ctx, which, n):
    """over-long inputs are refused (error value), never truncated or wrapped"""
    ctx.nontrivial = True
    L = ctx.L
    big = bytes((i * 7 + 3) & 0xff for i in range(n))
    kw = dict(pw=b"pw", cred=b"u", context=None, idu=None, ids=None)
    kw[which] = big
    ctx.counting = True
    f = honest_flow(ctx, kw["pw"], kw["cred"], kw["context"], kw["idu"], kw["ids"], "~", stop_on_error=False, count=True)
    limit_applies = which != "cred"
    if n > 65535 and limit_applies:
        ctx.expect(not f.ok, "%s of %d bytes: the run does not complete" % (which, n))
        ctx.expect(f.error is not None and not f.error.startswith(("PANIC", "TIMEOUT", "CRASH")), "refused with an error value (%s)" % f.error)
        # and never confused with the input wrapped modulo 65536 or truncated to 65535 bytes: a party using the short
        # spelling never agrees with one using the over-long value
        for short in (big[:n - 65536], big[:65535]):
            for side in ("cli", "srv"):
                kw2 = dict(kw); kw2[which] = short
                over = {}
                if which == "pw":
                    over = {"login_pw": big}
                elif which == "context":
                    over = {("cli_context" if side == "cli" else "srv_context"): big}
                else:
                    over = {("cli_" if side == "cli" else "srv_") + which: big}
                g = honest_flow(ctx, kw2["pw"], kw2["cred"], kw2["context"], kw2["idu"], kw2["ids"], "~", stop_on_error=False, count=True, **over)
                ctx.expect(not g.ok, "over-long %s is never treated as its %d-byte truncation/wrap (%s side)" % (which, len(short), side))
                if which == "pw":
                    break
    else:
        ctx.expect(f.ok, "%s of %d bytes is accepted (%s at %s)" % (which, n, f.error, f.failed_at))


def huge(ctx, which, n):
    """lengths whose low 16 bits are small but which need more than 3 bytes (2^24 + k): refused at the first step that
    frames the value, by the code alone (the extracted model is not asked to hash 16 MiB)"""
    ctx.nontrivial = True
    L = ctx.L
    f = honest_flow(ctx, b"pw", b"u", None, None, None)
    big = bytes(n)
    ctx.counting = True
    if which == "context":
        r = ctx.call("srv_login_start", ctx.tape(64 + L.Nsk + 16), f.setup, f.file, f.ke1, b"u", big, None, None, impl_only=True)
        q = ctx.call("login_finish", f.client_login, b"pw", f.ke2, big, None, None, "~", impl_only=True)
    else:
        idu, ids = (big, None) if which == "idu" else (None, big)
        r = ctx.call("srv_login_start", ctx.tape(64 + L.Nsk + 16), f.setup, f.file, f.ke1, b"u", None, idu, ids, impl_only=True)
        q = ctx.call("login_finish", f.client_login, b"pw", f.ke2, None, idu, ids, "~", impl_only=True)
    for who, x in (("server", r), ("client", q)):
        if x is not None:
            ctx.expect(x.status == "ERR", "%s of %d bytes is refused by the %s with an error value (%s)" % (which, n, who, x.status))


def cases(tier, seed):
    out = []
    ss = suites_for(tier, seed)
    # suites whose OPRF elements and key-exchange keys differ in length, both ways
    ss = list(dict.fromkeys(ss + ["R255/P521", "P521/R255", "P256/P384"]))
    for j, which in enumerate(("context", "idu", "ids")):
        out.append(dict(script=huge, suite=ss[j % len(ss)], seed=seed * 1000 + 900 + j, mode="pattern",
                        params=dict(which=which, n=(1 << 24) + (5, 0, 300)[j])))
    for i, s in enumerate(ss):
        out.append(dict(script=fuzz_decoders, suite=s, seed=seed * 1000 + i, mode="pattern", params=dict(n=(60 if tier == "quick" else 600))))
        out.append(dict(script=cross_feed, suite=s, seed=seed * 1000 + 100 + i, mode="pattern", params=dict(other_suite=ss[(i + 1) % len(ss)])))
        k = 0
        for which in ("pw", "cred", "context", "idu", "ids"):
            for n in (LENGTHS if tier == "thorough" else [LENGTHS[(i + j) % 8] for j in (0, 3, 5, 6)]) :
                out.append(dict(script=lengths, suite=s, seed=seed * 100000 + i * 100 + k, mode="pattern", params=dict(which=which, n=n)))
                k += 1
    return out
