"""C08 - unregistered users are indistinguishable from registered ones."""
from checks.common import *
import hashlib, hmac as _hmac

HASHES = {"R255": hashlib.sha512, "P256": hashlib.sha256, "P384": hashlib.sha384, "P521": hashlib.sha512}

LEVEL = "proof"
RULE = ("login attempts without a password file, all suites and parameter shapes, repeated against one identifier and interleaved "
        "with real logins; oracle: same length and decodable structure as a real response, OPRF evaluation equal to the one a "
        "registered user gets for the same request and identifier, all other fields pairwise different across attempts, client "
        "fails with InvalidLogin (same as wrong password), no available finalization completes the server side")
ASSUMPTIONS = ["freshness of fields holds up to explicit BadFresh/BadGuess events; timing is out of scope"]


def fake(ctx, idu, ids, context, cred):
    ctx.nontrivial = True
    L = ctx.L
    f = honest_flow(ctx, b"pw", cred, context, idu, ids)          # a registered user, for comparison
    ctx.counting = True
    r = ctx.call("login_start", ctx.btape(L.Nsk + 64), b"pw")
    st, req = r.b(0), r.b(1)
    resps, states = [], []
    for k in range(4):
        t = ctx.tape(L.Nh + 64 + L.Nsk + 16)
        r = ctx.call("srv_login_start", t, f.setup, None, req, cred, context, idu, ids)
        if not ctx.expect(r.ok, "login start without a record succeeds"):
            return
        ctx.expect(r.n(2) == L.Nh + 32 + L.Nsk + 32, "fake path draws masking key + masking nonce + ephemeral seed + nonce")
        states.append(r.b(0)); resps.append(r.b(1))
        if k == 0:
            fallible_rng_same(ctx, r, "srv_login_start", t, f.setup, None, req, cred, context, idu, ids)
        if k == 1:   # interleave a real login
            rr = ctx.call("srv_login_start", ctx.tape(64 + L.Nsk + 16), f.setup, f.file, req, cred, context, idu, ids)
            real = rr.b(1)
            real_state = rr.b(0)
    fb = [(0, L.Noe), (L.Noe, L.Noe + NN), (L.Noe + NN, L.Noe + NN + L.masked), (L.Noe + NN + L.masked, L.Noe + NN + L.masked + NN),
          (L.Noe + NN + L.masked + NN, L.Noe + NN + L.masked + NN + L.Npk), (L.Noe + NN + L.masked + NN + L.Npk, L.cred_response)]
    for m in resps:
        ctx.expect(len(m) == len(real) == L.cred_response, "fake response has exactly the length of a real one")
        d = ctx.call("dec", "CredentialResponse", m)
        ctx.expect(d.ok and d.b(0) == m, "fake response decodes like a real one")
        ctx.expect(m[:L.Noe] == real[:L.Noe], "OPRF evaluation is the same function of seed, identifier and request as for a registered user")
    for i in range(len(resps)):
        for j in range(i + 1, len(resps)):
            for (a, b) in fb[1:]:
                ctx.expect(resps[i][a:b] != resps[j][a:b], "fields [%d:%d] differ between attempts %d and %d" % (a, b, i, j))
        for (a, b) in fb[1:]:
            ctx.expect(resps[i][a:b] != real[a:b], "fields [%d:%d] differ from the real response" % (a, b))
    # the pending state of a fake session is as fresh as a real one: three Nh-byte fields, none constant, none shared
    # between attempts, and not completable from public data (e.g. an all-zero state would accept HMAC(0,0))
    for i, s_ in enumerate(states):
        ctx.expect(len(s_) == 3 * L.Nh and len(s_) == len(real_state), "fake session state has the layout of a real one")
        for a in range(3):
            fld = s_[a * L.Nh:(a + 1) * L.Nh]
            ctx.expect(len(set(fld)) > 4, "state field %d of a fake session is not a constant" % a)
            for j in range(i + 1, len(states)):
                ctx.expect(fld != states[j][a * L.Nh:(a + 1) * L.Nh], "state field %d differs between fake attempts" % a)
        hf = HASHES[L.oprf]
        for key in (bytes(L.Nh), b"\xff" * L.Nh):
            for msg in (bytes(L.Nh), b"", key):
                cand = _hmac.new(key, msg, hf).digest()
                r0 = ctx.call("srv_login_finish", s_, cand)
                ctx.expect(not r0.ok, "a finalization computable from public constants does not complete a fake session")
    # the stand-in client key of a setup is secret and per setup: not derivable from public constants
    fake_sk = f.setup[L.Nh + L.Nsk:]
    other = honest_flow(ctx, b"x", b"y", registration_only=True)
    ctx.expect(other.setup[L.Nh + L.Nsk:] != fake_sk, "two setups have different fake keys")
    for seed in (bytes(L.Nsk), b"\xff" * L.Nsk, f.setup[:L.Nsk], f.setup[:L.Nh][:L.Nsk]):
        if len(seed) == L.Nsk:
            d = ctx.call("ke_derive", seed)
            ctx.expect(not (d.ok and d.b(0) == fake_sk), "the fake key is not derived from a public constant or from the OPRF seed")
    # a wrong-password client against the real record, for the error class
    w = ctx.call("login_finish", st, b"pw-wrong", real, context, idu, ids, "~")
    for m, s_ in zip(resps, states):
        r = ctx.call("login_finish", st, b"pw", m, context, idu, ids, "~")
        ctx.expect(not r.ok and r.err == "InvalidLogin", "client fails on a fake response with InvalidLogin (%s)" % r.err)
        ctx.expect(w.err == r.err, "same error as for a wrong password")
        for cand in (f.ke3, bytes(L.Nh), ctx.tape(L.Nh)):
            r2 = ctx.call("srv_login_finish", s_, cand)
            ctx.expect(not r2.ok, "no finalization completes a fake session")
    r = ctx.call("login_finish", st, b"pw", real, context, idu, ids, "~")
    ctx.expect(r.ok, "control: the real response is accepted")


def same_treatment(ctx):
    """requests and identifiers that could make the two paths diverge: a credential identifier that cannot be length-
    prefixed (it never has to be), a request whose ephemeral share equals the registered client's static key, or the
    setup's fake key's public half - with and without a record the server answers, and the answers have the same shape"""
    ctx.nontrivial = True
    L = ctx.L
    f = honest_flow(ctx, b"pw", b"c" * 70000, None, None, None)
    if not ctx.expect(f.ok, "a 70000-byte credential identifier registers and logs in"):
        return
    ctx.counting = True
    cpk = f.file[:L.Npk]
    fk = ctx.call("ke_pub", f.setup[L.Nh + L.Nsk:])
    shares = [("the client's own fresh share", f.ke1[L.Noe + NN:]), ("the registered client's static key", cpk)]
    if fk.ok:
        shares.append(("the public half of the setup's fake key", fk.b(0)))
    for what, share in shares:
        ke1 = f.ke1[:L.Noe + NN] + share
        for cred in (b"c" * 70000, b"d" * 70000, b"short"):
            outs = []
            for file in (f.file, None):
                r = ctx.call("srv_login_start", ctx.tape(L.Nh + 64 + L.Nsk + 16), f.setup, file, ke1, cred, None, None, None)
                ctx.expect(r.ok and len(r.b(1)) == L.cred_response,
                           "login start answers a request carrying %s, %d-byte identifier, %s (%s)"
                           % (what, len(cred), "record" if file else "no record", r.err))
                outs.append(r)
            if all(o.ok for o in outs):
                ctx.expect(outs[0].b(1)[:L.Noe] == outs[1].b(1)[:L.Noe], "same evaluation with and without a record")
    # a setup restored from storage whose stand-in key pair coincides with the server's own static key (seed || sk || sk is
    # a valid encoding): without a record the stand-in client key then IS the server key and, with default identities,
    # both identities are the same bytes - the unregistered user must still be answered exactly like the registered one
    twin = f.setup[:L.Nh + L.Nsk] + f.setup[L.Nh:L.Nh + L.Nsk]
    ctx.expect(ctx.call("dec", "ServerSetup", twin).ok, "a setup whose stand-in key equals its static key restores")
    for cred in (b"c" * 70000, b"short"):
        outs = []
        for file in (f.file, None):
            r = ctx.call("srv_login_start", ctx.tape(L.Nh + 64 + L.Nsk + 16), twin, file, f.ke1, cred, None, None, None)
            ctx.expect(r.ok and len(r.b(1)) == L.cred_response,
                       "login start under a setup whose stand-in key equals its static key answers, %d-byte identifier, %s (%s)"
                       % (len(cred), "record" if file else "no record", r.err))
            outs.append(r)
        if all(o.ok for o in outs):
            ctx.expect(outs[0].b(1)[:L.Noe] == outs[1].b(1)[:L.Noe], "same evaluation with and without a record (twin setup)")


def cases(tier, seed):
    out = []
    shapes = [(None, None, None, b"alice"), (b"u", b"s", b"ctx", b""), (None, b"server", b"", b"c" * 300)]
    for si, s in enumerate(suites_for(tier, seed)):
        for k, (a, b, c, cred) in enumerate(shapes if tier == "thorough" else shapes[:2]):
            out.append(dict(cross=["login_finish", "srv_login_finish", "srv_reg_start"], cross_limit=60, script=fake, suite=s, seed=seed * 10000 + si * 10 + k, mode="pattern+err",
                            params=dict(idu=a, ids=b, context=c, cred=cred)))
        out.append(dict(script=same_treatment, suite=s, seed=seed * 10000 + si * 10 + 7, mode="pattern+err", params={}))
    return out
