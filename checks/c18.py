"""C18 - externally held server keys are a transparent abstraction."""
from checks.common import *

LEVEL = "proof"
RULE = ("every server operation with the static key behind the harness SecretKey implementation vs the plain PrivateKey on "
        "identical inputs and tapes (setup creation, setup decoding, registration start, login start with and without a record), "
        "and with the external key failing at the n-th callback for n = 1 .. calls+1. Oracle: identical bytes; the injected error "
        "is returned, no panic, no output; only public_key / diffie_hellman are called. distinct = distinct (suite, op, args)")
ASSUMPTIONS = ["the number of callbacks is taken from the implementation's own trace (not part of the property)"]


def external(ctx, idu, ids, context):
    ctx.nontrivial = True
    L = ctx.L
    f = honest_flow(ctx, b"pw", b"alice", context, idu, ids)
    ctx.counting = True
    sk = f.setup[L.Nh:L.Nh + L.Nsk]
    NO = "~"
    # setup creation with an external key == plain setup on the tape that follows the static-key seed
    t = ctx.tape(L.Nh + L.Nsk + 8)
    r = ctx.call("ext_setup", t, sk, 0, model_args=[t, sk, NO, NO], impl_extra=1)
    ctx.expect(r.ok, "setup with an external key")
    ext_setup = r.b(0)
    ctx.expect(ext_setup[L.Nh:L.Nh + L.Nsk] == sk and r.n(1) == L.Nh + L.Nsk, "external setup holds the given key and draws seed + fake key")
    if ctx.side == "impl":
        ctx.expect(r.extra == ["P"], "setup creation calls only public_key (%s)" % r.extra)
    r1 = ctx.call("ext_setup", t, sk, 1, model_args=[t, sk, "1", NO], impl_extra=1)
    ctx.expect(not r1.ok and r1.err == "Lib:Custom:1", "failing public_key surfaces as the custom error (%s)" % r1.err)
    d = ctx.call("ext_dec_setup", f.setup, 0, model_args=[f.setup, NO, NO], impl_extra=1)
    ctx.expect(d.ok and d.b(0) == f.setup, "decoding a setup with an external key type re-encodes to the same bytes")
    d1 = ctx.call("ext_dec_setup", f.setup, 1, model_args=[f.setup, "1", NO], impl_extra=1)
    ctx.expect(not d1.ok and d1.err == "Lib:Custom:1", "decode: failing public_key surfaces (%s)" % d1.err)
    # registration start
    p = ctx.call("srv_reg_start", f.setup, f.reg_request, b"alice")
    for failat in (0, 1, 2):
        e = ctx.call("ext_srv_reg_start", f.setup, f.reg_request, b"alice", failat,
                     model_args=[f.setup, f.reg_request, b"alice", "1" if failat == 1 else NO, "2" if failat == 2 else NO], impl_extra=1)
        ctx.expect(e.ok and e.b(0) == p.b(0), "registration start with an external key equals the plain one (failat=%d)" % failat)
        if ctx.side == "impl" and e.ok:
            ctx.expect(e.extra == ["-"], "registration start makes no callback")
    # login start, with and without record
    for file in (f.file, None):
        t = ctx.tape(L.Nh + 64 + L.Nsk + 16)
        p = ctx.call("srv_login_start", t, f.setup, file, f.ke1, b"alice", context, idu, ids)
        e = ctx.call("ext_srv_login_start", t, f.setup, file, f.ke1, b"alice", context, idu, ids, 0,
                     model_args=[t, f.setup, file, f.ke1, b"alice", context, idu, ids, NO, NO], impl_extra=1)
        ctx.expect(p.ok and e.ok and e.outs[:3] == p.outs[:3], "login start with an external key: same state, response and tape use")
        trace = e.extra[0] if (ctx.side == "impl" and e.ok) else ctx.shared.get("trace", "PD")
        if ctx.side == "impl":
            ctx.shared["trace"] = trace
        if ctx.side == "impl":
            ctx.expect(set(trace) <= {"P", "D"}, "only public_key / diffie_hellman are used (%s)" % trace)
        for n in range(1, len(trace) + 2):
            which = trace[n - 1] if n <= len(trace) else None
            margs = [t, f.setup, file, f.ke1, b"alice", context, idu, ids, str(n) if which == "P" else NO, str(n) if which == "D" else NO]
            e = ctx.call("ext_srv_login_start", t, f.setup, file, f.ke1, b"alice", context, idu, ids, n, model_args=margs, impl_extra=1)
            if which is None:
                ctx.expect(e.ok and e.outs[:3] == p.outs[:3], "failing after the last callback changes nothing")
            else:
                ctx.expect(not e.ok and e.err == "Lib:Custom:%d" % n, "failure of callback %d (%s) is returned as the custom error (%s)" % (n, which, e.err))
    # the key holder's serialized form is an opaque HANDLE (PROTOCOL.md: scalar XOR a per-group mask), not key material:
    # the key whose handle is all-zero (scalar == mask, valid in every group) is created, saved, reloaded and used like any other
    mask = bytearray(b"\x40" * L.Nsk)
    if L.ke == "R255":
        mask[-1] = 0
    elif L.ke == "P521":
        mask[0] = 0
    mask = bytes(mask)
    v = ctx.call("ke_sk", mask)
    ctx.expect(v.ok and v.b(0) == mask, "the mask is a valid private key of the group")
    t0 = ctx.tape(L.Nh + L.Nsk + 8)
    z = ctx.call("ext_setup", t0, mask, 0, model_args=[t0, mask, NO, NO], impl_extra=1)
    if ctx.expect(z.ok, "setup with the external key whose handle is all-zero (%s)" % z.err):
        zd = ctx.call("ext_dec_setup", z.b(0), 0, model_args=[z.b(0), NO, NO], impl_extra=1)
        ctx.expect(zd.ok and zd.b(0) == z.b(0), "... reloads to itself (%s)" % zd.err)
        gz = honest_flow(ctx, b"pw", b"zoe", context, idu, ids, setup=z.b(0), stop_on_error=False)
        ctx.expect(gz.ok, "... and serves registration and login")
        tz = ctx.tape(L.Nh + 64 + L.Nsk + 16)
        pz = ctx.call("srv_login_start", tz, z.b(0), gz.file, gz.ke1, b"zoe", context, idu, ids)
        ez = ctx.call("ext_srv_login_start", tz, z.b(0), gz.file, gz.ke1, b"zoe", context, idu, ids, 0,
                      model_args=[tz, z.b(0), gz.file, gz.ke1, b"zoe", context, idu, ids, NO, NO], impl_extra=1)
        ctx.expect(pz.ok and ez.ok and ez.outs[:3] == pz.outs[:3], "... through the key holder exactly as through the plain key")
    # a setup created with an external key serves logins like a plain one
    g = honest_flow(ctx, b"pw", b"alice", context, idu, ids, setup=ext_setup, stop_on_error=False)
    ctx.expect(g.ok, "setup created with an external key works with the plain API")


def cases(tier, seed):
    out = []
    shapes = [(None, None, None), (b"u", b"s", b"ctx")]
    for si, s in enumerate(suites_for(tier, seed)):
        for k, (a, b, c) in enumerate(shapes):
            out.append(dict(script=external, suite=s, seed=seed * 10000 + si * 10 + k, mode="raw", params=dict(idu=a, ids=b, context=c)))
    return out
