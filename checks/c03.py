"""C03 - the server completes login only on the matching client finalization."""
from checks.common import *

LEVEL = "proof"
RULE = ("per pending server login state (real record, fake record, wrong-password client, second session): every single-bit "
        "flip and (thorough: all 255, quick: 3) single-byte substitutions per offset of the genuine finalization, the "
        "finalizations of other sessions, all-zero, all-0xff, wrong lengths, structured multi-byte alterations (same xor mask / "
        "+d,-d at two positions, byte swaps, rotations, reversal, complement, randomised head/tail), 1500+ random strings, and MACs "
        "computable from public data (constant keys over the transcript hash / constants); pending states also wait in a serde "
        "session store; distinct = distinct (suite, state, message)")
EXHAUSTIVE = {"quick": False, "thorough": True}
ASSUMPTIONS = ["'others rejected' holds up to explicit HMAC collision events (Bad), DESIGN.md 2.2"]


def fin_tamper(ctx, thorough):
    ctx.nontrivial = True
    L = ctx.L
    rnd = ctx.rnd
    f = honest_flow(ctx, b"pw-A", b"alice", b"ctx", None, None)
    st_a, ke3_a, key_a = f.server_login, f.ke3, f.session_client
    # second session of the same user under the same setup and file
    g = Flow(); g.__dict__.update(f.__dict__)
    login(ctx, g, b"pw-A", b"alice", b"ctx", b"ctx", None, None, None, None, "~", f.setup, f.file)
    st_b, ke3_b, key_b = g.server_login, g.ke3, g.session_client
    # fake record, wrong-password client
    h = Flow(); h.__dict__.update(f.__dict__)
    login(ctx, h, b"pw-A", b"nobody", b"ctx", b"ctx", None, None, None, None, "~", f.setup, None)
    st_fake = h.server_login
    w = Flow(); w.__dict__.update(f.__dict__)
    login(ctx, w, b"pw-WRONG", b"alice", b"ctx", b"ctx", None, None, None, None, "~", f.setup, f.file)
    st_wrong = w.server_login
    ctx.counting = True
    # pending sessions wait in a session store between start and finish (native bytes already; here also serde)
    store = ["bincode", "json"][rnd.randrange(2)]
    st_b = persist(ctx, "ServerLogin", st_b, store)
    st_fake = persist(ctx, "ServerLogin", st_fake, "json" if store == "bincode" else "bincode")
    st_wrong = persist(ctx, "ServerLogin", st_wrong, store)

    def reject(st, m, what, exact_len=True):
        r = ctx.call("srv_login_finish", st, m)
        ctx.expect(not r.ok, "non-matching finalization is never accepted (%s)" % what)
        if exact_len and not r.ok:
            ctx.expect(r.err == "InvalidLogin", "non-matching finalization of the right length gives InvalidLogin (%s: %s)" % (what, r.err))
    r = ctx.call("srv_login_finish", st_a, ke3_a)
    ctx.expect(r.ok and r.b(0) == key_a, "the genuine finalization completes the session with the client's key")
    r = ctx.call("srv_login_finish", st_b, ke3_b)
    ctx.expect(r.ok and r.b(0) == key_b and key_a != key_b, "second session completes with its own, different key")
    for i in range(L.Nh):
        for bit in range(8):
            m = bytearray(ke3_a); m[i] ^= 1 << bit
            reject(st_a, bytes(m), "bit %d of byte %d flipped" % (bit, i))
        vals = [x for x in range(256) if x != ke3_a[i]]
        if not thorough:
            vals = rnd.sample(vals, 3)
        for x in vals:
            reject(st_a, ke3_a[:i] + bytes([x]) + ke3_a[i + 1:], "byte %d := %02x" % (i, x))
    for label, m in structured_alterations(rnd, ke3_a, 0, L.Nh, n_pairs=(60 if not thorough else 400), n_random=(1500 if not thorough else 6000)):
        reject(st_a, m, label)
    consts = [bytes(L.Nh), b"\xff" * L.Nh, ctx.tape(L.Nh), ctx.tape(L.Nh)]
    # finalizations computable from public data: MACs under constant keys over constants and over the transcript hash
    # the pending state holds (the transcript is public); a state that lost or blanked its MAC key would accept one of them
    import hmac as _hmac, hashlib as _hl
    hname = {32: "sha256", 48: "sha384", 64: "sha512"}[L.Nh]
    def public_macs(st):
        th = st[L.Nh:2 * L.Nh]
        out = []
        for key in (bytes(L.Nh), b"\xff" * L.Nh, th, b""):
            for msg in (th, bytes(L.Nh), b"", st[:L.Nh], st[2 * L.Nh:]):
                out.append(_hmac.new(key, msg, hname).digest())
        out.append(_hl.new(hname, th).digest())
        # ... and under MAC keys a key schedule run on a constant secret would give: Expand-Label(secret, label, "", Nh)
        # for secret in {0^Nh, ff^Nh} and every label of the schedule (RFC 9807 CustomLabel framing)
        def expand_label(secret, label):
            full = b"OPAQUE-" + label
            info = L.Nh.to_bytes(2, "big") + bytes([len(full)]) + full + b"\x00"
            return _hmac.new(secret, info + b"\x01", hname).digest()[:L.Nh]
        for secret in (bytes(L.Nh), b"\xff" * L.Nh):
            for label in (b"ClientMAC", b"ServerMAC", b"HandshakeSecret", b"SessionKey"):
                k1 = expand_label(secret, label)
                out.append(_hmac.new(k1, th, hname).digest())
                out.append(_hmac.new(expand_label(k1, b"ClientMAC"), th, hname).digest())
        return out
    for st, nm, others in ((st_a, "session A", [ke3_b]), (st_b, "session B", [ke3_a]),
                           (st_fake, "fake-record session", [ke3_a, ke3_b]), (st_wrong, "wrong-password session", [ke3_a, ke3_b])):
        if st is None:
            ctx.expect(False, "server state for %s exists" % nm)
            continue
        for m in others:
            reject(st, m, nm + " given another session's finalization")
        for m in consts:
            reject(st, m, nm + " given a constant/random string")
        for m in public_macs(st):
            reject(st, m, nm + " given a MAC computable from public data")
        for m in (b"", ke3_a[:-1], ke3_a + b"\x00", ke3_a + ke3_a, ke3_a[:L.Nh // 2]):
            reject(st, m, nm + " given a wrong-length string", exact_len=False)


def cases(tier, seed):
    return [dict(cross=["login_finish", "srv_login_finish"], cross_limit=12, script=fin_tamper, suite=s, seed=seed * 1000 + i, mode="pattern+err", params=dict(thorough=tier == "thorough"))
            for i, s in enumerate(suites_for(tier, seed))]
