"""C10 - wire and storage encodings are strict and canonical.
Oracle (on the implementation): dec b = Ok v  =>  v (the re-encoding) = b; valid encodings decode to
themselves.  Correspondence: verdict and bytes of every decode, model vs crate (raw)."""
from checks.common import *

LEVEL = "proof"
RULE = ("per suite: the eleven decoders x {valid encoding; every/selected lengths 0..L+64 as prefix, zero-, "
        "insertion / removal of a byte at every field boundary; random- and self-extension (incl. one more / fewer field of every size of the suite and whole multiples);  tag/leading byte values of every group-element and scalar field; "
        "single-byte substitutions; non-reduced / invalid field encodings}. A case is one decode call; "
        "non-trivial = the input is not the valid encoding itself; distinct = distinct (suite, type, input)")
ASSUMPTIONS = ["ristretto255 canonical-encoding law (RFC 9496) is a hypothesis of the generic theorem, exercised by the battery",
               "serde encodings are out of scope of C10 (native decoders only)"]
EXHAUSTIVE = {"quick": False, "thorough": False}


def decoders(ctx, thorough=False, nsub=40):
    L = ctx.L
    f = honest_flow(ctx)
    ctx.nontrivial = True
    enc_ = encodings(f)
    fl = fields(L)
    rnd = ctx.rnd

    def dec(ty, b, what, must_fail=False):
        r = ctx.call("dec", ty, b)
        if r.ok:
            ctx.expect(r.b(0) == b, "%s: decoded input re-encodes to itself (%s)" % (ty, what))
            if must_fail:
                ctx.expect(False, "%s: %s must be rejected" % (ty, what))
        return r

    for ty in DEC_TYPES:
        v = enc_[ty]
        n = len(v)
        ctx.expect(n == type_len(L, ty), "%s: encoding has the suite's fixed length" % ty)
        r = dec(ty, v, "valid")
        ctx.expect(r.ok, "%s: valid encoding decodes" % ty)
        # lengths
        # structural lengths: one more / fewer field of each size the suite knows, whole multiples of the encoding
        unit = sorted({L.Nh, L.Noe, L.Nok, L.Npk, L.Nsk, NN, 1, 2, 16})
        structural = {n + u for u in unit} | {n - u for u in unit if u < n} | {n + 2 * L.Nh, n + 3 * L.Nh, 2 * n, 3 * n, n + n // 3}
        lens = (sorted(set(range(0, n + 65)) | structural) if thorough
                else sorted(set([0, 1, n - 1, n + 1, n + 2, n + 64] + [rnd.randrange(0, n + 64) for _ in range(6)]) | structural))
        for l in lens:
            if l == n:
                continue
            if l < n:
                dec(ty, v[:l], "prefix of length %d" % l, must_fail=True)
            else:
                dec(ty, v + bytes(l - n), "zero extension to %d" % l, must_fail=True)
                dec(ty, v + ctx.tape(l - n), "random extension to %d" % l, must_fail=True)
                dec(ty, (v + v)[:l], "self extension to %d" % l, must_fail=True)
        # a byte inserted / removed at every field boundary (length changes by one somewhere in the middle)
        bounds = sorted({0, n} | {off for _, off, _ in fl[ty]} | {off + ln for _, off, ln in fl[ty]}
                        | {b_ for b_ in (n - L.Nh, n - L.Nh - NN, n - 2 * L.Nh, L.Npk, L.Npk + L.Nh, L.Noe, L.Noe + NN, L.Nok, L.Nh, 2 * L.Nh) if 0 < b_ < n})
        for b_ in bounds:
            for x in ((0, 1, 2, 3, 0xff) if not thorough else (0, 1, 2, 3, 4, 5, 0x7f, 0x80, 0xff)):
                dec(ty, v[:b_] + bytes([x]) + v[b_:], "byte %02x inserted at %d" % (x, b_), must_fail=True)
            if b_ < n:
                dec(ty, v[:b_] + v[b_ + 1:], "byte removed at %d" % b_, must_fail=True)
        # leading byte of every element / scalar field
        for kind, off, ln in fl[ty]:
            vals = range(256) if thorough else sorted(set(list(range(8)) + [0x80, 0xff] + [rnd.randrange(256) for _ in range(6)]))
            for x in vals:
                if x == v[off]:
                    continue
                dec(ty, v[:off] + bytes([x]) + v[off + 1:], "%s field at %d leading byte %02x" % (kind, off, x))
            # trailing byte too (little-endian encodings carry the high bits there)
            for x in ([0x00, 0x7f, 0x80, 0xff] if not thorough else range(0, 256, 5)):
                o2 = off + ln - 1
                dec(ty, v[:o2] + bytes([x]) + v[o2 + 1:], "%s field at %d last byte %02x" % (kind, off, x))
            grp = group_of(L, kind)
            bad = invalid_elements(grp, rnd) if kind in ("oe", "kp") else invalid_scalars(grp, rnd)
            for label, enc_bad in bad:
                if len(enc_bad) != ln:
                    continue
                dec(ty, v[:off] + enc_bad + v[off + ln:], "%s field at %d = %s" % (kind, off, label))
        # single-byte substitutions anywhere
        for _ in range(nsub if not thorough else 4 * nsub):
            o = rnd.randrange(n)
            x = rnd.randrange(256)
            dec(ty, v[:o] + bytes([x]) + v[o + 1:], "substitution at %d" % o)
    # two different byte strings are never treated as the same message: decoded values of encodings that differ in one
    # byte (one position inside every field, every type) compare unequal
    for ty in DEC_TYPES:
        v = enc_[ty]
        offs = sorted({0, len(v) - 1} | {off + ln // 2 for _, off, ln in fl[ty]} | {(off + ln + min(len(v), off + ln + NN)) // 2 for _, off, ln in fl[ty]}
                      | {rnd.randrange(len(v)) for _ in range(6)} | set(range(0, len(v), max(1, len(v) // 12))))
        for o in offs:
            if o >= len(v):
                continue
            w = v[:o] + bytes([v[o] ^ 0x01]) + v[o + 1:]
            r = ctx.call("dec_eq", ty, v, w, impl_only=True)
            if r is not None and r.ok:
                # (the Debug comparison the harness also reports is informational: redacting secrets in Debug output is legitimate)
                ctx.expect(r.outs[0] == "0", "%s: encodings differing in byte %d decode to values that compare unequal" % (ty, o))
    # key-level decoders
    for label, b in invalid_elements(L.ke, rnd) + alternative_point_encodings(L.ke, rnd):
        r = ctx.call("ke_pk", b)
        if r.ok:
            ctx.expect(r.b(0) == b, "ke_pk: accepted encoding re-encodes to itself (%s)" % label)


def cases(tier, seed):
    out = []
    for i, s in enumerate(suites_for(tier, seed)):
        out.append(dict(script=decoders, suite=s, seed=seed * 1000 + i, mode="raw",
                        params={"thorough": tier == "thorough"}))
    return out
