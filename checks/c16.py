"""C16 - the export key is stable, separated and never leaves the client (partial: verbatim appearance at arbitrary offsets is
searched, not proved)."""
from checks.common import *

LEVEL = "proof"
USES_LABELS = True
RULE = ("sequences of registrations and logins (several users, re-registration, varying contexts and tapes): every login returns "
        "the registration's export key; new registration / other password / user / server give different export keys; substring "
        "scan of every message, password file and server-side state for every secret of >= 16 bytes (export key, session key, "
        "password). distinct = distinct (suite, op, args)")
ASSUMPTIONS = ["'not a field' is proved for the hash-derived fields up to explicit collision events; unaligned verbatim appearance is explored"]


def stable(ctx, pw, cred=b"alice"):
    ctx.nontrivial = True
    L = ctx.L
    f = honest_flow(ctx, pw, cred, b"ctx0", None, None, count=True)
    ek = f.export_reg
    ctx.expect(f.ok and f.export_login == ek, "first login returns the registration's export key")
    # messages and the password file (the server's pending-login state legitimately holds the session key)
    public = [f.reg_request, f.reg_response, f.upload, f.file, f.ke1, f.ke2, f.ke3, f.setup]
    secrets = [("export key", ek), ("session key", f.session_client)]
    if len(pw) >= 16:
        secrets.append(("password", pw))
    sessions = [f.session_client]
    for k in range(4):
        g = Flow(); g.__dict__.update(f.__dict__)
        c = [None, b"", b"ctx-%d" % k, b"x" * 300][k]
        login(ctx, g, pw, cred, c, c, None, None, None, None, "~", f.setup, f.file, rejections=k % 2)
        ctx.expect(g.ok and g.export_login == ek, "login %d (context %r) returns the same export key" % (k + 2, c))
        if g.ok:
            public += [g.ke1, g.ke2, g.ke3]
            secrets.append(("session key", g.session_client)); sessions.append(g.session_client)
    ctx.expect(len(set(sessions)) == len(sessions), "session keys differ from login to login")
    others = {"re-registration (same password)": honest_flow(ctx, pw, cred, setup=f.setup, registration_only=True, count=True),
              "another user": honest_flow(ctx, pw, b"bob", setup=f.setup, registration_only=True, count=True),
              "another user (long identifier, common prefix)": honest_flow(ctx, pw, cred[:-1] + b"X", setup=f.setup, registration_only=True, count=True),
              "another server": honest_flow(ctx, pw, cred, registration_only=True, count=True)}
    # the same envelope nonce (same registration tape) isolates what the export key depends on besides the nonce
    def reg_with_tape(p_, c_, tape_reg, tape_fin):
        r = ctx.call("reg_start", tape_reg, p_)
        if not r.ok: return None
        rr = ctx.call("srv_reg_start", f.setup, r.b(1), c_)
        if not rr.ok: return None
        r2 = ctx.call("reg_finish", r.b(0), tape_fin, p_, rr.b(0), None, None, "~")
        return r2.b(1) if r2.ok else None
    t_reg, t_fin = ctx.btape(), ctx.tape(48)
    base_ek = reg_with_tape(pw, cred, t_reg, t_fin)
    ctx.expect(base_ek is not None, "registration on a fixed tape succeeds")
    for p2 in related_passwords(pw):
        e2 = reg_with_tape(p2, cred, t_reg, t_fin)
        ctx.expect(e2 is None or e2 != base_ek, "another password (%r..., %d bytes) yields a different export key even on the same tape" % (p2[:8], len(p2)))
    for c2 in (cred + b"x", cred[:-1], cred[:-1] + b"Y", b"", cred[:57], cred[:249], cred[:255]):
        if c2 != cred:
            e2 = reg_with_tape(pw, c2, t_reg, t_fin)
            ctx.expect(e2 is None or e2 != base_ek, "another credential identifier (%d bytes) yields a different export key even on the same tape" % len(c2))
    for what, g in others.items():
        ctx.expect(g.ok and g.export_reg != ek, "%s yields a different export key" % what)
        public += [g.upload, g.reg_response]
    for name, sec in secrets:
        ctx.expect(sec != ek or name == "export key", "session key differs from export key")
        for m in public:
            if m is not None:
                ctx.expect(m.find(sec) < 0, "%s does not appear verbatim in any message, file or server state" % name)
    # the client-side states legitimately hold no export key either
    for m in (f.client_reg, f.client_login):
        ctx.expect(m.find(ek) < 0, "export key is not in the client's persisted state")


def cases(tier, seed):
    out = []
    pws = [(b"a sixteen byte pw", b"alice"), (b"A long pass-phrase, longer than any hash block: " + b"correct horse battery staple " * 6, b"user-record/" * 30 + b"alice"),
           (b"short", b"a" * 255), (b"P" * 64, b""), (b"", b"alice")]
    for si, s in enumerate(suites_for(tier, seed)):
        for k, (pw, cred) in enumerate(pws if tier == "thorough" else pws[:2]):
            out.append(dict(script=stable, suite=s, seed=seed * 10000 + si * 10 + k, mode="pattern", params=dict(pw=pw, cred=cred)))
    return out
