"""C16 - the export key is stable, separated and never leaves the client (partial: verbatim appearance at arbitrary offsets is
searched, not proved)."""
from checks.common import *

LEVEL = "proof"
USES_LABELS = True
RULE = ("sequences of registrations and logins (several users, re-registration, varying contexts and tapes): every login returns "
        "the registration's export key; new registration / other password / user / server give different export keys; substring "
        "scan of every message, password file and server-side state for every secret of >= 16 bytes (export key, session key, "
        "password); the same scan over the native, serde-bincode and serde-json encodings of every object as it lives in memory "
        "right after it was made (and: a fresh object encodes exactly as its restored copy). distinct = distinct (suite, op, args)")
ASSUMPTIONS = ["'not a field' is proved for the hash-derived fields up to explicit collision events; unaligned verbatim appearance is explored"]


def stable(ctx, pw, cred=b"alice"):
    ctx.nontrivial = True
    L = ctx.L
    f = honest_flow(ctx, pw, cred, b"ctx0", None, None, count=True)
    ek = f.export_reg
    ctx.expect(f.ok and f.export_login == ek, "first login returns the registration's export key")
    # messages and the password file (the server's pending-login state legitimately holds the session key)
    public = [f.reg_request, f.reg_response, f.upload, f.file, f.ke1, f.ke2, f.ke3, f.setup]
    secrets = [("export key", ek), ("session key", f.session_client)]
    if len(pw) >= 16:
        secrets.append(("password", pw))
    sessions = [f.session_client]
    for k in range(4):
        g = Flow(); g.__dict__.update(f.__dict__)
        c = [None, b"", b"ctx-%d" % k, b"x" * 300][k]
        login(ctx, g, pw, cred, c, c, None, None, None, None, "~", f.setup, f.file, rejections=k % 2)
        ctx.expect(g.ok and g.export_login == ek, "login %d (context %r) returns the same export key" % (k + 2, c))
        if g.ok:
            public += [g.ke1, g.ke2, g.ke3]
            secrets.append(("session key", g.session_client)); sessions.append(g.session_client)
    ctx.expect(len(set(sessions)) == len(sessions), "session keys differ from login to login")
    others = {"re-registration (same password)": honest_flow(ctx, pw, cred, setup=f.setup, registration_only=True, count=True),
              "another user": honest_flow(ctx, pw, b"bob", setup=f.setup, registration_only=True, count=True),
              "another user (long identifier, common prefix)": honest_flow(ctx, pw, cred[:-1] + b"X", setup=f.setup, registration_only=True, count=True),
              "another server": honest_flow(ctx, pw, cred, registration_only=True, count=True)}
    # servers restart: setups restored from a serde store keep their own seed (another server still separates,
    # the same server still gives the key it gave before)
    r_new = ctx.call("setup_new", ctx.tape(2 * L.Nsk + L.Nh + 16))
    if ctx.expect(r_new.ok, "another server setup"):
        store = ["bincode", "json"][len(pw) % 2]
        others["another server, restored from a serde-%s store" % store] = honest_flow(
            ctx, pw, cred, registration_only=True, count=True, setup=persist(ctx, "ServerSetup", r_new.b(0), store))
    # the same envelope nonce (same registration tape) isolates what the export key depends on besides the nonce
    def reg_with_tape(p_, c_, tape_reg, tape_fin):
        r = ctx.call("reg_start", tape_reg, p_)
        if not r.ok: return None
        rr = ctx.call("srv_reg_start", f.setup, r.b(1), c_)
        if not rr.ok: return None
        r2 = ctx.call("reg_finish", r.b(0), tape_fin, p_, rr.b(0), None, None, "~")
        return r2.b(1) if r2.ok else None
    t_reg, t_fin = ctx.btape(), ctx.tape(48)
    base_ek = reg_with_tape(pw, cred, t_reg, t_fin)
    ctx.expect(base_ek is not None, "registration on a fixed tape succeeds")
    for fmt in ("bincode", "json"):
        s2 = persist(ctx, "ServerSetup", f.setup, fmt)
        r = ctx.call("reg_start", t_reg, pw)
        rr = ctx.call("srv_reg_start", s2, r.b(1), cred) if r.ok else r
        r2 = ctx.call("reg_finish", r.b(0), t_fin, pw, rr.b(0), None, None, "~") if rr.ok else rr
        ctx.expect(r2.ok and r2.b(1) == base_ek, "the same server restored from a serde-%s store yields the same export key on the same tape" % fmt)
    for p2 in related_passwords(pw):
        e2 = reg_with_tape(p2, cred, t_reg, t_fin)
        ctx.expect(e2 is None or e2 != base_ek, "another password (%r..., %d bytes) yields a different export key even on the same tape" % (p2[:8], len(p2)))
    for c2 in (cred + b"x", cred[:-1], cred[:-1] + b"Y", b"", cred[:57], cred[:249], cred[:255]):
        if c2 != cred:
            e2 = reg_with_tape(pw, c2, t_reg, t_fin)
            ctx.expect(e2 is None or e2 != base_ek, "another credential identifier (%d bytes) yields a different export key even on the same tape" % len(c2))
    # servers whose static key is supplied by the operator (`new_with_key`, external key holder) have their own seed too
    NO = "~"
    ext = []
    for j in range(2):
        t_ = ctx.tape(L.Nh + L.Nsk + 8)
        r_ = ctx.call("ext_setup", t_, f.setup[L.Nh:L.Nh + L.Nsk], 0, model_args=[t_, f.setup[L.Nh:L.Nh + L.Nsk], NO, NO], impl_extra=1)
        if ctx.expect(r_.ok, "setup with a supplied key"):
            ext.append(r_.b(0))
    if len(ext) == 2:
        ctx.expect(ext[0][:L.Nh] != ext[1][:L.Nh] and any(ext[0][:L.Nh]), "setups with a supplied key draw their own OPRF seed")
        others["another server with the same supplied static key"] = honest_flow(ctx, pw, cred, registration_only=True, count=True, setup=ext[0])
    for what, g in others.items():
        ctx.expect(g.ok and g.export_reg != ek, "%s yields a different export key" % what)
        public += [g.upload, g.reg_response]
    for name, sec in secrets:
        ctx.expect(sec != ek or name == "export key", "session key differs from export key")
        for m in public:
            if m is not None:
                ctx.expect(m.find(sec) < 0, "%s does not appear verbatim in any message, file or server state" % name)
    # the client-side states legitimately hold no export key either
    for m in (f.client_reg, f.client_login):
        ctx.expect(m.find(ek) < 0, "export key is not in the client's persisted state")


def _flat(blob, fmt):
    """bytes an encoder wrote, as a searchable byte string (JSON: all integers in document order, plus the raw text)"""
    if fmt != "json":
        return [blob]
    import json
    out = []
    def walk(x):
        if isinstance(x, bool) or x is None:
            return
        if isinstance(x, int):
            out.append(x & 0xff if 0 <= x < 256 else 0x100)
        elif isinstance(x, list):
            for y in x: walk(y)
        elif isinstance(x, dict):
            for y in x.values(): walk(y)
    try:
        walk(json.loads(blob.decode("utf-8", "replace")))
    except ValueError:
        pass
    return [bytes(v for v in out if v < 256), blob]


def in_memory(ctx, pw, cred):
    """what an encoder (native, serde-bincode, serde-json) sees of every object as it lives in memory right after it was
    made - not only after a native round trip: no message, file or server-side object carries the export key"""
    ctx.nontrivial = True
    names = ["ServerSetup", "RegistrationRequest", "ClientRegistration", "RegistrationResponse", "RegistrationUpload", "ServerRegistration",
             "CredentialRequest", "ClientLogin", "CredentialResponse", "ServerLogin", "CredentialFinalization"]
    t = flow_tape(ctx)
    ctx.counting = True
    sizes = {}
    for fmt in ("native", "bincode", "json"):
        r = ctx.call("flow_blobs", 0, fmt, t, pw, cred, b"ctx", None, None, "~", impl_only=True)
        if r is None:
            return
        if not ctx.expect(r.ok and len(r.outs) == 15, "in-memory flow encodes through %s (%s)" % (fmt, r.err)):
            continue
        blobs = [r.b(i) for i in range(11)]
        ek, skc, sks, ek2 = r.b(11), r.b(12), r.b(13), r.b(14)
        ctx.expect(ek == ek2 and skc == sks, "keys agree")
        for i, (nm, b) in enumerate(zip(names, blobs)):
            for hay in _flat(b, fmt):
                ctx.expect(hay.find(ek) < 0 and hay.find(ek.hex().encode()) < 0, "export key does not appear in the %s encoding of the in-memory %s" % (fmt, nm))
                if nm != "ServerLogin":
                    ctx.expect(hay.find(skc) < 0, "session key does not appear in the %s encoding of the in-memory %s" % (fmt, nm))
                if len(pw) >= 16 and nm not in ("ClientRegistration", "ClientLogin"):
                    ctx.expect(hay.find(pw) < 0, "password does not appear in the %s encoding of the in-memory %s" % (fmt, nm))
        if fmt == "native":
            for nm, b in zip(names, blobs):
                d = ctx.call("dec", nm, b, impl_only=True)
                ctx.expect(d.ok and d.b(0) == b, "native encoding of the in-memory %s is what a restored copy encodes to" % nm)
        else:
            # a serde encoding of the fresh object carries what the restored object's does: nothing more
            for nm, b, nb in zip(names, blobs, sizes.get("native", [])):
                q = ctx.call("serde_enc", nm, fmt, nb, impl_only=True)
                ctx.expect(q is None or (q.ok and q.b(0) == b), "serde-%s of the in-memory %s equals serde-%s of its restored copy" % (fmt, nm, fmt))
        if fmt == "native":
            sizes["native"] = blobs


def cases(tier, seed):
    out = []
    pws = [(b"a sixteen byte pw", b"alice"), (b"A long pass-phrase, longer than any hash block: " + b"correct horse battery staple " * 6, b"user-record/" * 30 + b"alice"),
           (b"short", b"a" * 255), (b"P" * 64, b""), (b"", b"alice")]
    for si, s in enumerate(suites_for(tier, seed)):
        for k, (pw, cred) in enumerate(pws if tier == "thorough" else pws[:2]):
            out.append(dict(cross=["srv_reg_start", "login_finish", "srv_login_finish"], cross_limit=40, script=stable, suite=s, seed=seed * 10000 + si * 10 + k, mode="pattern", params=dict(pw=pw, cred=cred)))
        out.append(dict(script=in_memory, suite=s, seed=seed * 10000 + si * 10 + 8, mode="pattern", params=dict(pw=b"a sixteen byte password", cred=b"alice")))
    return out
