"""Helpers shared by the property batteries: an honest flow that yields every message and state,
field layouts of the eleven native encodings, invalid group-element / scalar encodings."""
import os, sys
sys.path.insert(0, os.path.join(os.path.dirname(os.path.dirname(os.path.abspath(__file__))), "bin"))
from okelib import *

P25519 = 2 ** 255 - 19
ELL = 2 ** 252 + 27742317777372353535851937790883648493
WCURVES = {
    "P256": (2 ** 256 - 2 ** 224 + 2 ** 192 + 2 ** 96 - 1,
             0xffffffff00000000ffffffffffffffffbce6faada7179e84f3b9cac2fc632551, 32,
             0x5ac635d8aa3a93e7b3ebbd55769886bc651d06b0cc53b0f63bce3c3e27d2604b),
    "P384": (2 ** 384 - 2 ** 128 - 2 ** 96 + 2 ** 32 - 1,
             0xffffffffffffffffffffffffffffffffffffffffffffffffc7634d81f4372ddf581a0db248b0a77aecec196accc52973, 48,
             0xb3312fa7e23ee7e4988e056be3f82d19181d9c6efe8141120314088f5013875ac656398d8a2ed19d2a85c8edd3ec2aef),
    "P521": (2 ** 521 - 1,
             0x01fffffffffffffffffffffffffffffffffffffffffffffffffffffffffffffffffa51868783bf2f966b7fcc0148f709a5d03bb5c9b8899c47aebb6fb71e91386409, 66,
             0x0051953eb9618e1c9a1f929a21a0b68540eea2da725b99b315f3b8b489918ef109e156193951ec7e937b1652c0bd3bb1bf073573df883d2c34f1ef451fd46b503f00),
}

DEC_TYPES = ["RegistrationRequest", "RegistrationResponse", "RegistrationUpload", "CredentialRequest",
             "CredentialResponse", "CredentialFinalization", "ServerRegistration", "ServerSetup",
             "ClientRegistration", "ClientLogin", "ServerLogin"]


class Flow:
    """everything an honest registration + login produces, on one side"""
    pass


def honest_flow(ctx, pw=b"correct horse", cred=b"alice", context=None, idu=None, ids=None, ksf="~",
                file_for_login=True, stop_on_error=True, rejections=0, count=False, **kw):
    """runs the nine API steps through serialised bytes; returns a Flow (fields are None after a failure).
    Optional overrides for the login phase: login_pw, login_cred, srv_context, cli_context, srv_idu, srv_ids,
    cli_idu, cli_ids, login_ksf, setup (reuse), login_setup (serve the login under another setup),
    file (serve this file).  The markers "@cpk" / "@spk" as an identity stand for the explicit spelling of the
    client's / server's static public key (available after registration)."""
    was = ctx.counting
    ctx.counting = count
    try:
        return _honest_flow(ctx, pw, cred, context, idu, ids, ksf, file_for_login, stop_on_error, rejections, kw)
    finally:
        ctx.counting = was


def _honest_flow(ctx, pw, cred, context, idu, ids, ksf, file_for_login, stop_on_error, rejections, kw):
    L = ctx.L
    f = Flow()
    f.ok = False
    f.failed_at = None
    f.error = None
    names = ["setup", "client_reg", "reg_request", "reg_response", "upload", "export_reg", "spk_reg", "file",
             "client_login", "ke1", "server_login", "ke2", "ke3", "session_client", "export_login", "spk_login",
             "session_server", "ksflog_reg", "ksflog_login"]
    for n in names:
        setattr(f, n, None)

    def step(name, r):
        if not r.ok:
            f.failed_at = name
            f.error = r.err
            if stop_on_error:
                raise Stop
            return False
        return True

    def spell(v):
        if v == "@cpk":
            return f.upload[:L.Npk]
        if v == "@spk":
            return f.spk_reg if f.spk_reg is not None else f.reg_response[L.Noe:]
        return v
    if kw.get("setup") is not None:
        f.setup = kw["setup"]
    else:
        r = ctx.call("setup_new", ctx.tape(2 * L.Nsk + L.Nh + 16))
        if not step("setup_new", r): return f
        f.setup = r.b(0)
    r = ctx.call("reg_start", ctx.btape(64, rejections), pw)
    if not step("reg_start", r): return f
    f.client_reg, f.reg_request = r.b(0), r.b(1)
    r = ctx.call("srv_reg_start", f.setup, f.reg_request, cred)
    if not step("srv_reg_start", r): return f
    f.reg_response = r.b(0)
    r = ctx.call("reg_finish", f.client_reg, ctx.tape(48), pw, f.reg_response, spell(idu), spell(ids), ksf)
    if not step("reg_finish", r): return f
    f.upload, f.export_reg, f.spk_reg, f.ksflog_reg = r.b(0), r.b(1), r.b(2), r.outs[4]
    r = ctx.call("srv_reg_finish", f.upload)
    if not step("srv_reg_finish", r): return f
    f.file = r.b(0)
    if kw.get("registration_only"):
        f.ok = True
        return f
    return login(ctx, f, kw.get("login_pw", pw), kw.get("login_cred", cred),
                 kw.get("srv_context", context), kw.get("cli_context", context),
                 spell(kw.get("srv_idu", idu)), spell(kw.get("srv_ids", ids)),
                 spell(kw.get("cli_idu", idu)), spell(kw.get("cli_ids", ids)),
                 kw.get("login_ksf", ksf), kw.get("login_setup", f.setup),
                 (kw["file"] if "file" in kw else (f.file if file_for_login else None)), step, rejections)


def login(ctx, f, pw, cred, srv_context, cli_context, srv_idu, srv_ids, cli_idu, cli_ids, ksf, setup, file, step=None,
          rejections=0):
    """one login against the registration held in f (overwrites the login fields of f)"""
    L = ctx.L
    if step is None:
        def step(name, r):
            if not r.ok:
                f.failed_at, f.error = name, r.err
                return False
            return True
    f.ok = False
    f.failed_at = f.error = None
    r = ctx.call("login_start", ctx.btape(L.Nsk + 64, rejections), pw)
    if not step("login_start", r): return f
    f.client_login, f.ke1 = r.b(0), r.b(1)
    r = ctx.call("srv_login_start", ctx.tape(L.Nh + 64 + L.Nsk + 16), setup, file, f.ke1, cred, srv_context, srv_idu, srv_ids)
    if not step("srv_login_start", r): return f
    f.server_login, f.ke2 = r.b(0), r.b(1)
    r = ctx.call("login_finish", f.client_login, pw, f.ke2, cli_context, cli_idu, cli_ids, ksf)
    if not step("login_finish", r): return f
    f.ke3, f.session_client, f.export_login, f.spk_login, f.ksflog_login = r.b(0), r.b(1), r.b(2), r.b(3), r.outs[4]
    r = ctx.call("srv_login_finish", f.server_login, f.ke3)
    if not step("srv_login_finish", r): return f
    f.session_server = r.b(0)
    f.ok = True
    return f


def flow_tape(ctx, rejections=0):
    """tape for the in-memory `flow` op (draw order of PROTOCOL.md)"""
    L = ctx.L
    return (ctx.tape(2 * L.Nsk + L.Nh) + ctx.blind_draw(rejections) + ctx.tape(32) + ctx.blind_draw(rejections)
            + ctx.tape(L.Nsk + 32) + ctx.tape(32 + L.Nsk + 32) + ctx.tape(16))


def encodings(f):
    """valid native encoding of each of the eleven decodable types"""
    return {"RegistrationRequest": f.reg_request, "RegistrationResponse": f.reg_response,
            "RegistrationUpload": f.upload, "CredentialRequest": f.ke1, "CredentialResponse": f.ke2,
            "CredentialFinalization": f.ke3, "ServerRegistration": f.file, "ServerSetup": f.setup,
            "ClientRegistration": f.client_reg, "ClientLogin": f.client_login, "ServerLogin": f.server_login}


def fields(L):
    """type -> list of (kind, offset, length); kinds: oe (OPRF element), os (OPRF scalar), kp (KE public key),
    ks (KE private key)"""
    up = [("kp", 0, L.Npk)]
    return {
        "RegistrationRequest": [("oe", 0, L.Noe)],
        "RegistrationResponse": [("oe", 0, L.Noe), ("kp", L.Noe, L.Npk)],
        "RegistrationUpload": up, "ServerRegistration": up,
        "CredentialRequest": [("oe", 0, L.Noe), ("kp", L.Noe + NN, L.Npk)],
        "CredentialResponse": [("oe", 0, L.Noe), ("kp", L.Noe + NN + L.masked + NN, L.Npk)],
        "CredentialFinalization": [],
        "ServerSetup": [("ks", L.Nh, L.Nsk), ("ks", L.Nh + L.Nsk, L.Nsk)],
        "ClientRegistration": [("os", 0, L.Nok), ("oe", L.Nok, L.Noe)],
        "ClientLogin": [("os", 0, L.Nok), ("oe", L.Nok, L.Noe), ("kp", L.Nok + L.Noe + NN, L.Npk),
                        ("ks", L.Nok + L.cred_request, L.Nsk)],
        "ServerLogin": [],
    }


def type_len(L, ty):
    return {"RegistrationRequest": L.reg_request, "RegistrationResponse": L.reg_response,
            "RegistrationUpload": L.upload, "ServerRegistration": L.upload, "CredentialRequest": L.cred_request,
            "CredentialResponse": L.cred_response, "CredentialFinalization": L.finalization,
            "ServerSetup": L.setup, "ClientRegistration": L.client_reg, "ClientLogin": L.client_login,
            "ServerLogin": L.server_login}[ty]


def group_of(L, kind):
    return L.oprf if kind in ("oe", "os") else L.ke


def _be(x, n): return x.to_bytes(n, "big")
def _le(x, n): return x.to_bytes(n, "little")


def w_sqrt(p, v):
    r = pow(v, (p + 1) // 4, p)
    return r if r * r % p == v % p else None


def invalid_elements(group, rnd):
    """list of (label, bytes) of invalid encodings of a group element, of the element length"""
    out = []
    if group in WCURVES:
        p, n, nfe, b = WCURVES[group]
        out.append(("identity-zeros", bytes(nfe + 1)))
        out.append(("x>=p", b"\x02" + _be(p, nfe)))
        out.append(("x=p+1", b"\x03" + _be(p + 1, nfe)) if p + 1 < 256 ** nfe else ("x=maxfield", b"\x03" + b"\xff" * nfe))
        out.append(("x-allff", b"\x02" + b"\xff" * nfe))
        # off-curve x: search a non-residue rhs
        x = rnd.randrange(2, p)
        while w_sqrt(p, (x * x * x - 3 * x + b) % p) is not None:
            x += 1
        out.append(("off-curve", b"\x02" + _be(x, nfe)))
        out.append(("off-curve-odd", b"\x03" + _be(x, nfe)))
        # on-curve x with tags that are not the compressed ones
        x = rnd.randrange(2, p)
        while w_sqrt(p, (x * x * x - 3 * x + b) % p) is None:
            x += 1
        for tag in (0x00, 0x01, 0x04, 0x05, 0x06, 0x07, 0x12, 0x82, 0xff):
            out.append(("tag-%02x" % tag, bytes([tag]) + _be(x, nfe)))
    elif group == "R255":
        out.append(("identity", bytes(32)))
        out.append(("s=p", _le(P25519, 32)))
        out.append(("s=p+2 (non-canonical)", _le(P25519 + 2, 32)))
        out.append(("negative s=1", _le(1, 32)))
        out.append(("s-highbit", _le(2 ** 255 + 4, 32)))
        out.append(("allff", b"\xff" * 32))
        # RFC 9496 A.3 bad encodings (non-square / negative t / y=0)
        for hx_ in ["26948d35ca62e643e26a83177332e6b6afeb9d08e4268b650f1f5bbd8d81d371",
                    "4eac077a713c57b4f4397629a4145982c661f48044dd3f96427d40b147d9742f",
                    "de6a7b00deadc788eb6b6c8d20c0ae96c2f2019078fa604fee5b87d6e989ad7b",
                    "bcab477be20861e01e4a0e295284146a510150d9817763caf1a6f4b422d67042",
                    "2a292df7e32cababbd9de088d1d1abec9fc0440f637ed2fba145094dc14bea08",
                    "f4a9e534fc0d216c44b218fa0c42d99635a0127ee2e53c712f70609649fdff22",
                    "8268436f8c4126196cf64b3c7ddbda90746a378625f9813dd9b8457077256731",
                    "2810e5cbc2cc4d4eece54f61c6f69758e289aa7ab440b3cbeaa21995c2f4232b",
                    "3eb858e78f5a7254d8c9731174a94f76755fd3941c0ac93735c07ba14579630e",
                    "a45fdc55c76448c049a1ab33f17023edfb2be3581e9c7aade8a6125215e04220",
                    "d483fe813c6ba647ebbfd3ec41adca1c6130c2beeee9d9bf065c8d151c5f396e",
                    "8a2e1d30050198c65a54483123960ccc38aef6848e1ec8f5f780e8523769ba32",
                    "32888462f8b486c68ad7dd9610be5192bbeaf3b443951ac1a8118419d9fa097b",
                    "227142501b9d4355ccba290404bde41575b037693cef1f438c47f8fbf35d1165",
                    "5c37cc491da847cfeb9281d407efc41e15144c876e0170b499a96a22ed31e01e",
                    "445425117cb8c90edcbc7c1cc0e74f747f2c1efa5630a967c64f287792a48a4b"]:
            out.append(("rfc9496-bad", bytes.fromhex(hx_)))
    elif group == "X25519":
        small = [0, 1, P25519 - 1,
                 325606250916557431795983626356110631294008115727848805560023387167927233504,
                 39382357235489614581723060781553021112529911719440698176882885853963445705823]
        for u in small:
            out.append(("small-order u=%d.." % (u % 1000), _le(u, 32)))
            if u + P25519 < 2 ** 255:
                out.append(("small-order non-reduced", _le(u + P25519, 32)))
            out.append(("small-order highbit", _le(u + 2 ** 255, 32)))
        out.append(("u=p", _le(P25519, 32)))
        out.append(("u=p+1", _le(P25519 + 1, 32)))
    return out


def invalid_scalars(group, rnd):
    out = []
    if group in WCURVES:
        p, n, nfe, b = WCURVES[group]
        out += [("zero", bytes(nfe)), ("order", _be(n, nfe)), ("order+1", _be(n + 1, nfe)), ("allff", b"\xff" * nfe)]
    elif group == "R255":
        out += [("zero", bytes(32)), ("order", _le(ELL, 32)), ("order+1", _le(ELL + 1, 32)),
                ("highbit", _le(2 ** 255 + 5, 32)), ("allff", b"\xff" * 32)]
    elif group == "X25519":
        out += [("zero", bytes(32)), ("unclamped-low", _le(2 ** 254 + 1, 32)), ("unclamped-high", _le(2 ** 255 + 2 ** 254 + 8, 32)),
                ("no-bit254", _le(8, 32)), ("allff", b"\xff" * 32)]
    return out


def structured_alterations(rnd, m, lo, hi, n_pairs=40, n_random=0):
    """multi-byte alterations of m[lo:hi] that defeat weakened comparisons (XOR / additive checksums, symmetric
    functions, lane-wise or truncated compares): same xor mask at two positions, +d/-d at two positions, swaps of two
    unequal bytes, rotation, reversal, complement, tail/head randomisation; yields (label, bytes)"""
    out = []
    ln = hi - lo
    if ln < 2:
        return out
    for _ in range(n_pairs):
        i, j = rnd.sample(range(lo, hi), 2)
        mask = rnd.randrange(1, 256)
        x = bytearray(m); x[i] ^= mask; x[j] ^= mask
        out.append(("xor %02x at %d and %d" % (mask, i, j), bytes(x)))
        d = rnd.randrange(1, 256)
        x = bytearray(m); x[i] = (x[i] + d) & 0xff; x[j] = (x[j] - d) & 0xff
        out.append(("+%d at %d, -%d at %d" % (d, i, d, j), bytes(x)))
        if m[i] != m[j]:
            x = bytearray(m); x[i], x[j] = x[j], x[i]
            out.append(("swap %d and %d" % (i, j), bytes(x)))
    # word-structured alterations (comparisons folded over 2/4/8/16-byte words or lanes)
    for w in (2, 4, 8, 16, 32):
        if ln >= 2 * w:
            i = lo + rnd.randrange(0, ln - w)
            k = rnd.randrange(1, (hi - i - 1) // w + 1) if (hi - i - 1) // w >= 1 else 0
            if k:
                mask = rnd.randrange(1, 256)
                x = bytearray(m); x[i] ^= mask; x[i + k * w] ^= mask
                out.append(("xor %02x at %d and %d (+%d words of %d)" % (mask, i, i + k * w, k, w), bytes(x)))
            a = lo + w * rnd.randrange(0, ln // w - 1)
            b = a + w * rnd.randrange(1, (hi - a) // w)
            if b + w <= hi and m[a:a + w] != m[b:b + w]:
                x = bytearray(m); x[a:a + w], x[b:b + w] = m[b:b + w], m[a:a + w]
                out.append(("swap %d-byte blocks at %d and %d" % (w, a, b), bytes(x)))
            seg0 = m[lo:hi]
            out.append(("rotate by %d" % w, m[:lo] + seg0[w:] + seg0[:w] + m[hi:]))
    seg = m[lo:hi]
    for k in (1, ln // 2, ln - 1):
        out.append(("rotate by %d" % k, m[:lo] + seg[k:] + seg[:k] + m[hi:]))
    out.append(("reversed", m[:lo] + seg[::-1] + m[hi:]))
    out.append(("complemented", m[:lo] + bytes(b ^ 0xff for b in seg) + m[hi:]))
    for cut in sorted(set([1, 8, 16, ln // 2, ln - 16 if ln > 16 else 1, ln - 1])):
        if 0 < cut < ln:
            out.append(("tail from %d randomised" % cut, m[:lo + cut] + bytes(rnd.getrandbits(8) for _ in range(ln - cut)) + m[hi:]))
            out.append(("head up to %d randomised" % cut, m[:lo] + bytes(rnd.getrandbits(8) for _ in range(cut)) + m[lo + cut:]))
    for _ in range(n_random):
        out.append(("random", m[:lo] + bytes(rnd.getrandbits(8) for _ in range(ln)) + m[hi:]))
    return [(l, b) for (l, b) in out if b != m]


def related_passwords(pw):
    """passwords that a normalising / pre-hashing / truncating implementation would confuse with pw"""
    import hashlib
    out = [pw + b"!", pw + b"\n", pw + b"\r\n", pw + b" ", pw + b"\x00", pw[:-1], pw.lower(), pw.upper(), pw.strip(),
           hashlib.sha256(pw).digest(), hashlib.sha384(pw).digest(), hashlib.sha512(pw).digest(),
           pw[:64], pw[:128], pw[:255], pw[:256], pw[1:], pw[::-1]]
    seen, res = set(), []
    for x in out:
        if x != pw and x not in seen:
            seen.add(x); res.append(x)
    return res


def persist(ctx, ty, state, fmt):
    """a pending state saved to and reloaded from a session store in the given encoding (native bytes - already what the
    line protocol does between steps -, serde-bincode, serde-json).  The model's reload is the identity (theorems of C13),
    so the model side returns the state unchanged; the code side must give back a state that behaves the same."""
    if fmt in (None, "native", "none") or state is None:
        return state
    r = ctx.call("serde_enc", ty, fmt, state, impl_only=True)
    if r is None:
        return state
    if not ctx.expect(r.ok, "pending %s saves through serde-%s (%s)" % (ty, fmt, r.err)):
        return state
    rr = ctx.call("serde_dec", ty, fmt, r.b(0), impl_only=True)
    if not ctx.expect(rr.ok, "pending %s reloads through serde-%s (%s)" % (ty, fmt, rr.err)):
        return state
    ctx.expect(rr.b(0) == state, "pending %s is unchanged by a save and reload through serde-%s" % (ty, fmt))
    return rr.b(0)


def fallible_rng_same(ctx, r, op, *args):
    """`<op>!` (harness only, PROTOCOL.md): the generator's fallible entry point reports an error while the infallible
    ones keep reading the tape.  The library must either report an error or answer exactly as `<op>` did (r): a
    swallowed generator error must never be replaced by predictable bytes."""
    q = ctx.call(op + "!", *args, impl_only=True)
    if q is None:
        return
    ctx.expect(q.status in ("OK", "ERR") and (q.status == "ERR" or q.payload == r.payload),
               "%s with a generator whose fallible entry point fails: an error or the same answer, never other bytes (%s)" % (op, q.status))


def x25519_clamp(k):
    c = bytearray(k); c[0] &= 248; c[31] &= 127; c[31] |= 64
    return bytes(c)


RFC7748_VECTORS = [  # RFC 7748 section 5.2: (scalar, u, X25519(scalar, u)); the function clamps, so clamp(scalar) gives the same
    ("a546e36bf0527c9d3b16154b82465edd62144c0ac1fc5a18506a2244ba449ac4", "e6db6867583030db3594c1a424b15f7c726624ec26b3353b10a903a6d0ab1c4c",
     "c3da55379de9c6908e94ea4df28d084f32eccf03491c71f754b4075577a28552"),
    ("4b66e9d4d1b4673c5ad22691957d6af5c11b6421e0ea01d42ca4169e7918ba0d", "e5210f12786811d3f4b7959d0538ae2c31dbe7106fc03c3efc4cd549c715a493",
     "95cbde9476e8907d7aade45cb4b873f88b595a68799fa152e6f8f7647aac7957")]


def x25519_arbitrary_shares(ctx, n):
    """Curve25519 as key-exchange group: a peer's share is ANY 32-byte u-coordinate that is not of small order - points on
    the twist and points with a torsion component included.  The shared secret must be RFC 7748's X25519 on all of them
    (the RFC's own vectors as an anchor; byte comparison with the model's Montgomery ladder for the rest), not a
    multiplication that is only right on the prime-order subgroup."""
    L, rnd = ctx.L, ctx.rnd
    if L.ke != "X25519":
        return
    for k, u, want in RFC7748_VECTORS:
        r = ctx.call("ke_dh", bytes.fromhex(u), x25519_clamp(bytes.fromhex(k)))
        ctx.expect(r.ok and r.b(0) == bytes.fromhex(want), "RFC 7748 section 5.2 vector (%s..)" % k[:8])
    sks = [x25519_clamp(ctx.tape(32)) for _ in range(3)] + [(2 ** 254).to_bytes(32, "little"), (2 ** 255 - 8).to_bytes(32, "little")]
    us = [v.to_bytes(32, "little") for v in range(2, 2 + n)] + [ctx.tape(32) for _ in range(n)]
    us += [(2 ** 255 - 19 + v).to_bytes(32, "little") for v in (2, 3, 9)]                  # non-reduced encodings
    us += [bytes(31) + b"\x80", (9).to_bytes(31, "little") + b"\x80"]                     # bit 255 set (ignored by X25519)
    acc = 0
    for i, u in enumerate(us):
        d = ctx.call("ke_pk", u)
        if not d.ok:
            continue            # small order / identity: refused by the decoder (C11)
        ctx.expect(d.b(0) == u, "an accepted u-coordinate re-encodes to the bytes received")
        acc += 1
        for sk in (sks[i % len(sks)], sks[(i + 1) % len(sks)]):
            r = ctx.call("ke_dh", u, sk)
            ctx.expect(r.ok and len(r.b(0)) == 32, "shared secret with an arbitrary peer share")
    ctx.expect(acc >= n, "most arbitrary u-coordinates are acceptable peer shares (%d of %d)" % (acc, len(us)))
    # an honest public key shifted by the small-order points: seven other public keys (each re-encodes to ITSELF, not to
    # the prime-order component) with the same shared secret under a clamped scalar
    base = ctx.call("ke_pub", sks[0])
    if base.ok:
        shifts = x25519_torsion_shifts(base.b(0)) or []
        ref = ctx.call("ke_dh", base.b(0), sks[1])
        for t_, u_ in enumerate(shifts):
            d = ctx.call("ke_pk", u_)
            ctx.expect(d.ok and d.b(0) == u_, "public key + small-order point %d decodes to itself" % (t_ + 1))
            r = ctx.call("ke_dh", u_, sks[1])
            ctx.expect(r.ok and ref.ok and r.b(0) == ref.b(0), "... and gives the same X25519 output (clamped scalars clear the cofactor)")


def alternative_point_encodings(group, rnd, k=3):
    """encodings of VALID points in forms and lengths the fixed-size fields never carry: SEC1 uncompressed (04||x||y),
    hybrid (06/07||x||y), the one-byte identity, compressed with trailing bytes; ristretto255 / Curve25519: doubled and
    halved strings.  Only the bare key decoders see them at these lengths; they must be refused, never crash."""
    out = []
    if group in WCURVES:
        p, n, nfe, b = WCURVES[group]
        for _ in range(k):
            x = rnd.randrange(2, p)
            while w_sqrt(p, (x * x * x - 3 * x + b) % p) is None:
                x += 1
            y = w_sqrt(p, (x * x * x - 3 * x + b) % p)
            for yy in (y, p - y):
                out.append(("uncompressed", b"\x04" + _be(x, nfe) + _be(yy, nfe)))
                out.append(("hybrid", bytes([6 + (yy & 1)]) + _be(x, nfe) + _be(yy, nfe)))
                out.append(("compressed+trailing", bytes([2 + (yy & 1)]) + _be(x, nfe) + b"\x00"))
                out.append(("compressed+y", bytes([2 + (yy & 1)]) + _be(x, nfe) + _be(yy, nfe)))
        out.append(("identity-1-byte", b"\x00"))
        out.append(("empty", b""))
        out.append(("uncompressed-zeros", b"\x04" + bytes(2 * nfe)))
    else:
        v = bytes(rnd.getrandbits(8) for _ in range(32))
        out += [("64 bytes", v + v), ("16 bytes", v[:16]), ("33 bytes", v + b"\x00"), ("31 bytes", v[:31]), ("empty", b"")]
    return out


# ---------------------------------------------------------------- Curve25519: shifting a point by small-order points
_P = 2 ** 255 - 19
_D = (-121665 * pow(121666, _P - 2, _P)) % _P
_ELL = 2 ** 252 + 27742317777372353535851937790883648493


def _sqrt25519(a):
    a %= _P
    r = pow(a, (_P + 3) // 8, _P)
    if (r * r - a) % _P:
        r = r * pow(2, (_P - 1) // 4, _P) % _P
    return r if (r * r - a) % _P == 0 else None


def _ed_add(Pt, Q):
    (x1, y1), (x2, y2) = Pt, Q
    t = _D * x1 * x2 * y1 * y2 % _P
    return ((x1 * y2 + x2 * y1) * pow(1 + t, _P - 2, _P) % _P, (y1 * y2 + x1 * x2) * pow(1 - t, _P - 2, _P) % _P)


def _ed_mul(Pt, k):
    R = (0, 1)
    while k:
        if k & 1:
            R = _ed_add(R, Pt)
        Pt = _ed_add(Pt, Pt)
        k >>= 1
    return R


def _torsion8():
    """a point of order exactly 8 on edwards25519 (found by clearing the prime-order part of arbitrary points)"""
    y = 3
    while True:
        x2 = (y * y - 1) * pow(_D * y * y + 1, _P - 2, _P) % _P
        x = _sqrt25519(x2)
        if x is not None:
            T = _ed_mul((x, y), _ELL)
            if _ed_mul(T, 4) != (0, 1):
                return T
        y += 1


def x25519_torsion_shifts(u_bytes):
    """the u-coordinates of P + T for the 7 non-trivial small-order points T, where P is a point of edwards25519 with
    Montgomery u-coordinate u (None if u is on the twist).  X25519 with a clamped scalar gives the same shared secret
    for all of them - they are DIFFERENT public keys that a decoder must keep apart."""
    u = int.from_bytes(u_bytes, "little") % (2 ** 255) % _P
    if (u + 1) % _P == 0:
        return None
    y = (u - 1) * pow(u + 1, _P - 2, _P) % _P
    x = _sqrt25519((y * y - 1) * pow(_D * y * y + 1, _P - 2, _P))
    if x is None:
        return None
    T8 = _torsion8()
    out, T = [], T8
    for _ in range(7):
        X, Y = _ed_add((x, y), T)
        if (1 - Y) % _P:
            out.append(((1 + Y) * pow(1 - Y, _P - 2, _P) % _P).to_bytes(32, "little"))
        T = _ed_add(T, T8)
    return out
