"""C01 - honest registration + login always agree on keys (production build, all suites, boundary lengths).
Oracle: every step Ok; client/server session keys equal; export key and server public key as at registration;
server public key = public key of the setup's static key.  Correspondence: verdicts + equality pattern."""
from checks.common import *

LEVEL = "proof"
RULE = ("honest flows through serialised bytes at every hop and in memory (`flow`), parameters drawn from the grid "
        "password {'',1,binary,255,256,65535} x credential id {'',short,300,70000} x identities/context "
        "{absent,'',short,255,256,65535,explicit public-key spelling} x ksf {none,default,reverse} x tapes "
        "{first draw valid, forced rejections}; non-trivial = every API call of a flow; distinct = distinct (suite, op, args)")
ASSUMPTIONS = ["concrete group laws are hypotheses of the generic theorem (DESIGN.md 6)"]

PWS = [b"", b"x", bytes(range(256)) * 2, b"p" * 255, b"q" * 256, b"\x00\xff" * 32767 + b"z"]
CREDS = [b"", b"alice@example.com", b"c" * 300, b"d" * 70000]
IDS = [None, b"", b"id", b"i" * 255, b"j" * 256, b"k" * 65535]
KSFS = ["~", "D", "R"]


def honest(ctx, pw, cred, context, idu, ids, ksf, rejections):
    ctx.nontrivial = True
    L = ctx.L
    f = honest_flow(ctx, pw, cred, context, idu, ids, ksf, stop_on_error=False, rejections=rejections, count=True)
    ctx.expect(f.ok, "every step of an honest registration + login succeeds (failed at %s: %s)" % (f.failed_at, f.error))
    if f.ok:
        ctx.expect(f.session_client == f.session_server, "client and server session keys are identical")
        ctx.expect(f.export_login == f.export_reg, "login returns the registration's export key")
        ctx.expect(f.spk_login == f.spk_reg, "login reports the server public key seen at registration")
        r = ctx.call("ke_pub", f.setup[L.Nh:L.Nh + L.Nsk])
        ctx.expect(r.ok and r.b(0) == f.spk_reg, "reported server public key is the setup's public key")


def spelled(ctx, pw, cred, which):
    """defaults at registration, explicit public-key spelling at login (and the converse)"""
    ctx.nontrivial = True
    kw = {}
    if which == "login-explicit":
        f = honest_flow(ctx, pw, cred, None, None, None, "~", stop_on_error=False, count=True,
                        srv_idu="@cpk", srv_ids="@spk", cli_idu="@cpk", cli_ids="@spk")
    elif which == "server-explicit":
        f = honest_flow(ctx, pw, cred, None, None, None, "~", stop_on_error=False, count=True,
                        srv_idu="@cpk", srv_ids="@spk")
    else:  # registration spells the server key explicitly, login uses the defaults
        f = honest_flow(ctx, pw, cred, None, None, "@spk", "~", stop_on_error=False, count=True,
                        srv_ids=None, cli_ids=None)
    ctx.expect(f.ok and f.session_client == f.session_server and f.export_login == f.export_reg,
               "explicit spelling of a default identity is equivalent to leaving it absent (%s; failed at %s: %s)"
               % (which, f.failed_at, f.error))


def default_ksf(ctx, k_reg, k_login):
    """suites whose default stretching function is NOT the identity: leaving the instance absent and passing the default
    instance explicitly are the same function - registration under one spelling, login under the other, keys agree"""
    ctx.nontrivial = True
    f = honest_flow(ctx, b"pw", b"alice", b"ctx", None, None, k_reg, stop_on_error=False, count=True, login_ksf=k_login)
    ctx.expect(f.ok and f.session_client == f.session_server and f.export_login == f.export_reg,
               "registered with ksf %s, logged in with ksf %s (suite default is not the identity): keys agree (%s at %s)"
               % (k_reg, k_login, f.error, f.failed_at))
    t = flow_tape(ctx)
    r = ctx.call("flow", 31, "bincode", t, b"pw", b"u", None, None, None, k_reg, model_args=[t, b"pw", b"u", None, None, None, k_reg])
    ctx.expect(r.ok, "in-memory flow with persisted states under the default instance (%s)" % r.err)


def inmem(ctx, pw, cred, context, idu, ids, ksf, rejections):
    ctx.nontrivial = True
    t = flow_tape(ctx, rejections)
    # honest parties also persist their state: every state saved and reloaded through one of the encodings
    mask, fmt = [(0, "none"), (31, "bincode"), (31, "json"), (31, "native")][(len(pw) + len(cred) + rejections) % 4]
    r = ctx.call("flow", mask, fmt, t, pw, cred, context, idu, ids, ksf, model_args=[t, pw, cred, context, idu, ids, ksf])
    ctx.expect(r.ok, "in-memory honest flow succeeds (%s)" % r.err)
    if r.ok:
        o = r.outs
        ctx.expect(o[10] == o[11], "session keys agree")
        ctx.expect(o[4] == o[12], "export key as at registration")
        ctx.expect(o[5] == o[13], "server public key as at registration")


def patterned_tape(ctx, pw, pattern):
    """honest flow on tapes whose bytes (after a valid blind chunk) are a constant or a short repeating pattern:
    nonces, seeds and the OPRF seed at their extreme values"""
    ctx.nontrivial = True
    L = ctx.L
    class P:
        pass
    fill = {"zeros": b"\x00", "ones": b"\xff", "01": b"\x01", "ramp": bytes(range(256)), "7f80": b"\x7f\x80"}[pattern]
    real_tape = ctx.tape
    def tape(n):
        return (fill * (n // len(fill) + 1))[:n]
    ctx.tape = tape
    try:
        f = honest_flow(ctx, pw, b"alice", b"ctx", None, None, "~", stop_on_error=False, count=True)
    finally:
        ctx.tape = real_tape
    # the blind chunk is drawn by blind_draw() from ctx.tape too: for patterns that are not a valid scalar the
    # sampler must reject and run out of tape, which is a resource error, never a wrong result
    if f.ok:
        ctx.expect(f.session_client == f.session_server and f.export_login == f.export_reg, "keys agree on the %s tape" % pattern)
    else:
        ctx.expect(f.error == "Tape", "on the %s tape the only failure is an exhausted tape (%s at %s)" % (pattern, f.error, f.failed_at))


def cases(tier, seed):
    rnd = random.Random(seed)
    out = []
    per = 18 if tier == "quick" else 160
    for si, s in enumerate(suites_for(tier, seed)):
        grid = []
        # every value of every dimension at least once, rest random
        for i in range(per):
            grid.append(dict(pw=PWS[i % len(PWS)] if i < len(PWS) else rnd.choice(PWS),
                             cred=CREDS[i % len(CREDS)] if i < 8 else rnd.choice(CREDS),
                             context=IDS[(i + 1) % len(IDS)] if i < 12 else rnd.choice(IDS),
                             idu=IDS[(i + 2) % len(IDS)] if i < 12 else rnd.choice(IDS),
                             ids=IDS[(i + 3) % len(IDS)] if i < 12 else rnd.choice(IDS),
                             ksf=KSFS[i % 3], rejections=(2 if i % 5 == 4 else 0)))
        # parameters that coincide: both identities equal (to each other, to the context, to the credential identifier),
        # both at the maximal length, everything empty - honest parties may choose any of these
        same = [dict(pw=b"pw", cred=b"same", context=b"same", idu=b"same", ids=b"same", ksf="~", rejections=0),
                dict(pw=b"", cred=b"", context=b"", idu=b"", ids=b"", ksf="D", rejections=0),
                dict(pw=b"pw", cred=b"u", context=None, idu=b"k" * 65535, ids=b"k" * 65535, ksf="~", rejections=0),
                dict(pw=b"pw", cred=b"u", context=b"k" * 65535, idu=b"m" * 32768, ids=b"n" * 32768, ksf="~", rejections=0),
                dict(pw=b"example.com", cred=b"example.com", context=None, idu=b"example.com", ids=b"example.com", ksf="R", rejections=1)]
        grid += same if tier == "thorough" else [same[(si + seed) % len(same)], same[(si + seed + 2) % len(same)]]
        for i, g in enumerate(grid):
            out.append(dict(script=honest if i % 3 else inmem, suite=s, seed=seed * 100000 + si * 1000 + i, mode="pattern", params=g))
        for k, pat in enumerate(("zeros", "ones", "01", "ramp", "7f80")):
            out.append(dict(script=patterned_tape, suite=s, seed=seed * 100000 + si * 1000 + 800 + k, mode="pattern", params=dict(pw=b"pw", pattern=pat)))
        for w in ("login-explicit", "server-explicit", "registration-explicit"):
            out.append(dict(script=spelled, suite=s, seed=seed * 100000 + si * 1000 + 900, mode="pattern",
                            params=dict(pw=b"pw", cred=b"u", which=w)))
    for zi, zs in enumerate(Z_SUITES):
        for j, (a, b) in enumerate((("~", "D"), ("D", "~"), ("~", "~"))):
            out.append(dict(script=default_ksf, suite=zs, seed=seed * 100000 + 95000 + zi * 10 + j, mode="pattern", params=dict(k_reg=a, k_login=b)))
    return out
