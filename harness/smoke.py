#!/usr/bin/env python3
"""Smoke test of oke-harness (see /verif/PROTOCOL.md): drives the binary over all 20 suites."""
import hashlib
import subprocess
import sys
import time

BIN = "/verif/harness/target/release/oke-harness"
OPRF = ["R255", "P256", "P384", "P521"]
KE = ["R255", "P256", "P384", "P521", "X25519"]
TYPES = {  # dec type -> how the smoke test obtains an instance
    "RegistrationRequest": "req", "RegistrationResponse": "resp", "RegistrationUpload": "upload",
    "CredentialRequest": "ke1", "CredentialResponse": "ke2", "CredentialFinalization": "ke3",
    "ServerRegistration": "file", "ServerSetup": "setup", "ClientRegistration": "creg",
    "ClientLogin": "clog", "ServerLogin": "slog",
}


class Harness:
    def __init__(self):
        self.p = subprocess.Popen([BIN], stdin=subprocess.PIPE, stdout=subprocess.PIPE,
                                  stderr=subprocess.PIPE, text=True, bufsize=1)
        self.n = 0

    def raw(self, line):
        self.p.stdin.write(line + "\n")
        self.p.stdin.flush()
        return self.p.stdout.readline().rstrip("\n")

    def call(self, suite, op, *args):
        self.n += 1
        tag = f"q{self.n}"
        out = self.raw(" ".join([tag, suite, op, *map(str, args)])).split(" ")
        assert out[0] == tag, out
        return out[1], out[2:]

    def ok(self, suite, op, *args):
        st, outs = self.call(suite, op, *args)
        assert st == "OK", (suite, op, st, outs)
        return outs

    def close(self):
        self.p.stdin.close()
        err = self.p.stderr.read()
        assert self.p.wait() == 0
        assert err == "", "stderr not silent: " + err[:300]


def prng(seed, n, low=False):
    out = bytearray()
    i = 0
    while len(out) < n:
        out += hashlib.sha256(f"{seed}/{i}".encode()).digest()
        i += 1
    out = out[:n]
    if low:  # every 66-byte big-endian chunk at any offset is a valid P-521 scalar
        out = bytearray(b & 1 for b in out)
    return out.hex()


def h(b):
    return b.hex() if b else "-"


def check(cond, what):
    if not cond:
        print("FAIL:", what)
        sys.exit(1)


def suite_test(hn, suite):
    oprf, ke = suite.split("/")
    low = oprf == "P521"
    nh, noe, nok, npk, nsk = map(int, hn.ok(suite, "lens"))
    pw, cred, ctx, idu, ids = h(b"pass\x00word"), h(b"user-1"), h(b"ctx"), h(b"alice"), "-"
    T = prng("flow-" + suite, 4000, low)

    # -- flow: reload variants agree with the in-memory run -----------------------------------
    base = hn.ok(suite, "flow", 0, "none", T, pw, cred, ctx, idu, ids, "~")
    check(len(base) == 15, "flow output count")
    (setup, req, resp, upload, ek_reg, spk_reg, file, ke1, ke2, ke3, skc, sks, ek_log, spk_log,
     consumed) = base
    check(skc == sks and ek_reg == ek_log and spk_reg == spk_log, f"{suite} flow keys")
    for fmt in ["native", "bincode", "json"]:
        for mask in [31, 1, 2, 4, 8, 16]:
            got = hn.ok(suite, "flow", mask, fmt, T, pw, cred, ctx, idu, ids, "~")
            check(got == base, f"{suite} flow reload={mask} fmt={fmt} differs")

    # -- stepwise ops replay the same tape and agree with flow --------------------------------
    tape, pos = bytes.fromhex(T), 0

    def rest():
        return tape[pos:].hex()

    s_setup, c = hn.ok(suite, "setup_new", rest())
    check(int(c) == nsk + nh + nsk, f"{suite} setup consumption")
    pos += int(c)
    creg, s_req, c = hn.ok(suite, "reg_start", rest(), pw)
    pos += int(c)
    (s_resp,) = hn.ok(suite, "srv_reg_start", s_setup, s_req, cred)
    s_upload, s_ek, s_spk, c, klog = hn.ok(suite, "reg_finish", creg, rest(), pw, s_resp, idu, ids, "~")
    check(int(c) == 32 and klog.count(":") == 1, f"{suite} reg_finish consumed/ksflog")
    kin, kout = klog.split(":")
    check(kin == kout and len(kin) == 2 * nh, f"{suite} default ksf is identity")
    pos += int(c)
    (s_file,) = hn.ok(suite, "srv_reg_finish", s_upload)
    clog, s_ke1, c = hn.ok(suite, "login_start", rest(), pw)
    pos += int(c)
    lt = rest()
    slog, s_ke2, c = hn.ok(suite, "srv_login_start", lt, s_setup, s_file, s_ke1, cred, ctx, idu, ids)
    check(int(c) == 32 + nsk + 32, f"{suite} srv_login_start consumption")
    pos += int(c)
    s_ke3, s_skc, s_ekl, s_spkl, klog2 = hn.ok(suite, "login_finish", clog, pw, s_ke2, ctx, idu, ids, "D")
    check(klog2 == klog, f"{suite} login ksflog")
    (s_sks,) = hn.ok(suite, "srv_login_finish", slog, s_ke3)
    check(s_skc == s_sks, f"{suite} stepwise session keys differ")
    step = [s_setup, s_req, s_resp, s_upload, s_ek, s_spk, s_file, s_ke1, s_ke2, s_ke3, s_skc,
            s_sks, s_ekl, s_spkl, str(pos)]
    check(step == base, f"{suite} stepwise != flow")

    # wrong password / wrong context are rejected
    st, outs = hn.call(suite, "login_finish", clog, h(b"wrong"), s_ke2, ctx, idu, ids, "~")
    check((st, outs) == ("ERR", ["InvalidLogin"]), f"{suite} wrong password: {st} {outs}")
    st, outs = hn.call(suite, "login_finish", clog, pw, s_ke2, "~", idu, ids, "~")
    check((st, outs) == ("ERR", ["InvalidLogin"]), f"{suite} wrong context: {st} {outs}")

    # -- ext_* ops ----------------------------------------------------------------------------
    ssk = s_setup[2 * nh:2 * (nh + nsk)]
    x_setup, c, calls = hn.ok(suite, "ext_setup", tape[nsk:].hex(), ssk, 0)
    check((x_setup, int(c), calls) == (s_setup, nh + nsk, "P"), f"{suite} ext_setup")
    check(hn.call(suite, "ext_setup", tape[nsk:].hex(), ssk, 1) == ("ERR", ["Lib:Custom:1"]), "ext_setup failat=1")
    check(hn.ok(suite, "ext_dec_setup", s_setup, 0) == [s_setup, "P"], f"{suite} ext_dec_setup")
    check(hn.call(suite, "ext_dec_setup", s_setup, 1) == ("ERR", ["Lib:Custom:1"]), "ext_dec_setup failat=1")
    check(hn.ok(suite, "ext_srv_reg_start", s_setup, s_req, cred, 1) == [s_resp, "-"], f"{suite} ext_srv_reg_start")
    x = hn.ok(suite, "ext_srv_login_start", lt, s_setup, s_file, s_ke1, cred, ctx, idu, ids, 0)
    check(x == [slog, s_ke2, c_str(32 + nsk + 32), "PD"], f"{suite} ext_srv_login_start: {x[2:]}")
    for failat in [1, 2]:
        r = hn.call(suite, "ext_srv_login_start", lt, s_setup, s_file, s_ke1, cred, ctx, idu, ids, failat)
        check(r == ("ERR", [f"Lib:Custom:{failat}"]), f"{suite} ext_srv_login_start failat={failat}: {r}")
    check(hn.ok(suite, "ext_srv_login_start", lt, s_setup, s_file, s_ke1, cred, ctx, idu, ids, 3)[3] == "PD", "failat=3")

    # -- dec / serde round trips ----------------------------------------------------------------
    objs = dict(req=s_req, resp=s_resp, upload=s_upload, ke1=s_ke1, ke2=s_ke2, ke3=s_ke3,
                file=s_file, setup=s_setup, creg=creg, clog=clog, slog=slog)
    for ty, key in TYPES.items():
        b = objs[key]
        check(hn.ok(suite, "dec", ty, b) == [b], f"{suite} dec {ty}")
        st, outs = hn.call(suite, "dec", ty, b + "00")
        check(st == "ERR", f"{suite} dec {ty} with trailing byte accepted: {outs}")
        for fmt in ["bincode", "json"]:
            (e,) = hn.ok(suite, "serde_enc", ty, fmt, b)
            check(hn.ok(suite, "serde_dec", ty, fmt, e) == [b], f"{suite} serde {fmt} {ty}")
        check(hn.call(suite, "serde_dec", ty, "json", "7b") == ("ERR", ["SerdeDecode"]), "SerdeDecode")
    check(hn.call(suite, "serde_enc", "ServerSetup", "json", "00") == ("ERR", ["Arg3:Lib:SizeError"]), "Arg3")

    # -- flow_nofile ------------------------------------------------------------------------------
    nf = hn.ok(suite, "flow_nofile", 25, "bincode", T, pw, cred, ctx, idu, ids, "~")
    check(len(nf) == 5 and nf[0] == setup and nf[3].startswith("ERR:"), f"{suite} flow_nofile {nf[3:]}")
    nf0 = hn.ok(suite, "flow_nofile", 0, "none", T, pw, cred, ctx, idu, ids, "~")
    check(nf == nf0, f"{suite} flow_nofile reload differs")

    # -- key exchange group ops -------------------------------------------------------------------
    sk, c = hn.ok(suite, "ke_random_sk", prng("sk-" + suite, 200, ke == "P521"))
    check(len(sk) == 2 * nsk, "ke_random_sk")
    (pk,) = hn.ok(suite, "ke_pub", sk)
    check(hn.ok(suite, "ke_sk", sk) == [sk] and hn.ok(suite, "ke_pk", pk) == [pk], "ke_sk/ke_pk")
    sk2, pk2 = hn.ok(suite, "ke_derive", prng("seed-" + suite, nsk))
    check(hn.ok(suite, "ke_pub", sk2) == [pk2], "ke_derive/ke_pub")
    check(hn.ok(suite, "ke_dh", pk, sk2) == hn.ok(suite, "ke_dh", pk2, sk), f"{suite} dh commutes")
    check(hn.call(suite, "ke_dh", "00", sk)[1][0].startswith("Arg1:"), "ke_dh Arg1")
    check(hn.call(suite, "ke_dh", pk, "00")[1][0].startswith("Arg2:"), "ke_dh Arg2")
    check(hn.call(suite, "ke_derive", "00")[0] == "BADREQ", "ke_derive BADREQ")
    check(spk_reg == hn.ok(suite, "ke_pub", ssk)[0], "server_s_pk is the setup key")

    # -- errors -----------------------------------------------------------------------------------
    check(hn.call(suite, "setup_new", tape[:nsk + nh + nsk - 1].hex()) == ("ERR", ["Tape"]), "ERR Tape")
    check(hn.call(suite, "reg_finish", "00", "-", pw, s_resp, "~", "~", "~")[1][0].startswith("Arg1:"), "Arg1")
    check(hn.call(suite, "reg_finish", creg, "-", pw, "00", "~", "~", "~")[1][0].startswith("Arg4:"), "Arg4")
    check(hn.call(suite, "reg_finish", creg, "-", pw, s_resp, "~", "~", "~") == ("ERR", ["Tape"]), "reg_finish Tape")
    check(hn.call(suite, "reg_finish", creg, rest(), pw, s_resp, "~", "~", "F") == ("ERR", ["Lib:KsfError"]), "KsfError")
    check(hn.call(suite, "reg_finish", creg, rest(), pw, s_resp, "~", "~", "T00:00")[0] == "BADREQ", "T ksf")
    check(hn.call(suite, "reg_finish", creg, rest(), pw, s_req + "00" * (npk), "~", "~", "~")[0] == "ERR", "reflected/garbage resp")
    return int(consumed)


def c_str(n):
    return str(n)


def ksf_test(hn, suite):
    low = suite.startswith("P521")
    pw, cred = h(b"pw"), h(b"id")
    T = prng("ksf-" + suite, 4000, low)
    base = hn.ok(suite, "flow", 0, "none", T, pw, cred, "~", "~", "~", "~")
    check(hn.ok(suite, "flow", 0, "none", T, pw, cred, "~", "~", "~", "D") == base, "ksf D == ~")
    seen = {tuple(base)}
    for k in ["R", "X5a", "A8,1,1", "A"]:
        t0 = time.time()
        out = hn.ok(suite, "flow", 31, "json", T, pw, cred, "~", "~", "~", k)
        check(out[10] == out[11], f"{suite} ksf {k} session keys")
        check(out[:3] == base[:3] and out[3] != base[3], f"{suite} ksf {k} must change the upload only")
        check(tuple(out) not in seen, f"{suite} ksf {k} not distinct")
        seen.add(tuple(out))
        print(f"   ksf {k:7s} flow ok ({time.time() - t0:.2f}s)")
    check(hn.call(suite, "flow", 0, "none", T, pw, cred, "~", "~", "~", "F") == ("ERR", ["Lib:KsfError@3"]), "flow F")
    check(hn.call(suite, "flow", 0, "none", T, pw, cred, "~", "~", "~", "A1,1,1")[0] == "BADREQ", "bad argon params")
    # stepwise with a logged non-identity ksf
    setup, _ = hn.ok(suite, "setup_new", T)
    creg, req, _ = hn.ok(suite, "reg_start", T, pw)
    (resp,) = hn.ok(suite, "srv_reg_start", setup, req, cred)
    *_, klog = hn.ok(suite, "reg_finish", creg, T, pw, resp, "~", "~", "R")
    kin, kout = klog.split(":")
    check(bytes.fromhex(kin)[::-1] == bytes.fromhex(kout), "ksf R log")
    *_, klog = hn.ok(suite, "reg_finish", creg, T, pw, resp, "~", "~", "A8,1,1")
    kin, kout = klog.split(":")
    try:
        from argon2.low_level import hash_secret_raw, Type  # optional cross-check
        ref = hash_secret_raw(bytes.fromhex(kin), b"\0" * 16, 1, 8, 1, len(kin) // 2, Type.ID, 0x13)
        check(ref.hex() == kout, "argon2 cross-check")
        print("   argon2 cross-check against argon2-cffi ok")
    except ImportError:
        pass


def main():
    hn = Harness()
    check(hn.raw("") .startswith("- BADREQ"), "empty line")
    check(hn.raw("t R255/R255").startswith("t BADREQ"), "short line")
    check(hn.raw("t R255/R255 nope").startswith("t BADREQ"), "unknown op")
    check(hn.raw("t R255/R256 lens").startswith("t BADREQ"), "unknown suite")
    check(hn.raw("t R255/R255 lens 00").startswith("t BADREQ"), "arg count")
    check(hn.raw("t R255/R255 setup_new 0G").startswith("t BADREQ"), "bad hex")
    check(hn.raw("t1 R255/R255 lens") == "t1 OK 64 32 32 32 32", "lens R255")
    check(hn.raw("t1 P256/P384 lens") == "t1 OK 32 33 32 49 48", "lens P256/P384")
    check(hn.raw("t1 P521/X25519 lens") == "t1 OK 64 67 66 32 32", "lens P521/X25519")
    t0 = time.time()
    for o in OPRF:
        for k in KE:
            suite = f"{o}/{k}"
            t1 = time.time()
            consumed = suite_test(hn, suite)
            print(f"ok {suite:12s} flow consumed={consumed:4d}  ({time.time() - t1:.2f}s)")
    for suite in ["R255/R255", "P256/P256"]:
        print("ksf variants on", suite)
        ksf_test(hn, suite)
    # rejection sampling on a fully random tape (P-521 blinds accept ~1/128 of the chunks)
    T = prng("p521-random", 120000)
    out = hn.ok("P521/P521", "flow", 31, "bincode", T, "70", "71", "~", "~", "~", "~")
    check(out[10] == out[11], "P521 random tape")
    print(f"ok P521/P521 on a uniformly random tape: consumed={out[14]}")
    hn.close()
    print(f"ALL OK: {hn.n} requests in {time.time() - t0:.1f}s")


if __name__ == "__main__":
    main()
