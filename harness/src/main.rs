//! oke-harness: stateless line-protocol server around the real opaque-ke crate.
//! The protocol is specified in /verif/PROTOCOL.md ("the Rust harness (real crate)" side).
#![allow(clippy::type_complexity)]

use std::cell::RefCell;
use std::convert::Infallible;
use std::io::{BufRead, Write};
use std::panic::{self, AssertUnwindSafe};

use generic_array::typenum::Unsigned;
use generic_array::{ArrayLength, GenericArray};
use opaque_ke::errors::{InternalError, ProtocolError};
use opaque_ke::key_exchange::group::KeGroup;
use opaque_ke::key_exchange::tripledh::TripleDh;
use opaque_ke::keypair::{KeyPair, PrivateKey, PublicKey, SecretKey};
use opaque_ke::ksf::Ksf;
use opaque_ke::rand::{CryptoRng, Error as RandError, RngCore};
use opaque_ke::{
    CipherSuite, ClientLogin, ClientLoginFinishParameters, ClientRegistration,
    ClientRegistrationFinishParameters, CredentialFinalization, CredentialRequest,
    CredentialResponse, Identifiers, RegistrationRequest, RegistrationResponse,
    RegistrationUpload, ServerLogin, ServerLoginStartParameters, ServerRegistration, ServerSetup,
};

/// PROTOCOL.md states "ops that take a <ksf> return a final output token <ksflog>" but the
/// `flow`/`flow_nofile` rows do not list it; the rows win.  Flip to append it after `consumed`.
const FLOW_KSFLOG: bool = false;

// ---------------------------------------------------------------------------------------------
// Results, tokens
// ---------------------------------------------------------------------------------------------

pub enum Fail {
    Err(String),
    Bad(String),
}
pub type R<T> = Result<T, Fail>;
type Outs = R<Vec<String>>;

fn bad<T>(s: impl Into<String>) -> R<T> {
    Err(Fail::Bad(s.into()))
}

fn hx(b: &[u8]) -> String {
    if b.is_empty() {
        "-".into()
    } else {
        hex::encode(b)
    }
}

fn bytes(t: &str) -> R<Vec<u8>> {
    if t == "-" {
        return Ok(Vec::new());
    }
    let ok = !t.is_empty()
        && t.len() % 2 == 0
        && t.bytes().all(|c| matches!(c, b'0'..=b'9' | b'a'..=b'f'));
    if !ok {
        return bad("bad bytes token (want lowercase hex or -)");
    }
    Ok(hex::decode(t).unwrap())
}

fn obytes(t: &str) -> R<Option<Vec<u8>>> {
    if t == "~" {
        Ok(None)
    } else {
        bytes(t).map(Some)
    }
}

fn int(t: &str) -> R<u32> {
    if t.is_empty() || !t.bytes().all(|c| c.is_ascii_digit()) {
        return bad("bad integer token");
    }
    t.parse::<u32>().or_else(|_| bad("integer out of range"))
}

#[derive(Clone, Copy, PartialEq)]
pub enum Fmt {
    None,
    Native,
    Bincode,
    Json,
}

fn fmt(t: &str, all: bool) -> R<Fmt> {
    match t {
        "bincode" => Ok(Fmt::Bincode),
        "json" => Ok(Fmt::Json),
        "none" if all => Ok(Fmt::None),
        "native" if all => Ok(Fmt::Native),
        _ => bad("bad fmt token"),
    }
}

const TYPES: [&str; 11] = [
    "RegistrationRequest",
    "RegistrationResponse",
    "RegistrationUpload",
    "CredentialRequest",
    "CredentialResponse",
    "CredentialFinalization",
    "ServerRegistration",
    "ServerSetup",
    "ClientRegistration",
    "ClientLogin",
    "ServerLogin",
];

/// Argument signature of every op: b bytes, o optional bytes, i integer, k ksf, t type name,
/// f serde fmt (bincode|json), F reload fmt (none|native|bincode|json).
fn signature(op: &str) -> Option<&'static str> {
    Some(match op {
        "setup_new" | "srv_reg_finish" | "ke_pub" | "ke_derive" | "ke_sk" | "ke_pk"
        | "ke_random_sk" | "p_hash" | "p_sinv" => "b",
        "reg_start" | "login_start" | "srv_login_finish" | "ke_dh" | "p_hmac" | "p_h2g" | "p_h2s" | "p_smul" => "bb",
        "p_expand" => "bbi",
        "srv_reg_start" => "bbb",
        "reg_finish" => "bbbbook",
        "srv_login_start" => "bbobbooo",
        "login_finish" => "bbboook",
        "dec" => "tb",
        "dec_eq" => "tbb",
        "lens" => "",
        "serde_enc" | "serde_dec" => "tfb",
        "flow" | "flow_nofile" | "flow_blobs" => "iFbbboook",
        "ext_setup" => "bbi",
        "ext_dec_setup" => "bi",
        "ext_srv_reg_start" => "bbbi",
        "ext_srv_login_start" => "bbobboooi",
        _ => return None,
    })
}

fn validate(sig: &str, a: &[&str]) -> R<()> {
    if a.len() != sig.len() {
        return bad(format!("expected {} args, got {}", sig.len(), a.len()));
    }
    for (i, (k, t)) in sig.chars().zip(a).enumerate() {
        let r = match k {
            'b' => bytes(t).map(drop),
            'o' => obytes(t).map(drop),
            'i' => int(t).map(drop),
            'k' => ksf(t).map(drop),
            'f' => fmt(t, false).map(drop),
            'F' => fmt(t, true).map(drop),
            't' if TYPES.contains(t) => Ok(()),
            _ => bad("unknown type name"),
        };
        if let Err(Fail::Bad(m)) = r {
            return bad(format!("arg {}: {}", i + 1, m));
        }
    }
    Ok(())
}

// ---------------------------------------------------------------------------------------------
// Error classes (matched on variants, never on Debug text)
// ---------------------------------------------------------------------------------------------

pub trait Code {
    fn code(&self) -> String;
}
impl Code for Infallible {
    fn code(&self) -> String {
        match *self {}
    }
}
impl Code for u32 {
    fn code(&self) -> String {
        self.to_string()
    }
}

pub fn ie<T: Code>(e: &InternalError<T>) -> String {
    use InternalError as I;
    match e {
        I::Custom(c) => format!("Lib:Custom:{}", c.code()),
        I::InvalidByteSequence => "Lib:InvalidByteSequence".into(),
        I::SizeError { .. } => "Lib:SizeError".into(),
        I::PointError => "Lib:PointError".into(),
        I::HashToScalar => "Lib:HashToScalar".into(),
        I::HkdfError => "Lib:HkdfError".into(),
        I::HmacError => "Lib:HmacError".into(),
        I::KsfError => "Lib:KsfError".into(),
        I::SealOpenHmacError => "Lib:SealOpenHmacError".into(),
        I::IncompatibleEnvelopeModeError => "Lib:IncompatibleEnvelopeModeError".into(),
        I::OprfError(v) => format!(
            "Lib:OprfError:{}",
            match v {
                voprf::Error::Info => "Info",
                voprf::Error::Input => "Input",
                voprf::Error::DeriveKeyPair => "DeriveKeyPair",
                voprf::Error::Deserialization => "Deserialization",
                voprf::Error::Batch => "Batch",
                voprf::Error::ProofVerification => "ProofVerification",
                voprf::Error::Protocol => "Protocol",
            }
        ),
        I::OprfInternalError(v) => format!(
            "Lib:OprfInternalError:{}",
            match v {
                voprf::InternalError::Input => "Input",
                voprf::InternalError::I2osp => "I2osp",
            }
        ),
    }
}

pub fn pe<T: Code>(e: &ProtocolError<T>) -> String {
    match e {
        ProtocolError::LibraryError(i) => ie(i),
        ProtocolError::InvalidLoginError => "InvalidLogin".into(),
        ProtocolError::SerializationError => "Serialization".into(),
        ProtocolError::ReflectedValueError => "Reflected".into(),
        ProtocolError::IdentityGroupElementError => "IdentityElement".into(),
    }
}

/// The operation's own `ProtocolError`.
fn lib<T, C: Code>(r: Result<T, ProtocolError<C>>) -> R<T> {
    r.map_err(|e| Fail::Err(pe(&e)))
}
/// The operation's own bare `InternalError`.
fn libi<T, C: Code>(r: Result<T, InternalError<C>>) -> R<T> {
    r.map_err(|e| Fail::Err(ie(&e)))
}
/// Decode failure of argument `i` (1-based).
fn argerr(i: usize, class: String) -> Fail {
    Fail::Err(format!("Arg{i}:{class}"))
}
/// Failure of `flow` step `i`.
fn st<T, C: Code>(i: usize, r: Result<T, ProtocolError<C>>) -> R<T> {
    r.map_err(|e| Fail::Err(format!("{}@{}", pe(&e), i)))
}

// ---------------------------------------------------------------------------------------------
// Tape RNG
// ---------------------------------------------------------------------------------------------

/// Panic payload of a read past the end of the tape.
pub struct TapeEnd;

pub struct Tape {
    data: Vec<u8>,
    pub pos: usize,
}

fn tape(t: &str) -> R<Tape> {
    Ok(Tape { data: bytes(t)?, pos: 0 })
}

impl RngCore for Tape {
    fn next_u32(&mut self) -> u32 {
        let mut b = [0u8; 4];
        self.fill_bytes(&mut b);
        u32::from_le_bytes(b)
    }
    fn next_u64(&mut self) -> u64 {
        let mut b = [0u8; 8];
        self.fill_bytes(&mut b);
        u64::from_le_bytes(b)
    }
    fn fill_bytes(&mut self, dest: &mut [u8]) {
        if self.data.len() - self.pos < dest.len() {
            panic::panic_any(TapeEnd);
        }
        dest.copy_from_slice(&self.data[self.pos..self.pos + dest.len()]);
        self.pos += dest.len();
    }
    fn try_fill_bytes(&mut self, dest: &mut [u8]) -> Result<(), RandError> {
        // "<op>!" requests: the fallible entry point reports an error (and fills nothing), as an OS generator that
        // is not ready would; the infallible entry points keep reading the tape
        if TRY_FAILS.with(|f| f.get()) {
            return Err(core::num::NonZeroU32::new(RandError::CUSTOM_START).unwrap().into());
        }
        self.fill_bytes(dest);
        Ok(())
    }
}
impl CryptoRng for Tape {}

// ---------------------------------------------------------------------------------------------
// HKsf: the Ksf of every suite, logging every call
// ---------------------------------------------------------------------------------------------

thread_local! {
    static TRY_FAILS: core::cell::Cell<bool> = const { core::cell::Cell::new(false) };
    static KSFLOG: RefCell<Vec<(Vec<u8>, Option<Vec<u8>>)>> = const { RefCell::new(Vec::new()) };
    static KEYCTL: RefCell<KeyCtl> = const { RefCell::new(KeyCtl { count: 0, failat: 0, trace: String::new() }) };
    static PANIC_MSG: RefCell<String> = const { RefCell::new(String::new()) };
}

#[derive(Default)]
pub enum HKsf {
    #[default]
    Ident,
    Rev,
    Xor(u8),
    Fail,
    Argon(Box<argon2::Argon2<'static>>),
}

impl Ksf for HKsf {
    fn hash<L: ArrayLength<u8>>(
        &self,
        input: GenericArray<u8, L>,
    ) -> Result<GenericArray<u8, L>, InternalError> {
        let inp = input.to_vec();
        let out = match self {
            HKsf::Ident => Ok(input),
            HKsf::Rev => {
                let mut v = input;
                v.reverse();
                Ok(v)
            }
            HKsf::Xor(c) => {
                let mut v = input;
                v.iter_mut().for_each(|b| *b ^= c);
                Ok(v)
            }
            HKsf::Fail => Err(InternalError::KsfError),
            HKsf::Argon(a) => <argon2::Argon2<'static> as Ksf>::hash(a, input),
        };
        KSFLOG.with(|l| l.borrow_mut().push((inp, out.as_ref().ok().map(|o| o.to_vec()))));
        out
    }
}

/// A zero-sized stretching function that is NOT the identity (it reverses its input), for suites whose DEFAULT
/// instance matters: `~` (absent, i.e. `CS::Ksf::default()`) and `D` (explicit default) are its only tokens.
#[derive(Default)]
pub struct ZKsf;

impl Ksf for ZKsf {
    fn hash<L: ArrayLength<u8>>(
        &self,
        input: GenericArray<u8, L>,
    ) -> Result<GenericArray<u8, L>, InternalError> {
        let inp = input.to_vec();
        let mut v = input;
        v.reverse();
        KSFLOG.with(|l| l.borrow_mut().push((inp, Some(v.to_vec()))));
        Ok(v)
    }
}

/// ksf token -> instance, per stretching-function type of the suite
pub trait KsfTok: Sized {
    fn parse(t: &str) -> R<Option<Self>>;
}
impl KsfTok for HKsf {
    fn parse(t: &str) -> R<Option<Self>> {
        ksf(t)
    }
}
impl KsfTok for ZKsf {
    fn parse(t: &str) -> R<Option<Self>> {
        match t {
            "~" => Ok(None),
            "D" => Ok(Some(ZKsf)),
            _ => bad("suites with the zero-sized stretching function take the ksf tokens ~ and D only"),
        }
    }
}

fn ksf(t: &str) -> R<Option<HKsf>> {
    Ok(Some(match t {
        "~" => return Ok(None),
        "D" => HKsf::default(),
        "R" => HKsf::Rev,
        "F" => HKsf::Fail,
        "A" => HKsf::Argon(Box::new(argon2::Argon2::default())),
        _ if t.starts_with('X') && t.len() == 3 => HKsf::Xor(bytes(&t[1..])?[0]),
        _ if t.starts_with('A') => {
            // A<m>,<t>,<p>[,<alg: i|d|id>[,<version: 16|19>[,<secret hex>]]]
            let f: Vec<&str> = t[1..].split(',').collect();
            if f.len() < 3 || f.len() > 6 {
                return bad("bad ksf token (want A<m>,<t>,<p>[,alg[,version[,secret]]])");
            }
            let p = f[..3].iter().map(|x| int(x)).collect::<R<Vec<u32>>>()?;
            let params = argon2::Params::new(p[0], p[1], p[2], None)
                .or_else(|e| bad(format!("argon2 params rejected: {e}")))?;
            let alg = match f.get(3).copied().unwrap_or("id") {
                "i" => argon2::Algorithm::Argon2i,
                "d" => argon2::Algorithm::Argon2d,
                "id" => argon2::Algorithm::Argon2id,
                _ => return bad("bad argon2 algorithm (want i|d|id)"),
            };
            let ver = match f.get(4).copied().unwrap_or("19") {
                "16" => argon2::Version::V0x10,
                "19" => argon2::Version::V0x13,
                _ => return bad("bad argon2 version (want 16|19)"),
            };
            match f.get(5) {
                None => HKsf::Argon(Box::new(argon2::Argon2::new(alg, ver, params))),
                Some(sec) => {
                    // the instance borrows its secret for 'static: leaked on purpose (a few bytes per request)
                    let secret: &'static [u8] = Box::leak(bytes(sec)?.into_boxed_slice());
                    HKsf::Argon(Box::new(
                        argon2::Argon2::new_with_secret(secret, alg, ver, params)
                            .or_else(|e| bad(format!("argon2 secret rejected: {e}")))?,
                    ))
                }
            }
        }
        _ => return bad("bad ksf token"),
    }))
}

fn ksflog() -> String {
    KSFLOG.with(|l| {
        let l = l.borrow();
        if l.is_empty() {
            return "-".to_string();
        }
        let item = |(i, o): &(Vec<u8>, Option<Vec<u8>>)| {
            format!("{}:{}", hx(i), o.as_ref().map_or("!".to_string(), |o| hx(o)))
        };
        l.iter().map(item).collect::<Vec<_>>().join(",")
    })
}

// ---------------------------------------------------------------------------------------------
// HKey: the server static key behind a SecretKey implementation with a call counter
// ---------------------------------------------------------------------------------------------

struct KeyCtl {
    count: u32,
    failat: u32,
    trace: String,
}

/// Resets counter and trace and arms the failure point (0 = never).
fn key_arm(failat: u32) {
    KEYCTL.with(|k| *k.borrow_mut() = KeyCtl { count: 0, failat, trace: String::new() });
}

fn key_call(c: char) -> Result<(), InternalError<u32>> {
    KEYCTL.with(|k| {
        let mut k = k.borrow_mut();
        k.count += 1;
        k.trace.push(c);
        if k.failat != 0 && k.count == k.failat {
            Err(InternalError::Custom(k.failat))
        } else {
            Ok(())
        }
    })
}

fn key_trace() -> String {
    KEYCTL.with(|k| {
        let k = k.borrow();
        if k.trace.is_empty() {
            "-".to_string()
        } else {
            k.trace.clone()
        }
    })
}

/// The static key behind an external key holder.  Its serialized form is an opaque HANDLE, not the scalar: the scalar's
/// encoding XOR a fixed per-group mask (PROTOCOL.md), so code that mistakes the handle for key material misbehaves
/// visibly, and the all-zero handle exists (scalar == mask, a valid key in every group).
pub struct HKey<KG: KeGroup>(PrivateKey<KG>);

/// mask(G): 0x40 repeated, with the most significant byte cleared where the group needs a small one
/// (ristretto255: little-endian, last byte 0; P-521: big-endian, first byte 0).
fn hmask<KG: KeGroup>() -> Vec<u8> {
    let n = <KG::SkLen as Unsigned>::USIZE;
    let mut m = vec![0x40u8; n];
    let name = core::any::type_name::<KG>();
    if name.contains("Ristretto") {
        m[n - 1] = 0;
    } else if name.contains("P521") {
        m[0] = 0;
    }
    m
}

fn hxor<KG: KeGroup>(b: &[u8]) -> Vec<u8> {
    b.iter().zip(hmask::<KG>()).map(|(x, m)| x ^ m).collect()
}

impl<KG: KeGroup> Clone for HKey<KG> {
    fn clone(&self) -> Self {
        HKey(self.0.clone())
    }
}

impl<KG: KeGroup> SecretKey<KG> for HKey<KG> {
    type Error = u32;
    type Len = KG::SkLen;

    fn diffie_hellman(
        &self,
        pk: PublicKey<KG>,
    ) -> Result<GenericArray<u8, KG::PkLen>, InternalError<u32>> {
        key_call('D')?;
        self.0.diffie_hellman(pk).map_err(InternalError::into_custom)
    }
    fn public_key(&self) -> Result<PublicKey<KG>, InternalError<u32>> {
        key_call('P')?;
        self.0.public_key().map_err(InternalError::into_custom)
    }
    fn serialize(&self) -> GenericArray<u8, Self::Len> {
        GenericArray::clone_from_slice(&hxor::<KG>(&self.0.serialize()))
    }
    fn deserialize(input: &[u8]) -> Result<Self, InternalError<u32>> {
        if input.len() != <KG::SkLen as Unsigned>::USIZE {
            return Err(InternalError::SizeError {
                name: "handle",
                len: <KG::SkLen as Unsigned>::USIZE,
                actual_len: input.len(),
            });
        }
        PrivateKey::deserialize(&hxor::<KG>(input)).map(HKey).map_err(InternalError::into_custom)
    }
}

// ---------------------------------------------------------------------------------------------
// Persistent objects: native and serde codecs
// ---------------------------------------------------------------------------------------------

pub trait Obj: Sized + serde::Serialize + serde::de::DeserializeOwned + PartialEq + core::fmt::Debug {
    fn ser(&self) -> Vec<u8>;
    /// Native decode; the error is the class token.
    fn de(b: &[u8]) -> Result<Self, String>;
}

macro_rules! objs {
    ($cs:ty; $($t:ident),*) => { $(
        impl Obj for $t<$cs> {
            fn ser(&self) -> Vec<u8> { self.serialize().to_vec() }
            fn de(b: &[u8]) -> Result<Self, String> { <$t<$cs>>::deserialize(b).map_err(|e| pe(&e)) }
        }
    )* };
}

macro_rules! by_type {
    ($cs:ty, $t:expr, $f:ident, $($x:expr),*) => { match $t {
        "RegistrationRequest" => $f::<RegistrationRequest<$cs>>($($x),*),
        "RegistrationResponse" => $f::<RegistrationResponse<$cs>>($($x),*),
        "RegistrationUpload" => $f::<RegistrationUpload<$cs>>($($x),*),
        "CredentialRequest" => $f::<CredentialRequest<$cs>>($($x),*),
        "CredentialResponse" => $f::<CredentialResponse<$cs>>($($x),*),
        "CredentialFinalization" => $f::<CredentialFinalization<$cs>>($($x),*),
        "ServerRegistration" => $f::<ServerRegistration<$cs>>($($x),*),
        "ServerSetup" => $f::<ServerSetup<$cs>>($($x),*),
        "ClientRegistration" => $f::<ClientRegistration<$cs>>($($x),*),
        "ClientLogin" => $f::<ClientLogin<$cs>>($($x),*),
        "ServerLogin" => $f::<ServerLogin<$cs>>($($x),*),
        _ => bad("unknown type name"),
    } };
}

/// Natively decodes argument `i` (1-based).
fn arg<T: Obj>(i: usize, t: &str) -> R<T> {
    T::de(&bytes(t)?).map_err(|c| argerr(i, c))
}

fn enc<T: Obj>(x: &T, f: Fmt) -> Result<Vec<u8>, String> {
    match f {
        Fmt::Bincode => bincode::serialize(x).map_err(|_| "SerdeEncode".to_string()),
        Fmt::Json => serde_json::to_vec(x).map_err(|_| "SerdeEncode".to_string()),
        Fmt::Native | Fmt::None => Ok(x.ser()),
    }
}

fn decd<T: Obj>(b: &[u8], f: Fmt) -> Result<T, String> {
    match f {
        Fmt::Bincode => bincode::deserialize(b).map_err(|_| "SerdeDecode".to_string()),
        Fmt::Json => serde_json::from_slice(b).map_err(|_| "SerdeDecode".to_string()),
        Fmt::Native | Fmt::None => T::de(b),
    }
}

/// `flow` persistence point at step `i`: round trip through `f` when `on`.
fn rl<T: Obj>(i: usize, x: T, on: bool, f: Fmt) -> R<T> {
    if !on || f == Fmt::None {
        return Ok(x);
    }
    enc(&x, f).and_then(|b| decd(&b, f)).map_err(|c| Fail::Err(format!("{c}@{i}")))
}

fn dec_op<T: Obj>(b: &[u8]) -> Outs {
    Ok(vec![hx(&T::de(b).map_err(Fail::Err)?.ser())])
}
/// both strings decoded natively; outs: `==` of the two values (1|0), equality of their `Debug` texts (1|0)
fn dec_eq_op<T: Obj>(a: &[u8], b: &[u8]) -> Outs {
    let x = T::de(a).map_err(|c| argerr(2, c))?;
    let y = T::de(b).map_err(|c| argerr(3, c))?;
    Ok(vec![u8::from(x == y).to_string(), u8::from(format!("{x:?}") == format!("{y:?}")).to_string()])
}
fn serde_enc_op<T: Obj>(f: Fmt, b: &[u8]) -> Outs {
    let x = T::de(b).map_err(|c| argerr(3, c))?;
    Ok(vec![hx(&enc(&x, f).map_err(Fail::Err)?)])
}
fn serde_dec_op<T: Obj>(f: Fmt, b: &[u8]) -> Outs {
    Ok(vec![hx(&decd::<T>(b, f).map_err(Fail::Err)?.ser())])
}

// ---------------------------------------------------------------------------------------------
// The ops, instantiated per cipher suite
// ---------------------------------------------------------------------------------------------

/// Parameters as an application builds them: `Default::default()` when nothing is specified, the constructor / struct
/// literal otherwise - and what is passed to the library is always a CLONE of what was built (applications keep
/// parameter templates and clone them per call).  A `Default` or `Clone` impl that differs from the constructor shows.
macro_rules! as_app {
    ($none:expr, $built:expr) => {{
        let p = if $none { Default::default() } else { $built };
        #[allow(clippy::redundant_clone)]
        let q = p.clone();
        q
    }};
}

macro_rules! suite {
    ($name:ident, $oprf:ty, $ke:ty) => {
        suite!($name, $oprf, $ke, HKsf);
    };
    ($name:ident, $oprf:ty, $ke:ty, $ksf:ty) => {
        pub mod $name {
            use super::*;

            pub struct CS;
            impl CipherSuite for CS {
                type OprfCs = $oprf;
                type KeGroup = $ke;
                type KeyExchange = TripleDh;
                type Ksf = $ksf;
            }
            type KG = $ke;
            type OG = <$oprf as voprf::CipherSuite>::Group;
            type OH = <$oprf as voprf::CipherSuite>::Hash;
            type XSetup = ServerSetup<CS, HKey<KG>>;

            objs!(CS; RegistrationRequest, RegistrationResponse, RegistrationUpload,
                CredentialRequest, CredentialResponse, CredentialFinalization, ServerRegistration,
                ServerSetup, ClientRegistration, ClientLogin, ServerLogin);

            /// setups travel on the line protocol in plain form (static key = scalar); inside the harness an external-key
            /// setup holds the handle: XOR the mask over the static-key field (seed | static key | fake key), an involution
            fn handle_form(b: &[u8]) -> Vec<u8> {
                let (nh, nsk) = (<OH as digest::Digest>::output_size(), <KG as KeGroup>::SkLen::USIZE);
                let mut v = b.to_vec();
                if v.len() >= nh + nsk {
                    let x = hxor::<KG>(&v[nh..nh + nsk]);
                    v[nh..nh + nsk].copy_from_slice(&x);
                }
                v
            }

            fn ids<'a>(u: &'a Option<Vec<u8>>, s: &'a Option<Vec<u8>>) -> Identifiers<'a> {
                Identifiers { client: u.as_deref(), server: s.as_deref() }
            }

            /// Decodes a setup whose static key is an `HKey`; the decode itself is neither
            /// traced nor failed, the trace starts with the operation proper.
            fn xsetup(i: usize, t: &str, failat: u32) -> R<XSetup> {
                key_arm(0);
                let s = XSetup::deserialize(&handle_form(&bytes(t)?)).map_err(|e| argerr(i, pe(&e)))?;
                key_arm(failat);
                Ok(s)
            }

            /// a = setup msg cred ...
            fn srv_reg<S: SecretKey<KG>>(setup: &ServerSetup<CS, S>, a: &[&str]) -> R<String> {
                let msg: RegistrationRequest<CS> = arg(2, a[1])?;
                let r = lib(ServerRegistration::<CS>::start(setup, msg, &bytes(a[2])?))?;
                Ok(hx(&r.message.serialize()))
            }

            /// a = tape setup file? msg cred ctx? idu? ids? ...; outs = state resp consumed
            fn srv_login<S: SecretKey<KG>>(setup: &ServerSetup<CS, S>, a: &[&str]) -> Outs
            where
                S::Error: Code,
            {
                let mut rng = tape(a[0])?;
                let file: Option<ServerRegistration<CS>> =
                    if a[2] == "~" { None } else { Some(arg(3, a[2])?) };
                let msg: CredentialRequest<CS> = arg(4, a[3])?;
                let cred = bytes(a[4])?;
                let (ctx, idu, idsv) = (obytes(a[5])?, obytes(a[6])?, obytes(a[7])?);
                let params = as_app!(
                    ctx.is_none() && idu.is_none() && idsv.is_none(),
                    ServerLoginStartParameters { context: ctx.as_deref(), identifiers: ids(&idu, &idsv) }
                );
                let r = lib(ServerLogin::<CS>::start(&mut rng, setup, file, msg, &cred, params))?;
                Ok(vec![
                    hx(&r.state.serialize()),
                    hx(&r.message.serialize()),
                    rng.pos.to_string(),
                ])
            }

            /// a = reload fmt tape pw cred ctx? idu? ids? ksf
            fn flow(a: &[&str], with_file: bool) -> Outs {
                let (mask, f) = (int(a[0])?, fmt(a[1], true)?);
                let mut rng = tape(a[2])?;
                let (pw, cred) = (bytes(a[3])?, bytes(a[4])?);
                let (ctx, idu, idsv) = (obytes(a[5])?, obytes(a[6])?, obytes(a[7])?);
                let k = <$ksf as KsfTok>::parse(a[8])?;
                let on = |bit: u32| (mask >> bit) & 1 == 1;
                let idn = ids(&idu, &idsv);
                let bare = ctx.is_none() && idu.is_none() && idsv.is_none();
                let sparams = || as_app!(bare, ServerLoginStartParameters { context: ctx.as_deref(), identifiers: idn });
                let cparams = || {
                    as_app!(bare && k.is_none(), ClientLoginFinishParameters::<CS>::new(ctx.as_deref(), idn, k.as_ref()))
                };
                let mut outs = Vec::new();

                let setup0 = ServerSetup::<CS>::new(&mut rng);
                outs.push(hx(&setup0.serialize()));
                let setup = rl(0, setup0, on(0), f)?;

                if !with_file {
                    let r1 = st(1, ClientLogin::<CS>::start(&mut rng, &pw))?;
                    let (ke1, clog) = (r1.message, rl(1, r1.state, on(3), f)?);
                    let setup = rl(2, setup, on(0), f)?;
                    let r2 = st(
                        2,
                        ServerLogin::<CS>::start(
                            &mut rng, &setup, None, ke1.clone(), &cred, sparams(),
                        ),
                    )?;
                    let (ke2, _slog) = (r2.message, rl(2, r2.state, on(4), f)?);
                    let clog = rl(3, clog, on(3), f)?;
                    let res = match clog.finish(&pw, ke2.clone(), cparams()) {
                        Ok(_) => "OK".to_string(),
                        Err(e) => format!("ERR:{}", pe(&e)),
                    };
                    outs.extend([hx(&ke1.serialize()), hx(&ke2.serialize()), res]);
                    outs.push(rng.pos.to_string());
                    if FLOW_KSFLOG {
                        outs.push(ksflog());
                    }
                    return Ok(outs);
                }

                let r1 = st(1, ClientRegistration::<CS>::start(&mut rng, &pw))?;
                let (req, creg) = (r1.message, rl(1, r1.state, on(2), f)?);
                let setup = rl(2, setup, on(0), f)?;
                let resp = st(2, ServerRegistration::<CS>::start(&setup, req.clone(), &cred))?.message;
                let creg = rl(3, creg, on(2), f)?;
                let rparams = as_app!(
                    idu.is_none() && idsv.is_none() && k.is_none(),
                    ClientRegistrationFinishParameters::<CS>::new(idn, k.as_ref())
                );
                let r3 = st(3, creg.finish(&mut rng, &pw, resp.clone(), rparams))?;
                let file0 = ServerRegistration::<CS>::finish(r3.message.clone());
                let file_bytes = file0.serialize();
                let file = rl(4, file0, on(1), f)?;
                let r5 = st(5, ClientLogin::<CS>::start(&mut rng, &pw))?;
                let (ke1, clog) = (r5.message, rl(5, r5.state, on(3), f)?);
                let setup = rl(6, setup, on(0), f)?;
                let file = rl(6, file, on(1), f)?;
                let r6 = st(
                    6,
                    ServerLogin::<CS>::start(
                        &mut rng, &setup, Some(file), ke1.clone(), &cred, sparams(),
                    ),
                )?;
                let (ke2, slog) = (r6.message, rl(6, r6.state, on(4), f)?);
                let clog = rl(7, clog, on(3), f)?;
                // a pending state may be cloned and finished more than once (retries, replicas): same answer every time
                let r7c = st(7, clog.clone().finish(&pw, ke2.clone(), cparams()))?;
                let r7 = st(7, clog.finish(&pw, ke2.clone(), cparams()))?;
                if r7c.message.serialize() != r7.message.serialize()
                    || r7c.session_key != r7.session_key
                    || r7c.export_key != r7.export_key
                {
                    return Err(Fail::Err("CloneMismatch@7".into()));
                }
                let slog = rl(8, slog, on(4), f)?;
                let r8c = st(8, slog.clone().finish(r7.message.clone()))?;
                let r8 = st(8, slog.finish(r7.message.clone()))?;
                if r8c.session_key != r8.session_key {
                    return Err(Fail::Err("CloneMismatch@8".into()));
                }
                outs.extend([
                    hx(&req.serialize()),
                    hx(&resp.serialize()),
                    hx(&r3.message.serialize()),
                    hx(&r3.export_key),
                    hx(&r3.server_s_pk.serialize()),
                    hx(&file_bytes),
                    hx(&ke1.serialize()),
                    hx(&ke2.serialize()),
                    hx(&r7.message.serialize()),
                    hx(&r7.session_key),
                    hx(&r8.session_key),
                    hx(&r7.export_key),
                    hx(&r7.server_s_pk.serialize()),
                    rng.pos.to_string(),
                ]);
                if FLOW_KSFLOG {
                    outs.push(ksflog());
                }
                Ok(outs)
            }

            /// a = (ignored) fmt tape pw cred ctx? idu? ids? ksf: the in-memory registration + login, no reloads;
            /// outs = every object AS IT LIVES IN MEMORY encoded through `fmt` (setup, reg request, client
            /// registration state, reg response, upload, password file, KE1, client login state, KE2, server login
            /// state, KE3), then export key (registration), session key (client), session key (server), export key (login).
            /// What an encoder sees of a freshly made object can differ from what it sees after a native round trip.
            fn flow_blobs(a: &[&str]) -> Outs {
                let f = fmt(a[1], true)?;
                let mut rng = tape(a[2])?;
                let (pw, cred) = (bytes(a[3])?, bytes(a[4])?);
                let (ctx, idu, idsv) = (obytes(a[5])?, obytes(a[6])?, obytes(a[7])?);
                let k = <$ksf as KsfTok>::parse(a[8])?;
                let idn = ids(&idu, &idsv);
                let e = |r: Result<Vec<u8>, String>| r.map(|b| hx(&b)).map_err(Fail::Err);
                let setup = ServerSetup::<CS>::new(&mut rng);
                let r1 = st(1, ClientRegistration::<CS>::start(&mut rng, &pw))?;
                let resp = st(2, ServerRegistration::<CS>::start(&setup, r1.message.clone(), &cred))?.message;
                let creg_blob = e(enc(&r1.state, f))?;
                let rparams = as_app!(
                    idu.is_none() && idsv.is_none() && k.is_none(),
                    ClientRegistrationFinishParameters::<CS>::new(idn, k.as_ref())
                );
                let r3 = st(3, r1.state.finish(&mut rng, &pw, resp.clone(), rparams))?;
                let upload_blob = e(enc(&r3.message, f))?;
                let file = ServerRegistration::<CS>::finish(r3.message);
                let file_blob = e(enc(&file, f))?;
                let r5 = st(5, ClientLogin::<CS>::start(&mut rng, &pw))?;
                let sparams = as_app!(
                    ctx.is_none() && idu.is_none() && idsv.is_none(),
                    ServerLoginStartParameters { context: ctx.as_deref(), identifiers: idn }
                );
                let r6 = st(6, ServerLogin::<CS>::start(&mut rng, &setup, Some(file), r5.message.clone(), &cred, sparams))?;
                let clog_blob = e(enc(&r5.state, f))?;
                let slog_blob = e(enc(&r6.state, f))?;
                let cparams = as_app!(
                    ctx.is_none() && idu.is_none() && idsv.is_none() && k.is_none(),
                    ClientLoginFinishParameters::<CS>::new(ctx.as_deref(), idn, k.as_ref())
                );
                let r7 = st(7, r5.state.finish(&pw, r6.message.clone(), cparams))?;
                let ke3_blob = e(enc(&r7.message, f))?;
                let r8 = st(8, r6.state.finish(r7.message))?;
                Ok(vec![
                    e(enc(&setup, f))?,
                    e(enc(&r1.message, f))?,
                    creg_blob,
                    e(enc(&resp, f))?,
                    upload_blob,
                    file_blob,
                    e(enc(&r5.message, f))?,
                    clog_blob,
                    e(enc(&r6.message, f))?,
                    slog_blob,
                    ke3_blob,
                    hx(&r3.export_key),
                    hx(&r7.session_key),
                    hx(&r8.session_key),
                    hx(&r7.export_key),
                ])
            }

            pub fn handle(op: &str, a: &[&str]) -> Outs {
                Ok(match op {
                    "setup_new" => {
                        let mut rng = tape(a[0])?;
                        let s = ServerSetup::<CS>::new(&mut rng);
                        vec![hx(&s.serialize()), rng.pos.to_string()]
                    }
                    "reg_start" => {
                        let mut rng = tape(a[0])?;
                        let r = lib(ClientRegistration::<CS>::start(&mut rng, &bytes(a[1])?))?;
                        vec![hx(&r.state.serialize()), hx(&r.message.serialize()), rng.pos.to_string()]
                    }
                    "srv_reg_start" => {
                        let setup: ServerSetup<CS> = arg(1, a[0])?;
                        vec![srv_reg(&setup, a)?]
                    }
                    "reg_finish" => {
                        let state: ClientRegistration<CS> = arg(1, a[0])?;
                        let mut rng = tape(a[1])?;
                        let pw = bytes(a[2])?;
                        let resp: RegistrationResponse<CS> = arg(4, a[3])?;
                        let (idu, idsv, k) = (obytes(a[4])?, obytes(a[5])?, <$ksf as KsfTok>::parse(a[6])?);
                        let params = as_app!(
                            idu.is_none() && idsv.is_none() && k.is_none(),
                            ClientRegistrationFinishParameters::<CS>::new(ids(&idu, &idsv), k.as_ref())
                        );
                        let r = lib(state.finish(&mut rng, &pw, resp, params))?;
                        vec![
                            hx(&r.message.serialize()),
                            hx(&r.export_key),
                            hx(&r.server_s_pk.serialize()),
                            rng.pos.to_string(),
                            ksflog(),
                        ]
                    }
                    "srv_reg_finish" => {
                        let upload: RegistrationUpload<CS> = arg(1, a[0])?;
                        vec![hx(&ServerRegistration::<CS>::finish(upload).serialize())]
                    }
                    "login_start" => {
                        let mut rng = tape(a[0])?;
                        let r = lib(ClientLogin::<CS>::start(&mut rng, &bytes(a[1])?))?;
                        vec![hx(&r.state.serialize()), hx(&r.message.serialize()), rng.pos.to_string()]
                    }
                    "srv_login_start" => {
                        bytes(a[0])?;
                        let setup: ServerSetup<CS> = arg(2, a[1])?;
                        srv_login(&setup, a)?
                    }
                    "login_finish" => {
                        let state: ClientLogin<CS> = arg(1, a[0])?;
                        let pw = bytes(a[1])?;
                        let resp: CredentialResponse<CS> = arg(3, a[2])?;
                        let (ctx, idu, idsv) = (obytes(a[3])?, obytes(a[4])?, obytes(a[5])?);
                        let k = <$ksf as KsfTok>::parse(a[6])?;
                        let params = as_app!(
                            ctx.is_none() && idu.is_none() && idsv.is_none() && k.is_none(),
                            ClientLoginFinishParameters::<CS>::new(ctx.as_deref(), ids(&idu, &idsv), k.as_ref())
                        );
                        let r = lib(state.finish(&pw, resp, params))?;
                        vec![
                            hx(&r.message.serialize()),
                            hx(&r.session_key),
                            hx(&r.export_key),
                            hx(&r.server_s_pk.serialize()),
                            ksflog(),
                        ]
                    }
                    "srv_login_finish" => {
                        let state: ServerLogin<CS> = arg(1, a[0])?;
                        let fin: CredentialFinalization<CS> = arg(2, a[1])?;
                        vec![hx(&lib(state.finish(fin))?.session_key)]
                    }
                    "dec" => return by_type!(CS, a[0], dec_op, &bytes(a[1])?),
                    "dec_eq" => return by_type!(CS, a[0], dec_eq_op, &bytes(a[1])?, &bytes(a[2])?),
                    "serde_enc" => {
                        return by_type!(CS, a[0], serde_enc_op, fmt(a[1], false)?, &bytes(a[2])?)
                    }
                    "serde_dec" => {
                        return by_type!(CS, a[0], serde_dec_op, fmt(a[1], false)?, &bytes(a[2])?)
                    }
                    "ke_pub" => {
                        let kp = lib(KeyPair::<KG>::from_private_key_slice(&bytes(a[0])?))?;
                        vec![hx(&kp.public().serialize())]
                    }
                    "ke_dh" => {
                        let pk = PublicKey::<KG>::deserialize(&bytes(a[0])?)
                            .map_err(|e| argerr(1, ie(&e)))?;
                        let sk = <PrivateKey<KG> as SecretKey<KG>>::deserialize(&bytes(a[1])?)
                            .map_err(|e| argerr(2, ie(&e)))?;
                        vec![hx(&libi(sk.diffie_hellman(pk))?)]
                    }
                    "ke_derive" => {
                        let seed = bytes(a[0])?;
                        if seed.len() != <KG as KeGroup>::SkLen::USIZE {
                            return bad("seed must have Nsk bytes");
                        }
                        let seed = GenericArray::clone_from_slice(&seed);
                        let sk = libi(<KG as KeGroup>::derive_auth_keypair::<$oprf>(seed))?;
                        vec![
                            hx(&<KG as KeGroup>::serialize_sk(sk)),
                            hx(&<KG as KeGroup>::serialize_pk(<KG as KeGroup>::public_key(sk))),
                        ]
                    }
                    "ke_sk" => {
                        let sk = libi(<PrivateKey<KG> as SecretKey<KG>>::deserialize(&bytes(a[0])?))?;
                        vec![hx(&SecretKey::<KG>::serialize(&sk))]
                    }
                    "ke_pk" => {
                        vec![hx(&libi(PublicKey::<KG>::deserialize(&bytes(a[0])?))?.serialize())]
                    }
                    "ke_random_sk" => {
                        let mut rng = tape(a[0])?;
                        let sk = <KG as KeGroup>::random_sk(&mut rng);
                        vec![hx(&<KG as KeGroup>::serialize_sk(sk)), rng.pos.to_string()]
                    }
                    // ---- primitives of the OPRF suite (hash, HMAC, HKDF-Expand from a PRK, hash-to-group,
                    // hash-to-scalar, scalar multiplication and inversion), for validating the model's primitive layer
                    "p_hash" => vec![hx(&<OH as digest::Digest>::digest(bytes(a[0])?))],
                    "p_hmac" => {
                        use hmac::Mac;
                        let mut m = <hmac::Hmac<OH> as Mac>::new_from_slice(&bytes(a[0])?)
                            .map_err(|_| Fail::Err("Lib:HmacError".into()))?;
                        m.update(&bytes(a[1])?);
                        vec![hx(&m.finalize().into_bytes())]
                    }
                    "p_expand" => {
                        let n = int(a[2])? as usize;
                        let mut out = vec![0u8; n];
                        let hk = hkdf::Hkdf::<OH>::from_prk(&bytes(a[0])?)
                            .map_err(|_| Fail::Err("Lib:HkdfError".into()))?;
                        hk.expand(&bytes(a[1])?, &mut out).map_err(|_| Fail::Err("Lib:HkdfError".into()))?;
                        vec![hx(&out)]
                    }
                    "p_h2g" => {
                        let e = <OG as voprf::Group>::hash_to_curve::<OH>(&[&bytes(a[0])?], &[&bytes(a[1])?])
                            .map_err(|_| Fail::Err("Lib:OprfInternalError:Input".into()))?;
                        vec![hx(&<OG as voprf::Group>::serialize_elem(e))]
                    }
                    "p_h2s" => {
                        let s_ = <OG as voprf::Group>::hash_to_scalar::<OH>(&[&bytes(a[0])?], &[&bytes(a[1])?])
                            .map_err(|_| Fail::Err("Lib:OprfInternalError:Input".into()))?;
                        vec![hx(&<OG as voprf::Group>::serialize_scalar(s_))]
                    }
                    "p_smul" => {
                        let e = <OG as voprf::Group>::deserialize_elem(&bytes(a[0])?)
                            .map_err(|_| Fail::Err("Arg1:Lib:OprfError:Deserialization".into()))?;
                        let s_ = <OG as voprf::Group>::deserialize_scalar(&bytes(a[1])?)
                            .map_err(|_| Fail::Err("Arg2:Lib:OprfError:Deserialization".into()))?;
                        vec![hx(&<OG as voprf::Group>::serialize_elem(e * &s_))]
                    }
                    "p_sinv" => {
                        let s_ = <OG as voprf::Group>::deserialize_scalar(&bytes(a[0])?)
                            .map_err(|_| Fail::Err("Arg1:Lib:OprfError:Deserialization".into()))?;
                        vec![hx(&<OG as voprf::Group>::serialize_scalar(<OG as voprf::Group>::invert_scalar(s_)))]
                    }
                    "lens" => [
                        <OH as digest::Digest>::output_size(),
                        <OG as voprf::Group>::ElemLen::USIZE,
                        <OG as voprf::Group>::ScalarLen::USIZE,
                        <KG as KeGroup>::PkLen::USIZE,
                        <KG as KeGroup>::SkLen::USIZE,
                    ]
                    .iter()
                    .map(|n| n.to_string())
                    .collect(),
                    "flow" => return flow(a, true),
                    "flow_nofile" => return flow(a, false),
                    "flow_blobs" => return flow_blobs(a),
                    "ext_setup" => {
                        let mut rng = tape(a[0])?;
                        let sk = bytes(a[1])?;
                        key_arm(int(a[2])?);
                        let kp = lib(KeyPair::<KG, HKey<KG>>::from_private_key_slice(&hxor::<KG>(&sk)))?;
                        let s = XSetup::new_with_key(&mut rng, kp);
                        vec![hx(&handle_form(&s.serialize())), rng.pos.to_string(), key_trace()]
                    }
                    "ext_dec_setup" => {
                        let b = bytes(a[0])?;
                        key_arm(int(a[1])?);
                        let s = lib(XSetup::deserialize(&handle_form(&b)))?;
                        vec![hx(&handle_form(&s.serialize())), key_trace()]
                    }
                    "ext_srv_reg_start" => {
                        let setup = xsetup(1, a[0], int(a[3])?)?;
                        vec![srv_reg(&setup, a)?, key_trace()]
                    }
                    "ext_srv_login_start" => {
                        bytes(a[0])?;
                        let setup = xsetup(2, a[1], int(a[8])?)?;
                        let mut outs = srv_login(&setup, a)?;
                        outs.push(key_trace());
                        outs
                    }
                    _ => return bad("unknown op"),
                })
            }
        }
    };
}

macro_rules! suites {
    ($( $tok:literal $name:ident $oprf:ty, $ke:ty $(, $ksf:ty)?; )*) => {
        $( suite!($name, $oprf, $ke $(, $ksf)?); )*
        fn route(suite: &str, op: &str, a: &[&str]) -> Outs {
            match suite {
                $( $tok => $name::handle(op, a), )*
                _ => bad("unknown suite"),
            }
        }
    };
}

type OR = voprf::Ristretto255;
type KR = opaque_ke::Ristretto255;
type KX = opaque_ke::Curve25519;
use p256::NistP256 as P256;
use p384::NistP384 as P384;
use p521::NistP521 as P521;

suites! {
    "R255/R255" r255_r255 OR, KR;     "R255/P256" r255_p256 OR, P256;   "R255/P384" r255_p384 OR, P384;
    "R255/P521" r255_p521 OR, P521;   "R255/X25519" r255_x OR, KX;
    "P256/R255" p256_r255 P256, KR;   "P256/P256" p256_p256 P256, P256; "P256/P384" p256_p384 P256, P384;
    "P256/P521" p256_p521 P256, P521; "P256/X25519" p256_x P256, KX;
    "P384/R255" p384_r255 P384, KR;   "P384/P256" p384_p256 P384, P256; "P384/P384" p384_p384 P384, P384;
    "P384/P521" p384_p521 P384, P521; "P384/X25519" p384_x P384, KX;
    "P521/R255" p521_r255 P521, KR;   "P521/P256" p521_p256 P521, P256; "P521/P384" p521_p384 P521, P384;
    "P521/P521" p521_p521 P521, P521; "P521/X25519" p521_x P521, KX;
    // the same groups with a zero-sized, non-identity DEFAULT stretching function (PROTOCOL.md)
    "R255/R255+z" r255_r255_z OR, KR, ZKsf; "P256/P256+z" p256_p256_z P256, P256, ZKsf; "P384/X25519+z" p384_x_z P384, KX, ZKsf;
}

// ---------------------------------------------------------------------------------------------
// Request loop
// ---------------------------------------------------------------------------------------------

fn flat(s: &str) -> String {
    let s: String = s.chars().map(|c| if c.is_whitespace() { '_' } else { c }).collect();
    if s.is_empty() {
        "-".into()
    } else {
        s
    }
}

fn dispatch(suite: &str, op: &str, a: &[&str]) -> Outs {
    let (op, try_fails) = match op.strip_suffix('!') {
        Some(o) => (o, true),
        None => (op, false),
    };
    TRY_FAILS.with(|f| f.set(try_fails));
    let Some(sig) = signature(op) else { return bad(format!("unknown op {op}")) };
    validate(sig, a)?;
    route(suite, op, a)
}

fn process(line: &str) -> String {
    let toks: Vec<&str> = line.split_ascii_whitespace().collect();
    let tag = toks.first().copied().unwrap_or("-");
    if toks.len() < 3 {
        return format!("{tag} BADREQ {}", flat("want: <tag> <suite> <op> <arg>..."));
    }
    KSFLOG.with(|l| l.borrow_mut().clear());
    PANIC_MSG.with(|m| m.borrow_mut().clear());
    key_arm(0);
    match panic::catch_unwind(AssertUnwindSafe(|| dispatch(toks[1], toks[2], &toks[3..]))) {
        Ok(Ok(outs)) if outs.is_empty() => format!("{tag} OK"),
        Ok(Ok(outs)) => format!("{tag} OK {}", outs.join(" ")),
        Ok(Err(Fail::Err(class))) => format!("{tag} ERR {class}"),
        Ok(Err(Fail::Bad(text))) => format!("{tag} BADREQ {}", flat(&text)),
        Err(payload) if payload.is::<TapeEnd>() => format!("{tag} ERR Tape"),
        Err(_) => format!("{tag} PANIC {}", flat(&PANIC_MSG.with(|m| m.borrow().clone()))),
    }
}

fn main() {
    panic::set_hook(Box::new(|info| {
        if info.payload().is::<TapeEnd>() {
            return;
        }
        let msg = info.payload_as_str().unwrap_or("<non-string panic payload>");
        let loc = info.location().map_or(String::new(), |l| format!(" @{}:{}", l.file(), l.line()));
        PANIC_MSG.with(|m| *m.borrow_mut() = format!("{msg}{loc}"));
    }));
    let stdin = std::io::stdin();
    let mut input = stdin.lock();
    let stdout = std::io::stdout();
    let mut out = stdout.lock();
    let mut buf = Vec::new();
    loop {
        buf.clear();
        match input.read_until(b'\n', &mut buf) {
            Ok(0) | Err(_) => break,
            Ok(_) => {}
        }
        let line = String::from_utf8_lossy(&buf);
        let resp = process(&line);
        if writeln!(out, "{resp}").and_then(|_| out.flush()).is_err() {
            break;
        }
    }
}
