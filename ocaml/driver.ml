(* Line-oriented driver around the extracted Coq model (PROTOCOL.md).
   Pure glue: parse a request line, call [Model.run], print the response. *)
open Model
type string = Stdlib.String.t
module String = Stdlib.String
module List = Stdlib.List

let byte_tab : byte array = Array.init 256 (fun i -> n2b (Big_int_Z.big_int_of_int i))
let int_of_byte (b : byte) : int = Big_int_Z.int_of_big_int (b2n b)

exception Bad of string

let hexval c =
  match c with
  | '0' .. '9' -> Char.code c - 48
  | 'a' .. 'f' -> Char.code c - 87
  | 'A' .. 'F' -> Char.code c - 55
  | _ -> raise (Bad "hex")

let unhex (s : string) : bytes =
  if s = "-" then []
  else begin
    let n = String.length s in
    if n mod 2 <> 0 then raise (Bad "odd hex");
    let rec go i acc =
      if i < 0 then acc
      else go (i - 2) (byte_tab.(hexval s.[i] * 16 + hexval s.[i + 1]) :: acc)
    in
    go (n - 2) []
  end

let hex (l : bytes) : string =
  match l with
  | [] -> "-"
  | _ ->
    let b = Buffer.create 64 in
    List.iter (fun x -> Buffer.add_string b (Printf.sprintf "%02x" (int_of_byte x))) l;
    Buffer.contents b

let opt (s : string) : bytes option = if s = "~" then None else Some (unhex s)

let rec int_of_nat (n : nat) : int = match n with O -> 0 | S m -> 1 + int_of_nat m
let int_of_nat n = let rec go n acc = match n with O -> acc | S m -> go m (acc + 1) in go n 0
let nat_of_int i = let rec go i acc = if i <= 0 then acc else go (i - 1) (S acc) in go i O

let ksf (s : string) : ksf_spec =
  if s = "~" then KsNone
  else if s = "D" then KsDefault
  else if s = "R" then KsReverse
  else if s = "F" then KsFail
  else if String.length s = 3 && s.[0] = 'X' then
    (match unhex (String.sub s 1 2) with [b] -> KsXor b | _ -> raise (Bad "ksf"))
  else if String.length s >= 1 && s.[0] = 'T' then begin
    let body = String.sub s 1 (String.length s - 1) in
    if body = "" then KsTable []
    else
      KsTable
        (List.map
           (fun item ->
             match String.split_on_char ':' item with
             | [a; b] -> (unhex a, unhex b)
             | _ -> raise (Bad "ksf table"))
           (String.split_on_char ',' body))
  end
  else raise (Bad "ksf")

let dec_type = function
  | "RegistrationRequest" -> DRegistrationRequest
  | "RegistrationResponse" -> DRegistrationResponse
  | "RegistrationUpload" -> DRegistrationUpload
  | "CredentialRequest" -> DCredentialRequest
  | "CredentialResponse" -> DCredentialResponse
  | "CredentialFinalization" -> DCredentialFinalization
  | "ServerRegistration" -> DServerRegistration
  | "ServerSetup" -> DServerSetup
  | "ClientRegistration" -> DClientRegistration
  | "ClientLogin" -> DClientLogin
  | "ServerLogin" -> DServerLogin
  | _ -> raise (Bad "dec type")

let oprf_of = function
  | "R255" -> OR255 | "P256" -> OP256 | "P384" -> OP384 | "P521" -> OP521
  | _ -> raise (Bad "oprf")
let ke_of = function
  | "R255" -> KR255 | "P256" -> KP256 | "P384" -> KP384 | "P521" -> KP521 | "X25519" -> KX25519
  | _ -> raise (Bad "ke")

(* "fp,fd": which callback fails, with which error code; "~" = none *)
let failspec (s : string) : Big_int_Z.big_int option =
  if s = "~" then None else Some (Big_int_Z.big_int_of_string s)

let request (op : string) (a : string list) : request =
  match op, a with
  | "setup_new", [t] -> QSetupNew (unhex t)
  | "reg_start", [t; pw] -> QRegStart (unhex t, unhex pw)
  | "srv_reg_start", [s; m; c] -> QSrvRegStart (unhex s, unhex m, unhex c)
  | "reg_finish", [st; t; pw; r; idu; ids; k] ->
    QRegFinish (unhex st, unhex t, unhex pw, unhex r, opt idu, opt ids, ksf k)
  | "srv_reg_finish", [u] -> QSrvRegFinish (unhex u)
  | "login_start", [t; pw] -> QLoginStart (unhex t, unhex pw)
  | "srv_login_start", [t; s; f; m; c; ctx; idu; ids] ->
    QSrvLoginStart (unhex t, unhex s, opt f, unhex m, unhex c, opt ctx, opt idu, opt ids)
  | "login_finish", [st; pw; r; ctx; idu; ids; k] ->
    QLoginFinish (unhex st, unhex pw, unhex r, opt ctx, opt idu, opt ids, ksf k)
  | "srv_login_finish", [st; f] -> QSrvLoginFinish (unhex st, unhex f)
  | "dec", [ty; b] -> QDec (dec_type ty, unhex b)
  | "ke_pub", [sk] -> QKePub (unhex sk)
  | "ke_dh", [pk; sk] -> QKeDh (unhex pk, unhex sk)
  | "ke_derive", [seed] -> QKeDerive (unhex seed)
  | "ke_sk", [b] -> QKeSk (unhex b)
  | "ke_pk", [b] -> QKePk (unhex b)
  | "ke_random_sk", [t] -> QKeRandomSk (unhex t)
  | "lens", [] -> QLens
  | "p_hash", [m] -> QPHash (unhex m)
  | "p_hmac", [k; m] -> QPHmac (unhex k, unhex m)
  | "p_expand", [p; i; n] -> QPExpand (unhex p, unhex i, nat_of_int (int_of_string n))
  | "p_h2g", [m; dst] -> QPH2g (unhex m, unhex dst)
  | "p_h2s", [m; dst] -> QPH2s (unhex m, unhex dst)
  | "p_smul", [e; s] -> QPSmul (unhex e, unhex s)
  | "p_sinv", [s] -> QPSinv (unhex s)
  | "flow", [t; pw; c; ctx; idu; ids; k] ->
    QFlow (unhex t, unhex pw, unhex c, opt ctx, opt idu, opt ids, ksf k)
  | "flow_nofile", [t; pw; c; ctx; idu; ids; k] ->
    QFlowNoFile (unhex t, unhex pw, unhex c, opt ctx, opt idu, opt ids, ksf k)
  | "ext_setup", [t; sk; fp; fd] -> QExtSetup (unhex t, unhex sk, failspec fp, failspec fd)
  | "ext_dec_setup", [s; fp; fd] -> QExtDecSetup (unhex s, failspec fp, failspec fd)
  | "ext_srv_reg_start", [s; m; c; fp; fd] ->
    QExtSrvRegStart (unhex s, unhex m, unhex c, failspec fp, failspec fd)
  | "ext_srv_login_start", [t; s; f; m; c; ctx; idu; ids; fp; fd] ->
    QExtSrvLoginStart (unhex t, unhex s, opt f, unhex m, unhex c, opt ctx, opt idu, opt ids,
                       failspec fp, failspec fd)
  | _ -> raise (Bad ("op " ^ op))

let oprf_err_s = function
  | OInput -> "Input" | ODeserialization -> "Deserialization"
  | ODeriveKeyPair -> "DeriveKeyPair" | OProtocol -> "Protocol"

let lib_err_s = function
  | LCustom n -> "Custom:" ^ Big_int_Z.string_of_big_int n
  | LInvalidByteSequence -> "InvalidByteSequence"
  | LSizeError -> "SizeError"
  | LPointError -> "PointError"
  | LHashToScalar -> "HashToScalar"
  | LHkdfError -> "HkdfError"
  | LHmacError -> "HmacError"
  | LKsfError -> "KsfError"
  | LSealOpenHmacError -> "SealOpenHmacError"
  | LIncompatibleEnvelopeModeError -> "IncompatibleEnvelopeModeError"
  | LOprfError e -> "OprfError:" ^ oprf_err_s e
  | LOprfInternalError -> "OprfInternalError"

let err_s = function
  | ELibrary e -> "Lib:" ^ lib_err_s e
  | EInvalidLogin -> "InvalidLogin"
  | ESerialization -> "Serialization"
  | EReflectedValue -> "Reflected"
  | EIdentityGroupElement -> "IdentityElement"
  | EPanic -> "ModelPanic"
  | ETape -> "Tape"

let tok_s = function
  | TB b -> hex b
  | TN n -> string_of_int (int_of_nat n)
  | TLog [] -> "-"
  | TLog l ->
    String.concat ","
      (List.map (fun (i, o) -> hex i ^ ":" ^ (match o with Some x -> hex x | None -> "!")) l)
  | TRes None -> "OK"
  | TRes (Some e) -> "ERR:" ^ err_s e

let response_s = function
  | ROk l -> "OK" ^ String.concat "" (List.map (fun t -> " " ^ tok_s t) l)
  | RErr e -> "ERR " ^ err_s e
  | RArgErr (i, e) -> "ERR Arg" ^ string_of_int (int_of_nat i) ^ ":" ^ err_s e
  | RStepErr (i, e) -> "ERR " ^ err_s e ^ "@" ^ string_of_int (int_of_nat i)

let () =
  try
    while true do
      let line = input_line stdin in
      match String.split_on_char ' ' (String.trim line) with
      | tag :: suite :: op :: args ->
        let out =
          try
            (match String.split_on_char '/' suite with
             | [o; k] -> response_s (run (oprf_of o) (ke_of k) (request op args))
             | _ -> raise (Bad "suite"))
          with
          | Bad m -> "BADREQ " ^ m
          | Stack_overflow -> "BADREQ stack-overflow"
        in
        print_string tag; print_char ' '; print_endline out
      | _ -> print_endline "? BADREQ line"
    done
  with End_of_file -> ()
