(* C17 - deterministic in the supplied randomness, and every random value is fresh.  Statements only.
   Determinism is definitional (every operation of the model is a Gallina function of its arguments and
   the tape; the correspondence check compares the crate with it byte for byte, including tape positions).
   The content proved here is the tape LAYOUT: which range each random value is taken from, that ranges
   are consecutive and disjoint, that nonces / seeds / the fake masking key are copies of their range and
   key pairs are the key derivation of theirs, and that nothing else is read. *)
From Coq Require Import List.
From OKE Require Import Bytes Suite Generated Voprf Messages Envelope TripleDH Opaque TapeLayout.

Theorem C17_setup_layout :
  forall E Sc Pk Sk (CS : Suite E Sc Pk Sk) tape setup rest,
    server_setup_new CS tape = Ok (setup, rest) ->
    exists s1 seed s2,
      tape = s1 ++ seed ++ s2 ++ rest /\
      length s1 = k_Nsk (ke CS) /\ length seed = h_len (hash CS) /\ length s2 = k_Nsk (ke CS) /\
      ss_oprf_seed setup = seed /\
      k_derive (ke CS) (hash CS) (o_id (oprf CS)) s1 = Some (kp_sk (ss_keypair setup)) /\
      k_derive (ke CS) (hash CS) (o_id (oprf CS)) s2 = Some (kp_sk (ss_fake_keypair setup)).
Proof. exact @server_setup_new_layout. Qed.
Print Assumptions C17_setup_layout.

Theorem C17_envelope_nonce_layout :
  forall E Sc Pk Sk (CS : Suite E Sc Pk Sk) tape rp spk ids env cpk ek rest,
    envelope_seal CS tape rp spk ids = Ok (env, cpk, ek, rest) ->
    tape = env_nonce env ++ rest /\ length (env_nonce env) = ENVELOPE_NONCE_LEN.
Proof. exact @envelope_seal_layout. Qed.
Print Assumptions C17_envelope_nonce_layout.

Theorem C17_client_key_share_layout :
  forall E Sc Pk Sk (CS : Suite E Sc Pk Sk) tape st m rest,
    generate_ke1 CS tape = Ok (st, m, rest) ->
    exists seed, tape = seed ++ k1_nonce m ++ rest /\ length seed = k_Nsk (ke CS) /\ length (k1_nonce m) = KE_NONCE_LEN /\
      k_derive (ke CS) (hash CS) (o_id (oprf CS)) seed = Some (k1s_client_e_sk st) /\
      k1_client_e_pk m = k_pub (ke CS) (k1s_client_e_sk st) /\ k1s_nonce st = k1_nonce m.
Proof. exact @generate_ke1_layout. Qed.
Print Assumptions C17_client_key_share_layout.

Theorem C17_server_login_layout :
  forall E Sc Pk Sk (CS : Suite E Sc Pk Sk) S (SK : SkOps Pk S) tape setup file rq cred ctx ids st resp rest dbg,
    server_login_start CS SK tape setup file rq cred ctx ids = Ok (st, resp, rest, dbg) ->
    exists fmk eseed,
      tape = fmk ++ cr_masking_nonce resp ++ eseed ++ k2_nonce (cr_ke2 resp) ++ rest /\
      length fmk = (match file with Some _ => 0 | None => h_len (hash CS) end) /\
      length (cr_masking_nonce resp) = KE_NONCE_LEN /\ length eseed = k_Nsk (ke CS) /\
      length (k2_nonce (cr_ke2 resp)) = KE_NONCE_LEN /\
      (exists esk, k_derive (ke CS) (hash CS) (o_id (oprf CS)) eseed = Some esk /\
                   k2_server_e_pk (cr_ke2 resp) = k_pub (ke CS) esk).
Proof. exact @server_login_start_layout. Qed.
Print Assumptions C17_server_login_layout.

Theorem C17_fake_masking_key_from_tape :
  forall E Sc Pk Sk (CS : Suite E Sc Pk Sk) tape S (setup : ServerSetup Pk Sk S) rec rest,
    registration_upload_dummy CS tape setup = Ok (rec, rest) ->
    tape = ru_masking_key rec ++ rest /\ length (ru_masking_key rec) = h_len (hash CS) /\
    ru_client_s_pk rec = kp_pk (ss_fake_keypair setup) /\ ru_envelope rec = envelope_dummy CS.
Proof. exact @fake_masking_key_is_tape. Qed.
Print Assumptions C17_fake_masking_key_from_tape.


(* the OPRF blind (per group): the reduction of ONE tape chunk - the first that yields a valid scalar - preceded
   only by rejected chunks; the rest of the tape is returned untouched *)
From Coq Require Import ZArith.
From OKE Require Import Field Weierstrass Curve25519 BlindLayout.
Theorem C17_blind_layout_nist :
  forall (C : wcurve) tape k rest,
    w_random_scalar C tape = Some (k, rest) ->
    exists rejected accepted,
      tape = (concat rejected ++ accepted ++ rest)%list /\
      Forall (w_chunk_rejected C) rejected /\
      length accepted = w_Nfe C /\ k = bytes_to_Z_be accepted /\ (0 < k < w_n C)%Z.
Proof. exact w_blind_layout. Qed.
Print Assumptions C17_blind_layout_nist.

Theorem C17_blind_layout_ristretto :
  forall tape k rest,
    r_random_scalar tape = Some (k, rest) ->
    exists rejected accepted,
      tape = (concat rejected ++ accepted ++ rest)%list /\
      Forall r_chunk_rejected rejected /\
      length accepted = 64 /\ k = (bytes_to_Z_le accepted mod ell)%Z /\ k <> 0%Z.
Proof. exact r_blind_layout. Qed.
Print Assumptions C17_blind_layout_ristretto.

(* ---------------------------------------------------------------- over histories: attempts draw from disjoint ranges
   In every world reachable in the adversarial model (any number of login attempts against any identifiers - with or
   without a record -, interleaved in any order with client steps and finish steps, all parties sharing one tape): two
   server sessions j < k drew their random fields (fake masking key if there is no record, masking nonce, ephemeral-key
   seed, server nonce) from disjoint ranges of that one tape, session k's after session j's.  No random field of an
   attempt is a function of another attempt's or is reused.  [sampler_prefix]: the OPRF scalar sampler consumes a prefix
   of the tape - proved for the 20 suites and the toy suite (second theorem). *)
From Coq Require Import Arith.
From OKE Require Import Generated World FreshRanges SamplerConcrete CodecsConcrete Toy.
Theorem C17_attempts_draw_from_disjoint_ranges_in_any_history :
  forall E Sc Pk Sk (CS : Suite E Sc Pk Sk), sampler_prefix CS ->
  forall setup tape ops j k sj sk,
    let w := run CS (@init E Sc Pk Sk setup tape) ops in
    j < k -> nth_error (w_srv w) j = Some sj -> nth_error (w_srv w) k = Some sk ->
    exists tj fj nj ej mj mid fk nk ek mk restk,
      tj = fj ++ nj ++ ej ++ mj ++ mid ++ fk ++ nk ++ ek ++ mk ++ restk /\
      nj = cr_masking_nonce (sv_resp sj) /\ mj = k2_nonce (cr_ke2 (sv_resp sj)) /\
      nk = cr_masking_nonce (sv_resp sk) /\ mk = k2_nonce (cr_ke2 (sv_resp sk)) /\
      length fj = (match sv_file sj with Some _ => 0 | None => h_len (hash CS) end) /\
      length fk = (match sv_file sk with Some _ => 0 | None => h_len (hash CS) end) /\
      length nj = KE_NONCE_LEN /\ length nk = KE_NONCE_LEN /\ length mj = KE_NONCE_LEN /\ length mk = KE_NONCE_LEN /\
      length ej = k_Nsk (ke CS) /\ length ek = k_Nsk (ke CS) /\
      (exists esk, k_derive (ke CS) (hash CS) (o_id (oprf CS)) ej = Some esk /\ k2_server_e_pk (cr_ke2 (sv_resp sj)) = k_pub (ke CS) esk) /\
      (exists esk, k_derive (ke CS) (hash CS) (o_id (oprf CS)) ek = Some esk /\ k2_server_e_pk (cr_ke2 (sv_resp sk)) = k_pub (ke CS) esk) /\
      suffix tj tape.
Proof. exact @attempts_draw_from_disjoint_ranges. Qed.
Print Assumptions C17_attempts_draw_from_disjoint_ranges_in_any_history.

Theorem C17_samplers_consume_a_prefix_of_the_tape : all_suites (fun _ _ _ _ CS => sampler_prefix CS) /\ sampler_prefix TOY.
Proof. exact (conj sampler_prefix_20 sampler_prefix_toy). Qed.
Print Assumptions C17_samplers_consume_a_prefix_of_the_tape.
