(* C11 - invalid group elements and scalars are never accepted.  Statements only; proofs in
   Theory/FieldsValid.v (the decoders build values only through the validators) and
   Theory/GroupsConcrete.v (what the concrete validators accept).  serde framing is not modelled:
   the battery splices the same invalid field bytes into the crate's own bincode / JSON encodings. *)
From Coq Require Import List ZArith.
From OKE Require Import Bytes Suite Generated Voprf Messages FieldsValid GroupsConcrete Weierstrass Curve25519 Suites.
Import ListNotations.

(* ---- message level: every element / key field of a decoded login message went through the validator *)
Theorem C11_credential_request_fields :
  forall E Sc Pk Sk (CS : Suite E Sc Pk Sk) b m,
    credential_request_deserialize CS b = Ok m ->
    o_deser_e (oprf CS) (firstn (o_Noe (oprf CS)) b) = Some (cq_blinded m) /\
    o_eqb (oprf CS) (o_identity (oprf CS)) (cq_blinded m) = false /\
    k_deser_pk (ke CS) (skipn KE_NONCE_LEN (skipn (o_Noe (oprf CS)) b)) = Some (k1_client_e_pk (cq_ke1 m)).
Proof. exact @credential_request_fields_valid. Qed.
Print Assumptions C11_credential_request_fields.

Theorem C11_credential_response_fields :
  forall E Sc Pk Sk (CS : Suite E Sc Pk Sk) b m,
    credential_response_deserialize CS b = Ok m ->
    o_deser_e (oprf CS) (firstn (o_Noe (oprf CS)) b) = Some (cr_eval m) /\
    o_eqb (oprf CS) (o_identity (oprf CS)) (cr_eval m) = false /\
    exists pkb, k_deser_pk (ke CS) pkb = Some (k2_server_e_pk (cr_ke2 m)) /\
                pkb = firstn (k_Npk (ke CS)) (skipn KE_NONCE_LEN
                        (skipn (o_Noe (oprf CS) + KE_NONCE_LEN + (k_Npk (ke CS) + envelope_len CS)) b)).
Proof. exact @credential_response_fields_valid. Qed.
Print Assumptions C11_credential_response_fields.

Theorem C11_registration_response_fields :
  forall E Sc Pk Sk (CS : Suite E Sc Pk Sk) b m,
    registration_response_deserialize CS b = Ok m ->
    o_deser_e (oprf CS) (firstn (o_Noe (oprf CS)) b) = Some (rr_eval m) /\
    k_deser_pk (ke CS) (skipn (o_Noe (oprf CS)) b) = Some (rr_server_s_pk m).
Proof. exact @registration_response_fields_valid. Qed.
Print Assumptions C11_registration_response_fields.

Theorem C11_password_file_fields :
  forall E Sc Pk Sk (CS : Suite E Sc Pk Sk) b m,
    registration_upload_deserialize CS b = Ok m ->
    k_deser_pk (ke CS) (firstn (k_Npk (ke CS)) b) = Some (ru_client_s_pk m).
Proof. exact @registration_upload_fields_valid. Qed.
Print Assumptions C11_password_file_fields.

Theorem C11_server_setup_fields :
  forall E Sc Pk Sk (CS : Suite E Sc Pk Sk) b s,
    server_setup_deserialize CS (private_key_ops (ke CS)) b = Ok s ->
    k_deser_sk (ke CS) (slice b (h_len (hash CS)) (k_Nsk (ke CS))) = Some (kp_sk (ss_keypair s)) /\
    k_deser_sk (ke CS) (skipn (h_len (hash CS) + k_Nsk (ke CS)) b) = Some (kp_sk (ss_fake_keypair s)) /\
    kp_pk (ss_keypair s) = k_pub (ke CS) (kp_sk (ss_keypair s)).
Proof. exact @server_setup_fields_valid. Qed.
Print Assumptions C11_server_setup_fields.

Theorem C11_client_login_state_fields :
  forall E Sc Pk Sk (CS : Suite E Sc Pk Sk) b s,
    client_login_deserialize CS b = Ok s ->
    o_deser_s (oprf CS) (firstn (o_Nok (oprf CS)) b) = Some (cl_blind s) /\
    (exists kb, k_deser_sk (ke CS) kb = Some (k1s_client_e_sk (cl_ke1_state s)) /\
                kb = firstn (k_Nsk (ke CS)) (skipn (o_Nok (oprf CS) + (o_Noe (oprf CS) + ke1_message_len CS)) b)) /\
    o_eqb (oprf CS) (o_identity (oprf CS)) (cq_blinded (cl_request s)) = false.
Proof. exact @client_login_fields_valid. Qed.
Print Assumptions C11_client_login_state_fields.

(* ---- what the concrete validators accept *)
(* NIST (P-256/384/521), OPRF elements and key-exchange keys alike: a finite point on the curve, coordinates reduced *)
Theorem C11_nist_points_on_curve :
  forall (C : wcurve), (0 < w_p C)%Z -> forall c b P,
    w_deser_gen C c b = Some P ->
    length b = w_Npk C /\
    exists x y, P = Some (x, y) /\ (0 <= x < w_p C)%Z /\ ((y * y) mod w_p C = w_rhs C x)%Z.
Proof. exact w_decoder_only_accepts_curve_points. Qed.
Print Assumptions C11_nist_points_on_curve.

Theorem C11_nist_scalars_in_range :
  forall (C : wcurve) b k, w_deser_scalar C b = Some k -> (0 < k < w_n C)%Z.
Proof. exact w_scalar_valid. Qed.
Print Assumptions C11_nist_scalars_in_range.

Theorem C11_ristretto_scalars_in_range :
  forall b k, r_deser_scalar b = Some k -> (0 < k < ell)%Z /\ length b = 32.
Proof. exact r_scalar_valid. Qed.
Print Assumptions C11_ristretto_scalars_in_range.

Theorem C11_ristretto_elements_decode :
  forall b e, rb_deser b = Some e -> e = b /\ length b = 32 /\ exists P, r_deser_gen false b = Some P.
Proof. exact ristretto_pk_valid. Qed.
Print Assumptions C11_ristretto_elements_decode.

Theorem C11_ristretto_identity_rejected : rb_deser rb_identity = None.
Proof. exact ristretto_rejects_identity. Qed.
Print Assumptions C11_ristretto_identity_rejected.

(* Curve25519: 32 bytes, not the identity, not of small order ([8]u is not the point at infinity) *)
Theorem C11_x25519_public_keys :
  forall b pk, x_deser_pk b = Some pk ->
    pk = b /\ length b = 32 /\ mont_is_identity b = false /\ mont_is_identity (mont_mul_bits 4 8 b) = false.
Proof. exact x25519_pk_valid. Qed.
Print Assumptions C11_x25519_public_keys.

Theorem C11_x25519_small_order_rejected :
  forallb (fun u => match x_deser_pk (Field.Z_to_bytes_le 32 u) with None => true | Some _ => false end)
          [0; 1; p25519 - 1; p25519; p25519 + 1;
           325606250916557431795983626356110631294008115727848805560023387167927233504;
           39382357235489614581723060781553021112529911719440698176882885853963445705823]%Z = true.
Proof. exact x25519_rejects_small_order. Qed.
Print Assumptions C11_x25519_small_order_rejected.

Theorem C11_x25519_private_keys :
  forall b s, x_deser_sk b = Some s -> s = b /\ length b = 32 /\ clamp b = b /\ b <> zeros 32.
Proof. exact x25519_sk_valid. Qed.
Print Assumptions C11_x25519_private_keys.
