(* C10 - wire and storage encodings are strict and canonical.  Statements only;
   proofs in Theory/Codecs.v, Theory/Roundtrip.v, Theory/CodecsConcrete.v. *)
From Coq Require Import List.
From OKE Require Import Bytes Suite Messages Codecs Roundtrip CodecsConcrete.

(* A decoder D with encoder S is strict when every accepted byte string re-encodes to itself. *)
Definition strict {A} (D : bytes -> result A) (S : A -> bytes) : Prop := forall b v, D b = Ok v -> S v = b.

(* all eleven decoders of a suite *)
Definition all_decoders_strict {E Sc Pk Sk} (CS : Suite E Sc Pk Sk) : Prop :=
  strict (registration_request_deserialize CS) (registration_request_serialize CS) /\
  strict (registration_response_deserialize CS) (registration_response_serialize CS) /\
  strict (registration_upload_deserialize CS) (registration_upload_serialize CS) /\     (* = password file *)
  strict (credential_request_deserialize CS) (credential_request_serialize CS) /\
  strict (credential_response_deserialize CS) (credential_response_serialize CS) /\
  strict (credential_finalization_deserialize CS) credential_finalization_serialize /\
  strict (server_setup_deserialize CS (private_key_ops (ke CS))) (server_setup_serialize CS (private_key_ops (ke CS))) /\
  strict (client_registration_deserialize CS) (client_registration_serialize CS) /\
  strict (client_login_deserialize CS) (client_login_serialize CS) /\
  strict (server_login_deserialize CS) server_login_serialize.

(* generic: strictness of all decoders from the element-level laws *)
Theorem C10_strict_generic :
  forall E Sc Pk Sk (CS : Suite E Sc Pk Sk), CodecLaws CS -> all_decoders_strict CS.
Proof.
  intros E Sc Pk Sk CS L. unfold all_decoders_strict, strict.
  repeat split; intros b v H.
  - eapply registration_request_strict; eauto.
  - eapply registration_response_strict; eauto.
  - eapply registration_upload_strict; eauto.
  - eapply credential_request_strict; eauto.
  - eapply credential_response_strict; eauto.
  - eapply credential_finalization_strict; eauto.
  - eapply server_setup_strict; eauto.
  - eapply client_registration_strict; eauto.
  - eapply client_login_strict; eauto.
  - eapply server_login_strict; eauto.
Qed.
Print Assumptions C10_strict_generic.

(* concrete: all 20 suites, unconditionally (ristretto255 elements are represented by their canonical
   encoding in the model, NIST points are canonical by construction of the repaired decoder) *)
Theorem C10_strict_20_suites : all_suites (fun _ _ _ _ CS => all_decoders_strict CS).
Proof.
  pose proof codec_laws_20 as H. unfold all_suites in *.
  repeat match goal with H : _ /\ _ |- _ => destruct H end.
  repeat split; apply C10_strict_generic; assumption.
Qed.
Print Assumptions C10_strict_20_suites.

(* fixed length: every accepted credential response has the suite's length; two different byte
   strings are never the same message *)
Theorem C10_fixed_length_credential_response :
  forall E Sc Pk Sk (CS : Suite E Sc Pk Sk) b m,
    credential_response_deserialize CS b = Ok m -> length b = credential_response_len CS.
Proof. exact @credential_response_length. Qed.
Print Assumptions C10_fixed_length_credential_response.

Theorem C10_no_two_strings_one_message :
  forall E Sc Pk Sk (CS : Suite E Sc Pk Sk), CodecLaws CS ->
  forall b1 b2 m, credential_response_deserialize CS b1 = Ok m -> credential_response_deserialize CS b2 = Ok m -> b1 = b2.
Proof. exact @credential_response_injective. Qed.
Print Assumptions C10_no_two_strings_one_message.

(* encoding followed by decoding is the identity on well-formed values *)
Theorem C10_roundtrip_credential_response :
  forall E Sc Pk Sk (CS : Suite E Sc Pk Sk) m,
    wf_elem_nonid CS (cr_eval m) -> length (cr_masking_nonce m) = Generated.KE_NONCE_LEN ->
    wf_masked CS (cr_masked m) -> wf_ke2 CS (cr_ke2 m) ->
    credential_response_deserialize CS (credential_response_serialize CS m) = Ok m.
Proof. exact @credential_response_rt. Qed.
Print Assumptions C10_roundtrip_credential_response.

Theorem C10_roundtrip_client_login :
  forall E Sc Pk Sk (CS : Suite E Sc Pk Sk) s,
    wf_scalar CS (cl_blind s) -> wf_elem_nonid CS (cq_blinded (cl_request s)) -> wf_ke1 CS (cq_ke1 (cl_request s)) ->
    wf_sk CS (k1s_client_e_sk (cl_ke1_state s)) -> length (k1s_nonce (cl_ke1_state s)) = Generated.KE_NONCE_LEN ->
    client_login_deserialize CS (client_login_serialize CS s) = Ok s.
Proof. exact @client_login_rt. Qed.
Print Assumptions C10_roundtrip_client_login.
