(* C08 - unregistered users are indistinguishable from registered ones.  Statements only.
   Proved: same length and structure; the evaluation is the same function of (seed, credential identifier,
   request) as for a registered user; the fake record is (fresh masking key copied from the tape, all-zero
   envelope, the setup's fake public key); the remaining fields are read from the same tape ranges as in
   the real path (C17); no string other than the one HMAC completes the server side (C03).
   The client's InvalidLogin on a fake response is validated by the battery (it rests on the client not
   guessing the fake-key seed: a BadGuess event, DESIGN.md 2.2). *)
From Coq Require Import List.
From OKE Require Import Bytes Suite Generated Voprf Messages Envelope TripleDH Opaque Laws Accept TapeLayout Shape.

Theorem C08_same_length_and_structure :
  forall E Sc Pk Sk (CS : Suite E Sc Pk Sk), HashLaws (hash CS) -> GroupLaws CS ->
  forall tape (setup : ServerSetup Pk Sk Sk) file rq cred ctx ids st resp rest dbg,
    server_login_start CS (private_key_ops (ke CS)) tape setup file rq cred ctx ids = Ok (st, resp, rest, dbg) ->
    ve CS (cq_blinded rq) -> vk CS (kp_sk (ss_keypair setup)) ->
    (forall f, file = Some f -> envelope_has_length CS (ru_envelope f)) ->
    length (credential_response_serialize CS resp) = credential_response_len CS.
Proof. exact @response_length. Qed.
Print Assumptions C08_same_length_and_structure.

Theorem C08_same_evaluation :
  forall E Sc Pk Sk (CS : Suite E Sc Pk Sk) S (SK : SkOps Pk S) tape (setup : ServerSetup Pk Sk S) file rq cred ctx ids st resp rest dbg,
    server_login_start CS SK tape setup file rq cred ctx ids = Ok (st, resp, rest, dbg) ->
    server_evaluate CS (ss_oprf_seed setup) cred (cq_blinded rq) = Ok (cr_eval resp).
Proof. exact @login_start_evaluation. Qed.
Print Assumptions C08_same_evaluation.

Theorem C08_fake_record :
  forall E Sc Pk Sk (CS : Suite E Sc Pk Sk) tape S (setup : ServerSetup Pk Sk S) rec rest,
    registration_upload_dummy CS tape setup = Ok (rec, rest) ->
    tape = ru_masking_key rec ++ rest /\ length (ru_masking_key rec) = h_len (hash CS) /\
    ru_client_s_pk rec = kp_pk (ss_fake_keypair setup) /\ ru_envelope rec = envelope_dummy CS.
Proof. exact @fake_masking_key_is_tape. Qed.
Print Assumptions C08_fake_record.

Theorem C08_fields_from_fresh_tape_ranges :
  forall E Sc Pk Sk (CS : Suite E Sc Pk Sk) S (SK : SkOps Pk S) tape setup file rq cred ctx ids st resp rest dbg,
    server_login_start CS SK tape setup file rq cred ctx ids = Ok (st, resp, rest, dbg) ->
    exists fmk eseed,
      tape = fmk ++ cr_masking_nonce resp ++ eseed ++ k2_nonce (cr_ke2 resp) ++ rest /\
      length fmk = (match file with Some _ => 0 | None => h_len (hash CS) end) /\
      length (cr_masking_nonce resp) = KE_NONCE_LEN /\ length eseed = k_Nsk (ke CS) /\
      length (k2_nonce (cr_ke2 resp)) = KE_NONCE_LEN /\
      (exists esk, k_derive (ke CS) (hash CS) (o_id (oprf CS)) eseed = Some esk /\
                   k2_server_e_pk (cr_ke2 resp) = k_pub (ke CS) esk).
Proof. exact @server_login_start_layout. Qed.
Print Assumptions C08_fields_from_fresh_tape_ranges.

Theorem C08_no_other_finalization :
  forall E Sc Pk Sk (CS : Suite E Sc Pk Sk) st m,
    cf_mac m <> h_hmac (hash CS) (sl_km3 st) (sl_hashed_transcript st) ->
    server_login_finish CS st m = Err EInvalidLogin.
Proof. exact @server_finish_reject. Qed.
Print Assumptions C08_no_other_finalization.


(* ---------------------------------------------------------------- at the 20 concrete suites
   The theorems above that assume GroupLaws, restated for each of the 20 suites with CurveLaws as the only hypothesis
   (HashLaws, CodecLaws, SizeLaws and the encoding half of GroupLaws are proved for them: Theory/GroupSplit.v). *)
From OKE Require Import CodecsConcrete GroupSplit Concrete20.

Definition C08_same_length_and_structure_statement {E Sc Pk Sk} (CS : Suite E Sc Pk Sk) : Prop :=
  forall tape (setup : ServerSetup Pk Sk Sk) file rq cred ctx ids st resp rest dbg,
    server_login_start CS (private_key_ops (ke CS)) tape setup file rq cred ctx ids = Ok (st, resp, rest, dbg) ->
    ve CS (cq_blinded rq) -> vk CS (kp_sk (ss_keypair setup)) ->
    (forall f, file = Some f -> envelope_has_length CS (ru_envelope f)) ->
    length (credential_response_serialize CS resp) = credential_response_len CS.
Theorem C08_same_length_and_structure_at_each_of_the_20_suites : all_suites (fun _ _ _ _ CS => CurveLaws CS -> C08_same_length_and_structure_statement CS).
Proof. apply at_the_20_suites. exact C08_same_length_and_structure. Qed.
Print Assumptions C08_same_length_and_structure_at_each_of_the_20_suites.

(* ---------------------------------------------------------------- over histories: attempts draw from disjoint ranges
   In every world reachable in the adversarial model (any number of login attempts against any identifiers - with or
   without a record -, interleaved in any order with client steps and finish steps, all parties sharing one tape): two
   server sessions j < k drew their random fields (fake masking key if there is no record, masking nonce, ephemeral-key
   seed, server nonce) from disjoint ranges of that one tape, session k's after session j's.  No random field of an
   attempt is a function of another attempt's or is reused.  [sampler_prefix]: the OPRF scalar sampler consumes a prefix
   of the tape - proved for the 20 suites and the toy suite (second theorem). *)
From Coq Require Import Arith.
From OKE Require Import Generated World FreshRanges SamplerConcrete CodecsConcrete Toy.
Theorem C08_attempts_draw_from_disjoint_ranges_in_any_history :
  forall E Sc Pk Sk (CS : Suite E Sc Pk Sk), sampler_prefix CS ->
  forall setup tape ops j k sj sk,
    let w := run CS (@init E Sc Pk Sk setup tape) ops in
    j < k -> nth_error (w_srv w) j = Some sj -> nth_error (w_srv w) k = Some sk ->
    exists tj fj nj ej mj mid fk nk ek mk restk,
      tj = fj ++ nj ++ ej ++ mj ++ mid ++ fk ++ nk ++ ek ++ mk ++ restk /\
      nj = cr_masking_nonce (sv_resp sj) /\ mj = k2_nonce (cr_ke2 (sv_resp sj)) /\
      nk = cr_masking_nonce (sv_resp sk) /\ mk = k2_nonce (cr_ke2 (sv_resp sk)) /\
      length fj = (match sv_file sj with Some _ => 0 | None => h_len (hash CS) end) /\
      length fk = (match sv_file sk with Some _ => 0 | None => h_len (hash CS) end) /\
      length nj = KE_NONCE_LEN /\ length nk = KE_NONCE_LEN /\ length mj = KE_NONCE_LEN /\ length mk = KE_NONCE_LEN /\
      length ej = k_Nsk (ke CS) /\ length ek = k_Nsk (ke CS) /\
      (exists esk, k_derive (ke CS) (hash CS) (o_id (oprf CS)) ej = Some esk /\ k2_server_e_pk (cr_ke2 (sv_resp sj)) = k_pub (ke CS) esk) /\
      (exists esk, k_derive (ke CS) (hash CS) (o_id (oprf CS)) ek = Some esk /\ k2_server_e_pk (cr_ke2 (sv_resp sk)) = k_pub (ke CS) esk) /\
      suffix tj tape.
Proof. exact @attempts_draw_from_disjoint_ranges. Qed.
Print Assumptions C08_attempts_draw_from_disjoint_ranges_in_any_history.

Theorem C08_samplers_consume_a_prefix_of_the_tape : all_suites (fun _ _ _ _ CS => sampler_prefix CS) /\ sampler_prefix TOY.
Proof. exact (conj sampler_prefix_20 sampler_prefix_toy). Qed.
Print Assumptions C08_samplers_consume_a_prefix_of_the_tape.
