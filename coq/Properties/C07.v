(* C07 - sessions are fresh and isolated under adversarial message routing.
   PROVED so far (this file): the pairwise facts the matched-conversation argument is made of -
   (a) a pending server session accepts exactly one finalization, the HMAC over ITS transcript under ITS key;
   (b) the transcript determines the request, the response without MAC, the server nonce and ephemeral key,
       the context and both identities (so two sessions with equal transcripts have exchanged the same
       request and response);
   (c) within a matched session both sides derive the same key and the client's finalization is the one
       the server expects;
   (d) every session draws its nonces and ephemeral seeds from its own, disjoint range of the tape.
   (e) MATCHING, whatever the routing: a client that accepts a response carrying the MAC of an honest server
       session has the same transcript as that session (so the session consumed this client's request and
       the response is that session's, field by field), and a server session that accepts a client run's
       finalization has the transcript and server MAC that run verified - or an HMAC / hash collision is
       exhibited.
   (f) HISTORIES (end of this file): the world of Model/World.v - one server setup, any number of client and
       server sessions, a network adversary who chooses every delivered message and the order of all steps, one
       shared RNG tape - satisfies, after EVERY sequence of operations (induction over the operation list, no
       bound), that each recorded acceptance is backed by its step's defining equation; hence in every reachable
       world (e) holds for every completed client session against every server session, and every completed
       server session accepted the one MAC over its own transcript and released its own key.
   What remains outside the theorems: that a response whose MAC was NOT produced by any honest session is
   rejected (unforgeability; C04), covered by the exhaustive routing/tamper batteries. *)
From Coq Require Import List.
From OKE Require Import Bytes Suite Generated Voprf Messages Envelope TripleDH Opaque Laws Layers Transcript Accept TapeLayout Bad Matching.

Theorem C07_one_finalization_per_session :
  forall E Sc Pk Sk (CS : Suite E Sc Pk Sk) st m k,
    server_login_finish CS st m = Ok k <->
    cf_mac m = h_hmac (hash CS) (sl_km3 st) (sl_hashed_transcript st) /\ k = sl_session_key st.
Proof. exact @server_finish_accept_iff. Qed.
Print Assumptions C07_one_finalization_per_session.

Theorem C07_transcript_determines_conversation :
  forall context iu req is_ l2 n e context' iu' req' is_' l2' n' e' u s u' s' p,
    lenprefix 2 iu = Some u -> lenprefix 2 is_ = Some s ->
    lenprefix 2 iu' = Some u' -> lenprefix 2 is_' = Some s' ->
    length req = length req' -> length l2 = length l2' -> length n = length n' ->
    preamble context u req s l2 n e = Ok p ->
    preamble context' u' req' s' l2' n' e' = Ok p ->
    context = context' /\ iu = iu' /\ req = req' /\ is_ = is_' /\ l2 = l2' /\ n = n' /\ e = e'.
Proof. exact preamble_injective. Qed.
Print Assumptions C07_transcript_determines_conversation.

Theorem C07_matched_session_agrees :
  forall E Sc Pk Sk (CS : Suite E Sc Pk Sk), GroupLaws CS ->
  forall tape req l2 cnonce ce cs ss u s ctx st ke2 rest dbg,
    vk CS ce -> vk CS cs -> vk CS ss ->
    generate_ke2 CS (private_key_ops (ke CS)) tape req l2
                 {| k1_nonce := cnonce; k1_client_e_pk := k_pub (ke CS) ce |} (k_pub (ke CS) cs) ss u s ctx
      = Ok (st, ke2, rest, dbg) ->
    exists dbg',
      generate_ke3 CS l2 ke2 {| k1s_client_e_sk := ce; k1s_nonce := cnonce |} req (k_pub (ke CS) ss) cs u s ctx
        = Ok (sl_session_key st, {| cf_mac := h_hmac (hash CS) (sl_km3 st) (sl_hashed_transcript st) |}, dbg') /\
      server_login_finish CS st {| cf_mac := h_hmac (hash CS) (sl_km3 st) (sl_hashed_transcript st) |}
        = Ok (sl_session_key st).
Proof. exact @ke_agreement. Qed.
Print Assumptions C07_matched_session_agrees.

Theorem C07_session_randomness_from_own_tape_range :
  forall E Sc Pk Sk (CS : Suite E Sc Pk Sk) S (SK : SkOps Pk S) tape setup file rq cred ctx ids st resp rest dbg,
    server_login_start CS SK tape setup file rq cred ctx ids = Ok (st, resp, rest, dbg) ->
    exists fmk eseed,
      tape = fmk ++ cr_masking_nonce resp ++ eseed ++ k2_nonce (cr_ke2 resp) ++ rest /\
      length fmk = (match file with Some _ => 0 | None => h_len (hash CS) end) /\
      length (cr_masking_nonce resp) = KE_NONCE_LEN /\ length eseed = k_Nsk (ke CS) /\
      length (k2_nonce (cr_ke2 resp)) = KE_NONCE_LEN /\
      (exists esk, k_derive (ke CS) (hash CS) (o_id (oprf CS)) eseed = Some esk /\
                   k2_server_e_pk (cr_ke2 resp) = k_pub (ke CS) esk).
Proof. exact @server_login_start_layout. Qed.
Print Assumptions C07_session_randomness_from_own_tape_range.

Theorem C07_accepted_response_matches_a_server_session :
  forall E Sc Pk Sk (CS : Suite E Sc Pk Sk), HashLaws (hash CS) ->
  forall a b c pre sk km2 km3 hs a' b' c' pre' sk' km2' km3' hs',
    derive_3dh_keys CS a b c (h_hash (hash CS) pre) = Ok (sk, km2, km3, hs) ->
    derive_3dh_keys CS a' b' c' (h_hash (hash CS) pre') = Ok (sk', km2', km3', hs') ->
    h_hmac (hash CS) km2 (h_hash (hash CS) pre) = h_hmac (hash CS) km2' (h_hash (hash CS) pre') ->
    (pre = pre' /\ a ++ b ++ c = a' ++ b' ++ c' /\ sk = sk' /\ km3 = km3') \/ Bad (hash CS).
Proof. exact @equal_server_mac_equal_transcript. Qed.
Print Assumptions C07_accepted_response_matches_a_server_session.

Theorem C07_equal_transcripts_same_conversation :
  forall ctx ids cpk spk u s req l2 n e pre ctx' ids' cpk' spk' u' s' req' l2' n' e',
    bytestrings_from_identifiers ids cpk spk = Ok (u, s) ->
    bytestrings_from_identifiers ids' cpk' spk' = Ok (u', s') ->
    length req = length req' -> length l2 = length l2' -> length n = length n' ->
    preamble ctx u req s l2 n e = Ok pre ->
    preamble ctx' u' req' s' l2' n' e' = Ok pre ->
    ctx = ctx' /\ effective (id_client ids) cpk = effective (id_client ids') cpk' /\
    effective (id_server ids) spk = effective (id_server ids') spk' /\
    req = req' /\ l2 = l2' /\ n = n' /\ e = e'.
Proof. exact @equal_transcripts_same_conversation. Qed.
Print Assumptions C07_equal_transcripts_same_conversation.

Theorem C07_accepted_finalization_matches_the_client_run :
  forall E Sc Pk Sk (CS : Suite E Sc Pk Sk) st fin k pre mac km3c prec macc,
    sl_hashed_transcript st = h_hash (hash CS) (pre ++ mac) ->
    cf_mac fin = h_hmac (hash CS) km3c (h_hash (hash CS) (prec ++ macc)) ->
    length (sl_km3 st) = length km3c ->
    server_login_finish CS st fin = Ok k ->
    (sl_km3 st = km3c /\ pre ++ mac = prec ++ macc /\ k = sl_session_key st) \/ Bad (hash CS).
Proof. exact @accepted_finalization_same_transcript. Qed.
Print Assumptions C07_accepted_finalization_matches_the_client_run.

(* the same at the API level: ANY response r' that a client accepts and whose MAC field is the MAC of an honest
   server session's response is that session's response, the session consumed this client's own request, context
   agrees and the key the server will release is the client's key - or a collision is exhibited *)
From OKE Require Import ClientAccept MatchingApi.
Theorem C07_accepted_response_is_that_sessions :
  forall E Sc Pk Sk (CS : Suite E Sc Pk Sk), HashLaws (hash CS) -> GroupLaws CS ->
  forall tape (setup : ServerSetup Pk Sk Sk) file rq cred ctx_s ids_s slog resp rest dbg
         clog pw r' ctx_c ids_c ksf fin sk ek spk dbgc,
    server_login_start CS (private_key_ops (ke CS)) tape setup (Some file) rq cred ctx_s ids_s = Ok (slog, resp, rest, dbg) ->
    client_login_finish CS clog pw r' ctx_c ids_c ksf = Ok (fin, sk, ek, spk, dbgc) ->
    k2_mac (cr_ke2 r') = k2_mac (cr_ke2 resp) ->
    length (client_request_bytes CS clog) = length (server_request_bytes CS rq) ->
    length (client_l2 CS r') = length (client_l2 CS resp) ->
    length (k2_nonce (cr_ke2 r')) = length (k2_nonce (cr_ke2 resp)) ->
    (client_request_bytes CS clog = server_request_bytes CS rq /\
     client_l2 CS r' = client_l2 CS resp /\
     k2_nonce (cr_ke2 r') = k2_nonce (cr_ke2 resp) /\
     k_ser_pk (ke CS) (k2_server_e_pk (cr_ke2 r')) = k_ser_pk (ke CS) (k2_server_e_pk (cr_ke2 resp)) /\
     match ctx_c with Some c => c | None => nil end = match ctx_s with Some c => c | None => nil end /\
     sk = sl_session_key slog)
    \/ Bad (hash CS).
Proof. exact @accepted_response_is_that_sessions. Qed.
Print Assumptions C07_accepted_response_is_that_sessions.

(* distinct completed sessions have distinct session keys: equal keys force equal transcripts - the same client
   nonce and key share (inside the request), the same server nonce and key share - or a collision is exhibited;
   nonces of different sessions are copies of different tape ranges (C17) *)
From OKE Require Import Freshness.
Theorem C07_equal_session_keys_equal_nonces :
  forall E Sc Pk Sk (CS : Suite E Sc Pk Sk), HashLaws (hash CS) ->
  forall a b c sk km2 km3 hs a' b' c' sk' km2' km3' hs'
         ctx u req s l2 n e pre ctx' u' req' s' l2' n' e' pre' iu is_ iu' is_',
    lenprefix 2 iu = Some u -> lenprefix 2 is_ = Some s -> lenprefix 2 iu' = Some u' -> lenprefix 2 is_' = Some s' ->
    length req = length req' -> length l2 = length l2' -> length n = length n' ->
    preamble ctx u req s l2 n e = Ok pre -> preamble ctx' u' req' s' l2' n' e' = Ok pre' ->
    derive_3dh_keys CS a b c (h_hash (hash CS) pre) = Ok (sk, km2, km3, hs) ->
    derive_3dh_keys CS a' b' c' (h_hash (hash CS) pre') = Ok (sk', km2', km3', hs') ->
    sk = sk' -> (req = req' /\ n = n' /\ e = e') \/ Bad (hash CS).
Proof. exact @equal_session_keys_equal_nonces. Qed.
Print Assumptions C07_equal_session_keys_equal_nonces.


(* ---- histories: every reachable world *)
From OKE Require Import World WorldInv.
Theorem C07_invariant_in_every_reachable_world :
  forall E Sc Pk Sk (CS : Suite E Sc Pk Sk) setup tape (ops : list (op (E := E) (Pk := Pk))),
    Inv CS (run CS (@init E Sc Pk Sk setup tape) ops).
Proof. exact @reachable_inv. Qed.
Print Assumptions C07_invariant_in_every_reachable_world.

Theorem C07_matched_conversations_in_every_reachable_world :
  forall E Sc Pk Sk (CS : Suite E Sc Pk Sk), HashLaws (hash CS) -> GroupLaws CS ->
  forall setup tape ops d s f,
    let w := run CS (@init E Sc Pk Sk setup tape) ops in
    In d (w_cdone w) -> In s (w_srv w) -> sv_file s = Some f ->
    k2_mac (cr_ke2 (cd_resp d)) = k2_mac (cr_ke2 (sv_resp s)) ->
    forall c, nth_error (w_cli w) (cd_client d) = Some c ->
    length (client_request_bytes CS (cs_state c)) = length (server_request_bytes CS (sv_rq s)) ->
    length (client_l2 CS (cd_resp d)) = length (client_l2 CS (sv_resp s)) ->
    length (k2_nonce (cr_ke2 (cd_resp d))) = length (k2_nonce (cr_ke2 (sv_resp s))) ->
    (client_request_bytes CS (cs_state c) = server_request_bytes CS (sv_rq s) /\
     client_l2 CS (cd_resp d) = client_l2 CS (sv_resp s) /\
     k2_nonce (cr_ke2 (cd_resp d)) = k2_nonce (cr_ke2 (sv_resp s)) /\
     k_ser_pk (ke CS) (k2_server_e_pk (cr_ke2 (cd_resp d))) = k_ser_pk (ke CS) (k2_server_e_pk (cr_ke2 (sv_resp s))) /\
     match cd_ctx d with Some x => x | None => nil end = match sv_ctx s with Some x => x | None => nil end /\
     cd_key d = sl_session_key (sv_state s))
    \/ Bad (hash CS).
Proof. exact @matched_conversations. Qed.
Print Assumptions C07_matched_conversations_in_every_reachable_world.

Theorem C07_server_completions_in_every_reachable_world :
  forall E Sc Pk Sk (CS : Suite E Sc Pk Sk) setup tape ops d,
    let w := run CS (@init E Sc Pk Sk setup tape) ops in
    In d (w_sdone w) ->
    exists s, nth_error (w_srv w) (sd_server d) = Some s /\
      cf_mac (sd_fin d) = h_hmac (hash CS) (sl_km3 (sv_state s)) (sl_hashed_transcript (sv_state s)) /\
      sd_key d = sl_session_key (sv_state s).
Proof. exact @server_completions. Qed.
Print Assumptions C07_server_completions_in_every_reachable_world.


(* ---------------------------------------------------------------- at the 20 concrete suites
   The theorems above that assume GroupLaws, restated for each of the 20 suites with CurveLaws as the only hypothesis
   (HashLaws, CodecLaws, SizeLaws and the encoding half of GroupLaws are proved for them: Theory/GroupSplit.v). *)
From OKE Require Import CodecsConcrete GroupSplit Concrete20.

Definition C07_matched_session_agrees_statement {E Sc Pk Sk} (CS : Suite E Sc Pk Sk) : Prop :=
  forall tape req l2 cnonce ce cs ss u s ctx st ke2 rest dbg,
    vk CS ce -> vk CS cs -> vk CS ss ->
    generate_ke2 CS (private_key_ops (ke CS)) tape req l2
                 {| k1_nonce := cnonce; k1_client_e_pk := k_pub (ke CS) ce |} (k_pub (ke CS) cs) ss u s ctx
      = Ok (st, ke2, rest, dbg) ->
    exists dbg',
      generate_ke3 CS l2 ke2 {| k1s_client_e_sk := ce; k1s_nonce := cnonce |} req (k_pub (ke CS) ss) cs u s ctx
        = Ok (sl_session_key st, {| cf_mac := h_hmac (hash CS) (sl_km3 st) (sl_hashed_transcript st) |}, dbg') /\
      server_login_finish CS st {| cf_mac := h_hmac (hash CS) (sl_km3 st) (sl_hashed_transcript st) |}
        = Ok (sl_session_key st).
Theorem C07_matched_session_agrees_at_each_of_the_20_suites : all_suites (fun _ _ _ _ CS => CurveLaws CS -> C07_matched_session_agrees_statement CS).
Proof. apply at_the_20_suites_g. exact C07_matched_session_agrees. Qed.
Print Assumptions C07_matched_session_agrees_at_each_of_the_20_suites.

Definition C07_accepted_response_is_that_sessions_statement {E Sc Pk Sk} (CS : Suite E Sc Pk Sk) : Prop :=
  forall tape (setup : ServerSetup Pk Sk Sk) file rq cred ctx_s ids_s slog resp rest dbg
         clog pw r' ctx_c ids_c ksf fin sk ek spk dbgc,
    server_login_start CS (private_key_ops (ke CS)) tape setup (Some file) rq cred ctx_s ids_s = Ok (slog, resp, rest, dbg) ->
    client_login_finish CS clog pw r' ctx_c ids_c ksf = Ok (fin, sk, ek, spk, dbgc) ->
    k2_mac (cr_ke2 r') = k2_mac (cr_ke2 resp) ->
    length (client_request_bytes CS clog) = length (server_request_bytes CS rq) ->
    length (client_l2 CS r') = length (client_l2 CS resp) ->
    length (k2_nonce (cr_ke2 r')) = length (k2_nonce (cr_ke2 resp)) ->
    (client_request_bytes CS clog = server_request_bytes CS rq /\
     client_l2 CS r' = client_l2 CS resp /\
     k2_nonce (cr_ke2 r') = k2_nonce (cr_ke2 resp) /\
     k_ser_pk (ke CS) (k2_server_e_pk (cr_ke2 r')) = k_ser_pk (ke CS) (k2_server_e_pk (cr_ke2 resp)) /\
     match ctx_c with Some c => c | None => nil end = match ctx_s with Some c => c | None => nil end /\
     sk = sl_session_key slog)
    \/ Bad (hash CS).
Theorem C07_accepted_response_is_that_sessions_at_each_of_the_20_suites : all_suites (fun _ _ _ _ CS => CurveLaws CS -> C07_accepted_response_is_that_sessions_statement CS).
Proof. apply at_the_20_suites. exact C07_accepted_response_is_that_sessions. Qed.
Print Assumptions C07_accepted_response_is_that_sessions_at_each_of_the_20_suites.

Definition C07_matched_conversations_in_every_reachable_world_statement {E Sc Pk Sk} (CS : Suite E Sc Pk Sk) : Prop :=
  forall setup tape ops d s f,
    let w := run CS (@init E Sc Pk Sk setup tape) ops in
    In d (w_cdone w) -> In s (w_srv w) -> sv_file s = Some f ->
    k2_mac (cr_ke2 (cd_resp d)) = k2_mac (cr_ke2 (sv_resp s)) ->
    forall c, nth_error (w_cli w) (cd_client d) = Some c ->
    length (client_request_bytes CS (cs_state c)) = length (server_request_bytes CS (sv_rq s)) ->
    length (client_l2 CS (cd_resp d)) = length (client_l2 CS (sv_resp s)) ->
    length (k2_nonce (cr_ke2 (cd_resp d))) = length (k2_nonce (cr_ke2 (sv_resp s))) ->
    (client_request_bytes CS (cs_state c) = server_request_bytes CS (sv_rq s) /\
     client_l2 CS (cd_resp d) = client_l2 CS (sv_resp s) /\
     k2_nonce (cr_ke2 (cd_resp d)) = k2_nonce (cr_ke2 (sv_resp s)) /\
     k_ser_pk (ke CS) (k2_server_e_pk (cr_ke2 (cd_resp d))) = k_ser_pk (ke CS) (k2_server_e_pk (cr_ke2 (sv_resp s))) /\
     match cd_ctx d with Some x => x | None => nil end = match sv_ctx s with Some x => x | None => nil end /\
     cd_key d = sl_session_key (sv_state s))
    \/ Bad (hash CS).
Theorem C07_matched_conversations_in_every_reachable_world_at_each_of_the_20_suites : all_suites (fun _ _ _ _ CS => CurveLaws CS -> C07_matched_conversations_in_every_reachable_world_statement CS).
Proof. apply at_the_20_suites. exact C07_matched_conversations_in_every_reachable_world. Qed.
Print Assumptions C07_matched_conversations_in_every_reachable_world_at_each_of_the_20_suites.
