(* C05 - identities, context and credential identifier are bound, unambiguously.
   The injectivity half is unconditional list arithmetic: no hash is involved, so "moving bytes
   between context, client identity and server identity, or changing a length across the 255/256
   or 65535 boundary, never turns a mismatch into a match" holds for every length below 2^16, and
   longer values are refused.  Statements only; proofs in Theory/Transcript.v, Theory/BytesLemmas.v. *)
From Coq Require Import List NArith.
From OKE Require Import Bytes Suite Generated Labels Messages Envelope TripleDH Opaque BytesLemmas Transcript.

(* the length prefix refuses exactly what does not fit: never a wrapped or truncated encoding *)
Theorem C05_i2osp2_refuses : forall n, i2osp_nat 2 n = None <-> (65536 <= N.of_nat n)%N.
Proof. exact i2osp2_refuses. Qed.
Print Assumptions C05_i2osp2_refuses.

(* a length-prefixed field followed by anything determines the field and the rest *)
Theorem C05_lenprefix_injective :
  forall l x y px py r1 r2, lenprefix l x = Some px -> lenprefix l y = Some py -> px ++ r1 = py ++ r2 -> x = y /\ r1 = r2.
Proof. exact lenprefix_inj. Qed.
Print Assumptions C05_lenprefix_injective.

(* the 3DH transcript determines context, both effective identities, the request, the response
   without MAC, the server nonce and the server ephemeral key *)
Theorem C05_preamble_injective :
  forall context iu req is_ l2 n e context' iu' req' is_' l2' n' e' u s u' s' p,
    lenprefix 2 iu = Some u -> lenprefix 2 is_ = Some s ->
    lenprefix 2 iu' = Some u' -> lenprefix 2 is_' = Some s' ->
    length req = length req' -> length l2 = length l2' -> length n = length n' ->
    preamble context u req s l2 n e = Ok p ->
    preamble context' u' req' s' l2' n' e' = Ok p ->
    context = context' /\ iu = iu' /\ req = req' /\ is_ = is_' /\ l2 = l2' /\ n = n' /\ e = e'.
Proof. exact preamble_injective. Qed.
Print Assumptions C05_preamble_injective.

Theorem C05_no_boundary_shift :
  forall context iu is_ context' iu' is_' req l2 n e u s u' s' p p',
    lenprefix 2 iu = Some u -> lenprefix 2 is_ = Some s ->
    lenprefix 2 iu' = Some u' -> lenprefix 2 is_' = Some s' ->
    preamble context u req s l2 n e = Ok p ->
    preamble context' u' req s' l2 n e = Ok p' ->
    (context, iu, is_) <> (context', iu', is_') -> p <> p'.
Proof. exact preamble_no_boundary_shift. Qed.
Print Assumptions C05_no_boundary_shift.

(* the data authenticated by the envelope determines the server key and both sealed identities *)
Theorem C05_aad_injective :
  forall nonce iu is_ spk nonce' iu' is_' spk' u s u' s',
    lenprefix 2 iu = Some u -> lenprefix 2 is_ = Some s ->
    lenprefix 2 iu' = Some u' -> lenprefix 2 is_' = Some s' ->
    length nonce = length nonce' -> length spk = length spk' ->
    nonce ++ construct_aad u s spk = nonce' ++ construct_aad u' s' spk' ->
    nonce = nonce' /\ spk = spk' /\ is_ = is_' /\ iu = iu'.
Proof. exact aad_injective. Qed.
Print Assumptions C05_aad_injective.

(* the per-credential OPRF key is derived from an injective encoding of the credential identifier *)
Theorem C05_credential_identifier_injective :
  forall cred cred', cred ++ STR_OPRF_KEY = cred' ++ STR_OPRF_KEY -> cred = cred'.
Proof. exact oprf_key_info_injective. Qed.
Print Assumptions C05_credential_identifier_injective.

(* an absent identity means that party's static public key *)
Theorem C05_default_identity_spelling :
  forall ids cpk spk,
    bytestrings_from_identifiers ids cpk spk =
    bytestrings_from_identifiers {| id_client := Some (effective (id_client ids) cpk);
                                    id_server := Some (effective (id_server ids) spk) |} cpk spk.
Proof. exact default_identity_spelling. Qed.
Print Assumptions C05_default_identity_spelling.

(* identities and contexts that do not fit are refused *)
Theorem C05_long_identity_refused :
  forall ids cpk spk, (65536 <= N.of_nat (length (effective (id_client ids) cpk)))%N ->
    bytestrings_from_identifiers ids cpk spk = Err ESerialization.
Proof. exact bytestrings_refuses_client. Qed.
Print Assumptions C05_long_identity_refused.

Theorem C05_long_context_refused :
  forall context u req s l2 n e, (65536 <= N.of_nat (length context))%N -> preamble context u req s l2 n e = Err ESerialization.
Proof. exact preamble_refuses_context. Qed.
Print Assumptions C05_long_context_refused.

(* ---------------------------------------------------------------- end to end *)
(* "Login succeeds only if client and server use the same context and the same effective identities": if the client
   accepts a response carrying the MAC of an honest server session, both sides used the same context (absent = empty)
   and the same effective client and server identities (absent = that party's static public key) - or a collision is
   exhibited.  The adversary chooses what is delivered (r' is arbitrary apart from the MAC field). *)
From OKE Require Import Hkdf Voprf Laws Bad ClientAccept MatchingApi BindingApi KeySeparation WrongCredential.
Theorem C05_accepted_login_agrees_on_context_and_identities :
  forall E Sc Pk Sk (CS : Suite E Sc Pk Sk), HashLaws (hash CS) -> GroupLaws CS ->
  forall tape (setup : ServerSetup Pk Sk Sk) file rq cred ctx_s ids_s slog resp rest dbg
         clog pw r' ctx_c ids_c ksf fin sk ek spk dbgc,
    server_login_start CS (private_key_ops (ke CS)) tape setup (Some file) rq cred ctx_s ids_s = Ok (slog, resp, rest, dbg) ->
    client_login_finish CS clog pw r' ctx_c ids_c ksf = Ok (fin, sk, ek, spk, dbgc) ->
    k2_mac (cr_ke2 r') = k2_mac (cr_ke2 resp) ->
    length (client_request_bytes CS clog) = length (server_request_bytes CS rq) ->
    length (client_l2 CS r') = length (client_l2 CS resp) ->
    length (k2_nonce (cr_ke2 r')) = length (k2_nonce (cr_ke2 resp)) ->
    (exists rp env kp u s,
       envelope_open CS env rp spk ids_c = Ok (kp, ek, u, s) /\
       match ctx_c with Some c => c | None => nil end = match ctx_s with Some c => c | None => nil end /\
       effective (id_client ids_c) (k_ser_pk (ke CS) (kp_pk kp)) =
         effective (id_client ids_s) (k_ser_pk (ke CS) (ru_client_s_pk file)) /\
       effective (id_server ids_c) (k_ser_pk (ke CS) spk) =
         effective (id_server ids_s) (k_ser_pk (ke CS) (k_pub (ke CS) (kp_sk (ss_keypair setup)))))
    \/ Bad (hash CS).
Proof. exact @accepted_login_agrees_on_context_and_identities. Qed.
Print Assumptions C05_accepted_login_agrees_on_context_and_identities.

(* "... and the server evaluates under the credential identifier used at registration; any disagreement makes the
   client's final step fail": after an honest registration with (pw, cred), a login in which the client uses another
   password OR the server evaluates under another credential identifier is never accepted - unless a collision of HMAC,
   the hash, HKDF-Expand, the client key derivation, Diffie-Hellman in the private key or the OPRF key derivation is
   exhibited.  [action_free]: the scalar action of the OPRF group is free on valid elements and scalars (a group law in
   addition to GroupLaws; proved for the toy suite). *)
Theorem C05_other_password_or_credential_identifier_never_accepted :
  forall E Sc Pk Sk (CS : Suite E Sc Pk Sk), HashLaws (hash CS) -> GroupLaws CS ->
  (forall a b : Sk, {a = b} + {a <> b}) ->
  (forall P a b, ve CS P -> vs CS a -> vs CS b -> o_mul (oprf CS) P a = o_mul (oprf CS) P b -> a = b) ->
  forall tape setup t1 pw creg rq t2 cred rr ids ksf upload ek spk t3 pw' cred' clog ke1 t4 ctx slog ke2 t5 dbg out,
    ve CS (o_h2g (oprf CS) pw (dst_hash_to_group (oprf CS))) ->
    ve CS (o_h2g (oprf CS) pw' (dst_hash_to_group (oprf CS))) ->
    server_setup_new CS tape = Ok (setup, t1) ->
    client_registration_start CS t1 pw = Ok (creg, rq, t2) ->
    server_registration_start CS setup rq cred = Ok rr ->
    client_registration_finish CS creg t2 pw rr ids ksf = Ok (upload, ek, spk, t3) ->
    pw' <> pw \/ cred' <> cred ->
    client_login_start CS t3 pw' = Ok (clog, ke1, t4) ->
    server_login_start CS (private_key_ops (ke CS)) t4 setup (Some (server_registration_finish upload)) ke1 cred' ctx ids
      = Ok (slog, ke2, t5, dbg) ->
    client_login_finish CS clog pw' ke2 ctx ids ksf = Ok out ->
    BadS CS \/ BadOprfDerive CS.
Proof. exact @mismatched_login_never_accepted. Qed.
Print Assumptions C05_other_password_or_credential_identifier_never_accepted.


(* ---------------------------------------------------------------- at the 20 concrete suites
   The theorems above that assume GroupLaws, restated for each of the 20 suites with CurveLaws as the only hypothesis
   (HashLaws, CodecLaws, SizeLaws and the encoding half of GroupLaws are proved for them: Theory/GroupSplit.v). *)
From OKE Require Import CodecsConcrete GroupSplit Concrete20.

Definition C05_accepted_login_agrees_on_context_and_identities_statement {E Sc Pk Sk} (CS : Suite E Sc Pk Sk) : Prop :=
  forall tape (setup : ServerSetup Pk Sk Sk) file rq cred ctx_s ids_s slog resp rest dbg
         clog pw r' ctx_c ids_c ksf fin sk ek spk dbgc,
    server_login_start CS (private_key_ops (ke CS)) tape setup (Some file) rq cred ctx_s ids_s = Ok (slog, resp, rest, dbg) ->
    client_login_finish CS clog pw r' ctx_c ids_c ksf = Ok (fin, sk, ek, spk, dbgc) ->
    k2_mac (cr_ke2 r') = k2_mac (cr_ke2 resp) ->
    length (client_request_bytes CS clog) = length (server_request_bytes CS rq) ->
    length (client_l2 CS r') = length (client_l2 CS resp) ->
    length (k2_nonce (cr_ke2 r')) = length (k2_nonce (cr_ke2 resp)) ->
    (exists rp env kp u s,
       envelope_open CS env rp spk ids_c = Ok (kp, ek, u, s) /\
       match ctx_c with Some c => c | None => nil end = match ctx_s with Some c => c | None => nil end /\
       effective (id_client ids_c) (k_ser_pk (ke CS) (kp_pk kp)) =
         effective (id_client ids_s) (k_ser_pk (ke CS) (ru_client_s_pk file)) /\
       effective (id_server ids_c) (k_ser_pk (ke CS) spk) =
         effective (id_server ids_s) (k_ser_pk (ke CS) (k_pub (ke CS) (kp_sk (ss_keypair setup)))))
    \/ Bad (hash CS).
Theorem C05_accepted_login_agrees_on_context_and_identities_at_each_of_the_20_suites : all_suites (fun _ _ _ _ CS => CurveLaws CS -> C05_accepted_login_agrees_on_context_and_identities_statement CS).
Proof. apply at_the_20_suites. exact C05_accepted_login_agrees_on_context_and_identities. Qed.
Print Assumptions C05_accepted_login_agrees_on_context_and_identities_at_each_of_the_20_suites.

Definition C05_other_password_or_credential_identifier_never_accepted_statement {E Sc Pk Sk} (CS : Suite E Sc Pk Sk) : Prop :=
  (forall a b : Sk, {a = b} + {a <> b}) ->
  (forall P a b, ve CS P -> vs CS a -> vs CS b -> o_mul (oprf CS) P a = o_mul (oprf CS) P b -> a = b) ->
  forall tape setup t1 pw creg rq t2 cred rr ids ksf upload ek spk t3 pw' cred' clog ke1 t4 ctx slog ke2 t5 dbg out,
    ve CS (o_h2g (oprf CS) pw (dst_hash_to_group (oprf CS))) ->
    ve CS (o_h2g (oprf CS) pw' (dst_hash_to_group (oprf CS))) ->
    server_setup_new CS tape = Ok (setup, t1) ->
    client_registration_start CS t1 pw = Ok (creg, rq, t2) ->
    server_registration_start CS setup rq cred = Ok rr ->
    client_registration_finish CS creg t2 pw rr ids ksf = Ok (upload, ek, spk, t3) ->
    pw' <> pw \/ cred' <> cred ->
    client_login_start CS t3 pw' = Ok (clog, ke1, t4) ->
    server_login_start CS (private_key_ops (ke CS)) t4 setup (Some (server_registration_finish upload)) ke1 cred' ctx ids
      = Ok (slog, ke2, t5, dbg) ->
    client_login_finish CS clog pw' ke2 ctx ids ksf = Ok out ->
    BadS CS \/ BadOprfDerive CS.
Theorem C05_other_password_or_credential_identifier_never_accepted_at_each_of_the_20_suites : all_suites (fun _ _ _ _ CS => CurveLaws CS -> C05_other_password_or_credential_identifier_never_accepted_statement CS).
Proof. apply at_the_20_suites. exact C05_other_password_or_credential_identifier_never_accepted. Qed.
Print Assumptions C05_other_password_or_credential_identifier_never_accepted_at_each_of_the_20_suites.
