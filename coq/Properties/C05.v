(* C05 - identities, context and credential identifier are bound, unambiguously.
   The injectivity half is unconditional list arithmetic: no hash is involved, so "moving bytes
   between context, client identity and server identity, or changing a length across the 255/256
   or 65535 boundary, never turns a mismatch into a match" holds for every length below 2^16, and
   longer values are refused.  Statements only; proofs in Theory/Transcript.v, Theory/BytesLemmas.v. *)
From Coq Require Import List NArith.
From OKE Require Import Bytes Suite Generated Labels Messages Envelope TripleDH Opaque BytesLemmas Transcript.

(* the length prefix refuses exactly what does not fit: never a wrapped or truncated encoding *)
Theorem C05_i2osp2_refuses : forall n, i2osp_nat 2 n = None <-> (65536 <= N.of_nat n)%N.
Proof. exact i2osp2_refuses. Qed.
Print Assumptions C05_i2osp2_refuses.

(* a length-prefixed field followed by anything determines the field and the rest *)
Theorem C05_lenprefix_injective :
  forall l x y px py r1 r2, lenprefix l x = Some px -> lenprefix l y = Some py -> px ++ r1 = py ++ r2 -> x = y /\ r1 = r2.
Proof. exact lenprefix_inj. Qed.
Print Assumptions C05_lenprefix_injective.

(* the 3DH transcript determines context, both effective identities, the request, the response
   without MAC, the server nonce and the server ephemeral key *)
Theorem C05_preamble_injective :
  forall context iu req is_ l2 n e context' iu' req' is_' l2' n' e' u s u' s' p,
    lenprefix 2 iu = Some u -> lenprefix 2 is_ = Some s ->
    lenprefix 2 iu' = Some u' -> lenprefix 2 is_' = Some s' ->
    length req = length req' -> length l2 = length l2' -> length n = length n' ->
    preamble context u req s l2 n e = Ok p ->
    preamble context' u' req' s' l2' n' e' = Ok p ->
    context = context' /\ iu = iu' /\ req = req' /\ is_ = is_' /\ l2 = l2' /\ n = n' /\ e = e'.
Proof. exact preamble_injective. Qed.
Print Assumptions C05_preamble_injective.

Theorem C05_no_boundary_shift :
  forall context iu is_ context' iu' is_' req l2 n e u s u' s' p p',
    lenprefix 2 iu = Some u -> lenprefix 2 is_ = Some s ->
    lenprefix 2 iu' = Some u' -> lenprefix 2 is_' = Some s' ->
    preamble context u req s l2 n e = Ok p ->
    preamble context' u' req s' l2 n e = Ok p' ->
    (context, iu, is_) <> (context', iu', is_') -> p <> p'.
Proof. exact preamble_no_boundary_shift. Qed.
Print Assumptions C05_no_boundary_shift.

(* the data authenticated by the envelope determines the server key and both sealed identities *)
Theorem C05_aad_injective :
  forall nonce iu is_ spk nonce' iu' is_' spk' u s u' s',
    lenprefix 2 iu = Some u -> lenprefix 2 is_ = Some s ->
    lenprefix 2 iu' = Some u' -> lenprefix 2 is_' = Some s' ->
    length nonce = length nonce' -> length spk = length spk' ->
    nonce ++ construct_aad u s spk = nonce' ++ construct_aad u' s' spk' ->
    nonce = nonce' /\ spk = spk' /\ is_ = is_' /\ iu = iu'.
Proof. exact aad_injective. Qed.
Print Assumptions C05_aad_injective.

(* the per-credential OPRF key is derived from an injective encoding of the credential identifier *)
Theorem C05_credential_identifier_injective :
  forall cred cred', cred ++ STR_OPRF_KEY = cred' ++ STR_OPRF_KEY -> cred = cred'.
Proof. exact oprf_key_info_injective. Qed.
Print Assumptions C05_credential_identifier_injective.

(* an absent identity means that party's static public key *)
Theorem C05_default_identity_spelling :
  forall ids cpk spk,
    bytestrings_from_identifiers ids cpk spk =
    bytestrings_from_identifiers {| id_client := Some (effective (id_client ids) cpk);
                                    id_server := Some (effective (id_server ids) spk) |} cpk spk.
Proof. exact default_identity_spelling. Qed.
Print Assumptions C05_default_identity_spelling.

(* identities and contexts that do not fit are refused *)
Theorem C05_long_identity_refused :
  forall ids cpk spk, (65536 <= N.of_nat (length (effective (id_client ids) cpk)))%N ->
    bytestrings_from_identifiers ids cpk spk = Err ESerialization.
Proof. exact bytestrings_refuses_client. Qed.
Print Assumptions C05_long_identity_refused.

Theorem C05_long_context_refused :
  forall context u req s l2 n e, (65536 <= N.of_nat (length context))%N -> preamble context u req s l2 n e = Err ESerialization.
Proof. exact preamble_refuses_context. Qed.
Print Assumptions C05_long_context_refused.
