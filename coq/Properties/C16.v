(* C16 - the export key is stable, separated and never leaves the client.  PARTIAL (DESIGN.md C16):
   proved: the export key is Expand(randomized_pwd, envelope_nonce || "ExportKey", Nh) at seal and at
   open, so every successful login returns the registration's export key whatever the context, identities,
   session randomness or number of earlier logins; the labels that separate it from the other secrets
   derived under the same key are pairwise different (re-checked against /repo/src on every run).
   NOT proved: that equal-length fields of other kinds never coincide with a secret at unaligned offsets
   (a coincidence, not a collision): searched by the battery's substring scan. *)
From Coq Require Import List.
From OKE Require Import Bytes Suite Generated Hkdf Voprf Messages Envelope TripleDH Opaque Laws Honest Oblivious.

Theorem C16_formula_at_registration :
  forall E Sc Pk Sk (CS : Suite E Sc Pk Sk) tape rp spk ids env cpk ek rest,
    envelope_seal CS tape rp spk ids = Ok (env, cpk, ek, rest) ->
    hkdf_expand (hash CS) rp (env_nonce env ++ STR_EXPORT_KEY) (h_len (hash CS)) = Some ek.
Proof. exact @export_key_at_seal. Qed.
Print Assumptions C16_formula_at_registration.

Theorem C16_formula_at_login :
  forall E Sc Pk Sk (CS : Suite E Sc Pk Sk) env rp spk ids kp ek u s,
    envelope_open CS env rp spk ids = Ok (kp, ek, u, s) ->
    hkdf_expand (hash CS) rp (env_nonce env ++ STR_EXPORT_KEY) (h_len (hash CS)) = Some ek.
Proof. exact @export_key_at_open. Qed.
Print Assumptions C16_formula_at_login.

Theorem C16_stable_partial :
  forall E Sc Pk Sk (CS : Suite E Sc Pk Sk) tape rp spk ids env cpk ek rest spk' ids' kp ek' u s,
    envelope_seal CS tape rp spk ids = Ok (env, cpk, ek, rest) ->
    envelope_open CS env rp spk' ids' = Ok (kp, ek', u, s) -> ek' = ek.
Proof. exact @export_key_seal_open. Qed.
Print Assumptions C16_stable_partial.

(* a whole honest login returns the registration's export key: the [ek] of C01 *)
Theorem C16_login_returns_registration_export_key :
  forall E Sc Pk Sk (CS : Suite E Sc Pk Sk), HashLaws (hash CS) -> GroupLaws CS ->
  forall tape setup t1 pw creg rq t2 cred rr ids ksf upload ek spk t3 clog ke1 t4 ctx slog ke2 t5 dbg,
    ve CS (o_h2g (oprf CS) pw (dst_hash_to_group (oprf CS))) ->
    server_setup_new CS tape = Ok (setup, t1) ->
    client_registration_start CS t1 pw = Ok (creg, rq, t2) ->
    server_registration_start CS setup rq cred = Ok rr ->
    client_registration_finish CS creg t2 pw rr ids ksf = Ok (upload, ek, spk, t3) ->
    client_login_start CS t3 pw = Ok (clog, ke1, t4) ->
    server_login_start CS (private_key_ops (ke CS)) t4 setup (Some (server_registration_finish upload)) ke1 cred ctx ids
      = Ok (slog, ke2, t5, dbg) ->
    o_eqb (oprf CS) (cq_blinded ke1) (cr_eval ke2) = false ->
    exists ke3 sk dbg',
      client_login_finish CS clog pw ke2 ctx ids ksf = Ok (ke3, sk, ek, spk, dbg') /\
      server_login_finish CS slog ke3 = Ok sk /\
      spk = kp_pk (ss_keypair setup) /\ kp_pk (ss_keypair setup) = k_pub (ke CS) (kp_sk (ss_keypair setup)).
Proof. exact @honest_login_agrees. Qed.
Print Assumptions C16_login_returns_registration_export_key.

Theorem C16_labels_separated :
  STR_AUTH_KEY <> STR_EXPORT_KEY /\ STR_AUTH_KEY <> STR_PRIVATE_KEY /\ STR_EXPORT_KEY <> STR_PRIVATE_KEY /\
  STR_HANDSHAKE_SECRET <> STR_SESSION_KEY /\ STR_SERVER_MAC <> STR_CLIENT_MAC /\
  length STR_AUTH_KEY <> length STR_MASKING_KEY /\ length STR_EXPORT_KEY <> length STR_MASKING_KEY.
Proof. exact generated_labels_separated. Qed.
Print Assumptions C16_labels_separated.


(* separation (Theory/ExportKey.v): the export key equals the envelope's authentication key, the stored masking
   key, a session key, or the export key of another (randomized password, envelope nonce) - i.e. of another
   registration, password, user or server - only if an HMAC collision is exhibited *)
From OKE Require Import Bad ExportKey.
Theorem C16_separated_from_other_registrations :
  forall E Sc Pk Sk (CS : Suite E Sc Pk Sk), HashLaws (hash CS) ->
  forall rp nonce ak ek rp' nonce' ak' ek',
    length rp = length rp' -> length nonce = length nonce' ->
    envelope_keys CS rp nonce = Ok (ak, ek) -> envelope_keys CS rp' nonce' = Ok (ak', ek') ->
    ek = ek' -> (rp = rp' /\ nonce = nonce') \/ Bad (hash CS).
Proof. exact @export_keys_separated. Qed.
Print Assumptions C16_separated_from_other_registrations.

Theorem C16_not_the_auth_key :
  forall E Sc Pk Sk (CS : Suite E Sc Pk Sk), HashLaws (hash CS) ->
  forall rp nonce ak ek, envelope_keys CS rp nonce = Ok (ak, ek) -> ek = ak -> Bad (hash CS).
Proof. exact @export_key_is_not_auth_key. Qed.
Print Assumptions C16_not_the_auth_key.

Theorem C16_not_the_masking_key :
  forall E Sc Pk Sk (CS : Suite E Sc Pk Sk), HashLaws (hash CS) ->
  forall rp nonce ak ek mk,
    length nonce = ENVELOPE_NONCE_LEN ->
    envelope_keys CS rp nonce = Ok (ak, ek) ->
    hkdf_expand (hash CS) rp STR_MASKING_KEY (h_len (hash CS)) = Some mk -> ek = mk -> Bad (hash CS).
Proof. exact @export_key_is_not_masking_key. Qed.
Print Assumptions C16_not_the_masking_key.

Theorem C16_session_key_is_not_export_key :
  forall E Sc Pk Sk (CS : Suite E Sc Pk Sk), HashLaws (hash CS) ->
  forall rp nonce ak ek prk th sk,
    length nonce = ENVELOPE_NONCE_LEN -> length th = h_len (hash CS) -> length prk = length rp ->
    h_len (hash CS) <> 20 ->
    envelope_keys CS rp nonce = Ok (ak, ek) ->
    hkdf_expand_label CS prk STR_SESSION_KEY th = Ok sk -> sk = ek -> Bad (hash CS).
Proof. exact @session_key_is_not_export_key. Qed.
Print Assumptions C16_session_key_is_not_export_key.


(* ---------------------------------------------------------------- at the 20 concrete suites
   The theorems above that assume GroupLaws, restated for each of the 20 suites with CurveLaws as the only hypothesis
   (HashLaws, CodecLaws, SizeLaws and the encoding half of GroupLaws are proved for them: Theory/GroupSplit.v). *)
From OKE Require Import CodecsConcrete GroupSplit Concrete20.

Definition C16_login_returns_registration_export_key_statement {E Sc Pk Sk} (CS : Suite E Sc Pk Sk) : Prop :=
  forall tape setup t1 pw creg rq t2 cred rr ids ksf upload ek spk t3 clog ke1 t4 ctx slog ke2 t5 dbg,
    ve CS (o_h2g (oprf CS) pw (dst_hash_to_group (oprf CS))) ->
    server_setup_new CS tape = Ok (setup, t1) ->
    client_registration_start CS t1 pw = Ok (creg, rq, t2) ->
    server_registration_start CS setup rq cred = Ok rr ->
    client_registration_finish CS creg t2 pw rr ids ksf = Ok (upload, ek, spk, t3) ->
    client_login_start CS t3 pw = Ok (clog, ke1, t4) ->
    server_login_start CS (private_key_ops (ke CS)) t4 setup (Some (server_registration_finish upload)) ke1 cred ctx ids
      = Ok (slog, ke2, t5, dbg) ->
    o_eqb (oprf CS) (cq_blinded ke1) (cr_eval ke2) = false ->
    exists ke3 sk dbg',
      client_login_finish CS clog pw ke2 ctx ids ksf = Ok (ke3, sk, ek, spk, dbg') /\
      server_login_finish CS slog ke3 = Ok sk /\
      spk = kp_pk (ss_keypair setup) /\ kp_pk (ss_keypair setup) = k_pub (ke CS) (kp_sk (ss_keypair setup)).
Theorem C16_login_returns_registration_export_key_at_each_of_the_20_suites : all_suites (fun _ _ _ _ CS => CurveLaws CS -> C16_login_returns_registration_export_key_statement CS).
Proof. apply at_the_20_suites. exact C16_login_returns_registration_export_key. Qed.
Print Assumptions C16_login_returns_registration_export_key_at_each_of_the_20_suites.

(* ---------------------------------------------------------------- stability against an adversary
   Whoever serves the login and whatever the client types: if the client's final step opens the envelope sealed at
   registration, it returns that registration's export key, or a collision of HMAC / HKDF-Expand is exhibited
   (Theory/ExportStable.v).  Together with C16_separated_from_other_registrations: the export key of a login is the
   export key of the registration whose envelope it opened, and of no other. *)
From OKE Require Import Bad ClientAccept ExportStable.
Theorem C16_export_key_stable_against_any_server :
  forall E Sc Pk Sk (CS : Suite E Sc Pk Sk), HashLaws (hash CS) ->
  forall tape rp spk ids env cpk ek rest rp' spk' ids' kp ek' u s,
    envelope_seal CS tape rp spk ids = Ok (env, cpk, ek, rest) ->
    envelope_open CS env rp' spk' ids' = Ok (kp, ek', u, s) ->
    ek' = ek \/ BadS CS.
Proof. exact @export_key_stable_against_any_server. Qed.
Print Assumptions C16_export_key_stable_against_any_server.

Theorem C16_login_export_key_is_the_registrations :
  forall E Sc Pk Sk (CS : Suite E Sc Pk Sk), HashLaws (hash CS) ->
  forall creg tape pw rr ids ksf upload ek spk rest clog pw' r ctx ids' ksf' fin sk ek' spk' dbg,
    client_registration_finish CS creg tape pw rr ids ksf = Ok (upload, ek, spk, rest) ->
    client_login_finish CS clog pw' r ctx ids' ksf' = Ok (fin, sk, ek', spk', dbg) ->
    exists rp' mk env kp u s,
      unmask_response CS mk (cr_masking_nonce r) (cr_masked r) = Ok (spk', env) /\
      envelope_open CS env rp' spk' ids' = Ok (kp, ek', u, s) /\
      (env = ru_envelope upload -> ek' = ek \/ BadS CS).
Proof. exact @login_export_key_is_the_registrations. Qed.
Print Assumptions C16_login_export_key_is_the_registrations.
