(* C19 - key-exchange group operations obey their laws.  PARTIAL (DESIGN.md C19): proved here are the
   codec and derivation facts; that the concrete Weierstrass / Edwards / Montgomery formulas form a group
   (hence Diffie-Hellman symmetry) is NOT proved in Coq - no elliptic-curve library is available here -
   it is the [g_dh_sym] field of GroupLaws, validated by the battery against the crate. *)
From Coq Require Import List ZArith.
From OKE Require Import Bytes Suite Generated GroupsConcrete CodecsConcrete Weierstrass Curve25519 Suites Laws.
Import ListNotations.

(* private-key encodings round-trip exactly, in both directions *)
Theorem C19_nist_scalar_encode_decode :
  forall (C : wcurve), (0 < w_n C < 256 ^ Z.of_nat (w_Nfe C))%Z ->
  forall k, (0 < k < w_n C)%Z -> w_deser_scalar C (w_ser_scalar C k) = Some k.
Proof. exact w_scalar_roundtrip. Qed.
Print Assumptions C19_nist_scalar_encode_decode.

Theorem C19_nist_scalar_decode_encode :
  forall (C : wcurve) b k, length b = w_Nfe C -> w_deser_scalar C b = Some k -> w_ser_scalar C k = b.
Proof. exact w_scalar_canon. Qed.
Print Assumptions C19_nist_scalar_decode_encode.

Theorem C19_orders_fit :
  (0 < w_n P256 < 256 ^ Z.of_nat (w_Nfe P256))%Z /\ (0 < w_n P384 < 256 ^ Z.of_nat (w_Nfe P384))%Z /\
  (0 < w_n P521 < 256 ^ Z.of_nat (w_Nfe P521))%Z /\ (0 < ell < 256 ^ Z.of_nat 32)%Z.
Proof. exact (conj P256_order_fits (conj P384_order_fits (conj P521_order_fits ell_fits))). Qed.
Print Assumptions C19_orders_fit.

Theorem C19_ristretto_scalar_encode_decode :
  forall k, (0 < k < ell)%Z -> r_deser_scalar (r_ser_scalar k) = Some k.
Proof. exact r_scalar_roundtrip. Qed.
Print Assumptions C19_ristretto_scalar_encode_decode.

Theorem C19_ristretto_scalar_decode_encode :
  forall b k, length b = 32 -> r_deser_scalar b = Some k -> r_ser_scalar k = b.
Proof. exact r_scalar_canon. Qed.
Print Assumptions C19_ristretto_scalar_decode_encode.

(* public-key encodings: decoding accepts only what encoding produces (all five groups) *)
Theorem C19_public_key_decode_encode :
  (forall C b pk, k_deser_pk (ke_weierstrass C) b = Some pk -> k_ser_pk (ke_weierstrass C) pk = b) /\
  (forall b pk, k_deser_pk K_R255 b = Some pk -> k_ser_pk K_R255 pk = b) /\
  (forall b pk, k_deser_pk K_X25519 b = Some pk -> k_ser_pk K_X25519 pk = b).
Proof.
  split; [exact ke_w_canon|]. split; [exact (proj1 K_R255_laws) | exact (proj1 K_X25519_laws)].
Qed.
Print Assumptions C19_public_key_decode_encode.

(* seeded derivation always yields a valid, non-zero private key *)
Theorem C19_nist_derivation_valid :
  forall (C : wcurve), (0 < w_n C < 256 ^ Z.of_nat (w_Nfe C))%Z -> forall h id seed k,
    k_derive (ke_weierstrass C) h id seed = Some k ->
    (0 < k < w_n C)%Z /\ k_deser_sk (ke_weierstrass C) (k_ser_sk (ke_weierstrass C) k) = Some k.
Proof. exact w_derive_valid. Qed.
Print Assumptions C19_nist_derivation_valid.

(* Curve25519: DeriveDiffieHellmanKeyPair is RFC 7748 clamping of the seed; clamping is idempotent,
   never zero, and a clamped string is a valid private key that round-trips exactly *)
Theorem C19_x25519_derivation_is_clamping :
  forall h id seed, k_derive K_X25519 h id seed = Some (clamp seed).
Proof. exact x25519_derive_is_clamp. Qed.
Print Assumptions C19_x25519_derivation_is_clamping.

Theorem C19_x25519_clamp_idempotent : forall b, length b = 32 -> clamp (clamp b) = clamp b.
Proof. exact clamp_idempotent. Qed.
Print Assumptions C19_x25519_clamp_idempotent.

Theorem C19_x25519_clamped_key_valid : forall b, length b = 32 -> x_deser_sk (clamp b) = Some (clamp b).
Proof. exact x25519_clamped_is_valid_key. Qed.
Print Assumptions C19_x25519_clamped_key_valid.

(* Diffie-Hellman symmetry and public-key consistency: consequences of the group laws (hypothesis for the
   concrete curves); stated here so that the dependency is explicit *)
Theorem C19_dh_symmetric_partial :
  forall E Sc Pk Sk (CS : Suite E Sc Pk Sk), GroupLaws CS ->
  forall a b, vk CS a -> vk CS b -> k_dh (ke CS) (k_pub (ke CS) a) b = k_dh (ke CS) (k_pub (ke CS) b) a.
Proof. intros E Sc Pk Sk CS GL. exact (g_dh_sym CS GL). Qed.
Print Assumptions C19_dh_symmetric_partial.

(* the encoding half of GroupLaws (samplers, hash-to-scalar, comparison, seeded key derivation: every generated or
   derived key is a valid key whose encoding round-trips) is PROVED for each of the 20 suites; what stays assumed
   about the curves is CurveLaws alone *)
From OKE Require Import GroupSplit.
Theorem C19_generated_and_derived_keys_are_valid : all_suites (fun _ _ _ _ CS => EncodingLaws CS).
Proof. exact encoding_laws_20. Qed.
Print Assumptions C19_generated_and_derived_keys_are_valid.

Theorem C19_only_curve_arithmetic_is_assumed : all_suites (fun _ _ _ _ CS => CurveLaws CS -> GroupLaws CS).
Proof. exact group_laws_20. Qed.
Print Assumptions C19_only_curve_arithmetic_is_assumed.


(* ---------------------------------------------------------------- at the 20 concrete suites
   The theorems above that assume GroupLaws, restated for each of the 20 suites with CurveLaws as the only hypothesis
   (HashLaws, CodecLaws, SizeLaws and the encoding half of GroupLaws are proved for them: Theory/GroupSplit.v). *)
From OKE Require Import CodecsConcrete GroupSplit Concrete20.

Definition C19_dh_symmetric_partial_statement {E Sc Pk Sk} (CS : Suite E Sc Pk Sk) : Prop :=
  forall a b, vk CS a -> vk CS b -> k_dh (ke CS) (k_pub (ke CS) a) b = k_dh (ke CS) (k_pub (ke CS) b) a.
Theorem C19_dh_symmetric_partial_at_each_of_the_20_suites : all_suites (fun _ _ _ _ CS => CurveLaws CS -> C19_dh_symmetric_partial_statement CS).
Proof. apply at_the_20_suites_g. exact C19_dh_symmetric_partial. Qed.
Print Assumptions C19_dh_symmetric_partial_at_each_of_the_20_suites.
