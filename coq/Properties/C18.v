(* C18 - externally held server keys are a transparent abstraction.  Statements only; proofs in Theory/External.v. *)
From Coq Require Import List.
From OKE Require Import Bytes Suite Messages Envelope TripleDH Opaque Api External.

(* an external key whose callbacks answer is, as an interface record, the direct private key *)
Theorem C18_same_interface :
  forall E Sc Pk Sk (CS : Suite E Sc Pk Sk), ext_key_ops CS None None = private_key_ops (ke CS).
Proof. exact @ext_key_transparent. Qed.
Print Assumptions C18_same_interface.

(* hence every server operation gives the same messages, state, password file and keys, byte for byte *)
Theorem C18_login_start_transparent :
  forall E Sc Pk Sk (CS : Suite E Sc Pk Sk) tape setup file msg cred ctx idu ids,
    run_request CS (QExtSrvLoginStart tape setup file msg cred ctx idu ids None None) =
    run_request CS (QSrvLoginStart tape setup file msg cred ctx idu ids).
Proof. exact @ext_login_start_transparent. Qed.
Print Assumptions C18_login_start_transparent.

(* registration start does not consult the key at all *)
Theorem C18_registration_start_independent_of_key :
  forall E Sc Pk Sk (CS : Suite E Sc Pk Sk) setup msg cred fp fd,
    run_request CS (QExtSrvRegStart setup msg cred fp fd) = run_request CS (QSrvRegStart setup msg cred).
Proof. exact @ext_reg_start_transparent. Qed.
Print Assumptions C18_registration_start_independent_of_key.

(* only the public-key and Diffie-Hellman callbacks are used *)
Theorem C18_only_two_callbacks :
  forall E Sc Pk Sk (CS : Suite E Sc Pk Sk) (SK SK' : SkOps Pk Sk) tape setup file rq cred ctx ids,
    (forall s, s_pub SK s = s_pub SK' s) -> (forall s p, s_dh SK s p = s_dh SK' s p) ->
    server_login_start CS SK tape setup file rq cred ctx ids = server_login_start CS SK' tape setup file rq cred ctx ids.
Proof. exact @login_start_uses_only_callbacks. Qed.
Print Assumptions C18_only_two_callbacks.

(* failures are returned as the custom error, with no response and no state *)
Theorem C18_public_key_failure :
  forall E Sc Pk Sk (CS : Suite E Sc Pk Sk) tape (setup : ServerSetup Pk Sk Sk) f rq cred ctx ids n fd,
    server_login_start CS (ext_key_ops CS (Some n) fd) tape setup (Some f) rq cred ctx ids = Err (ELibrary (LCustom n)).
Proof. exact @ext_login_start_pub_fails. Qed.
Print Assumptions C18_public_key_failure.

Theorem C18_diffie_hellman_failure :
  forall E Sc Pk Sk (CS : Suite E Sc Pk Sk) tape (setup : ServerSetup Pk Sk Sk) file rq cred ctx ids n r,
    server_login_start CS (private_key_ops (ke CS)) tape setup file rq cred ctx ids = Ok r ->
    server_login_start CS (ext_key_ops CS None (Some n)) tape setup file rq cred ctx ids = Err (ELibrary (LCustom n)).
Proof. exact @ext_login_start_dh_fails. Qed.
Print Assumptions C18_diffie_hellman_failure.
