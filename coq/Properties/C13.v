(* C13 - persisted state survives save / restart unchanged.  Statements only; proofs in Theory/Reload.v
   (from Theory/Roundtrip.v).  Each of the five persistence points, as produced by the API, decodes from
   its own native encoding to exactly itself; the next step is a function of that value, so a reload at
   any step boundary changes nothing observable.  serde (bincode / JSON) is not modelled: the harness
   performs the real round trips and the model predicts "no change" (correspondence part of the check). *)
From Coq Require Import List.
From OKE Require Import Bytes Suite Voprf Messages Envelope TripleDH Opaque Laws Reload.

Theorem C13_server_setup :
  forall E Sc Pk Sk (CS : Suite E Sc Pk Sk), GroupLaws CS -> forall tape setup rest,
    server_setup_new CS tape = Ok (setup, rest) ->
    server_setup_deserialize CS (private_key_ops (ke CS)) (server_setup_serialize CS (private_key_ops (ke CS)) setup) = Ok setup.
Proof. exact @reload_server_setup. Qed.
Print Assumptions C13_server_setup.

Theorem C13_client_registration_state :
  forall E Sc Pk Sk (CS : Suite E Sc Pk Sk), GroupLaws CS -> forall tape pw st m rest,
    ve CS (o_h2g (oprf CS) pw (dst_hash_to_group (oprf CS))) ->
    client_registration_start CS tape pw = Ok (st, m, rest) ->
    client_registration_deserialize CS (client_registration_serialize CS st) = Ok st /\
    registration_request_deserialize CS (registration_request_serialize CS m) = Ok m.
Proof. exact @reload_client_registration. Qed.
Print Assumptions C13_client_registration_state.

Theorem C13_password_file :
  forall E Sc Pk Sk (CS : Suite E Sc Pk Sk), HashLaws (hash CS) -> GroupLaws CS ->
  forall st tape pw rr ids ksf upload ek spk rest,
    client_registration_finish CS st tape pw rr ids ksf = Ok (upload, ek, spk, rest) ->
    registration_upload_deserialize CS (registration_upload_serialize CS (server_registration_finish upload))
      = Ok (server_registration_finish upload).
Proof. exact @reload_password_file. Qed.
Print Assumptions C13_password_file.

Theorem C13_client_login_state :
  forall E Sc Pk Sk (CS : Suite E Sc Pk Sk), GroupLaws CS -> forall tape pw st m rest,
    ve CS (o_h2g (oprf CS) pw (dst_hash_to_group (oprf CS))) ->
    client_login_start CS tape pw = Ok (st, m, rest) ->
    client_login_deserialize CS (client_login_serialize CS st) = Ok st /\
    credential_request_deserialize CS (credential_request_serialize CS m) = Ok m.
Proof. exact @reload_client_login. Qed.
Print Assumptions C13_client_login_state.

Theorem C13_server_login_state :
  forall E Sc Pk Sk (CS : Suite E Sc Pk Sk), HashLaws (hash CS) ->
  forall S (SK : SkOps Pk S) tape setup file rq cred ctx ids st resp rest dbg,
    server_login_start CS SK tape setup file rq cred ctx ids = Ok (st, resp, rest, dbg) ->
    server_login_deserialize CS (server_login_serialize st) = Ok st.
Proof. exact @reload_server_login. Qed.
Print Assumptions C13_server_login_state.


(* ---------------------------------------------------------------- at the 20 concrete suites
   The theorems above that assume GroupLaws, restated for each of the 20 suites with CurveLaws as the only hypothesis
   (HashLaws, CodecLaws, SizeLaws and the encoding half of GroupLaws are proved for them: Theory/GroupSplit.v). *)
From OKE Require Import CodecsConcrete GroupSplit Concrete20.

Definition C13_server_setup_statement {E Sc Pk Sk} (CS : Suite E Sc Pk Sk) : Prop :=
  forall tape setup rest,
    server_setup_new CS tape = Ok (setup, rest) ->
    server_setup_deserialize CS (private_key_ops (ke CS)) (server_setup_serialize CS (private_key_ops (ke CS)) setup) = Ok setup.
Theorem C13_server_setup_at_each_of_the_20_suites : all_suites (fun _ _ _ _ CS => CurveLaws CS -> C13_server_setup_statement CS).
Proof. apply at_the_20_suites_g. exact C13_server_setup. Qed.
Print Assumptions C13_server_setup_at_each_of_the_20_suites.

Definition C13_client_registration_state_statement {E Sc Pk Sk} (CS : Suite E Sc Pk Sk) : Prop :=
  forall tape pw st m rest,
    ve CS (o_h2g (oprf CS) pw (dst_hash_to_group (oprf CS))) ->
    client_registration_start CS tape pw = Ok (st, m, rest) ->
    client_registration_deserialize CS (client_registration_serialize CS st) = Ok st /\
    registration_request_deserialize CS (registration_request_serialize CS m) = Ok m.
Theorem C13_client_registration_state_at_each_of_the_20_suites : all_suites (fun _ _ _ _ CS => CurveLaws CS -> C13_client_registration_state_statement CS).
Proof. apply at_the_20_suites_g. exact C13_client_registration_state. Qed.
Print Assumptions C13_client_registration_state_at_each_of_the_20_suites.

Definition C13_password_file_statement {E Sc Pk Sk} (CS : Suite E Sc Pk Sk) : Prop :=
  forall st tape pw rr ids ksf upload ek spk rest,
    client_registration_finish CS st tape pw rr ids ksf = Ok (upload, ek, spk, rest) ->
    registration_upload_deserialize CS (registration_upload_serialize CS (server_registration_finish upload))
      = Ok (server_registration_finish upload).
Theorem C13_password_file_at_each_of_the_20_suites : all_suites (fun _ _ _ _ CS => CurveLaws CS -> C13_password_file_statement CS).
Proof. apply at_the_20_suites. exact C13_password_file. Qed.
Print Assumptions C13_password_file_at_each_of_the_20_suites.

Definition C13_client_login_state_statement {E Sc Pk Sk} (CS : Suite E Sc Pk Sk) : Prop :=
  forall tape pw st m rest,
    ve CS (o_h2g (oprf CS) pw (dst_hash_to_group (oprf CS))) ->
    client_login_start CS tape pw = Ok (st, m, rest) ->
    client_login_deserialize CS (client_login_serialize CS st) = Ok st /\
    credential_request_deserialize CS (credential_request_serialize CS m) = Ok m.
Theorem C13_client_login_state_at_each_of_the_20_suites : all_suites (fun _ _ _ _ CS => CurveLaws CS -> C13_client_login_state_statement CS).
Proof. apply at_the_20_suites_g. exact C13_client_login_state. Qed.
Print Assumptions C13_client_login_state_at_each_of_the_20_suites.

(* ---------------------------------------------------------------- over histories: crashes change nothing
   The world of Model/WorldCrash.v: a network adversary schedules the parties and chooses every message; between any two
   steps the server may restart (setup restored from its serialization) and any pending server or client login session
   may be saved and restored.  For EVERY such history (any length, any crash points), every restore succeeds and the
   world reached - all pending states, all completed sessions with their keys, the tape - is exactly the world reached
   by the same history without the crashes.  [good_ops]: the passwords of the client sessions do not hash to the
   identity element. *)
From OKE Require Import World WorldCrash CrashInv.
Theorem C13_crashes_change_nothing_in_any_history :
  forall E Sc Pk Sk (CS : Suite E Sc Pk Sk), HashLaws (hash CS) -> GroupLaws CS ->
  forall tape0 setup rest0 tape ops,
    server_setup_new CS tape0 = Ok (setup, rest0) -> good_ops CS ops ->
    crun CS (init setup tape) ops = Ok (run CS (init setup tape) (erase ops)).
Proof. exact @crashes_change_nothing. Qed.
Print Assumptions C13_crashes_change_nothing_in_any_history.

Definition C13_crashes_change_nothing_in_any_history_statement {E Sc Pk Sk} (CS : Suite E Sc Pk Sk) : Prop :=
  forall tape0 setup rest0 tape ops,
    server_setup_new CS tape0 = Ok (setup, rest0) -> good_ops CS ops ->
    crun CS (init setup tape) ops = Ok (run CS (init setup tape) (erase ops)).
Theorem C13_crashes_change_nothing_in_any_history_at_each_of_the_20_suites : all_suites (fun _ _ _ _ CS => CurveLaws CS -> C13_crashes_change_nothing_in_any_history_statement CS).
Proof. apply at_the_20_suites. exact C13_crashes_change_nothing_in_any_history. Qed.
Print Assumptions C13_crashes_change_nothing_in_any_history_at_each_of_the_20_suites.
