(* C04 - the client completes login only on the server's genuine response.  PARTIAL (DESIGN.md C04):
   proved here: (i) the acceptance characterisation - the exact conjunction the client checks, with every
   component of the response other than the MAC inside the transcript that the MAC covers; (ii) a response
   altered in the MAC field only is rejected, unconditionally; (iii, in C06.v) a response carrying another
   server key, or identities other than the sealed ones, is rejected up to an exhibited HMAC collision.
   NOT proved: that no MAC value for an altered transcript can be produced without the keys (unforgeability
   is not a collision statement); that part is carried by the exhaustive tamper battery. *)
From Coq Require Import List.
From OKE Require Import Bytes Suite Generated Hkdf Voprf Messages Envelope TripleDH Opaque ClientAccept.

Theorem C04_accept_characterisation_partial :
  forall E Sc Pk Sk (CS : Suite E Sc Pk Sk) st pw r ctx ids ksf fin sk ek spk dbg,
    client_login_finish CS st pw r ctx ids ksf = Ok (fin, sk, ek, spk, dbg) ->
    exists rp mk env kp u s pre km2 km3 hs,
      o_eqb (oprf CS) (cq_blinded (cl_request st)) (cr_eval r) = false /\
      get_password_derived_key CS pw (cl_blind st) (cr_eval r) ksf = Ok rp /\
      hkdf_expand (hash CS) rp STR_MASKING_KEY (h_len (hash CS)) = Some mk /\
      unmask_response CS mk (cr_masking_nonce r) (cr_masked r) = Ok (spk, env) /\
      envelope_open CS env rp spk ids = Ok (kp, ek, u, s) /\
      preamble (match ctx with Some c => c | None => nil end) u (client_request_bytes CS st) s (client_l2 CS r)
               (k2_nonce (cr_ke2 r)) (k_ser_pk (ke CS) (k2_server_e_pk (cr_ke2 r))) = Ok pre /\
      derive_3dh_keys CS (k_dh (ke CS) (k2_server_e_pk (cr_ke2 r)) (k1s_client_e_sk (cl_ke1_state st)))
                         (k_dh (ke CS) spk (k1s_client_e_sk (cl_ke1_state st)))
                         (k_dh (ke CS) (k2_server_e_pk (cr_ke2 r)) (kp_sk kp))
                         (h_hash (hash CS) pre) = Ok (sk, km2, km3, hs) /\
      k2_mac (cr_ke2 r) = h_hmac (hash CS) km2 (h_hash (hash CS) pre) /\
      cf_mac fin = h_hmac (hash CS) km3 (h_hash (hash CS) (pre ++ k2_mac (cr_ke2 r))).
Proof. exact @client_accepts_iff. Qed.
Print Assumptions C04_accept_characterisation_partial.

Theorem C04_transcript_covers_response_partial :
  forall E Sc Pk Sk (CS : Suite E Sc Pk Sk) context u req s (r : CredentialResponse E Pk) pre,
    preamble context u req s (client_l2 CS r) (k2_nonce (cr_ke2 r)) (k_ser_pk (ke CS) (k2_server_e_pk (cr_ke2 r))) = Ok pre ->
    exists c, lenprefix 2 context = Some c /\
      pre = STR_CONTEXT ++ c ++ u ++ req ++ s ++
            (o_ser_e (oprf CS) (cr_eval r) ++ cr_masking_nonce r ++ masked_response_serialize (cr_masked r)) ++
            k2_nonce (cr_ke2 r) ++ k_ser_pk (ke CS) (k2_server_e_pk (cr_ke2 r)).
Proof. exact @preamble_covers_response. Qed.
Print Assumptions C04_transcript_covers_response_partial.

Theorem C04_mac_only_altered_partial :
  forall E Sc Pk Sk (CS : Suite E Sc Pk Sk) st pw r ctx ids ksf out mac',
    client_login_finish CS st pw r ctx ids ksf = Ok out ->
    mac' <> k2_mac (cr_ke2 r) ->
    client_login_finish CS st pw (with_mac r mac') ctx ids ksf = Err EInvalidLogin.
Proof. exact @mac_only_altered_rejected. Qed.
Print Assumptions C04_mac_only_altered_partial.

(* (iii) a response accepted by a client whose MAC field equals the MAC of an honest server session has that
   session's transcript - hence that session's evaluation element, masking nonce, masked credentials, server
   nonce and ephemeral key, and the session was started on this client's own request - or an HMAC / hash
   collision is exhibited.  (Every single-byte alteration outside the MAC field, every splice of fields
   between honest responses and every re-randomised non-MAC field is of this form.) *)
From OKE Require Import Laws Bad Matching.
Theorem C04_same_mac_same_response_partial :
  forall E Sc Pk Sk (CS : Suite E Sc Pk Sk), HashLaws (hash CS) ->
  forall a b c pre sk km2 km3 hs a' b' c' pre' sk' km2' km3' hs',
    derive_3dh_keys CS a b c (h_hash (hash CS) pre) = Ok (sk, km2, km3, hs) ->
    derive_3dh_keys CS a' b' c' (h_hash (hash CS) pre') = Ok (sk', km2', km3', hs') ->
    h_hmac (hash CS) km2 (h_hash (hash CS) pre) = h_hmac (hash CS) km2' (h_hash (hash CS) pre') ->
    (pre = pre' /\ (a ++ b ++ c = a' ++ b' ++ c')%list /\ sk = sk' /\ km3 = km3') \/ Bad (hash CS).
Proof. exact @equal_server_mac_equal_transcript. Qed.
Print Assumptions C04_same_mac_same_response_partial.
