(* C03 - the server completes login only on the matching client finalization.
   Statements only; proofs live in Theory/. *)
From Coq Require Import List.
From OKE Require Import Bytes Suite Messages TripleDH Opaque Api Accept.
Import ListNotations.

(* exactly one byte string is accepted by a pending server login state, and the key
   released is the stored session key; unconditional, real and fake records alike *)
Theorem C03_accept_iff_expected :
  forall E Sc Pk Sk (CS : Suite E Sc Pk Sk) st m k,
    server_login_finish CS st m = Ok k <->
    cf_mac m = h_hmac (hash CS) (sl_km3 st) (sl_hashed_transcript st) /\ k = sl_session_key st.
Proof. exact @server_finish_accept_iff. Qed.
Print Assumptions C03_accept_iff_expected.

(* every other message of any length is answered with the invalid-login error *)
Theorem C03_others_invalid_login :
  forall E Sc Pk Sk (CS : Suite E Sc Pk Sk) st m,
    cf_mac m <> h_hmac (hash CS) (sl_km3 st) (sl_hashed_transcript st) ->
    server_login_finish CS st m = Err EInvalidLogin.
Proof. exact @server_finish_reject. Qed.
Print Assumptions C03_others_invalid_login.

(* the same at the byte-level API: for every string of the finalization length *)
Theorem C03_api_bytes :
  forall E Sc Pk Sk (CS : Suite E Sc Pk Sk) st_bytes st f,
    server_login_deserialize CS st_bytes = Ok st ->
    length f = h_len (hash CS) ->
    run_request CS (QSrvLoginFinish st_bytes f) =
      if bytes_eqb (h_hmac (hash CS) (sl_km3 st) (sl_hashed_transcript st)) f
      then ROk [TB (sl_session_key st)] else RErr EInvalidLogin.
Proof. exact @api_server_finish_bytes. Qed.
Print Assumptions C03_api_bytes.
