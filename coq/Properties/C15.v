(* C15 - the key-stretching function is applied once, on the OPRF output, and bound
   into every secret.  Statements only. *)
From Coq Require Import List.
From OKE Require Import Bytes Suite Hkdf Voprf Messages Envelope Opaque Accept.

(* both finish steps depend on the stretching function only through its value at the OPRF output *)
Theorem C15_registration_ksf_once :
  forall E Sc Pk Sk (CS : Suite E Sc Pk Sk) st tape pw r ids (f g : ksf_fn) y,
    voprf_finalize (hash CS) (oprf CS) (crs_blind st) pw (rr_eval r) = Ok y -> f y = g y ->
    client_registration_finish CS st tape pw r ids (Some f) = client_registration_finish CS st tape pw r ids (Some g).
Proof. exact @registration_finish_ksf_congr. Qed.
Print Assumptions C15_registration_ksf_once.

Theorem C15_login_ksf_once :
  forall E Sc Pk Sk (CS : Suite E Sc Pk Sk) st pw r ctx ids (f g : ksf_fn) y,
    voprf_finalize (hash CS) (oprf CS) (cl_blind st) pw (cr_eval r) = Ok y -> f y = g y ->
    client_login_finish CS st pw r ctx ids (Some f) = client_login_finish CS st pw r ctx ids (Some g).
Proof. exact @login_finish_ksf_congr. Qed.
Print Assumptions C15_login_ksf_once.

(* passing no instance is passing the default instance *)
Theorem C15_default :
  forall E Sc Pk Sk (CS : Suite E Sc Pk Sk) input blind ev,
    get_password_derived_key CS input blind ev None =
    get_password_derived_key CS input blind ev (Some (ksf_default CS)).
Proof. exact @ksf_default_explicit. Qed.
Print Assumptions C15_default.

(* a failure of the stretching function is returned as KsfError *)
Theorem C15_error :
  forall E Sc Pk Sk (CS : Suite E Sc Pk Sk) input blind ev (f : ksf_fn) y,
    voprf_finalize (hash CS) (oprf CS) blind input ev = Ok y -> f y = None ->
    get_password_derived_key CS input blind ev (Some f) = Err (ELibrary LKsfError).
Proof. exact @ksf_error. Qed.
Print Assumptions C15_error.

(* the stretched value is bound into the randomized password from which every secret is expanded *)
Theorem C15_bound :
  forall E Sc Pk Sk (CS : Suite E Sc Pk Sk) input blind ev (f : ksf_fn) y z,
    voprf_finalize (hash CS) (oprf CS) blind input ev = Ok y -> f y = Some z ->
    get_password_derived_key CS input blind ev (Some f) = Ok (hkdf_extract (hash CS) None (y ++ z)).
Proof. exact @ksf_bound. Qed.
Print Assumptions C15_bound.

(* ---------------------------------------------------------------- end to end: what an accepted login says about the KSF
   One statement for C02, C05 (credential identifier), C14 and C15.  After an honest registration with (pw, cred, ksf),
   if a client that types pw' and stretches with ksf' accepts the response of the honest server evaluating under cred',
   then pw' = pw, cred' = cred and the two stretching functions (the caller's instance, or the suite's default when
   absent) give the SAME value on the OPRF output of this password - or a collision is exhibited (HMAC, hash,
   HKDF-Expand, client key derivation, Diffie-Hellman in the private key, OPRF key derivation).  Hence the stretched
   value is bound into everything the login checks: parameters that stretch the OPRF output to another value never log
   in.  [action_free]: the scalar action of the OPRF group is free (proved for the toy suite). *)
From OKE Require Import Hkdf Voprf Laws Bad KeySeparation AcceptedLogin.
Theorem C15_accepted_login_used_the_registrations_password_identifier_and_stretching :
  forall E Sc Pk Sk (CS : Suite E Sc Pk Sk), HashLaws (hash CS) -> GroupLaws CS ->
  (forall a b : Sk, {a = b} + {a <> b}) ->
  (forall P a b, ve CS P -> vs CS a -> vs CS b -> o_mul (oprf CS) P a = o_mul (oprf CS) P b -> a = b) ->
  forall tape setup t1 pw creg rq t2 cred rr ids ksf upload ek spk t3 pw' cred' ksf' clog ke1 t4 ctx slog ke2 t5 dbg out,
    ve CS (o_h2g (oprf CS) pw (dst_hash_to_group (oprf CS))) ->
    ve CS (o_h2g (oprf CS) pw' (dst_hash_to_group (oprf CS))) ->
    server_setup_new CS tape = Ok (setup, t1) ->
    client_registration_start CS t1 pw = Ok (creg, rq, t2) ->
    server_registration_start CS setup rq cred = Ok rr ->
    client_registration_finish CS creg t2 pw rr ids ksf = Ok (upload, ek, spk, t3) ->
    client_login_start CS t3 pw' = Ok (clog, ke1, t4) ->
    server_login_start CS (private_key_ops (ke CS)) t4 setup (Some (server_registration_finish upload)) ke1 cred' ctx ids
      = Ok (slog, ke2, t5, dbg) ->
    client_login_finish CS clog pw' ke2 ctx ids ksf' = Ok out ->
    (pw' = pw /\ cred' = cred /\
     exists y z, apply_ksf CS ksf y = Some z /\ apply_ksf CS ksf' y = Some z /\
                 voprf_finalize (hash CS) (oprf CS) (crs_blind creg) pw (rr_eval rr) = Ok y)
    \/ BadS CS \/ BadOprfDerive CS.
Proof. exact @accepted_login_used_the_registrations_secrets. Qed.
Print Assumptions C15_accepted_login_used_the_registrations_password_identifier_and_stretching.


(* at the 20 concrete suites: CurveLaws (and, inside the statement, the free scalar action) are the only hypotheses *)
From OKE Require Import CodecsConcrete GroupSplit Concrete20.

Definition C15_accepted_login_used_the_registrations_password_identifier_and_stretching_statement {E Sc Pk Sk} (CS : Suite E Sc Pk Sk) : Prop :=
  (forall a b : Sk, {a = b} + {a <> b}) ->
  (forall P a b, ve CS P -> vs CS a -> vs CS b -> o_mul (oprf CS) P a = o_mul (oprf CS) P b -> a = b) ->
  forall tape setup t1 pw creg rq t2 cred rr ids ksf upload ek spk t3 pw' cred' ksf' clog ke1 t4 ctx slog ke2 t5 dbg out,
    ve CS (o_h2g (oprf CS) pw (dst_hash_to_group (oprf CS))) ->
    ve CS (o_h2g (oprf CS) pw' (dst_hash_to_group (oprf CS))) ->
    server_setup_new CS tape = Ok (setup, t1) ->
    client_registration_start CS t1 pw = Ok (creg, rq, t2) ->
    server_registration_start CS setup rq cred = Ok rr ->
    client_registration_finish CS creg t2 pw rr ids ksf = Ok (upload, ek, spk, t3) ->
    client_login_start CS t3 pw' = Ok (clog, ke1, t4) ->
    server_login_start CS (private_key_ops (ke CS)) t4 setup (Some (server_registration_finish upload)) ke1 cred' ctx ids
      = Ok (slog, ke2, t5, dbg) ->
    client_login_finish CS clog pw' ke2 ctx ids ksf' = Ok out ->
    (pw' = pw /\ cred' = cred /\
     exists y z, apply_ksf CS ksf y = Some z /\ apply_ksf CS ksf' y = Some z /\
                 voprf_finalize (hash CS) (oprf CS) (crs_blind creg) pw (rr_eval rr) = Ok y)
    \/ BadS CS \/ BadOprfDerive CS.
Theorem C15_accepted_login_used_the_registrations_password_identifier_and_stretching_at_each_of_the_20_suites : all_suites (fun _ _ _ _ CS => CurveLaws CS -> C15_accepted_login_used_the_registrations_password_identifier_and_stretching_statement CS).
Proof. apply at_the_20_suites. exact C15_accepted_login_used_the_registrations_password_identifier_and_stretching. Qed.
Print Assumptions C15_accepted_login_used_the_registrations_password_identifier_and_stretching_at_each_of_the_20_suites.
