(* C15 - the key-stretching function is applied once, on the OPRF output, and bound
   into every secret.  Statements only. *)
From Coq Require Import List.
From OKE Require Import Bytes Suite Hkdf Voprf Messages Envelope Opaque Accept.

(* both finish steps depend on the stretching function only through its value at the OPRF output *)
Theorem C15_registration_ksf_once :
  forall E Sc Pk Sk (CS : Suite E Sc Pk Sk) st tape pw r ids (f g : ksf_fn) y,
    voprf_finalize (hash CS) (oprf CS) (crs_blind st) pw (rr_eval r) = Ok y -> f y = g y ->
    client_registration_finish CS st tape pw r ids (Some f) = client_registration_finish CS st tape pw r ids (Some g).
Proof. exact @registration_finish_ksf_congr. Qed.
Print Assumptions C15_registration_ksf_once.

Theorem C15_login_ksf_once :
  forall E Sc Pk Sk (CS : Suite E Sc Pk Sk) st pw r ctx ids (f g : ksf_fn) y,
    voprf_finalize (hash CS) (oprf CS) (cl_blind st) pw (cr_eval r) = Ok y -> f y = g y ->
    client_login_finish CS st pw r ctx ids (Some f) = client_login_finish CS st pw r ctx ids (Some g).
Proof. exact @login_finish_ksf_congr. Qed.
Print Assumptions C15_login_ksf_once.

(* passing no instance is passing the default instance *)
Theorem C15_default :
  forall E Sc Pk Sk (CS : Suite E Sc Pk Sk) input blind ev,
    get_password_derived_key CS input blind ev None =
    get_password_derived_key CS input blind ev (Some (ksf_default CS)).
Proof. exact @ksf_default_explicit. Qed.
Print Assumptions C15_default.

(* a failure of the stretching function is returned as KsfError *)
Theorem C15_error :
  forall E Sc Pk Sk (CS : Suite E Sc Pk Sk) input blind ev (f : ksf_fn) y,
    voprf_finalize (hash CS) (oprf CS) blind input ev = Ok y -> f y = None ->
    get_password_derived_key CS input blind ev (Some f) = Err (ELibrary LKsfError).
Proof. exact @ksf_error. Qed.
Print Assumptions C15_error.

(* the stretched value is bound into the randomized password from which every secret is expanded *)
Theorem C15_bound :
  forall E Sc Pk Sk (CS : Suite E Sc Pk Sk) input blind ev (f : ksf_fn) y z,
    voprf_finalize (hash CS) (oprf CS) blind input ev = Ok y -> f y = Some z ->
    get_password_derived_key CS input blind ev (Some f) = Ok (hkdf_extract (hash CS) None (y ++ z)).
Proof. exact @ksf_bound. Qed.
Print Assumptions C15_bound.
