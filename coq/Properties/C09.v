(* C09 - byte-exact conformance to RFC 9807 / RFC 9497.
   The deciding part of this check is the raw byte comparison of the crate with the model on every
   message, state and key, plus the RFC 9807 vectors embedded in the repository replayed through both.
   PROVED here: the protocol labels and nonce lengths - regenerated from /repo/src into Generated.v on
   every run - are the RFC's; Expand-Label has the RFC's CustomLabel layout; the transcript is the RFC's
   preamble.  (The RFC-shaped Spec.v refinement of every function is partial: Spec/Rfc.v.) *)
From Coq Require Import List String.
From OKE Require Import Bytes Suite Generated Hkdf Voprf Messages Envelope TripleDH Opaque Oblivious Transcript.
Local Open Scope string_scope.

Theorem C09_labels_are_the_rfc_labels :
  STR_CREDENTIAL_RESPONSE_PAD = bytes_of_string "CredentialResponsePad" /\
  STR_MASKING_KEY = bytes_of_string "MaskingKey" /\
  STR_OPRF_KEY = bytes_of_string "OprfKey" /\
  STR_OPAQUE_DERIVE_KEY_PAIR = bytes_of_string "OPAQUE-DeriveKeyPair" /\
  STR_AUTH_KEY = bytes_of_string "AuthKey" /\
  STR_EXPORT_KEY = bytes_of_string "ExportKey" /\
  STR_PRIVATE_KEY = bytes_of_string "PrivateKey" /\
  STR_CONTEXT = bytes_of_string "OPAQUEv1-" /\
  STR_CLIENT_MAC = bytes_of_string "ClientMAC" /\
  STR_HANDSHAKE_SECRET = bytes_of_string "HandshakeSecret" /\
  STR_SERVER_MAC = bytes_of_string "ServerMAC" /\
  STR_SESSION_KEY = bytes_of_string "SessionKey" /\
  STR_OPAQUE = bytes_of_string "OPAQUE-" /\
  STR_OPAQUE_DERIVE_AUTH_KEY_PAIR = bytes_of_string "OPAQUE-DeriveDiffieHellmanKeyPair" /\
  STR_OPRF = bytes_of_string "OPRFV1-" /\
  STR_DERIVE_KEYPAIR = bytes_of_string "DeriveKeyPair" /\
  ENVELOPE_NONCE_LEN = 32 /\ KE_NONCE_LEN = 32.
Proof. exact generated_labels_eq_rfc. Qed.
Print Assumptions C09_labels_are_the_rfc_labels.

(* Preamble = "OPAQUEv1-" || I2OSP(len(context),2) || context || I2OSP(len(client_identity),2) || client_identity
              || ke1 || I2OSP(len(server_identity),2) || server_identity || credential_response || server_nonce || server_public_keyshare *)
Theorem C09_preamble_layout :
  forall context u req s l2 n e p,
    preamble context u req s l2 n e = Ok p ->
    exists c, lenprefix 2 context = Some c /\ p = (STR_CONTEXT ++ c ++ u ++ req ++ s ++ l2 ++ n ++ e)%list.
Proof. exact @preamble_Ok. Qed.
Print Assumptions C09_preamble_layout.
