(* C09 - byte-exact conformance to RFC 9807 / RFC 9497.
   The deciding part of this check is the raw byte comparison of the crate with the model on every
   message, state and key, plus the RFC 9807 vectors embedded in the repository replayed through both.
   PROVED here: the protocol labels and nonce lengths - regenerated from /repo/src into Generated.v on
   every run - are the RFC's; Expand-Label has the RFC's CustomLabel layout; the transcript is the RFC's
   preamble.  (The RFC-shaped Spec.v refinement of every function is partial: Spec/Rfc.v.) *)
From Coq Require Import List String.
From OKE Require Import Bytes Suite Generated Hkdf Voprf Messages Envelope TripleDH Opaque Oblivious Transcript.
Local Open Scope string_scope.

Theorem C09_labels_are_the_rfc_labels :
  STR_CREDENTIAL_RESPONSE_PAD = bytes_of_string "CredentialResponsePad" /\
  STR_MASKING_KEY = bytes_of_string "MaskingKey" /\
  STR_OPRF_KEY = bytes_of_string "OprfKey" /\
  STR_OPAQUE_DERIVE_KEY_PAIR = bytes_of_string "OPAQUE-DeriveKeyPair" /\
  STR_AUTH_KEY = bytes_of_string "AuthKey" /\
  STR_EXPORT_KEY = bytes_of_string "ExportKey" /\
  STR_PRIVATE_KEY = bytes_of_string "PrivateKey" /\
  STR_CONTEXT = bytes_of_string "OPAQUEv1-" /\
  STR_CLIENT_MAC = bytes_of_string "ClientMAC" /\
  STR_HANDSHAKE_SECRET = bytes_of_string "HandshakeSecret" /\
  STR_SERVER_MAC = bytes_of_string "ServerMAC" /\
  STR_SESSION_KEY = bytes_of_string "SessionKey" /\
  STR_OPAQUE = bytes_of_string "OPAQUE-" /\
  STR_OPAQUE_DERIVE_AUTH_KEY_PAIR = bytes_of_string "OPAQUE-DeriveDiffieHellmanKeyPair" /\
  STR_OPRF = bytes_of_string "OPRFV1-" /\
  STR_DERIVE_KEYPAIR = bytes_of_string "DeriveKeyPair" /\
  ENVELOPE_NONCE_LEN = 32 /\ KE_NONCE_LEN = 32.
Proof. exact generated_labels_eq_rfc. Qed.
Print Assumptions C09_labels_are_the_rfc_labels.

(* Preamble = "OPAQUEv1-" || I2OSP(len(context),2) || context || I2OSP(len(client_identity),2) || client_identity
              || ke1 || I2OSP(len(server_identity),2) || server_identity || credential_response || server_nonce || server_public_keyshare *)
Theorem C09_preamble_layout :
  forall context u req s l2 n e p,
    preamble context u req s l2 n e = Ok p ->
    exists c, lenprefix 2 context = Some c /\ p = (STR_CONTEXT ++ c ++ u ++ req ++ s ++ l2 ++ n ++ e)%list.
Proof. exact @preamble_Ok. Qed.
Print Assumptions C09_preamble_layout.

(* ---- the code-shaped model computes the RFC's functions (Spec/Rfc.v is the transcription of the RFC
   pseudocode; proofs in Theory/Refines.v).  [to_opt] forgets which error the model names. *)
From Coq Require Import NArith.
From OKE Require Import Laws Rfc Refines.

Theorem C09_expand_label_is_rfc :
  forall E Sc Pk Sk (CS : Suite E Sc Pk Sk) secret label context,
    to_opt (hkdf_expand_label CS secret label context) = Expand_Label CS secret label context (h_len (hash CS)).
Proof. exact @expand_label_refines. Qed.
Print Assumptions C09_expand_label_is_rfc.

Theorem C09_preamble_is_rfc :
  forall context cid sid u s ke1 resp nonce keyshare,
    lenprefix 2 cid = Some u -> lenprefix 2 sid = Some s ->
    to_opt (preamble context u ke1 s resp nonce keyshare) = Preamble context cid ke1 sid resp nonce keyshare.
Proof. exact @preamble_refines. Qed.
Print Assumptions C09_preamble_is_rfc.

Theorem C09_derive_keys_is_rfc :
  forall E Sc Pk Sk (CS : Suite E Sc Pk Sk), HashLaws (hash CS) -> forall dh1 dh2 dh3 pre,
    to_opt (derive_3dh_keys CS dh1 dh2 dh3 (h_hash (hash CS) pre)) =
    option_map (fun k => (rfc_session_key k, Km2 k, Km3 k, rfc_handshake_secret k)) (DeriveKeys CS (dh1 ++ dh2 ++ dh3)%list pre).
Proof. exact @derive_keys_refines. Qed.
Print Assumptions C09_derive_keys_is_rfc.

Theorem C09_cleartext_credentials_is_rfc :
  forall ids cpk spk u s,
    bytestrings_from_identifiers ids cpk spk = Ok (u, s) ->
    CreateCleartextCredentials spk cpk (id_server ids) (id_client ids) = Some (construct_aad u s spk).
Proof. exact @cleartext_credentials_refines. Qed.
Print Assumptions C09_cleartext_credentials_is_rfc.

Theorem C09_oprf_finalize_is_rfc :
  forall E Sc Pk Sk (CS : Suite E Sc Pk Sk) input blind ev,
    List.length (o_ser_e (oprf CS) (o_mul (oprf CS) ev (o_inv (oprf CS) blind))) = o_Noe (oprf CS) ->
    (N.of_nat (o_Noe (oprf CS)) < 65536)%N ->
    to_opt (voprf_finalize (hash CS) (oprf CS) blind input ev) = Finalize CS input blind ev.
Proof. exact @finalize_refines. Qed.
Print Assumptions C09_oprf_finalize_is_rfc.

Theorem C09_oprf_derive_key_pair_is_rfc :
  forall E Sc Pk Sk (CS : Suite E Sc Pk Sk) seed info,
    to_opt (voprf_derive_key (oprf CS) seed info) = DeriveKeyPair CS seed info.
Proof. exact @derive_key_pair_refines. Qed.
Print Assumptions C09_oprf_derive_key_pair_is_rfc.

Theorem C09_server_finish_is_rfc :
  forall E Sc Pk Sk (CS : Suite E Sc Pk Sk) st fin,
    to_opt (server_login_finish CS st fin) =
    ServerFinish (h_hmac (hash CS) (sl_km3 st) (sl_hashed_transcript st)) (sl_session_key st) (cf_mac fin).
Proof. exact @server_finish_refines. Qed.
Print Assumptions C09_server_finish_is_rfc.
