(* C01 - honest registration + login always agree on keys.  Statement only; proof in
   Theory/Honest.v (composition of Theory/Layers.v).
   Generic in the suite record: holds for every instantiation satisfying HashLaws and
   GroupLaws, i.e. for all 20 concrete suites GIVEN the group laws of the concrete curves
   (a hypothesis, DESIGN.md 6; proved for the toy suite), for every password, credential
   identifier, identities, context, key-stretching instance and random tape. *)
From Coq Require Import List.
From OKE Require Import Bytes Suite Voprf Messages Envelope TripleDH Opaque Laws Honest.

Theorem C01_honest_login_agrees :
  forall E Sc Pk Sk (CS : Suite E Sc Pk Sk), HashLaws (hash CS) -> GroupLaws CS ->
  forall tape setup t1 pw creg rq t2 cred rr ids ksf upload ek spk t3 clog ke1 t4 ctx slog ke2 t5 dbg,
    (* non-degeneracy: hash-to-group did not hit the identity; the evaluation is not the reflected request *)
    ve CS (o_h2g (oprf CS) pw (dst_hash_to_group (oprf CS))) ->
    (* the steps up to the server's response ran (their only failures are resource / degenerate ones) *)
    server_setup_new CS tape = Ok (setup, t1) ->
    client_registration_start CS t1 pw = Ok (creg, rq, t2) ->
    server_registration_start CS setup rq cred = Ok rr ->
    client_registration_finish CS creg t2 pw rr ids ksf = Ok (upload, ek, spk, t3) ->
    client_login_start CS t3 pw = Ok (clog, ke1, t4) ->
    server_login_start CS (private_key_ops (ke CS)) t4 setup (Some (server_registration_finish upload)) ke1 cred ctx ids
      = Ok (slog, ke2, t5, dbg) ->
    o_eqb (oprf CS) (cq_blinded ke1) (cr_eval ke2) = false ->
    (* then the client accepts, the server accepts the client's finalization, both hold the same session key,
       the client gets the registration's export key [ek] and the server public key [spk] it saw at registration,
       which is the public key of the setup's static key *)
    exists ke3 sk dbg',
      client_login_finish CS clog pw ke2 ctx ids ksf = Ok (ke3, sk, ek, spk, dbg') /\
      server_login_finish CS slog ke3 = Ok sk /\
      spk = kp_pk (ss_keypair setup) /\ kp_pk (ss_keypair setup) = k_pub (ke CS) (kp_sk (ss_keypair setup)).
Proof. exact @honest_login_agrees. Qed.
Print Assumptions C01_honest_login_agrees.

(* the output of the OPRF does not depend on the blind (used above; also C14) *)
Theorem C01_oprf_unblind :
  forall E Sc Pk Sk (CS : Suite E Sc Pk Sk), GroupLaws CS ->
  forall input r k P, ve CS P -> vs CS r -> vs CS k ->
    voprf_finalize (hash CS) (oprf CS) r input (o_mul (oprf CS) (o_mul (oprf CS) P r) k) =
    match i2osp_nat 2 (length input) with
    | None => Err (ELibrary (LOprfError OInput))
    | Some len => Ok (h_hash (hash CS) (len ++ input ++ be_bytes 2 (BinNat.N.of_nat (o_Noe (oprf CS))) ++
                                        o_ser_e (oprf CS) (o_mul (oprf CS) P k) ++ Labels.STR_FINALIZE))
    end.
Proof. exact @Layers.oprf_unblind. Qed.
Print Assumptions C01_oprf_unblind.

(* both sides of 3DH derive the same keys and accept each other's MAC *)
Theorem C01_ke_agreement :
  forall E Sc Pk Sk (CS : Suite E Sc Pk Sk), GroupLaws CS ->
  forall tape req l2 cnonce ce cs ss u s ctx st ke2 rest dbg,
    vk CS ce -> vk CS cs -> vk CS ss ->
    generate_ke2 CS (private_key_ops (ke CS)) tape req l2
                 {| k1_nonce := cnonce; k1_client_e_pk := k_pub (ke CS) ce |} (k_pub (ke CS) cs) ss u s ctx
      = Ok (st, ke2, rest, dbg) ->
    exists dbg',
      generate_ke3 CS l2 ke2 {| k1s_client_e_sk := ce; k1s_nonce := cnonce |} req (k_pub (ke CS) ss) cs u s ctx
        = Ok (sl_session_key st, {| cf_mac := h_hmac (hash CS) (sl_km3 st) (sl_hashed_transcript st) |}, dbg') /\
      server_login_finish CS st {| cf_mac := h_hmac (hash CS) (sl_km3 st) (sl_hashed_transcript st) |}
        = Ok (sl_session_key st).
Proof. exact @Layers.ke_agreement. Qed.
Print Assumptions C01_ke_agreement.


(* what is PROVED about each of the 20 concrete suites (hash output lengths, canonical element codecs, sizes):
   the theorem above therefore holds for every one of them under the single hypothesis GroupLaws *)
From OKE Require Import Codecs CodecsConcrete SuitesLaws.
Theorem C01_laws_proved_for_the_20_suites : all_suites (fun _ _ _ _ CS => proved_laws CS).
Proof. exact proved_laws_20. Qed.
Print Assumptions C01_laws_proved_for_the_20_suites.


(* the same statement at each of the 20 concrete suites: HashLaws, CodecLaws, SizeLaws and the encoding half of
   GroupLaws are proved for them (Theory/GroupSplit.v), so the only hypothesis left is CurveLaws - seven facts of
   elliptic-curve arithmetic (the group is a group; decompression inverts compression) *)
From OKE Require Import CodecsConcrete GroupSplit Concrete20.
Definition C01_honest_login_agrees_statement {E Sc Pk Sk} (CS : Suite E Sc Pk Sk) : Prop :=
  forall tape setup t1 pw creg rq t2 cred rr ids ksf upload ek spk t3 clog ke1 t4 ctx slog ke2 t5 dbg,
    (* non-degeneracy: hash-to-group did not hit the identity; the evaluation is not the reflected request *)
    ve CS (o_h2g (oprf CS) pw (dst_hash_to_group (oprf CS))) ->
    (* the steps up to the server's response ran (their only failures are resource / degenerate ones) *)
    server_setup_new CS tape = Ok (setup, t1) ->
    client_registration_start CS t1 pw = Ok (creg, rq, t2) ->
    server_registration_start CS setup rq cred = Ok rr ->
    client_registration_finish CS creg t2 pw rr ids ksf = Ok (upload, ek, spk, t3) ->
    client_login_start CS t3 pw = Ok (clog, ke1, t4) ->
    server_login_start CS (private_key_ops (ke CS)) t4 setup (Some (server_registration_finish upload)) ke1 cred ctx ids
      = Ok (slog, ke2, t5, dbg) ->
    o_eqb (oprf CS) (cq_blinded ke1) (cr_eval ke2) = false ->
    (* then the client accepts, the server accepts the client's finalization, both hold the same session key,
       the client gets the registration's export key [ek] and the server public key [spk] it saw at registration,
       which is the public key of the setup's static key *)
    exists ke3 sk dbg',
      client_login_finish CS clog pw ke2 ctx ids ksf = Ok (ke3, sk, ek, spk, dbg') /\
      server_login_finish CS slog ke3 = Ok sk /\
      spk = kp_pk (ss_keypair setup) /\ kp_pk (ss_keypair setup) = k_pub (ke CS) (kp_sk (ss_keypair setup)).
Theorem C01_honest_login_agrees_at_each_of_the_20_suites :
  all_suites (fun _ _ _ _ CS => CurveLaws CS -> C01_honest_login_agrees_statement CS).
Proof. apply at_the_20_suites. exact C01_honest_login_agrees. Qed.
Print Assumptions C01_honest_login_agrees_at_each_of_the_20_suites.


(* further theorems above, restated at the 20 suites *)

Definition C01_oprf_unblind_statement {E Sc Pk Sk} (CS : Suite E Sc Pk Sk) : Prop :=
  forall input r k P, ve CS P -> vs CS r -> vs CS k ->
    voprf_finalize (hash CS) (oprf CS) r input (o_mul (oprf CS) (o_mul (oprf CS) P r) k) =
    match i2osp_nat 2 (length input) with
    | None => Err (ELibrary (LOprfError OInput))
    | Some len => Ok (h_hash (hash CS) (len ++ input ++ be_bytes 2 (BinNat.N.of_nat (o_Noe (oprf CS))) ++
                                        o_ser_e (oprf CS) (o_mul (oprf CS) P k) ++ Labels.STR_FINALIZE))
    end.
Theorem C01_oprf_unblind_at_each_of_the_20_suites : all_suites (fun _ _ _ _ CS => CurveLaws CS -> C01_oprf_unblind_statement CS).
Proof. apply at_the_20_suites_g. exact C01_oprf_unblind. Qed.
Print Assumptions C01_oprf_unblind_at_each_of_the_20_suites.

Definition C01_ke_agreement_statement {E Sc Pk Sk} (CS : Suite E Sc Pk Sk) : Prop :=
  forall tape req l2 cnonce ce cs ss u s ctx st ke2 rest dbg,
    vk CS ce -> vk CS cs -> vk CS ss ->
    generate_ke2 CS (private_key_ops (ke CS)) tape req l2
                 {| k1_nonce := cnonce; k1_client_e_pk := k_pub (ke CS) ce |} (k_pub (ke CS) cs) ss u s ctx
      = Ok (st, ke2, rest, dbg) ->
    exists dbg',
      generate_ke3 CS l2 ke2 {| k1s_client_e_sk := ce; k1s_nonce := cnonce |} req (k_pub (ke CS) ss) cs u s ctx
        = Ok (sl_session_key st, {| cf_mac := h_hmac (hash CS) (sl_km3 st) (sl_hashed_transcript st) |}, dbg') /\
      server_login_finish CS st {| cf_mac := h_hmac (hash CS) (sl_km3 st) (sl_hashed_transcript st) |}
        = Ok (sl_session_key st).
Theorem C01_ke_agreement_at_each_of_the_20_suites : all_suites (fun _ _ _ _ CS => CurveLaws CS -> C01_ke_agreement_statement CS).
Proof. apply at_the_20_suites_g. exact C01_ke_agreement. Qed.
Print Assumptions C01_ke_agreement_at_each_of_the_20_suites.

(* ---------------------------------------------------------------- every party on its own tape; over histories *)
(* the main theorem with every step on a tape of its own (clients and servers have their own generators) *)
Theorem C01_honest_login_agrees_on_independent_tapes :
  forall E Sc Pk Sk (CS : Suite E Sc Pk Sk), HashLaws (hash CS) -> GroupLaws CS ->
  forall tape setup t1 tr pw creg rq t2 cred rr tf ids ksf upload ek spk t3 tc clog ke1 t4 tv ctx slog ke2 t5 dbg,
    ve CS (o_h2g (oprf CS) pw (dst_hash_to_group (oprf CS))) ->
    server_setup_new CS tape = Ok (setup, t1) ->
    client_registration_start CS tr pw = Ok (creg, rq, t2) ->
    server_registration_start CS setup rq cred = Ok rr ->
    client_registration_finish CS creg tf pw rr ids ksf = Ok (upload, ek, spk, t3) ->
    client_login_start CS tc pw = Ok (clog, ke1, t4) ->
    server_login_start CS (private_key_ops (ke CS)) tv setup (Some (server_registration_finish upload)) ke1 cred ctx ids
      = Ok (slog, ke2, t5, dbg) ->
    o_eqb (oprf CS) (cq_blinded ke1) (cr_eval ke2) = false ->
    exists ke3 sk dbg',
      client_login_finish CS clog pw ke2 ctx ids ksf = Ok (ke3, sk, ek, spk, dbg') /\
      server_login_finish CS slog ke3 = Ok sk /\
      spk = kp_pk (ss_keypair setup) /\ kp_pk (ss_keypair setup) = k_pub (ke CS) (kp_sk (ss_keypair setup)).
Proof. exact @honest_login_agrees_any_tapes. Qed.
Print Assumptions C01_honest_login_agrees_on_independent_tapes.

(* in ANY world the adversary can reach (Model/World.v: it schedules all parties and chooses every delivered message; one
   shared tape), an honestly routed login completes: if client session i belongs to a user registered under the world's
   setup and server session j was started for that user's record on i's own request, then j's response makes the client
   accept with the registration's export key and server key, and the client's finalization makes the server accept with the
   same session key - whatever else happened before *)
From Coq Require Import Arith.
From OKE Require Import World WorldCrash CrashInv HonestWorld.
Theorem C01_honest_delivery_completes_in_any_reachable_world :
  forall E Sc Pk Sk (CS : Suite E Sc Pk Sk), HashLaws (hash CS) -> GroupLaws CS ->
  forall tape0 setup rest0 tape ops tr pw creg rq t2 cred rr tf ids upload ek spk t3 i c j s,
    server_setup_new CS tape0 = Ok (setup, rest0) ->
    (forall pw', In (OClientStart pw') ops -> good_pw CS pw') ->
    client_registration_start CS tr pw = Ok (creg, rq, t2) ->
    server_registration_start CS setup rq cred = Ok rr ->
    client_registration_finish CS creg tf pw rr ids None = Ok (upload, ek, spk, t3) ->
    let w := run CS (@init E Sc Pk Sk setup tape) ops in
    nth_error (w_cli w) i = Some c -> cs_pw c = pw ->
    nth_error (w_srv w) j = Some s ->
    sv_file s = Some (server_registration_finish upload) -> sv_cred s = cred -> sv_ids s = ids ->
    sv_rq s = cl_request (cs_state c) ->
    o_eqb (oprf CS) (cq_blinded (sv_rq s)) (cr_eval (sv_resp s)) = false ->
    exists fin key dbg,
      client_login_finish CS (cs_state c) pw (sv_resp s) (sv_ctx s) ids None = Ok (fin, key, ek, spk, dbg) /\
      server_login_finish CS (sv_state s) fin = Ok key.
Proof. exact @honest_delivery_completes. Qed.
Print Assumptions C01_honest_delivery_completes_in_any_reachable_world.

(* the two theorems above at the 20 suites *)

Definition C01_honest_login_agrees_on_independent_tapes_statement {E Sc Pk Sk} (CS : Suite E Sc Pk Sk) : Prop :=
  forall tape setup t1 tr pw creg rq t2 cred rr tf ids ksf upload ek spk t3 tc clog ke1 t4 tv ctx slog ke2 t5 dbg,
    ve CS (o_h2g (oprf CS) pw (dst_hash_to_group (oprf CS))) ->
    server_setup_new CS tape = Ok (setup, t1) ->
    client_registration_start CS tr pw = Ok (creg, rq, t2) ->
    server_registration_start CS setup rq cred = Ok rr ->
    client_registration_finish CS creg tf pw rr ids ksf = Ok (upload, ek, spk, t3) ->
    client_login_start CS tc pw = Ok (clog, ke1, t4) ->
    server_login_start CS (private_key_ops (ke CS)) tv setup (Some (server_registration_finish upload)) ke1 cred ctx ids
      = Ok (slog, ke2, t5, dbg) ->
    o_eqb (oprf CS) (cq_blinded ke1) (cr_eval ke2) = false ->
    exists ke3 sk dbg',
      client_login_finish CS clog pw ke2 ctx ids ksf = Ok (ke3, sk, ek, spk, dbg') /\
      server_login_finish CS slog ke3 = Ok sk /\
      spk = kp_pk (ss_keypair setup) /\ kp_pk (ss_keypair setup) = k_pub (ke CS) (kp_sk (ss_keypair setup)).
Theorem C01_honest_login_agrees_on_independent_tapes_at_each_of_the_20_suites : all_suites (fun _ _ _ _ CS => CurveLaws CS -> C01_honest_login_agrees_on_independent_tapes_statement CS).
Proof. apply at_the_20_suites. exact C01_honest_login_agrees_on_independent_tapes. Qed.
Print Assumptions C01_honest_login_agrees_on_independent_tapes_at_each_of_the_20_suites.

Definition C01_honest_delivery_completes_in_any_reachable_world_statement {E Sc Pk Sk} (CS : Suite E Sc Pk Sk) : Prop :=
  forall tape0 setup rest0 tape ops tr pw creg rq t2 cred rr tf ids upload ek spk t3 i c j s,
    server_setup_new CS tape0 = Ok (setup, rest0) ->
    (forall pw', In (OClientStart pw') ops -> good_pw CS pw') ->
    client_registration_start CS tr pw = Ok (creg, rq, t2) ->
    server_registration_start CS setup rq cred = Ok rr ->
    client_registration_finish CS creg tf pw rr ids None = Ok (upload, ek, spk, t3) ->
    let w := run CS (@init E Sc Pk Sk setup tape) ops in
    nth_error (w_cli w) i = Some c -> cs_pw c = pw ->
    nth_error (w_srv w) j = Some s ->
    sv_file s = Some (server_registration_finish upload) -> sv_cred s = cred -> sv_ids s = ids ->
    sv_rq s = cl_request (cs_state c) ->
    o_eqb (oprf CS) (cq_blinded (sv_rq s)) (cr_eval (sv_resp s)) = false ->
    exists fin key dbg,
      client_login_finish CS (cs_state c) pw (sv_resp s) (sv_ctx s) ids None = Ok (fin, key, ek, spk, dbg) /\
      server_login_finish CS (sv_state s) fin = Ok key.
Theorem C01_honest_delivery_completes_in_any_reachable_world_at_each_of_the_20_suites : all_suites (fun _ _ _ _ CS => CurveLaws CS -> C01_honest_delivery_completes_in_any_reachable_world_statement CS).
Proof. apply at_the_20_suites. exact C01_honest_delivery_completes_in_any_reachable_world. Qed.
Print Assumptions C01_honest_delivery_completes_in_any_reachable_world_at_each_of_the_20_suites.
