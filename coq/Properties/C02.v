(* C02 - a wrong password never logs in.  Statements only; proofs in Theory/WrongPassword.v (the chain),
   Theory/KeySchedule.v, Theory/Transcript.v, Theory/Layers.v.
   Main theorem: after an honest registration with pw, a login attempt with ANY pw' <> pw against the
   honest server is never accepted by the client, unless an explicit bad event is exhibited (BadS: a
   collision of HMAC, of the hash, of HKDF-Expand on the key seed, of the key derivation, or of
   Diffie-Hellman in the private key - each constructor carries its witness; nothing is assumed about
   the hash).  "No session key, export key or finalization" is by the result type; the error KIND
   (InvalidLogin) is observed by the battery on every near-miss pair. *)
From Coq Require Import List NArith.
From OKE Require Import Bytes Suite Generated Labels Hkdf Voprf Messages Envelope TripleDH Opaque Laws Layers Transcript Accept ClientAccept Bad WrongPassword.

Theorem C02_wrong_password_never_accepted :
  forall E Sc Pk Sk (CS : Suite E Sc Pk Sk), HashLaws (hash CS) -> GroupLaws CS ->
  (forall a b : Sk, {a = b} + {a <> b}) ->
  forall tape setup t1 pw creg rq t2 cred rr ids ksf upload ek spk t3 pw' clog ke1 t4 ctx slog ke2 t5 dbg out,
    ve CS (o_h2g (oprf CS) pw (dst_hash_to_group (oprf CS))) ->
    ve CS (o_h2g (oprf CS) pw' (dst_hash_to_group (oprf CS))) ->
    server_setup_new CS tape = Ok (setup, t1) ->
    client_registration_start CS t1 pw = Ok (creg, rq, t2) ->
    server_registration_start CS setup rq cred = Ok rr ->
    client_registration_finish CS creg t2 pw rr ids ksf = Ok (upload, ek, spk, t3) ->
    pw' <> pw ->
    client_login_start CS t3 pw' = Ok (clog, ke1, t4) ->
    server_login_start CS (private_key_ops (ke CS)) t4 setup (Some (server_registration_finish upload)) ke1 cred ctx ids
      = Ok (slog, ke2, t5, dbg) ->
    client_login_finish CS clog pw' ke2 ctx ids ksf = Ok out ->
    BadS CS.
Proof. exact @wrong_password_never_accepted. Qed.
Print Assumptions C02_wrong_password_never_accepted.

Theorem C02_password_encoding_injective :
  forall E Sc Pk Sk (CS : Suite E Sc Pk Sk) input input' l l' ser ser',
    i2osp_nat 2 (length input) = Some l -> i2osp_nat 2 (length input') = Some l' ->
    length ser = length ser' ->
    l ++ input ++ be_bytes 2 (N.of_nat (o_Noe (oprf CS))) ++ ser ++ STR_FINALIZE =
    l' ++ input' ++ be_bytes 2 (N.of_nat (o_Noe (oprf CS))) ++ ser' ++ STR_FINALIZE ->
    input = input' /\ ser = ser'.
Proof. exact @finalize_input_injective. Qed.
Print Assumptions C02_password_encoding_injective.

Theorem C02_oprf_output_is_hash_of_password_and_key :
  forall E Sc Pk Sk (CS : Suite E Sc Pk Sk), GroupLaws CS ->
  forall input r k P, ve CS P -> vs CS r -> vs CS k ->
    voprf_finalize (hash CS) (oprf CS) r input (o_mul (oprf CS) (o_mul (oprf CS) P r) k) =
    match i2osp_nat 2 (length input) with
    | None => Err (ELibrary (LOprfError OInput))
    | Some len => Ok (h_hash (hash CS) (len ++ input ++ be_bytes 2 (N.of_nat (o_Noe (oprf CS))) ++
                                        o_ser_e (oprf CS) (o_mul (oprf CS) P k) ++ STR_FINALIZE))
    end.
Proof. exact @oprf_unblind. Qed.
Print Assumptions C02_oprf_output_is_hash_of_password_and_key.

Theorem C02_long_password_refused :
  forall E Sc Pk Sk (CS : Suite E Sc Pk Sk) st pw r ctx ids ksf,
    (65536 <= N.of_nat (length pw))%N ->
    o_eqb (oprf CS) (cq_blinded (cl_request st)) (cr_eval r) = false ->
    client_login_finish CS st pw r ctx ids ksf = Err (ELibrary (LOprfError OInput)).
Proof. exact @client_login_finish_refuses_long_password. Qed.
Print Assumptions C02_long_password_refused.

Theorem C02_stretched_output_bound :
  forall E Sc Pk Sk (CS : Suite E Sc Pk Sk) input blind ev (f : ksf_fn) y z,
    voprf_finalize (hash CS) (oprf CS) blind input ev = Ok y -> f y = Some z ->
    get_password_derived_key CS input blind ev (Some f) = Ok (hkdf_extract (hash CS) None (y ++ z)).
Proof. exact @ksf_bound. Qed.
Print Assumptions C02_stretched_output_bound.

(* no partial outputs: a failed final step yields no session key, export key or finalization *)
Theorem C02_failure_yields_nothing :
  forall E Sc Pk Sk (CS : Suite E Sc Pk Sk) st pw r ctx ids ksf e,
    client_login_finish CS st pw r ctx ids ksf = Err e ->
    forall out, client_login_finish CS st pw r ctx ids ksf <> Ok out.
Proof. exact @rejected_yields_nothing. Qed.
Print Assumptions C02_failure_yields_nothing.


(* the same statement at each of the 20 concrete suites: HashLaws, CodecLaws, SizeLaws and the encoding half of
   GroupLaws are proved for them (Theory/GroupSplit.v), so the only hypothesis left is CurveLaws - seven facts of
   elliptic-curve arithmetic (the group is a group; decompression inverts compression) *)
From OKE Require Import CodecsConcrete GroupSplit Concrete20.
Definition C02_wrong_password_never_accepted_statement {E Sc Pk Sk} (CS : Suite E Sc Pk Sk) : Prop :=
  (forall a b : Sk, {a = b} + {a <> b}) ->
  forall tape setup t1 pw creg rq t2 cred rr ids ksf upload ek spk t3 pw' clog ke1 t4 ctx slog ke2 t5 dbg out,
    ve CS (o_h2g (oprf CS) pw (dst_hash_to_group (oprf CS))) ->
    ve CS (o_h2g (oprf CS) pw' (dst_hash_to_group (oprf CS))) ->
    server_setup_new CS tape = Ok (setup, t1) ->
    client_registration_start CS t1 pw = Ok (creg, rq, t2) ->
    server_registration_start CS setup rq cred = Ok rr ->
    client_registration_finish CS creg t2 pw rr ids ksf = Ok (upload, ek, spk, t3) ->
    pw' <> pw ->
    client_login_start CS t3 pw' = Ok (clog, ke1, t4) ->
    server_login_start CS (private_key_ops (ke CS)) t4 setup (Some (server_registration_finish upload)) ke1 cred ctx ids
      = Ok (slog, ke2, t5, dbg) ->
    client_login_finish CS clog pw' ke2 ctx ids ksf = Ok out ->
    BadS CS.
Theorem C02_wrong_password_never_accepted_at_each_of_the_20_suites :
  all_suites (fun _ _ _ _ CS => CurveLaws CS -> C02_wrong_password_never_accepted_statement CS).
Proof. apply at_the_20_suites. exact C02_wrong_password_never_accepted. Qed.
Print Assumptions C02_wrong_password_never_accepted_at_each_of_the_20_suites.


(* further theorems above, restated at the 20 suites *)

Definition C02_oprf_output_is_hash_of_password_and_key_statement {E Sc Pk Sk} (CS : Suite E Sc Pk Sk) : Prop :=
  forall input r k P, ve CS P -> vs CS r -> vs CS k ->
    voprf_finalize (hash CS) (oprf CS) r input (o_mul (oprf CS) (o_mul (oprf CS) P r) k) =
    match i2osp_nat 2 (length input) with
    | None => Err (ELibrary (LOprfError OInput))
    | Some len => Ok (h_hash (hash CS) (len ++ input ++ be_bytes 2 (N.of_nat (o_Noe (oprf CS))) ++
                                        o_ser_e (oprf CS) (o_mul (oprf CS) P k) ++ STR_FINALIZE))
    end.
Theorem C02_oprf_output_is_hash_of_password_and_key_at_each_of_the_20_suites : all_suites (fun _ _ _ _ CS => CurveLaws CS -> C02_oprf_output_is_hash_of_password_and_key_statement CS).
Proof. apply at_the_20_suites_g. exact C02_oprf_output_is_hash_of_password_and_key. Qed.
Print Assumptions C02_oprf_output_is_hash_of_password_and_key_at_each_of_the_20_suites.
