(* C02 - a wrong password never logs in.
   PROVED so far (this file): the password enters the OPRF Finalize hash through an injective,
   length-prefixed encoding (so a different password - bit flip, prefix, extension, embedded NUL,
   trailing whitespace, any length up to 65535 - is a different hash input; no truncation or
   normalisation), the blinded OPRF output is that hash of the unblinded element (independent of the
   blind), over-long passwords are refused, the stretched OPRF output is bound into the randomized
   password, and a response whose MAC does not verify gives InvalidLogin and nothing else.
   NOT YET PROVED: the collision chain "client accepts with pw' <> pw  ==>  Bad" (DESIGN.md C02);
   until then the rejection itself is decided by the near-miss battery and the cross-check of every
   client finish against the model. *)
From Coq Require Import List NArith.
From OKE Require Import Bytes Suite Generated Labels Hkdf Voprf Messages Envelope TripleDH Opaque Laws Layers Transcript Accept ClientAccept.

Theorem C02_password_encoding_injective :
  forall E Sc Pk Sk (CS : Suite E Sc Pk Sk) input input' l l' ser ser',
    i2osp_nat 2 (length input) = Some l -> i2osp_nat 2 (length input') = Some l' ->
    length ser = length ser' ->
    l ++ input ++ be_bytes 2 (N.of_nat (o_Noe (oprf CS))) ++ ser ++ STR_FINALIZE =
    l' ++ input' ++ be_bytes 2 (N.of_nat (o_Noe (oprf CS))) ++ ser' ++ STR_FINALIZE ->
    input = input' /\ ser = ser'.
Proof. exact @finalize_input_injective. Qed.
Print Assumptions C02_password_encoding_injective.

Theorem C02_oprf_output_is_hash_of_password_and_key :
  forall E Sc Pk Sk (CS : Suite E Sc Pk Sk), GroupLaws CS ->
  forall input r k P, ve CS P -> vs CS r -> vs CS k ->
    voprf_finalize (hash CS) (oprf CS) r input (o_mul (oprf CS) (o_mul (oprf CS) P r) k) =
    match i2osp_nat 2 (length input) with
    | None => Err (ELibrary (LOprfError OInput))
    | Some len => Ok (h_hash (hash CS) (len ++ input ++ be_bytes 2 (N.of_nat (o_Noe (oprf CS))) ++
                                        o_ser_e (oprf CS) (o_mul (oprf CS) P k) ++ STR_FINALIZE))
    end.
Proof. exact @oprf_unblind. Qed.
Print Assumptions C02_oprf_output_is_hash_of_password_and_key.

Theorem C02_long_password_refused :
  forall E Sc Pk Sk (CS : Suite E Sc Pk Sk) st pw r ctx ids ksf,
    (65536 <= N.of_nat (length pw))%N ->
    o_eqb (oprf CS) (cq_blinded (cl_request st)) (cr_eval r) = false ->
    client_login_finish CS st pw r ctx ids ksf = Err (ELibrary (LOprfError OInput)).
Proof. exact @client_login_finish_refuses_long_password. Qed.
Print Assumptions C02_long_password_refused.

Theorem C02_stretched_output_bound :
  forall E Sc Pk Sk (CS : Suite E Sc Pk Sk) input blind ev (f : ksf_fn) y z,
    voprf_finalize (hash CS) (oprf CS) blind input ev = Ok y -> f y = Some z ->
    get_password_derived_key CS input blind ev (Some f) = Ok (hkdf_extract (hash CS) None (y ++ z)).
Proof. exact @ksf_bound. Qed.
Print Assumptions C02_stretched_output_bound.

(* no partial outputs: a failed final step yields no session key, export key or finalization *)
Theorem C02_failure_yields_nothing :
  forall E Sc Pk Sk (CS : Suite E Sc Pk Sk) st pw r ctx ids ksf e,
    client_login_finish CS st pw r ctx ids ksf = Err e ->
    forall out, client_login_finish CS st pw r ctx ids ksf <> Ok out.
Proof. exact @rejected_yields_nothing. Qed.
Print Assumptions C02_failure_yields_nothing.
