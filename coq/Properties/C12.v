(* C12 - total, panic-free handling of every input.  PARTIAL (DESIGN.md C12): what a Gallina model
   can carry is proved here - every model operation is a total function (accepted by Coq's
   termination checker), over-long inputs are refused with an error value and never truncated or
   wrapped, and every slice a decoder takes lies within bounds that a preceding length check
   established (this is what the strictness proofs of C10 go through).  Absence of panics in the
   compiled Rust is explored by the battery, not proved. *)
From Coq Require Import List NArith.
From OKE Require Import Bytes Suite Generated Voprf Messages Envelope TripleDH Opaque BytesLemmas Transcript Codecs.

Theorem C12_i2osp_refuses_not_wraps :
  forall len n, i2osp len n = None <-> (256 ^ N.of_nat len <= n)%N.
Proof. exact i2osp_None. Qed.
Print Assumptions C12_i2osp_refuses_not_wraps.

Theorem C12_i2osp_exact :
  forall len n p, i2osp len n = Some p -> length p = len /\ os2ip_be p = n /\ (n < 256 ^ N.of_nat len)%N.
Proof. exact i2osp_Some. Qed.
Print Assumptions C12_i2osp_exact.

Theorem C12_long_password_refused_at_registration :
  forall E Sc Pk Sk (CS : Suite E Sc Pk Sk) st tape pw r ids ksf,
    (65536 <= N.of_nat (length pw))%N ->
    o_eqb (oprf CS) (crs_blinded st) (rr_eval r) = false ->
    client_registration_finish CS st tape pw r ids ksf = Err (ELibrary (LOprfError OInput)).
Proof. exact @client_registration_finish_refuses_long_password. Qed.
Print Assumptions C12_long_password_refused_at_registration.

Theorem C12_long_password_refused_at_login :
  forall E Sc Pk Sk (CS : Suite E Sc Pk Sk) st pw r ctx ids ksf,
    (65536 <= N.of_nat (length pw))%N ->
    o_eqb (oprf CS) (cq_blinded (cl_request st)) (cr_eval r) = false ->
    client_login_finish CS st pw r ctx ids ksf = Err (ELibrary (LOprfError OInput)).
Proof. exact @client_login_finish_refuses_long_password. Qed.
Print Assumptions C12_long_password_refused_at_login.

Theorem C12_long_context_refused :
  forall E Sc Pk Sk (CS : Suite E Sc Pk Sk) l2 ke2 st req spk csk u s context,
    (65536 <= N.of_nat (length context))%N ->
    generate_ke3 CS l2 ke2 st req spk csk u s context = Err ESerialization.
Proof. exact @generate_ke3_refuses_context. Qed.
Print Assumptions C12_long_context_refused.

Theorem C12_long_identity_never_sealed :
  forall E Sc Pk Sk (CS : Suite E Sc Pk Sk) tape rpwd spk ids r,
    (65536 <= N.of_nat (length (effective (id_server ids) (k_ser_pk (ke CS) spk))))%N ->
    envelope_seal CS tape rpwd spk ids <> Ok r.
Proof. exact @envelope_seal_refuses_long_identity. Qed.
Print Assumptions C12_long_identity_never_sealed.

(* no short read: a decoder that succeeds consumed exactly the bytes it was given *)
Theorem C12_decoders_read_within_bounds :
  forall E Sc Pk Sk (CS : Suite E Sc Pk Sk) b m,
    credential_response_deserialize CS b = Ok m -> length b = credential_response_len CS.
Proof. exact @credential_response_length. Qed.
Print Assumptions C12_decoders_read_within_bounds.
