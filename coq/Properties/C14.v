(* C14 - the OPRF is oblivious and keyed per credential.  Statements only; proofs in Theory/Honest.v,
   Theory/Oblivious.v, Theory/Accept.v, Theory/Layers.v. *)
From Coq Require Import List.
From OKE Require Import Bytes Suite Voprf Messages Envelope Opaque Laws Layers Honest Oblivious Accept Transcript.

(* what the client derives depends on the password, the OPRF key and the stretching function - never on the blind *)
Theorem C14_blind_independent :
  forall E Sc Pk Sk (CS : Suite E Sc Pk Sk), GroupLaws CS ->
  forall pw r k ksf rp,
    ve CS (o_h2g (oprf CS) pw (dst_hash_to_group (oprf CS))) -> vs CS r -> vs CS k ->
    get_password_derived_key CS pw r
      (o_mul (oprf CS) (o_mul (oprf CS) (o_h2g (oprf CS) pw (dst_hash_to_group (oprf CS))) r) k) ksf = Ok rp ->
    forall r', vs CS r' ->
      get_password_derived_key CS pw r'
        (o_mul (oprf CS) (o_mul (oprf CS) (o_h2g (oprf CS) pw (dst_hash_to_group (oprf CS))) r') k) ksf = Ok rp.
Proof. exact @rpwd_unblinded. Qed.
Print Assumptions C14_blind_independent.

(* re-registering gives the same masking key *)
Theorem C14_reregistration_same_masking_key :
  forall E Sc Pk Sk (CS : Suite E Sc Pk Sk), GroupLaws CS ->
  forall (setup : ServerSetup Pk Sk Sk) pw cred ids ksf ta ta' tb tb' creg rq r1 rr up ek spk r2 creg' rq' r1' rr' up' ek' spk' r2',
    ve CS (o_h2g (oprf CS) pw (dst_hash_to_group (oprf CS))) ->
    client_registration_start CS ta pw = Ok (creg, rq, r1) ->
    server_registration_start CS setup rq cred = Ok rr ->
    client_registration_finish CS creg tb pw rr ids ksf = Ok (up, ek, spk, r2) ->
    client_registration_start CS ta' pw = Ok (creg', rq', r1') ->
    server_registration_start CS setup rq' cred = Ok rr' ->
    client_registration_finish CS creg' tb' pw rr' ids ksf = Ok (up', ek', spk', r2') ->
    ru_masking_key up = ru_masking_key up'.
Proof. exact @reregistration_same_masking_key. Qed.
Print Assumptions C14_reregistration_same_masking_key.

(* the server's evaluation is a deterministic function of (seed, credential identifier, request):
   the same function at registration and at login, whatever the static key and the password file *)
Theorem C14_evaluation_at_registration :
  forall E Sc Pk Sk (CS : Suite E Sc Pk Sk) S (setup : ServerSetup Pk Sk S) m cred r,
    server_registration_start CS setup m cred = Ok r ->
    server_evaluate CS (ss_oprf_seed setup) cred (rq_blinded m) = Ok (rr_eval r) /\
    rr_server_s_pk r = kp_pk (ss_keypair setup).
Proof. exact @registration_start_evaluation. Qed.
Print Assumptions C14_evaluation_at_registration.

Theorem C14_evaluation_at_login :
  forall E Sc Pk Sk (CS : Suite E Sc Pk Sk) S (SK : SkOps Pk S) tape (setup : ServerSetup Pk Sk S) file rq cred ctx ids st resp rest dbg,
    server_login_start CS SK tape setup file rq cred ctx ids = Ok (st, resp, rest, dbg) ->
    server_evaluate CS (ss_oprf_seed setup) cred (cq_blinded rq) = Ok (cr_eval resp).
Proof. exact @login_start_evaluation. Qed.
Print Assumptions C14_evaluation_at_login.

(* the per-credential key is derived from an injective encoding of the credential identifier *)
Theorem C14_credential_identifier_injective :
  forall cred cred', cred ++ Generated.STR_OPRF_KEY = cred' ++ Generated.STR_OPRF_KEY -> cred = cred'.
Proof. exact oprf_key_info_injective. Qed.
Print Assumptions C14_credential_identifier_injective.


(* keyed per credential: two different credential identifiers under one seed get the same OPRF key only if
   HKDF-Expand collides on the two infos or the OPRF's DeriveKeyPair collides on two seeds (witnesses exhibited) *)
From OKE Require Import Bad KeySeparation.
Theorem C14_credential_identifiers_separate_keys :
  forall E Sc Pk Sk (CS : Suite E Sc Pk Sk), GroupLaws CS ->
  forall seed cred cred' k,
    oprf_key CS seed cred = Ok k -> oprf_key CS seed cred' = Ok k -> cred <> cred' ->
    BadS CS \/ BadOprfDerive CS.
Proof. exact @credential_identifiers_separate_keys. Qed.
Print Assumptions C14_credential_identifiers_separate_keys.

(* ... and end to end: a record registered under one credential identifier does not open when the server evaluates the
   login under another one (same setup, same password), unless a collision is exhibited.  [action_free]: the scalar
   action of the OPRF group is free on valid elements and scalars (proved for the toy suite). *)
From OKE Require Import WrongCredential.
Theorem C14_record_only_opens_under_its_credential_identifier :
  forall E Sc Pk Sk (CS : Suite E Sc Pk Sk), HashLaws (hash CS) -> GroupLaws CS ->
  (forall a b : Sk, {a = b} + {a <> b}) ->
  (forall P a b, ve CS P -> vs CS a -> vs CS b -> o_mul (oprf CS) P a = o_mul (oprf CS) P b -> a = b) ->
  forall tape setup t1 pw creg rq t2 cred rr ids ksf upload ek spk t3 cred' clog ke1 t4 ctx slog ke2 t5 dbg out,
    ve CS (o_h2g (oprf CS) pw (dst_hash_to_group (oprf CS))) ->
    server_setup_new CS tape = Ok (setup, t1) ->
    client_registration_start CS t1 pw = Ok (creg, rq, t2) ->
    server_registration_start CS setup rq cred = Ok rr ->
    client_registration_finish CS creg t2 pw rr ids ksf = Ok (upload, ek, spk, t3) ->
    cred' <> cred ->
    client_login_start CS t3 pw = Ok (clog, ke1, t4) ->
    server_login_start CS (private_key_ops (ke CS)) t4 setup (Some (server_registration_finish upload)) ke1 cred' ctx ids
      = Ok (slog, ke2, t5, dbg) ->
    client_login_finish CS clog pw ke2 ctx ids ksf = Ok out ->
    BadS CS \/ BadOprfDerive CS.
Proof. exact @other_credential_identifier_never_accepted. Qed.
Print Assumptions C14_record_only_opens_under_its_credential_identifier.


(* ---------------------------------------------------------------- at the 20 concrete suites
   The theorems above that assume GroupLaws, restated for each of the 20 suites with CurveLaws as the only hypothesis
   (HashLaws, CodecLaws, SizeLaws and the encoding half of GroupLaws are proved for them: Theory/GroupSplit.v). *)
From OKE Require Import CodecsConcrete GroupSplit Concrete20.

Definition C14_blind_independent_statement {E Sc Pk Sk} (CS : Suite E Sc Pk Sk) : Prop :=
  forall pw r k ksf rp,
    ve CS (o_h2g (oprf CS) pw (dst_hash_to_group (oprf CS))) -> vs CS r -> vs CS k ->
    get_password_derived_key CS pw r
      (o_mul (oprf CS) (o_mul (oprf CS) (o_h2g (oprf CS) pw (dst_hash_to_group (oprf CS))) r) k) ksf = Ok rp ->
    forall r', vs CS r' ->
      get_password_derived_key CS pw r'
        (o_mul (oprf CS) (o_mul (oprf CS) (o_h2g (oprf CS) pw (dst_hash_to_group (oprf CS))) r') k) ksf = Ok rp.
Theorem C14_blind_independent_at_each_of_the_20_suites : all_suites (fun _ _ _ _ CS => CurveLaws CS -> C14_blind_independent_statement CS).
Proof. apply at_the_20_suites_g. exact C14_blind_independent. Qed.
Print Assumptions C14_blind_independent_at_each_of_the_20_suites.

Definition C14_reregistration_same_masking_key_statement {E Sc Pk Sk} (CS : Suite E Sc Pk Sk) : Prop :=
  forall (setup : ServerSetup Pk Sk Sk) pw cred ids ksf ta ta' tb tb' creg rq r1 rr up ek spk r2 creg' rq' r1' rr' up' ek' spk' r2',
    ve CS (o_h2g (oprf CS) pw (dst_hash_to_group (oprf CS))) ->
    client_registration_start CS ta pw = Ok (creg, rq, r1) ->
    server_registration_start CS setup rq cred = Ok rr ->
    client_registration_finish CS creg tb pw rr ids ksf = Ok (up, ek, spk, r2) ->
    client_registration_start CS ta' pw = Ok (creg', rq', r1') ->
    server_registration_start CS setup rq' cred = Ok rr' ->
    client_registration_finish CS creg' tb' pw rr' ids ksf = Ok (up', ek', spk', r2') ->
    ru_masking_key up = ru_masking_key up'.
Theorem C14_reregistration_same_masking_key_at_each_of_the_20_suites : all_suites (fun _ _ _ _ CS => CurveLaws CS -> C14_reregistration_same_masking_key_statement CS).
Proof. apply at_the_20_suites_g. exact C14_reregistration_same_masking_key. Qed.
Print Assumptions C14_reregistration_same_masking_key_at_each_of_the_20_suites.

Definition C14_credential_identifiers_separate_keys_statement {E Sc Pk Sk} (CS : Suite E Sc Pk Sk) : Prop :=
  forall seed cred cred' k,
    oprf_key CS seed cred = Ok k -> oprf_key CS seed cred' = Ok k -> cred <> cred' ->
    BadS CS \/ BadOprfDerive CS.
Theorem C14_credential_identifiers_separate_keys_at_each_of_the_20_suites : all_suites (fun _ _ _ _ CS => CurveLaws CS -> C14_credential_identifiers_separate_keys_statement CS).
Proof. apply at_the_20_suites_g. exact C14_credential_identifiers_separate_keys. Qed.
Print Assumptions C14_credential_identifiers_separate_keys_at_each_of_the_20_suites.

Definition C14_record_only_opens_under_its_credential_identifier_statement {E Sc Pk Sk} (CS : Suite E Sc Pk Sk) : Prop :=
  (forall a b : Sk, {a = b} + {a <> b}) ->
  (forall P a b, ve CS P -> vs CS a -> vs CS b -> o_mul (oprf CS) P a = o_mul (oprf CS) P b -> a = b) ->
  forall tape setup t1 pw creg rq t2 cred rr ids ksf upload ek spk t3 cred' clog ke1 t4 ctx slog ke2 t5 dbg out,
    ve CS (o_h2g (oprf CS) pw (dst_hash_to_group (oprf CS))) ->
    server_setup_new CS tape = Ok (setup, t1) ->
    client_registration_start CS t1 pw = Ok (creg, rq, t2) ->
    server_registration_start CS setup rq cred = Ok rr ->
    client_registration_finish CS creg t2 pw rr ids ksf = Ok (upload, ek, spk, t3) ->
    cred' <> cred ->
    client_login_start CS t3 pw = Ok (clog, ke1, t4) ->
    server_login_start CS (private_key_ops (ke CS)) t4 setup (Some (server_registration_finish upload)) ke1 cred' ctx ids
      = Ok (slog, ke2, t5, dbg) ->
    client_login_finish CS clog pw ke2 ctx ids ksf = Ok out ->
    BadS CS \/ BadOprfDerive CS.
Theorem C14_record_only_opens_under_its_credential_identifier_at_each_of_the_20_suites : all_suites (fun _ _ _ _ CS => CurveLaws CS -> C14_record_only_opens_under_its_credential_identifier_statement CS).
Proof. apply at_the_20_suites. exact C14_record_only_opens_under_its_credential_identifier. Qed.
Print Assumptions C14_record_only_opens_under_its_credential_identifier_at_each_of_the_20_suites.
