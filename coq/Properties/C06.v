(* C06 - the password file is bound to the server's static key.  Statements only; proofs in
   Theory/Honest.v, Theory/Binding.v, Theory/Substituted.v. *)
From Coq Require Import List.
From OKE Require Import Bytes Suite Voprf Messages Envelope TripleDH Opaque Laws Transcript Bad Binding Honest Substituted.

(* the server public key reported at registration and at a successful login is the public key of the setup *)
Theorem C06_reported_key :
  forall E Sc Pk Sk (CS : Suite E Sc Pk Sk), HashLaws (hash CS) -> GroupLaws CS ->
  forall tape setup t1 pw creg rq t2 cred rr ids ksf upload ek spk t3 clog ke1 t4 ctx slog ke2 t5 dbg,
    ve CS (o_h2g (oprf CS) pw (dst_hash_to_group (oprf CS))) ->
    server_setup_new CS tape = Ok (setup, t1) ->
    client_registration_start CS t1 pw = Ok (creg, rq, t2) ->
    server_registration_start CS setup rq cred = Ok rr ->
    client_registration_finish CS creg t2 pw rr ids ksf = Ok (upload, ek, spk, t3) ->
    client_login_start CS t3 pw = Ok (clog, ke1, t4) ->
    server_login_start CS (private_key_ops (ke CS)) t4 setup (Some (server_registration_finish upload)) ke1 cred ctx ids
      = Ok (slog, ke2, t5, dbg) ->
    o_eqb (oprf CS) (cq_blinded ke1) (cr_eval ke2) = false ->
    exists ke3 sk dbg',
      client_login_finish CS clog pw ke2 ctx ids ksf = Ok (ke3, sk, ek, spk, dbg') /\
      server_login_finish CS slog ke3 = Ok sk /\
      spk = kp_pk (ss_keypair setup) /\ kp_pk (ss_keypair setup) = k_pub (ke CS) (kp_sk (ss_keypair setup)).
Proof. exact @honest_login_agrees. Qed.
Print Assumptions C06_reported_key.

(* the envelope tag binds the server public key and the sealed identities: opening under anything else
   succeeds only with an exhibited HMAC collision (same key, different messages) *)
Theorem C06_envelope_binds :
  forall E Sc Pk Sk (CS : Suite E Sc Pk Sk) tape rp spk ids env cpk ek rest spk' ids' r,
    envelope_seal CS tape rp spk ids = Ok (env, cpk, ek, rest) ->
    envelope_open CS env rp spk' ids' = Ok r ->
    length (k_ser_pk (ke CS) spk) = length (k_ser_pk (ke CS) spk') ->
    (k_ser_pk (ke CS) spk' = k_ser_pk (ke CS) spk /\
     effective (id_client ids') (k_ser_pk (ke CS) cpk) = effective (id_client ids) (k_ser_pk (ke CS) cpk) /\
     effective (id_server ids') (k_ser_pk (ke CS) spk') = effective (id_server ids) (k_ser_pk (ke CS) spk))
    \/ Bad (hash CS).
Proof. exact @envelope_binds. Qed.
Print Assumptions C06_envelope_binds.

(* a stolen file served under another static key pair by a holder of the genuine OPRF seed:
   the client's final step fails with InvalidLogin (or an HMAC collision is exhibited) *)
Theorem C06_substituted_key :
  forall E Sc Pk Sk (CS : Suite E Sc Pk Sk), HashLaws (hash CS) -> GroupLaws CS ->
  forall tape setup t1 pw creg rq t2 cred rr ids ksf upload ek spk t3 clog ke1 t4 ctx slog ke2 t5 dbg setup',
    ve CS (o_h2g (oprf CS) pw (dst_hash_to_group (oprf CS))) ->
    server_setup_new CS tape = Ok (setup, t1) ->
    client_registration_start CS t1 pw = Ok (creg, rq, t2) ->
    server_registration_start CS setup rq cred = Ok rr ->
    client_registration_finish CS creg t2 pw rr ids ksf = Ok (upload, ek, spk, t3) ->
    client_login_start CS t3 pw = Ok (clog, ke1, t4) ->
    ss_oprf_seed setup' = ss_oprf_seed setup ->
    vk CS (kp_sk (ss_keypair setup')) ->
    k_ser_pk (ke CS) (k_pub (ke CS) (kp_sk (ss_keypair setup'))) <> k_ser_pk (ke CS) (kp_pk (ss_keypair setup)) ->
    server_login_start CS (private_key_ops (ke CS)) t4 setup' (Some (server_registration_finish upload)) ke1 cred ctx ids
      = Ok (slog, ke2, t5, dbg) ->
    o_eqb (oprf CS) (cq_blinded ke1) (cr_eval ke2) = false ->
    client_login_finish CS clog pw ke2 ctx ids ksf = Err EInvalidLogin \/ Bad (hash CS).
Proof. exact @substituted_key_rejected. Qed.
Print Assumptions C06_substituted_key.


(* the same statement at each of the 20 concrete suites: HashLaws, CodecLaws, SizeLaws and the encoding half of
   GroupLaws are proved for them (Theory/GroupSplit.v), so the only hypothesis left is CurveLaws - seven facts of
   elliptic-curve arithmetic (the group is a group; decompression inverts compression) *)
From OKE Require Import CodecsConcrete GroupSplit Concrete20.
Definition C06_substituted_key_statement {E Sc Pk Sk} (CS : Suite E Sc Pk Sk) : Prop :=
  forall tape setup t1 pw creg rq t2 cred rr ids ksf upload ek spk t3 clog ke1 t4 ctx slog ke2 t5 dbg setup',
    ve CS (o_h2g (oprf CS) pw (dst_hash_to_group (oprf CS))) ->
    server_setup_new CS tape = Ok (setup, t1) ->
    client_registration_start CS t1 pw = Ok (creg, rq, t2) ->
    server_registration_start CS setup rq cred = Ok rr ->
    client_registration_finish CS creg t2 pw rr ids ksf = Ok (upload, ek, spk, t3) ->
    client_login_start CS t3 pw = Ok (clog, ke1, t4) ->
    ss_oprf_seed setup' = ss_oprf_seed setup ->
    vk CS (kp_sk (ss_keypair setup')) ->
    k_ser_pk (ke CS) (k_pub (ke CS) (kp_sk (ss_keypair setup'))) <> k_ser_pk (ke CS) (kp_pk (ss_keypair setup)) ->
    server_login_start CS (private_key_ops (ke CS)) t4 setup' (Some (server_registration_finish upload)) ke1 cred ctx ids
      = Ok (slog, ke2, t5, dbg) ->
    o_eqb (oprf CS) (cq_blinded ke1) (cr_eval ke2) = false ->
    client_login_finish CS clog pw ke2 ctx ids ksf = Err EInvalidLogin \/ Bad (hash CS).
Theorem C06_substituted_key_at_each_of_the_20_suites :
  all_suites (fun _ _ _ _ CS => CurveLaws CS -> C06_substituted_key_statement CS).
Proof. apply at_the_20_suites. exact C06_substituted_key. Qed.
Print Assumptions C06_substituted_key_at_each_of_the_20_suites.


(* further theorems above, restated at the 20 suites *)

Definition C06_reported_key_statement {E Sc Pk Sk} (CS : Suite E Sc Pk Sk) : Prop :=
  forall tape setup t1 pw creg rq t2 cred rr ids ksf upload ek spk t3 clog ke1 t4 ctx slog ke2 t5 dbg,
    ve CS (o_h2g (oprf CS) pw (dst_hash_to_group (oprf CS))) ->
    server_setup_new CS tape = Ok (setup, t1) ->
    client_registration_start CS t1 pw = Ok (creg, rq, t2) ->
    server_registration_start CS setup rq cred = Ok rr ->
    client_registration_finish CS creg t2 pw rr ids ksf = Ok (upload, ek, spk, t3) ->
    client_login_start CS t3 pw = Ok (clog, ke1, t4) ->
    server_login_start CS (private_key_ops (ke CS)) t4 setup (Some (server_registration_finish upload)) ke1 cred ctx ids
      = Ok (slog, ke2, t5, dbg) ->
    o_eqb (oprf CS) (cq_blinded ke1) (cr_eval ke2) = false ->
    exists ke3 sk dbg',
      client_login_finish CS clog pw ke2 ctx ids ksf = Ok (ke3, sk, ek, spk, dbg') /\
      server_login_finish CS slog ke3 = Ok sk /\
      spk = kp_pk (ss_keypair setup) /\ kp_pk (ss_keypair setup) = k_pub (ke CS) (kp_sk (ss_keypair setup)).
Theorem C06_reported_key_at_each_of_the_20_suites : all_suites (fun _ _ _ _ CS => CurveLaws CS -> C06_reported_key_statement CS).
Proof. apply at_the_20_suites. exact C06_reported_key. Qed.
Print Assumptions C06_reported_key_at_each_of_the_20_suites.
