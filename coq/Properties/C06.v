(* placeholder until the codec theorems land *)
From Coq Require Import List.
From OKE Require Import BytesLemmas.
Theorem C06_placeholder : forall l x y px py r1 r2,
  Bytes.lenprefix l x = Some px -> Bytes.lenprefix l y = Some py -> px ++ r1 = py ++ r2 -> x = y /\ r1 = r2.
Proof. exact lenprefix_inj. Qed.
Print Assumptions C06_placeholder.
