(* The OPRF scalar samplers of the 20 suites (and of the toy suite) consume a prefix of the tape:
   the hypothesis [sampler_prefix] of Theory/FreshRanges.v, proved. *)
From Coq Require Import String.
From Coq Require Import List Arith Lia Bool ZArith NArith.
From Coq Require Import Init.Byte.
From OKE Require Import Bytes Suite Generated Sha2 Field Weierstrass Curve25519 Suites World.
From OKE Require Import ListLemmas BytesLemmas Laws CodecsConcrete BlindLayout FreshRanges Toy.
Import ListNotations.

Lemma sp_ristretto h t r t' : o_random_scalar (oprf_ristretto h) t = Some (r, t') -> suffix t' t.
Proof.
  unfold oprf_ristretto; cbn [o_random_scalar]. intros H.
  destruct (r_blind_layout _ _ _ H) as (rej & acc & -> & _). exists (concat rej ++ acc). now rewrite <- app_assoc.
Qed.

Lemma sp_weierstrass C h id t r t' : o_random_scalar (oprf_weierstrass C h id) t = Some (r, t') -> suffix t' t.
Proof.
  unfold oprf_weierstrass; cbn [o_random_scalar]. intros H.
  destruct (w_blind_layout C _ _ _ H) as (rej & acc & -> & _). exists (concat rej ++ acc). now rewrite <- app_assoc.
Qed.

Lemma sp_mk {E Sc Pk Sk} h (O : OprfOps E Sc) (K : KeOps Pk Sk) :
  (forall t r t', o_random_scalar O t = Some (r, t') -> suffix t' t) -> sampler_prefix (mk_suite h O K).
Proof. intros H t r t' Hr. exact (H t r t' Hr). Qed.

Lemma SP_R255 : forall t r t', o_random_scalar O_R255 t = Some (r, t') -> suffix t' t.
Proof. exact (sp_ristretto SHA512). Qed.
Lemma SP_P256 : forall t r t', o_random_scalar O_P256 t = Some (r, t') -> suffix t' t.
Proof. exact (sp_weierstrass P256 SHA256 "P256-SHA256"). Qed.
Lemma SP_P384 : forall t r t', o_random_scalar O_P384 t = Some (r, t') -> suffix t' t.
Proof. exact (sp_weierstrass P384 SHA384 "P384-SHA384"). Qed.
Lemma SP_P521 : forall t r t', o_random_scalar O_P521 t = Some (r, t') -> suffix t' t.
Proof. exact (sp_weierstrass P521 SHA512 "P521-SHA512"). Qed.

Theorem sampler_prefix_20 : all_suites (fun _ _ _ _ CS => sampler_prefix CS).
Proof.
  unfold all_suites.
  repeat match goal with |- _ /\ _ => split end.
  - exact (sp_mk SHA512 O_R255 K_R255 SP_R255).
  - exact (sp_mk SHA512 O_R255 K_P256 SP_R255).
  - exact (sp_mk SHA512 O_R255 K_P384 SP_R255).
  - exact (sp_mk SHA512 O_R255 K_P521 SP_R255).
  - exact (sp_mk SHA512 O_R255 K_X25519 SP_R255).
  - exact (sp_mk SHA256 O_P256 K_R255 SP_P256).
  - exact (sp_mk SHA256 O_P256 K_P256 SP_P256).
  - exact (sp_mk SHA256 O_P256 K_P384 SP_P256).
  - exact (sp_mk SHA256 O_P256 K_P521 SP_P256).
  - exact (sp_mk SHA256 O_P256 K_X25519 SP_P256).
  - exact (sp_mk SHA384 O_P384 K_R255 SP_P384).
  - exact (sp_mk SHA384 O_P384 K_P256 SP_P384).
  - exact (sp_mk SHA384 O_P384 K_P384 SP_P384).
  - exact (sp_mk SHA384 O_P384 K_P521 SP_P384).
  - exact (sp_mk SHA384 O_P384 K_X25519 SP_P384).
  - exact (sp_mk SHA512 O_P521 K_R255 SP_P521).
  - exact (sp_mk SHA512 O_P521 K_P256 SP_P521).
  - exact (sp_mk SHA512 O_P521 K_P384 SP_P521).
  - exact (sp_mk SHA512 O_P521 K_P521 SP_P521).
  - exact (sp_mk SHA512 O_P521 K_X25519 SP_P521).
Qed.

Theorem sampler_prefix_toy : sampler_prefix TOY.
Proof.
  intros t r t' H. cbn in H. destruct t as [|x t]; [discriminate|]. injection H as _ <-. now exists [x].
Qed.
