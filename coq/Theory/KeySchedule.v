(* The 3DH key schedule as explicit HMACs, and its injectivity up to exhibited HMAC collisions:
   equal server MACs come from equal Diffie-Hellman inputs and equal transcript hashes, or a
   collision (same key length, different (key, message)) is exhibited at one of four HMAC calls. *)
From Coq Require Import List Arith Lia Bool NArith.
From Coq Require Import Init.Byte.
From OKE Require Import Bytes Suite Generated Hkdf Voprf Messages Envelope TripleDH Opaque.
From OKE Require Import ListLemmas BytesLemmas ResultLemmas Laws Layers Bad.
Import ListNotations.
Local Open Scope res_scope.

Arguments firstn : simpl never.
Arguments skipn : simpl never.

Section KS.
  Variable h : HashOps.
  Hypothesis HL : HashLaws h.

  Lemma ceil_div_self n : 0 < n -> ceil_div n n = 1.
  Proof.
    intros H. unfold ceil_div. replace (n + n - 1) with (1 * n + (n - 1)) by lia.
    rewrite Nat.div_add_l by lia. rewrite Nat.div_small by lia. lia.
  Qed.

  (* one HMAC block: Expand(prk, info, Nh) = HMAC(prk, info || 0x01) *)
  Lemma hkdf_expand_one_block prk info :
    hkdf_expand h prk info (h_len h) = Some (h_hmac h prk (info ++ [x01])).
  Proof.
    pose proof (h_len_pos h HL) as Hp. unfold hkdf_expand.
    destruct (Nat.ltb_spec (255 * h_len h) (h_len h)); [lia|].
    rewrite ceil_div_self by assumption. cbn [expand_blocks]. rewrite app_nil_r.
    cbn [app]. f_equal. apply firstn_all'. rewrite (hmac_len h HL). lia.
  Qed.

  (* byte_of_nat 1 = 0x01 *)
  Lemma byte_of_nat_1 : byte_of_nat 1 = x01.
  Proof. reflexivity. Qed.

  Lemma mac_inj k m k' m' : length k = length k' -> h_hmac h k m = h_hmac h k' m' -> (k = k' /\ m = m') \/ Bad h.
  Proof.
    intros Hl He.
    destruct (list_eq_dec Byte.byte_eq_dec k k') as [->|Hk].
    - destruct (list_eq_dec Byte.byte_eq_dec m m') as [->|Hm]; [left; auto|].
      right. eapply (BadMac h k' m k' m'); auto. intros [= H]. auto.
    - right. eapply (BadMac h k m k' m'); auto. intros [= H _]. auto.
  Qed.
End KS.

Section KS2.
  Context {E Sc Pk Sk : Type}.
  Variable CS : Suite E Sc Pk Sk.
  Hypothesis HL : HashLaws (hash CS).
  Let h := hash CS.

  Definition label_info (label context : bytes) : option bytes :=
    match i2osp_nat 2 (h_len (hash CS)), lenprefix 1 (STR_OPAQUE ++ label), lenprefix 1 context with
    | Some a, Some b, Some c => Some (a ++ b ++ c)
    | _, _, _ => None
    end.

  Lemma hkdf_expand_label_value secret label context out :
    hkdf_expand_label CS secret label context = Ok out ->
    exists info, label_info label context = Some info /\ out = h_hmac (hash CS) secret (info ++ [x01]).
  Proof.
    unfold hkdf_expand_label, label_info. intros H.
    apply bind_Ok in H as (a & Ha & H). apply bind_Ok in H as (b & Hb & H). apply bind_Ok in H as (c & Hc & H).
    apply of_option_Ok in Ha, Hb, Hc, H. rewrite Ha, Hb, Hc.
    rewrite (hkdf_expand_one_block _ HL) in H. injection H as <-. eauto.
  Qed.

  (* the server MAC determines the key-schedule inputs, up to exhibited collisions *)
  Theorem server_mac_determines_inputs a b c th sk km2 km3 hs a' b' c' th' sk' km2' km3' hs' :
    derive_3dh_keys CS a b c th = Ok (sk, km2, km3, hs) ->
    derive_3dh_keys CS a' b' c' th' = Ok (sk', km2', km3', hs') ->
    h_hmac (hash CS) km2 th = h_hmac (hash CS) km2' th' ->
    (a ++ b ++ c = a' ++ b' ++ c' /\ th = th' /\ sk = sk' /\ km3 = km3') \/ Bad (hash CS).
  Proof.
    unfold derive_3dh_keys. intros H H' Hmac.
    apply bind_Ok in H as (hs0 & Hhs & H). apply bind_Ok in H as (sk0 & Hsk & H).
    apply bind_Ok in H as (k2 & Hk2 & H). apply bind_Ok in H as (k3 & Hk3 & H). injection H as <- <- <- <-.
    apply bind_Ok in H' as (hs0' & Hhs' & H'). apply bind_Ok in H' as (sk0' & Hsk' & H').
    apply bind_Ok in H' as (k2' & Hk2' & H'). apply bind_Ok in H' as (k3' & Hk3' & H'). injection H' as <- <- <- <-.
    unfold hkdf_expand_label_from_prk in *.
    destruct (length hs0 <? h_len (hash CS)); [discriminate|]. destruct (length hs0' <? h_len (hash CS)); [discriminate|].
    apply hkdf_expand_label_value in Hhs as (i1 & Hi1 & ->). apply hkdf_expand_label_value in Hhs' as (i1' & Hi1' & ->).
    apply hkdf_expand_label_value in Hk2 as (i2 & Hi2 & ->). apply hkdf_expand_label_value in Hk2' as (i2' & Hi2' & ->).
    rewrite Hi2 in Hi2'. injection Hi2' as <-.
    (* 1: the MAC itself *)
    apply (mac_inj (hash CS)) in Hmac; [|now rewrite !(hmac_len _ HL)].
    destruct Hmac as [[Hkm Hth]|HB]; [|now right]. subst th'.
    rewrite Hi1 in Hi1'. injection Hi1' as <-.
    (* 2: km2 = HMAC(handshake secret, ..) *)
    apply (mac_inj (hash CS)) in Hkm; [|now rewrite !(hmac_len _ HL)].
    destruct Hkm as [[Hhs _]|HB]; [|now right].
    (* 3: handshake secret = HMAC(prk, ..) *)
    apply (mac_inj (hash CS)) in Hhs; [|unfold hkdf_extract; now rewrite !(hmac_len _ HL)].
    destruct Hhs as [[Hprk _]|HB]; [|now right].
    (* 4: prk = HMAC(0, dh1 || dh2 || dh3) *)
    unfold hkdf_extract in Hprk. apply (mac_inj (hash CS)) in Hprk; [|reflexivity].
    destruct Hprk as [[_ Hdh]|HB]; [|now right].
    left. split; [exact Hdh|]. split; [reflexivity|].
    (* equal prk and transcript hash give equal session key and client MAC key *)
    unfold hkdf_extract in *. rewrite <- Hdh in *.
    rewrite Hsk in Hsk'. injection Hsk' as <-. rewrite Hk3 in Hk3'. injection Hk3' as <-. auto.
  Qed.
End KS2.
