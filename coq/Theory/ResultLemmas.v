(* Inversion lemmas for the result monad of the model. *)
From Coq Require Import List Arith Lia Bool.
From OKE Require Import Bytes Suite.
Import ListNotations.

Lemma bind_Ok {A B} (r : result A) (f : A -> result B) b :
  bind r f = Ok b -> exists a, r = Ok a /\ f a = Ok b.
Proof. destruct r as [a|e]; cbn; [eauto | discriminate]. Qed.

Lemma bind_Err {A B} (r : result A) (f : A -> result B) e :
  bind r f = Err e -> r = Err e \/ exists a, r = Ok a /\ f a = Err e.
Proof. destruct r as [a|e']; cbn; [eauto | intros [= ->]; auto]. Qed.

Lemma of_option_Ok {A} (o : option A) e a : of_option o e = Ok a -> o = Some a.
Proof. destruct o; cbn; congruence. Qed.

Lemma of_option_Err {A} (o : option A) e e' : of_option o e = Err e' -> o = None /\ e' = e.
Proof. destruct o; cbn; [discriminate | intros [= <-]; auto]. Qed.

Lemma map_err_Ok {A} (r : result A) f a : map_err r f = Ok a -> r = Ok a.
Proof. destruct r; cbn; congruence. Qed.

(* break [bind .. = Ok _] hypotheses apart *)
Ltac inv_res :=
  repeat match goal with
  | H : bind _ _ = Ok _ |- _ => let a := fresh "v" in let H1 := fresh "Hb" in
        apply bind_Ok in H; destruct H as (a & H1 & H)
  | H : of_option _ _ = Ok _ |- _ => apply of_option_Ok in H
  | H : map_err _ _ = Ok _ |- _ => apply map_err_Ok in H
  | H : Ok _ = Ok _ |- _ => injection H as H
  | H : Err _ = Ok _ |- _ => discriminate H
  | H : (if ?c then Err _ else _) = Ok _ |- _ => let E := fresh "Hc" in destruct c eqn:E; [discriminate H|]
  | H : (if ?c then _ else Err _) = Ok _ |- _ => let E := fresh "Hc" in destruct c eqn:E; [|discriminate H]
  end.
