(* C11: the native decoders build group elements, scalars and keys only through the element-level
   validators of the suite: a decoded message or state contains, in every such field, a value the
   validator accepted on exactly that field's bytes (and, for the OPRF element of the two login
   messages, not the identity). *)
From Coq Require Import List Arith Lia Bool.
From OKE Require Import Bytes Suite Generated Voprf Messages ListLemmas BytesLemmas ResultLemmas Codecs.
Import ListNotations.
Local Open Scope res_scope.

Arguments firstn : simpl never.
Arguments skipn : simpl never.

Section FV.
  Context {E Sc Pk Sk : Type}.
  Variable CS : Suite E Sc Pk Sk.

  Lemma deserialize_element_validated b e :
    deserialize_element CS b = Ok e -> o_deser_e (oprf CS) (firstn (o_Noe (oprf CS)) b) = Some e.
  Proof.
    unfold deserialize_element, voprf_deser_elem. intros H. apply bind_Ok in H as (e0 & He & H).
    destruct (length b <? o_Noe (oprf CS)); [discriminate|]. apply of_option_Ok in He.
    destruct (bytes_eqb _ _); [|discriminate]. now injection H as <-.
  Qed.

  Lemma scalar_validated b s :
    voprf_deser_scalar (oprf CS) b = Ok s -> o_deser_s (oprf CS) (firstn (o_Nok (oprf CS)) b) = Some s.
  Proof.
    unfold voprf_deser_scalar. destruct (length b <? o_Nok (oprf CS)); [discriminate|]. apply of_option_Ok.
  Qed.

  Theorem registration_request_fields_valid b m :
    registration_request_deserialize CS b = Ok m ->
    o_deser_e (oprf CS) (firstn (o_Noe (oprf CS)) b) = Some (rq_blinded m).
  Proof.
    unfold registration_request_deserialize. intros H. apply bind_Ok in H as (e & He & H). injection H as <-.
    now apply deserialize_element_validated.
  Qed.

  Theorem registration_response_fields_valid b m :
    registration_response_deserialize CS b = Ok m ->
    o_deser_e (oprf CS) (firstn (o_Noe (oprf CS)) b) = Some (rr_eval m) /\
    k_deser_pk (ke CS) (skipn (o_Noe (oprf CS)) b) = Some (rr_server_s_pk m).
  Proof.
    unfold registration_response_deserialize, pk_deserialize. intros H.
    apply bind_Ok in H as (c & Hc & H). apply check_slice_size_Ok in Hc as [-> _].
    apply bind_Ok in H as (pk & Hpk & H). apply bind_Ok in H as (e & He & H). injection H as <-. cbn.
    apply of_option_Ok in Hpk. apply deserialize_element_validated in He.
    rewrite firstn_firstn, Nat.min_id in He. auto.
  Qed.

  Theorem registration_upload_fields_valid b m :
    registration_upload_deserialize CS b = Ok m ->
    k_deser_pk (ke CS) (firstn (k_Npk (ke CS)) b) = Some (ru_client_s_pk m).
  Proof.
    unfold registration_upload_deserialize, pk_deserialize. intros H.
    apply bind_Ok in H as (c & Hc & H). apply check_slice_size_atleast_Ok in Hc as [-> _].
    apply bind_Ok in H as (env & _ & H). apply bind_Ok in H as (pk & Hpk & H). injection H as <-. cbn.
    now apply of_option_Ok in Hpk.
  Qed.

  Theorem credential_request_fields_valid b m :
    credential_request_deserialize CS b = Ok m ->
    o_deser_e (oprf CS) (firstn (o_Noe (oprf CS)) b) = Some (cq_blinded m) /\
    o_eqb (oprf CS) (o_identity (oprf CS)) (cq_blinded m) = false /\
    k_deser_pk (ke CS) (skipn KE_NONCE_LEN (skipn (o_Noe (oprf CS)) b)) = Some (k1_client_e_pk (cq_ke1 m)).
  Proof.
    unfold credential_request_deserialize, ke1_message_deserialize, pk_deserialize. intros H.
    apply bind_Ok in H as (c & Hc & H). apply check_slice_size_atleast_Ok in Hc as [-> _].
    apply bind_Ok in H as (e & He & H).
    destruct (o_eqb (oprf CS) (o_identity (oprf CS)) e) eqn:Hid; [discriminate|].
    apply bind_Ok in H as (k1 & Hk1 & H). injection H as <-. cbn.
    apply bind_Ok in Hk1 as (c1 & Hc1 & Hk1). apply check_slice_size_Ok in Hc1 as [-> _].
    apply bind_Ok in Hk1 as (pk & Hpk & Hk1). injection Hk1 as <-. cbn. apply of_option_Ok in Hpk.
    apply deserialize_element_validated in He. rewrite firstn_firstn, Nat.min_id in He. auto.
  Qed.

  Theorem credential_response_fields_valid b m :
    credential_response_deserialize CS b = Ok m ->
    o_deser_e (oprf CS) (firstn (o_Noe (oprf CS)) b) = Some (cr_eval m) /\
    o_eqb (oprf CS) (o_identity (oprf CS)) (cr_eval m) = false /\
    exists pkb, k_deser_pk (ke CS) pkb = Some (k2_server_e_pk (cr_ke2 m)) /\
                pkb = firstn (k_Npk (ke CS)) (skipn KE_NONCE_LEN
                        (skipn (o_Noe (oprf CS) + KE_NONCE_LEN + (k_Npk (ke CS) + envelope_len CS)) b)).
  Proof.
    unfold credential_response_deserialize, ke2_message_deserialize, pk_deserialize. intros H.
    apply bind_Ok in H as (c & Hc & H). apply check_slice_size_atleast_Ok in Hc as [-> _].
    apply bind_Ok in H as (e & He & H).
    destruct (o_eqb (oprf CS) (o_identity (oprf CS)) e) eqn:Hid; [discriminate|].
    apply bind_Ok in H as (k2 & Hk2 & H). injection H as <-. cbn.
    apply bind_Ok in Hk2 as (c1 & Hc1 & Hk2). apply check_slice_size_atleast_Ok in Hc1 as [-> _].
    apply bind_Ok in Hk2 as (c2 & Hc2 & Hk2). apply check_slice_size_atleast_Ok in Hc2 as [-> _].
    apply bind_Ok in Hk2 as (mac & _ & Hk2). apply bind_Ok in Hk2 as (pk & Hpk & Hk2). injection Hk2 as <-. cbn.
    apply of_option_Ok in Hpk. apply deserialize_element_validated in He.
    rewrite firstn_firstn, Nat.min_id in He. split; [exact He|]. split; [exact Hid|]. eauto.
  Qed.

  Theorem server_setup_fields_valid b s :
    server_setup_deserialize CS (private_key_ops (ke CS)) b = Ok s ->
    k_deser_sk (ke CS) (slice b (h_len (hash CS)) (k_Nsk (ke CS))) = Some (kp_sk (ss_keypair s)) /\
    k_deser_sk (ke CS) (skipn (h_len (hash CS) + k_Nsk (ke CS)) b) = Some (kp_sk (ss_fake_keypair s)) /\
    kp_pk (ss_keypair s) = k_pub (ke CS) (kp_sk (ss_keypair s)).
  Proof.
    unfold server_setup_deserialize, keypair_from_private_key_slice, sk_deserialize.
    cbn [private_key_ops s_deser s_pub]. intros H.
    apply bind_Ok in H as (c & Hc & H). apply check_slice_size_Ok in Hc as [-> _].
    apply bind_Ok in H as (sk & Hsk & H). apply bind_Ok in H as (pk & Hpk & H).
    apply bind_Ok in H as (fk & Hfk & H). injection H as <-. cbn.
    apply of_option_Ok in Hsk. injection Hpk as <-.
    apply bind_Ok in Hfk as (fsk & Hfsk & Hfk). injection Hfk as <-. cbn. apply of_option_Ok in Hfsk. auto.
  Qed.

  Theorem client_login_fields_valid b s :
    client_login_deserialize CS b = Ok s ->
    o_deser_s (oprf CS) (firstn (o_Nok (oprf CS)) b) = Some (cl_blind s) /\
    (exists kb, k_deser_sk (ke CS) kb = Some (k1s_client_e_sk (cl_ke1_state s)) /\
                kb = firstn (k_Nsk (ke CS)) (skipn (o_Nok (oprf CS) + (o_Noe (oprf CS) + ke1_message_len CS)) b)) /\
    o_eqb (oprf CS) (o_identity (oprf CS)) (cq_blinded (cl_request s)) = false.
  Proof.
    unfold client_login_deserialize, ke1_state_deserialize, sk_deserialize. intros H.
    apply bind_Ok in H as (c & Hc & H). apply check_slice_size_Ok in Hc as [-> _].
    apply bind_Ok in H as (ks & Hks & H). apply bind_Ok in H as (r & Hr & H).
    apply bind_Ok in H as (rq & Hrq & H). injection H as <-. cbn.
    apply scalar_validated in Hr. rewrite firstn_firstn, Nat.min_id in Hr.
    apply bind_Ok in Hks as (c1 & Hc1 & Hks). apply check_slice_size_atleast_Ok in Hc1 as [-> _].
    apply bind_Ok in Hks as (sk & Hsk & Hks). injection Hks as <-. cbn. apply of_option_Ok in Hsk.
    apply credential_request_fields_valid in Hrq as (_ & Hid & _). split; [exact Hr|]. split; [eauto | exact Hid].
  Qed.
End FV.
