(* C05 / C12: the byte strings that bind identities, context, credential
   identifier and password are injective encodings of their components (pure
   list arithmetic, no hash involved), and inputs that do not fit their 2-byte
   length prefix are refused, never wrapped or truncated. *)
From Coq Require Import List Arith Lia Bool NArith.
From OKE Require Import Bytes Suite Generated Hkdf Voprf Messages Envelope TripleDH Opaque.
From OKE Require Import ListLemmas BytesLemmas ResultLemmas.
Import ListNotations.
Local Open Scope res_scope.

(* ---------------------------------------------------------------- effective identities *)
Definition effective (id : option bytes) (pk : bytes) : bytes := match id with Some x => x | None => pk end.

Section T.
  Context {E Sc Pk Sk : Type}.
  Variable CS : Suite E Sc Pk Sk.

  Lemma bytestrings_Ok ids cpk spk u s :
    bytestrings_from_identifiers ids cpk spk = Ok (u, s) ->
    lenprefix 2 (effective (id_client ids) cpk) = Some u /\ lenprefix 2 (effective (id_server ids) spk) = Some s.
  Proof. unfold bytestrings_from_identifiers, effective. intros H. inv_res. inversion H; subst. auto. Qed.

  (* an absent identity is exactly the explicit spelling of that party's public key *)
  Lemma default_identity_spelling ids cpk spk :
    bytestrings_from_identifiers ids cpk spk =
    bytestrings_from_identifiers {| id_client := Some (effective (id_client ids) cpk);
                                    id_server := Some (effective (id_server ids) spk) |} cpk spk.
  Proof. reflexivity. Qed.

  (* refusal: an effective identity that does not fit 2 bytes of length is an error *)
  Lemma bytestrings_refuses_client ids cpk spk :
    (65536 <= N.of_nat (length (effective (id_client ids) cpk)))%N ->
    bytestrings_from_identifiers ids cpk spk = Err ESerialization.
  Proof.
    intros H. unfold bytestrings_from_identifiers. fold (effective (id_client ids) cpk).
    apply lenprefix2_refuses in H. now rewrite H.
  Qed.

  Lemma bytestrings_not_Ok_server ids cpk spk r :
    (65536 <= N.of_nat (length (effective (id_server ids) spk)))%N ->
    bytestrings_from_identifiers ids cpk spk <> Ok r.
  Proof.
    intros H Heq. destruct r as [u s]. apply bytestrings_Ok in Heq as [_ Hs].
    apply lenprefix2_refuses in H. congruence.
  Qed.

  Lemma bytestrings_not_Ok_client ids cpk spk r :
    (65536 <= N.of_nat (length (effective (id_client ids) cpk)))%N ->
    bytestrings_from_identifiers ids cpk spk <> Ok r.
  Proof. intros H. rewrite (bytestrings_refuses_client _ _ _ H). discriminate. Qed.

  (* ---------------------------------------------------------------- the 3DH transcript *)
  Lemma preamble_Ok context u req s l2 n e p :
    preamble context u req s l2 n e = Ok p ->
    exists c, lenprefix 2 context = Some c /\ p = STR_CONTEXT ++ c ++ u ++ req ++ s ++ l2 ++ n ++ e.
  Proof. unfold preamble. intros H. inv_res. eauto. Qed.

  Lemma preamble_refuses_context context u req s l2 n e :
    (65536 <= N.of_nat (length context))%N -> preamble context u req s l2 n e = Err ESerialization.
  Proof. intros H. unfold preamble. apply lenprefix2_refuses in H. now rewrite H. Qed.

  (* equal transcripts have equal components: context, both identities, the request, the
     response without MAC, the server nonce and the server ephemeral key.  The fixed-length
     fields are compared under equal lengths (they have the suite's lengths on both sides). *)
  Theorem preamble_injective
          context iu req is_ l2 n e context' iu' req' is_' l2' n' e' u s u' s' p :
    lenprefix 2 iu = Some u -> lenprefix 2 is_ = Some s ->
    lenprefix 2 iu' = Some u' -> lenprefix 2 is_' = Some s' ->
    length req = length req' -> length l2 = length l2' -> length n = length n' ->
    preamble context u req s l2 n e = Ok p ->
    preamble context' u' req' s' l2' n' e' = Ok p ->
    context = context' /\ iu = iu' /\ req = req' /\ is_ = is_' /\ l2 = l2' /\ n = n' /\ e = e'.
  Proof.
    intros Hu Hs Hu' Hs' Lr Ll Ln H H'.
    apply preamble_Ok in H as (c & Hc & ->). apply preamble_Ok in H' as (c' & Hc' & H').
    apply app_inv_head in H'.
    destruct (lenprefix_inj 2 _ _ _ _ _ _ Hc Hc' H') as [-> H1].
    destruct (lenprefix_inj 2 _ _ _ _ _ _ Hu Hu' H1) as [-> H2].
    apply app_eq_len in H2 as [-> H3]; [|assumption].
    destruct (lenprefix_inj 2 _ _ _ _ _ _ Hs Hs' H3) as [-> H4].
    apply app_eq_len in H4 as [-> H5]; [|assumption].
    apply app_eq_len in H5 as [-> ->]; [|assumption].
    repeat split; reflexivity.
  Qed.

  (* moving bytes between context, client identity and server identity changes the transcript *)
  Corollary preamble_no_boundary_shift context iu is_ context' iu' is_' req l2 n e u s u' s' p p' :
    lenprefix 2 iu = Some u -> lenprefix 2 is_ = Some s ->
    lenprefix 2 iu' = Some u' -> lenprefix 2 is_' = Some s' ->
    preamble context u req s l2 n e = Ok p ->
    preamble context' u' req s' l2 n e = Ok p' ->
    (context, iu, is_) <> (context', iu', is_') -> p <> p'.
  Proof.
    intros Hu Hs Hu' Hs' H H' Hne ->.
    destruct (preamble_injective _ _ _ _ _ _ _ _ _ _ _ _ _ _ _ _ _ _ _ Hu Hs Hu' Hs' eq_refl eq_refl eq_refl H H')
      as (-> & -> & _ & -> & _).
    now apply Hne.
  Qed.

  (* ---------------------------------------------------------------- the envelope's authenticated data *)
  Theorem aad_injective nonce iu is_ spk nonce' iu' is_' spk' u s u' s' :
    lenprefix 2 iu = Some u -> lenprefix 2 is_ = Some s ->
    lenprefix 2 iu' = Some u' -> lenprefix 2 is_' = Some s' ->
    length nonce = length nonce' -> length spk = length spk' ->
    nonce ++ construct_aad u s spk = nonce' ++ construct_aad u' s' spk' ->
    nonce = nonce' /\ spk = spk' /\ is_ = is_' /\ iu = iu'.
  Proof.
    unfold construct_aad. intros Hu Hs Hu' Hs' Ln Lk H.
    apply app_eq_len in H as [-> H]; [|assumption].
    apply app_eq_len in H as [-> H]; [|assumption].
    destruct (lenprefix_inj 2 _ _ _ _ _ _ Hs Hs' H) as [-> H1].
    pose proof (lenprefix_inj_nil 2 iu iu' u Hu) as Hi. rewrite H1 in Hi. specialize (Hi Hu'). subst.
    repeat split; reflexivity.
  Qed.

  (* ---------------------------------------------------------------- the OPRF Finalize input *)
  Theorem finalize_input_injective input input' l l' ser ser' :
    i2osp_nat 2 (length input) = Some l -> i2osp_nat 2 (length input') = Some l' ->
    length ser = length ser' ->
    l ++ input ++ be_bytes 2 (N.of_nat (o_Noe (oprf CS))) ++ ser ++ Labels.STR_FINALIZE =
    l' ++ input' ++ be_bytes 2 (N.of_nat (o_Noe (oprf CS))) ++ ser' ++ Labels.STR_FINALIZE ->
    input = input' /\ ser = ser'.
  Proof.
    intros Hl Hl' Ls H.
    assert (Hp : lenprefix 2 input = Some (l ++ input)) by (unfold lenprefix; now rewrite Hl).
    assert (Hp' : lenprefix 2 input' = Some (l' ++ input')) by (unfold lenprefix; now rewrite Hl').
    assert (H2 : (l ++ input) ++ (be_bytes 2 (N.of_nat (o_Noe (oprf CS))) ++ ser ++ Labels.STR_FINALIZE) =
                 (l' ++ input') ++ (be_bytes 2 (N.of_nat (o_Noe (oprf CS))) ++ ser' ++ Labels.STR_FINALIZE))
      by (rewrite <- !app_assoc; exact H).
    clear H. rename H2 into H.
    destruct (lenprefix_inj 2 _ _ _ _ _ _ Hp Hp' H) as [-> H1].
    apply app_inv_head in H1. apply app_eq_len in H1 as [-> _]; auto.
  Qed.

  Lemma finalize_refuses_long_input blind input ev :
    (65536 <= N.of_nat (length input))%N ->
    voprf_finalize (hash CS) (oprf CS) blind input ev = Err (ELibrary (LOprfError OInput)).
  Proof. intros H. unfold voprf_finalize. apply i2osp2_refuses in H. now rewrite H. Qed.

  (* ---------------------------------------------------------------- the per-credential OPRF key *)
  Theorem oprf_key_info_injective cred cred' : cred ++ STR_OPRF_KEY = cred' ++ STR_OPRF_KEY -> cred = cred'.
  Proof. apply app_inv_tail. Qed.

  (* ---------------------------------------------------------------- refusal at the API steps (C12) *)
  (* over-long context: neither login step returns a value *)
  Theorem generate_ke3_refuses_context l2 ke2 st req spk csk u s context :
    (65536 <= N.of_nat (length context))%N ->
    generate_ke3 CS l2 ke2 st req spk csk u s context = Err ESerialization.
  Proof. intros H. unfold generate_ke3. now rewrite preamble_refuses_context. Qed.

  Theorem client_login_finish_refuses_long_password st pw r ctx ids ksf :
    (65536 <= N.of_nat (length pw))%N ->
    o_eqb (oprf CS) (cq_blinded (cl_request st)) (cr_eval r) = false ->
    client_login_finish CS st pw r ctx ids ksf = Err (ELibrary (LOprfError OInput)).
  Proof.
    intros H Hr. unfold client_login_finish, get_password_derived_key. rewrite Hr.
    now rewrite finalize_refuses_long_input.
  Qed.

  Theorem client_registration_finish_refuses_long_password st tape pw r ids ksf :
    (65536 <= N.of_nat (length pw))%N ->
    o_eqb (oprf CS) (crs_blinded st) (rr_eval r) = false ->
    client_registration_finish CS st tape pw r ids ksf = Err (ELibrary (LOprfError OInput)).
  Proof.
    intros H Hr. unfold client_registration_finish, get_password_derived_key. rewrite Hr.
    now rewrite finalize_refuses_long_input.
  Qed.

  (* over-long identities: the envelope cannot be sealed or opened *)
  Theorem envelope_seal_refuses_long_identity tape rpwd spk ids r :
    (65536 <= N.of_nat (length (effective (id_server ids) (k_ser_pk (ke CS) spk))))%N ->
    envelope_seal CS tape rpwd spk ids <> Ok r.
  Proof.
    intros H Heq. unfold envelope_seal in Heq.
    destruct (length tape <? ENVELOPE_NONCE_LEN); [discriminate|].
    apply bind_Ok in Heq as (kp & _ & Heq). apply bind_Ok in Heq as (us & Hus & _).
    eapply bytestrings_not_Ok_server; eauto.
  Qed.
End T.
