(* C06 (and the envelope part of C05): the envelope tag binds the server's static
   public key and the sealed identities.  Opening an envelope under another
   server public key, or under other identities, fails with SealOpenHmacError
   unless an HMAC collision (same key, different messages) is exhibited. *)
From Coq Require Import List Arith Lia Bool NArith.
From OKE Require Import Bytes Suite Generated Hkdf Voprf Messages Envelope TripleDH Opaque.
From OKE Require Import ListLemmas BytesLemmas ResultLemmas Codecs Roundtrip Laws Layers Transcript Bad.
Import ListNotations.
Local Open Scope res_scope.

Arguments firstn : simpl never.
Arguments skipn : simpl never.

Section Binding.
  Context {E Sc Pk Sk : Type}.
  Variable CS : Suite E Sc Pk Sk.

  (* what [envelope_open] does, when the key schedule succeeds *)
  Lemma envelope_open_spec env rp spk ids kp u s ak ek :
    env_internal env = true ->
    recover_keys_internal CS rp (env_nonce env) = Ok kp ->
    bytestrings_from_identifiers ids (k_ser_pk (ke CS) (kp_pk kp)) (k_ser_pk (ke CS) spk) = Ok (u, s) ->
    envelope_keys CS rp (env_nonce env) = Ok (ak, ek) ->
    envelope_open CS env rp spk ids =
      if bytes_eqb (h_hmac (hash CS) ak (env_nonce env ++ construct_aad u s (k_ser_pk (ke CS) spk))) (env_hmac env)
      then Ok (kp, ek, u, s) else Err (ELibrary LSealOpenHmacError).
  Proof.
    intros Hi Hkp Hids Hk. unfold envelope_open. rewrite Hi. cbn [negb].
    rewrite Hkp. cbn [bind]. rewrite Hids. cbn [bind]. rewrite Hk. reflexivity.
  Qed.

  (* sealed under (spk, ids), opened under (spk', ids'): accepted only if the authenticated
     data coincide, or an HMAC collision under the same key is exhibited *)
  Theorem envelope_binds tape rp spk ids env cpk ek rest spk' ids' r :
    envelope_seal CS tape rp spk ids = Ok (env, cpk, ek, rest) ->
    envelope_open CS env rp spk' ids' = Ok r ->
    length (k_ser_pk (ke CS) spk) = length (k_ser_pk (ke CS) spk') ->
    (k_ser_pk (ke CS) spk' = k_ser_pk (ke CS) spk /\
     effective (id_client ids') (k_ser_pk (ke CS) cpk) = effective (id_client ids) (k_ser_pk (ke CS) cpk) /\
     effective (id_server ids') (k_ser_pk (ke CS) spk') = effective (id_server ids) (k_ser_pk (ke CS) spk))
    \/ Bad (hash CS).
  Proof.
    unfold envelope_seal. intros Hs Ho Hlen.
    destruct (length tape <? ENVELOPE_NONCE_LEN); [discriminate|].
    apply bind_Ok in Hs as (kp & Hkp & Hs). apply bind_Ok in Hs as ([u s] & Hus & Hs).
    apply bind_Ok in Hs as ([ak ek0] & Hk & Hs). injection Hs as <- <- <- <-.
    unfold envelope_open in Ho. cbn [env_internal env_nonce env_hmac negb] in Ho.
    rewrite Hkp in Ho. cbn [bind] in Ho.
    apply bind_Ok in Ho as ([u' s'] & Hus' & Ho). rewrite Hk in Ho. cbn [bind] in Ho.
    destruct (bytes_eqb _ _) eqn:Heq; [|discriminate]. apply bytes_eqb_eq in Heq.
    set (nonce := firstn ENVELOPE_NONCE_LEN tape) in *.
    destruct (list_eq_dec Byte.byte_eq_dec
                (nonce ++ construct_aad u' s' (k_ser_pk (ke CS) spk'))
                (nonce ++ construct_aad u s (k_ser_pk (ke CS) spk))) as [Hm|Hm].
    - left. apply bytestrings_Ok in Hus as [Hu Hsv]. apply bytestrings_Ok in Hus' as [Hu' Hsv'].
      destruct (aad_injective _ _ _ _ _ _ _ _ _ _ _ _ Hu' Hsv' Hu Hsv eq_refl (eq_sym Hlen) Hm) as (_ & H1 & H2 & H3).
      auto.
    - right. eapply (BadMac (hash CS) ak _ ak _ eq_refl); [|exact Heq]. intros [= H]. now apply Hm.
  Qed.
End Binding.
