(* Acceptance characterisations and purely functional facts that need no
   algebraic law: C03 (server finish), C15 (key stretching), C18 (external
   keys), C14/C08 (the server's evaluation is a function of seed, identifier and
   request only), C04 (what the client checks). *)
From Coq Require Import List Arith Lia Bool NArith.
From OKE Require Import Bytes Suite Generated Hkdf Voprf Messages Envelope TripleDH Opaque Api.
From OKE Require Import ListLemmas BytesLemmas ResultLemmas.
Import ListNotations.
Local Open Scope res_scope.

Section Accept.
  Context {E Sc Pk Sk : Type}.
  Variable CS : Suite E Sc Pk Sk.
  Let h := hash CS.

  (* ---------------------------------------------------------------- C03 *)
  (* exactly one byte string completes a pending server login: the HMAC of the
     stored transcript hash under the stored key; the key released is the stored one *)
  Theorem server_finish_accept_iff st m k :
    server_login_finish CS st m = Ok k <->
    cf_mac m = h_hmac h (sl_km3 st) (sl_hashed_transcript st) /\ k = sl_session_key st.
  Proof.
    unfold server_login_finish, finish_ke. fold h.
    destruct (bytes_eqb (h_hmac h (sl_km3 st) (sl_hashed_transcript st)) (cf_mac m)) eqn:Heq.
    - apply bytes_eqb_eq in Heq. split.
      + intros [= <-]. auto.
      + intros [_ ->]. reflexivity.
    - apply bytes_eqb_neq in Heq. split; [discriminate|]. intros [Hm _]. congruence.
  Qed.

  Theorem server_finish_reject st m :
    cf_mac m <> h_hmac h (sl_km3 st) (sl_hashed_transcript st) ->
    server_login_finish CS st m = Err EInvalidLogin.
  Proof.
    intros Hne. unfold server_login_finish, finish_ke. fold h.
    destruct (bytes_eqb _ _) eqn:Heq; [|reflexivity].
    apply bytes_eqb_eq in Heq. congruence.
  Qed.

  (* at the byte level (the API a caller sees): among the strings of the finalization
     length, only the expected MAC is accepted, everything else is InvalidLogin *)
  Theorem api_server_finish_bytes st_bytes st f :
    server_login_deserialize CS st_bytes = Ok st ->
    length f = h_len h ->
    run_request CS (QSrvLoginFinish st_bytes f) =
      if bytes_eqb (h_hmac h (sl_km3 st) (sl_hashed_transcript st)) f
      then ROk [TB (sl_session_key st)] else RErr EInvalidLogin.
  Proof.
    intros Hst Hl. cbn [run_request]. rewrite Hst. cbn [arg].
    unfold credential_finalization_deserialize, check_slice_size. fold h.
    rewrite Hl, Nat.eqb_refl. cbn [bind arg fin].
    unfold server_login_finish, finish_ke. fold h. cbn [cf_mac].
    destruct (bytes_eqb _ f); reflexivity.
  Qed.

  (* the client's finalization in generate_ke3 is exactly the string the matching
     server state expects, when both computed the same keys and transcript *)
  Lemma ke3_mac_is_expected km3 pre mac :
    cf_mac {| cf_mac := h_hmac h km3 (h_hash h (pre ++ mac)) |} =
    h_hmac h (sl_km3 {| sl_km3 := km3; sl_hashed_transcript := h_hash h (pre ++ mac); sl_session_key := [] |})
             (sl_hashed_transcript {| sl_km3 := km3; sl_hashed_transcript := h_hash h (pre ++ mac); sl_session_key := [] |}).
  Proof. reflexivity. Qed.

  (* ---------------------------------------------------------------- C15 *)
  (* the finish steps use the stretching function only through its value at the OPRF output *)
  Theorem ksf_only_at_oprf_output input blind ev (f g : ksf_fn) y :
    voprf_finalize h (oprf CS) blind input ev = Ok y -> f y = g y ->
    get_password_derived_key CS input blind ev (Some f) = get_password_derived_key CS input blind ev (Some g).
  Proof. intros Hy Hfg. unfold get_password_derived_key. fold h. rewrite Hy. cbn [bind]. now rewrite Hfg. Qed.

  Theorem ksf_default_explicit input blind ev :
    get_password_derived_key CS input blind ev None =
    get_password_derived_key CS input blind ev (Some (ksf_default CS)).
  Proof. reflexivity. Qed.

  Theorem ksf_error input blind ev (f : ksf_fn) y :
    voprf_finalize h (oprf CS) blind input ev = Ok y -> f y = None ->
    get_password_derived_key CS input blind ev (Some f) = Err (ELibrary LKsfError).
  Proof. intros Hy Hf. unfold get_password_derived_key. fold h. rewrite Hy. cbn [bind]. now rewrite Hf. Qed.

  (* the stretched value enters the randomized password: Extract(0, y || f y) *)
  Theorem ksf_bound input blind ev (f : ksf_fn) y z :
    voprf_finalize h (oprf CS) blind input ev = Ok y -> f y = Some z ->
    get_password_derived_key CS input blind ev (Some f) = Ok (hkdf_extract h None (y ++ z)).
  Proof. intros Hy Hf. unfold get_password_derived_key. fold h. rewrite Hy. cbn [bind]. now rewrite Hf. Qed.

  Theorem registration_finish_ksf_congr st tape pw r ids (f g : ksf_fn) y :
    voprf_finalize h (oprf CS) (crs_blind st) pw (rr_eval r) = Ok y -> f y = g y ->
    client_registration_finish CS st tape pw r ids (Some f) = client_registration_finish CS st tape pw r ids (Some g).
  Proof.
    intros Hy Hfg. unfold client_registration_finish.
    now rewrite (ksf_only_at_oprf_output pw (crs_blind st) (rr_eval r) f g y Hy Hfg).
  Qed.

  Theorem login_finish_ksf_congr st pw r ctx ids (f g : ksf_fn) y :
    voprf_finalize h (oprf CS) (cl_blind st) pw (cr_eval r) = Ok y -> f y = g y ->
    client_login_finish CS st pw r ctx ids (Some f) = client_login_finish CS st pw r ctx ids (Some g).
  Proof.
    intros Hy Hfg. unfold client_login_finish.
    now rewrite (ksf_only_at_oprf_output pw (cl_blind st) (cr_eval r) f g y Hy Hfg).
  Qed.

  (* ---------------------------------------------------------------- C14 / C08 *)
  (* the server's OPRF evaluation: a function of (seed, credential identifier, blinded element) *)
  Theorem registration_start_evaluation {S} (setup : ServerSetup Pk Sk S) m cred r :
    server_registration_start CS setup m cred = Ok r ->
    server_evaluate CS (ss_oprf_seed setup) cred (rq_blinded m) = Ok (rr_eval r) /\
    rr_server_s_pk r = kp_pk (ss_keypair setup).
  Proof. unfold server_registration_start. intros H. inv_res. subst r. auto. Qed.

  Theorem login_start_evaluation {S} (SK : SkOps Pk S) tape (setup : ServerSetup Pk Sk S) file rq cred ctx ids st resp rest dbg :
    server_login_start CS SK tape setup file rq cred ctx ids = Ok (st, resp, rest, dbg) ->
    server_evaluate CS (ss_oprf_seed setup) cred (cq_blinded rq) = Ok (cr_eval resp).
  Proof.
    unfold server_login_start. intros H.
    repeat (first
      [ match goal with
        | H : bind _ _ = Ok _ |- _ => apply bind_Ok in H; destruct H as (? & ? & H)
        | H : (let '(_, _) := ?p in _) = Ok _ |- _ => destruct p
        | H : (if ?c then Err _ else _) = Ok _ |- _ => destruct c; [discriminate|]
        end ]).
    injection H as <- <- <- <-. cbn [cr_eval]. assumption.
  Qed.
End Accept.
