(* C04: what the client's final login step checks (acceptance characterisation), that every
   component of the response other than the MAC enters the transcript the MAC covers, and that a
   response altered in the MAC field only is rejected. *)
From Coq Require Import List Arith Lia Bool NArith.
From OKE Require Import Bytes Suite Generated Hkdf Voprf Messages Envelope TripleDH Opaque.
From OKE Require Import ListLemmas BytesLemmas ResultLemmas.
Import ListNotations.
Local Open Scope res_scope.

Section ClientAccept.
  Context {E Sc Pk Sk : Type}.
  Variable CS : Suite E Sc Pk Sk.

  (* the transcript the client hashes, as a function of the response *)
  Definition client_l2 (r : CredentialResponse E Pk) : bytes :=
    credential_response_without_ke (o_ser_e (oprf CS) (cr_eval r)) (cr_masking_nonce r) (cr_masked r).
  Definition client_request_bytes (st : ClientLogin E Sc Pk Sk) : bytes :=
    o_ser_e (oprf CS) (cq_blinded (cl_request st)) ++ ke1_message_serialize CS (cq_ke1 (cl_request st)).

  (* (i) acceptance characterisation: the exact conjunction the code checks *)
  Theorem client_accepts_iff st pw r ctx ids ksf fin sk ek spk dbg :
    client_login_finish CS st pw r ctx ids ksf = Ok (fin, sk, ek, spk, dbg) ->
    exists rp mk env kp u s pre km2 km3 hs,
      o_eqb (oprf CS) (cq_blinded (cl_request st)) (cr_eval r) = false /\
      get_password_derived_key CS pw (cl_blind st) (cr_eval r) ksf = Ok rp /\
      hkdf_expand (hash CS) rp STR_MASKING_KEY (h_len (hash CS)) = Some mk /\
      unmask_response CS mk (cr_masking_nonce r) (cr_masked r) = Ok (spk, env) /\
      envelope_open CS env rp spk ids = Ok (kp, ek, u, s) /\
      preamble (match ctx with Some c => c | None => [] end) u (client_request_bytes st) s (client_l2 r)
               (k2_nonce (cr_ke2 r)) (k_ser_pk (ke CS) (k2_server_e_pk (cr_ke2 r))) = Ok pre /\
      derive_3dh_keys CS (k_dh (ke CS) (k2_server_e_pk (cr_ke2 r)) (k1s_client_e_sk (cl_ke1_state st)))
                         (k_dh (ke CS) spk (k1s_client_e_sk (cl_ke1_state st)))
                         (k_dh (ke CS) (k2_server_e_pk (cr_ke2 r)) (kp_sk kp))
                         (h_hash (hash CS) pre) = Ok (sk, km2, km3, hs) /\
      k2_mac (cr_ke2 r) = h_hmac (hash CS) km2 (h_hash (hash CS) pre) /\
      cf_mac fin = h_hmac (hash CS) km3 (h_hash (hash CS) (pre ++ k2_mac (cr_ke2 r))).
  Proof.
    unfold client_login_finish. intros H.
    destruct (o_eqb (oprf CS) _ _) eqn:Hr; [discriminate|].
    apply bind_Ok in H as (rp & Hrp & H). apply bind_Ok in H as (mk & Hmk & H).
    apply bind_Ok in H as ([spk0 env] & Hun & H). apply bind_Ok in H as ([[[kp ek0] u] s] & Hop & H).
    apply bind_Ok in H as ([[sk0 fin0] dbg0] & Hke3 & H). injection H as <- <- <- <- <-.
    apply of_option_Ok in Hmk.
    assert (Hun' : unmask_response CS mk (cr_masking_nonce r) (cr_masked r) = Ok (spk0, env)).
    { destruct (unmask_response CS mk _ _); cbn in Hun; [congruence | discriminate]. }
    assert (Hop' : envelope_open CS env rp spk0 ids = Ok (kp, ek0, u, s)).
    { destruct (envelope_open CS env rp spk0 ids); cbn in Hop; [congruence | discriminate]. }
    unfold generate_ke3 in Hke3.
    apply bind_Ok in Hke3 as (pre & Hpre & Hke3).
    apply bind_Ok in Hke3 as ([[[sk1 km2] km3] hs] & Hk & Hke3).
    destruct (bytes_eqb _ _) eqn:Hm; [|discriminate]. injection Hke3 as <- <- <-.
    apply bytes_eqb_eq in Hm.
    exists rp, mk, env, kp, u, s, pre, km2, km3, hs. repeat split; auto.
  Qed.

  (* every component of the response other than the MAC is inside the transcript *)
  Theorem preamble_covers_response context u req s (r : CredentialResponse E Pk) pre :
    preamble context u req s (client_l2 r) (k2_nonce (cr_ke2 r)) (k_ser_pk (ke CS) (k2_server_e_pk (cr_ke2 r))) = Ok pre ->
    exists c, lenprefix 2 context = Some c /\
      pre = STR_CONTEXT ++ c ++ u ++ req ++ s ++
            (o_ser_e (oprf CS) (cr_eval r) ++ cr_masking_nonce r ++ masked_response_serialize (cr_masked r)) ++
            k2_nonce (cr_ke2 r) ++ k_ser_pk (ke CS) (k2_server_e_pk (cr_ke2 r)).
  Proof. unfold preamble, client_l2, credential_response_without_ke. intros H. inv_res. eauto. Qed.

  (* (ii) a response equal to an accepted one except in the MAC field is rejected *)
  Definition with_mac (r : CredentialResponse E Pk) (mac : bytes) : CredentialResponse E Pk :=
    {| cr_eval := cr_eval r; cr_masking_nonce := cr_masking_nonce r; cr_masked := cr_masked r;
       cr_ke2 := {| k2_nonce := k2_nonce (cr_ke2 r); k2_server_e_pk := k2_server_e_pk (cr_ke2 r); k2_mac := mac |} |}.

  Theorem mac_only_altered_rejected st pw r ctx ids ksf out mac' :
    client_login_finish CS st pw r ctx ids ksf = Ok out ->
    mac' <> k2_mac (cr_ke2 r) ->
    client_login_finish CS st pw (with_mac r mac') ctx ids ksf = Err EInvalidLogin.
  Proof.
    unfold client_login_finish, with_mac. cbn [cr_eval cr_masking_nonce cr_masked cr_ke2]. intros H Hne.
    destruct (o_eqb (oprf CS) _ _); [discriminate|].
    destruct (get_password_derived_key CS _ _ _ _) as [rp|]; [|discriminate]. cbn [bind] in *.
    destruct (of_option _ _) as [mk|]; [|discriminate]. cbn [bind] in *.
    destruct (map_err (unmask_response CS _ _ _) _) as [[spk env]|]; [|discriminate]. cbn [bind] in *.
    destruct (map_err (envelope_open CS _ _ _ _) _) as [[[[kp ek] u] s]|]; [|discriminate]. cbn [bind] in *.
    unfold generate_ke3 in *. cbn [k2_nonce k2_server_e_pk k2_mac] in *.
    destruct (preamble _ _ _ _ _ _ _) as [pre|]; [|discriminate]. cbn [bind] in *.
    destruct (derive_3dh_keys CS _ _ _ _) as [[[[sk km2] km3] hs]|]; [|discriminate]. cbn [bind] in *.
    destruct (bytes_eqb (h_hmac (hash CS) km2 (h_hash (hash CS) pre)) (k2_mac (cr_ke2 r))) eqn:Hm; [|discriminate].
    apply bytes_eqb_eq in Hm.
    destruct (bytes_eqb (h_hmac (hash CS) km2 (h_hash (hash CS) pre)) mac') eqn:Hm'; [|reflexivity].
    apply bytes_eqb_eq in Hm'. congruence.
  Qed.

  (* no partial outputs: a rejected response yields no finalization, session key or export key
     (immediate from the result type; stated for the record) *)
  Theorem rejected_yields_nothing st pw r ctx ids ksf e :
    client_login_finish CS st pw r ctx ids ksf = Err e ->
    forall out, client_login_finish CS st pw r ctx ids ksf <> Ok out.
  Proof. intros H out. rewrite H. discriminate. Qed.
End ClientAccept.
