(* C18: a server static key behind the SecretKey interface.  With callbacks that answer
   (public key, Diffie-Hellman) the operations ARE the direct-key operations; a failing
   callback surfaces as the custom error and nothing else is returned. *)
From Coq Require Import List Arith Lia Bool NArith.
From OKE Require Import Bytes Suite Generated Hkdf Voprf Messages Envelope TripleDH Opaque Api.
From OKE Require Import ListLemmas BytesLemmas ResultLemmas.
Import ListNotations.
Local Open Scope res_scope.

Section External.
  Context {E Sc Pk Sk : Type}.
  Variable CS : Suite E Sc Pk Sk.

  (* an external key that never fails is the plain private key: same interface record *)
  Theorem ext_key_transparent : ext_key_ops CS None None = private_key_ops (ke CS).
  Proof. reflexivity. Qed.

  Theorem ext_login_start_transparent tape setup file msg cred ctx idu ids :
    run_request CS (QExtSrvLoginStart tape setup file msg cred ctx idu ids None None) =
    run_request CS (QSrvLoginStart tape setup file msg cred ctx idu ids).
  Proof. reflexivity. Qed.

  Theorem ext_reg_start_transparent setup msg cred fp fd :
    run_request CS (QExtSrvRegStart setup msg cred fp fd) = run_request CS (QSrvRegStart setup msg cred).
  Proof.
    cbn [run_request]. unfold do_srv_reg_start.
    destruct (server_setup_deserialize CS (private_key_ops (ke CS)) setup); [|reflexivity]. cbn [arg].
    destruct (registration_request_deserialize CS msg); reflexivity.
  Qed.

  Theorem ext_setup_transparent tape sk :
    run_request CS (QExtSetup tape sk None None) =
    fin (let* s := of_option (k_deser_sk (ke CS) sk) (ELibrary LPointError) in
         let* '(setup, rest) := server_setup_new_with_key CS tape {| kp_pk := k_pub (ke CS) s; kp_sk := s |} in
         Ok [TB (server_setup_serialize CS (private_key_ops (ke CS)) setup); consumed tape rest]).
  Proof. reflexivity. Qed.

  (* the public-key callback fails: the error is returned, no response, no state *)
  Theorem ext_login_start_pub_fails tape (setup : ServerSetup Pk Sk Sk) f rq cred ctx ids n fd :
    server_login_start CS (ext_key_ops CS (Some n) fd) tape setup (Some f) rq cred ctx ids = Err (ELibrary (LCustom n)).
  Proof. reflexivity. Qed.

  Theorem ext_setup_pub_fails tape sk n fd s :
    k_deser_sk (ke CS) sk = Some s ->
    run_request CS (QExtSetup tape sk (Some n) fd) = RErr (ELibrary (LCustom n)).
  Proof. intros H. cbn [run_request ext_key_ops s_deser s_pub]. rewrite H. reflexivity. Qed.

  (* the Diffie-Hellman callback fails: whenever the direct-key run would have answered, the external-key
     run returns the custom error instead *)
  Theorem ext_login_start_dh_fails tape (setup : ServerSetup Pk Sk Sk) file rq cred ctx ids n r :
    server_login_start CS (private_key_ops (ke CS)) tape setup file rq cred ctx ids = Ok r ->
    server_login_start CS (ext_key_ops CS None (Some n)) tape setup file rq cred ctx ids = Err (ELibrary (LCustom n)).
  Proof.
    unfold server_login_start. intros H.
    destruct (match file with Some x => Ok (x, tape) | None => registration_upload_dummy CS tape setup end)
      as [[rec t0]|e]; [|discriminate]. cbn [bind] in *.
    cbn [private_key_ops ext_key_ops s_pub bind] in *.
    destruct (length t0 <? KE_NONCE_LEN); [discriminate|].
    destruct (mask_response CS _ _ _ _) as [masked|]; [|discriminate]. cbn [bind] in *.
    destruct (bytestrings_from_identifiers _ _ _) as [[u s]|]; [|discriminate]. cbn [bind] in *.
    destruct (server_evaluate CS _ _ _) as [ev|]; [|discriminate]. cbn [bind] in *.
    unfold generate_ke2 in *.
    destruct (keypair_generate_random CS _) as [[ekp t1]|]; [|discriminate]. cbn [bind] in *.
    destruct (generate_nonce _) as [[sn t2]|]; [|discriminate]. cbn [bind] in *.
    destruct (preamble _ _ _ _ _ _ _) as [pre|]; [|discriminate]. cbn [bind] in *.
    reflexivity.
  Qed.

  (* whatever happens, only the two callbacks are consulted: the operations are parametric in SkOps
     and use [s_pub] / [s_dh] only (s_ser / s_deser belong to (de)serialisation of the setup) *)
  Theorem login_start_uses_only_callbacks (SK SK' : SkOps Pk Sk) tape setup file rq cred ctx ids :
    (forall s, s_pub SK s = s_pub SK' s) -> (forall s p, s_dh SK s p = s_dh SK' s p) ->
    server_login_start CS SK tape setup file rq cred ctx ids = server_login_start CS SK' tape setup file rq cred ctx ids.
  Proof.
    intros Hp Hd. unfold server_login_start, generate_ke2. rewrite Hp.
    destruct (match file with Some x => Ok (x, tape) | None => registration_upload_dummy CS tape setup end)
      as [[rec t0]|e]; [|reflexivity]. cbn [bind].
    destruct (s_pub SK' _); [|reflexivity]. cbn [bind].
    destruct (length t0 <? KE_NONCE_LEN); [reflexivity|].
    destruct (mask_response CS _ _ _ _); [|reflexivity]. cbn [bind].
    destruct (bytestrings_from_identifiers _ _ _) as [[u s]|]; [|reflexivity]. cbn [bind].
    destruct (server_evaluate CS _ _ _); [|reflexivity]. cbn [bind].
    destruct (keypair_generate_random CS _) as [[ekp t1]|]; [|reflexivity]. cbn [bind].
    destruct (generate_nonce _) as [[sn t2]|]; [|reflexivity]. cbn [bind].
    destruct (preamble _ _ _ _ _ _ _); [|reflexivity]. cbn [bind].
    now rewrite Hd.
  Qed.
End External.
