(* C19 / C11 for the concrete groups: what IS proved about them (no group law).
   - scalar codecs round-trip exactly in both directions (P-256/384/521, ristretto255; X25519 raw strings);
   - RFC 7748 clamping: idempotent, never zero, accepted by the private-key decoder;
   - seeded key derivation returns a valid non-zero scalar (NIST, ristretto255) resp. the clamped seed
     (Curve25519);
   - the point validators only accept what they should: a NIST decoder result is a finite point on the
     curve with reduced coordinates; an X25519 public key is 32 bytes, not the identity and not of small
     order ([8]u <> 0); ristretto255 keys pass the RFC 9496 decoder and are not the identity; decoded
     scalars are non-zero and below the group order. *)
From Coq Require Import List NArith ZArith Arith Lia Bool.
From Coq Require Import Init.Byte.
From OKE Require Import Bytes Suite Generated KeGroup ListLemmas BytesLemmas CodecsConcrete.
From OKE Require Import Sha2 Field Weierstrass Curve25519 Suites.
Import ListNotations.

(* ---------------------------------------------------------------- integers <-> bytes *)
Lemma bytes_to_Z_be_roundtrip n k : (0 <= k < 256 ^ Z.of_nat n)%Z -> bytes_to_Z_be (Z_to_bytes_be n k) = k.
Proof.
  intros [H0 H1]. unfold bytes_to_Z_be, Z_to_bytes_be. rewrite os2ip_be_bytes.
  rewrite N.mod_small.
  - now apply Z2N.id.
  - apply N2Z.inj_lt. rewrite Z2N.id by assumption. rewrite N2Z.inj_pow. now rewrite nat_N_Z.
Qed.

Lemma bytes_to_Z_le_roundtrip n k : (0 <= k < 256 ^ Z.of_nat n)%Z -> bytes_to_Z_le (Z_to_bytes_le n k) = k.
Proof.
  intros [H0 H1]. unfold bytes_to_Z_le, Z_to_bytes_le. rewrite os2ip_le_bytes.
  rewrite N.mod_small.
  - now apply Z2N.id.
  - apply N2Z.inj_lt. rewrite Z2N.id by assumption. rewrite N2Z.inj_pow. now rewrite nat_N_Z.
Qed.

(* ---------------------------------------------------------------- NIST scalars *)
Section W.
  Variable C : wcurve.
  Hypothesis order_fits : (0 < w_n C < 256 ^ Z.of_nat (w_Nfe C))%Z.

  Theorem w_scalar_roundtrip k : (0 < k < w_n C)%Z -> w_deser_scalar C (w_ser_scalar C k) = Some k.
  Proof.
    intros [H0 H1]. unfold w_deser_scalar, w_ser_scalar.
    rewrite Z_to_bytes_be_length, Nat.eqb_refl. cbn [orb].
    rewrite bytes_to_Z_be_roundtrip by lia.
    destruct (Z.ltb_spec 0 k); [|lia]. destruct (Z.ltb_spec k (w_n C)); [|lia]. reflexivity.
  Qed.

  Theorem w_scalar_valid b k : w_deser_scalar C b = Some k -> (0 < k < w_n C)%Z.
  Proof.
    unfold w_deser_scalar. destruct (_ || _); [|discriminate].
    destruct (Z.ltb_spec 0 (bytes_to_Z_be b)); [|discriminate].
    destruct (Z.ltb_spec (bytes_to_Z_be b) (w_n C)); [|discriminate]. cbn [andb]. intros [= <-]. lia.
  Qed.

  (* seeded derivation: a non-zero scalar below the order, or an error - never an invalid key *)
  Lemma w_derive_loop_valid h prefix dst counter fuel k :
    derive_auth_loop (fun h' m d => let k := w_hash_to_scalar C h' m d in if w_is_zero C k then None else Some k)
                     (w_is_zero C) h prefix dst counter fuel = Some k ->
    (0 < k < w_n C)%Z.
  Proof.
    revert counter. induction fuel as [|f IH]; intros counter; cbn [derive_auth_loop]; [discriminate|].
    set (x := w_hash_to_scalar C h (prefix ++ [byte_of_nat counter]) dst).
    destruct (w_is_zero C x) eqn:Hz; [discriminate|]. rewrite Hz. intros [= <-].
    unfold w_is_zero in Hz. apply Z.eqb_neq in Hz.
    assert (Hx : (0 <= x < w_n C)%Z).
    { unfold x, w_hash_to_scalar, hash_to_field.
      destruct (split_reduce 1 (w_L C) (w_n C) _) as [|k0 [|? ?]] eqn:Hs; try lia.
      cbn [split_reduce] in Hs. injection Hs as <-. apply Z.mod_pos_bound. lia. }
    rewrite Z.mod_small in Hz by assumption. lia.
  Qed.

  Theorem w_derive_valid h id seed k :
    k_derive (ke_weierstrass C) h id seed = Some k -> (0 < k < w_n C)%Z /\ k_deser_sk (ke_weierstrass C) (k_ser_sk (ke_weierstrass C) k) = Some k.
  Proof.
    cbn [ke_weierstrass k_derive k_deser_sk k_ser_sk]. unfold derive_auth_keypair_default.
    destruct (i2osp_nat 2 _); [|discriminate]. intros H.
    apply w_derive_loop_valid in H. split; [exact H | now apply w_scalar_roundtrip].
  Qed.

  (* ---------------- the point validator *)
  Lemma sq_neg_mod p y : (0 < p)%Z -> ((((p - y) mod p) * ((p - y) mod p)) mod p = (y * y) mod p)%Z.
  Proof.
    intros Hp. rewrite <- Z.mul_mod by lia.
    replace ((p - y) * (p - y))%Z with (y * y + (p - 2 * y) * p)%Z by ring.
    apply Z_mod_plus_full.
  Qed.

  Lemma sq_neg_plain p y : (((p - y) * (p - y)) mod p = (y * y) mod p)%Z.
  Proof.
    replace ((p - y) * (p - y))%Z with (y * y + (p - 2 * y) * p)%Z by ring.
    apply Z_mod_plus_full.
  Qed.

  Hypothesis p_pos : (0 < w_p C)%Z.

  Theorem w_decoder_only_accepts_curve_points c b P :
    w_deser_gen C c b = Some P ->
    length b = w_Npk C /\
    exists x y, P = Some (x, y) /\ (0 <= x < w_p C)%Z /\ ((y * y) mod w_p C = w_rhs C x)%Z.
  Proof.
    unfold w_deser_gen. destruct (Nat.eqb_spec (length b) (w_Npk C)) as [Hl|]; cbn [negb]; [|discriminate].
    destruct b as [|tag xb]; [discriminate|].
    destruct (negb _); [discriminate|].
    destruct (Z.leb_spec (w_p C) (bytes_to_Z_be xb)) as [|Hx]; [discriminate|].
    unfold w_sqrt. set (x := bytes_to_Z_be xb) in *. set (r := fpow (w_p C) (w_rhs C x) ((w_p C + 1) / 4)).
    destruct (Z.eqb_spec ((r * r) mod w_p C) (w_rhs C x mod w_p C)) as [Hr|]; [|discriminate].
    intros [= <-]. split; [exact Hl|].
    assert (Hrhs : (w_rhs C x mod w_p C = w_rhs C x)%Z).
    { unfold w_rhs. apply Z.mod_mod. lia. }
    rewrite Hrhs in Hr.
    assert (Hx0 : (0 <= x)%Z) by (unfold x, bytes_to_Z_be; apply N2Z.is_nonneg).
    eexists x, _. split; [reflexivity|]. split; [lia|].
    destruct ((b2n tag =? 5)%N).
    - unfold Z.min. destruct (r ?= w_p C - r)%Z; auto.
      rewrite sq_neg_plain. exact Hr.
    - destruct (_ =? _)%Z; [exact Hr|]. rewrite sq_neg_mod by assumption. exact Hr.
  Qed.
End W.

Lemma P256_order_fits : (0 < w_n P256 < 256 ^ Z.of_nat (w_Nfe P256))%Z. Proof. cbn. lia. Qed.
Lemma P384_order_fits : (0 < w_n P384 < 256 ^ Z.of_nat (w_Nfe P384))%Z. Proof. cbn. lia. Qed.
Lemma P521_order_fits : (0 < w_n P521 < 256 ^ Z.of_nat (w_Nfe P521))%Z. Proof. cbn. lia. Qed.

(* ---------------------------------------------------------------- ristretto255 scalars *)
Lemma ell_fits : (0 < ell < 256 ^ Z.of_nat 32)%Z. Proof. unfold ell. cbn. lia. Qed.

Theorem r_scalar_roundtrip k : (0 < k < ell)%Z -> r_deser_scalar (r_ser_scalar k) = Some k.
Proof.
  intros [H0 H1]. unfold r_deser_scalar, r_ser_scalar. rewrite Z_to_bytes_le_length. cbn [Nat.eqb negb].
  pose proof ell_fits. rewrite bytes_to_Z_le_roundtrip by lia.
  destruct (Z.ltb_spec 0 k); [|lia]. destruct (Z.ltb_spec k ell); [|lia]. reflexivity.
Qed.

Theorem r_scalar_valid b k : r_deser_scalar b = Some k -> (0 < k < ell)%Z /\ length b = 32.
Proof.
  unfold r_deser_scalar. destruct (Nat.eqb_spec (length b) 32); cbn [negb]; [|discriminate].
  destruct (Z.ltb_spec 0 (bytes_to_Z_le b)); [|discriminate].
  destruct (Z.ltb_spec (bytes_to_Z_le b) ell); [|discriminate]. cbn [andb]. intros [= <-]. split; [lia|assumption].
Qed.

(* ---------------------------------------------------------------- RFC 7748 clamping *)
Definition clamp_lo (x : byte) : byte := n2b (N.land (b2n x) 248).
Definition clamp_hi (x : byte) : byte := n2b (N.lor (N.land (b2n x) 127) 64).

Lemma clamp_lo_idem x : clamp_lo (clamp_lo x) = clamp_lo x.
Proof. destruct x; reflexivity. Qed.
Lemma clamp_hi_idem x : clamp_hi (clamp_hi x) = clamp_hi x.
Proof. destruct x; reflexivity. Qed.
Lemma clamp_hi_nonzero x : clamp_hi x <> x00.
Proof. destruct x; discriminate. Qed.

Lemma clamp_spec b : length b = 32 ->
  exists b0 mid b31, b = b0 :: mid ++ [b31] /\ length mid = 30 /\ clamp b = clamp_lo b0 :: mid ++ [clamp_hi b31].
Proof.
  intros Hl. destruct b as [|b0 rest]; [discriminate|]. cbn [length] in Hl.
  assert (Hr : length rest = 31) by lia.
  exists b0, (firstn 30 rest).
  destruct (skipn 30 rest) as [|b31 tl] eqn:Hs.
  - apply (f_equal (@length byte)) in Hs. rewrite skipn_length in Hs. cbn in Hs. lia.
  - assert (tl = []).
    { apply (f_equal (@length byte)) in Hs. rewrite skipn_length in Hs. cbn [length] in Hs.
      destruct tl; [reflexivity | cbn in Hs; lia]. }
    subst tl. exists b31. repeat split.
    + f_equal. rewrite <- Hs. symmetry. apply firstn_skipn.
    + rewrite firstn_length. lia.
    + unfold clamp. now rewrite Hs.
Qed.

Theorem clamp_length b : length b = 32 -> length (clamp b) = 32.
Proof.
  intros H. destruct (clamp_spec b H) as (b0 & mid & b31 & -> & Lm & ->).
  cbn [length]. rewrite !app_length. cbn [length]. lia.
Qed.

Theorem clamp_idempotent b : length b = 32 -> clamp (clamp b) = clamp b.
Proof.
  intros H. destruct (clamp_spec b H) as (b0 & mid & b31 & -> & Lm & Hc).
  pose proof (clamp_length _ H) as Hl. rewrite Hc in Hl |- *.
  destruct (clamp_spec _ Hl) as (c0 & mid' & c31 & Heq & Lm' & Hc').
  rewrite Hc'. injection Heq as <- Heq.
  apply app_inv_len_tail in Heq as [<- [= <-]]; [|reflexivity].
  now rewrite clamp_lo_idem, clamp_hi_idem.
Qed.

Theorem clamp_nonzero b : length b = 32 -> clamp b <> zeros 32.
Proof.
  intros H Hz. destruct (clamp_spec b H) as (b0 & mid & b31 & _ & Lm & Hc). rewrite Hc in Hz.
  apply (f_equal (fun l => last l x01)) in Hz.
  rewrite app_comm_cons, last_last in Hz. now apply (clamp_hi_nonzero b31).
Qed.

(* a clamped string is a valid Curve25519 private key and round-trips exactly *)
Theorem x25519_clamped_is_valid_key b : length b = 32 -> x_deser_sk (clamp b) = Some (clamp b).
Proof.
  intros H. unfold x_deser_sk. rewrite (clamp_length b H). cbn [Nat.eqb negb].
  rewrite (clamp_idempotent b H), bytes_eqb_refl. cbn [negb].
  destruct (bytes_eqb (clamp b) (zeros 32)) eqn:E; [|reflexivity].
  apply bytes_eqb_eq in E. now apply clamp_nonzero in E.
Qed.

(* DeriveDiffieHellmanKeyPair for Curve25519 is RFC 7748 clamping of the seed, whatever the OPRF suite *)
Theorem x25519_derive_is_clamp h id seed : k_derive K_X25519 h id seed = Some (clamp seed).
Proof. reflexivity. Qed.

Theorem x25519_sk_valid b s : x_deser_sk b = Some s -> s = b /\ length b = 32 /\ clamp b = b /\ b <> zeros 32.
Proof.
  unfold x_deser_sk. destruct (Nat.eqb_spec (length b) 32); cbn [negb]; [|discriminate].
  destruct (bytes_eqb (clamp b) b) eqn:E1; cbn [negb]; [|discriminate].
  destruct (bytes_eqb b (zeros 32)) eqn:E2; [discriminate|]. intros [= <-].
  apply bytes_eqb_eq in E1. apply bytes_eqb_neq in E2. auto.
Qed.

(* ---------------------------------------------------------------- validators: X25519, ristretto255 *)
Theorem x25519_pk_valid b pk :
  x_deser_pk b = Some pk ->
  pk = b /\ length b = 32 /\ mont_is_identity b = false /\ mont_is_identity (mont_mul_bits 4 8 b) = false.
Proof.
  unfold x_deser_pk. destruct (Nat.eqb_spec (length b) 32); cbn [negb]; [|discriminate].
  destruct (mont_is_identity b) eqn:E1; [discriminate|].
  destruct (mont_is_identity (mont_mul_bits 4 8 b)) eqn:E2; [discriminate|]. intros [= <-]. auto.
Qed.

Theorem ristretto_pk_valid b e :
  rb_deser b = Some e -> e = b /\ length b = 32 /\ exists P, r_deser_gen false b = Some P.
Proof.
  intros H. pose proof (rb_deser_canon _ _ H) as [-> Hl]. split; [reflexivity|]. split; [assumption|].
  unfold rb_deser, rb_valid in H. destruct (r_deser_gen false b); [eauto | discriminate].
Qed.

(* the ristretto255 decoder with the identity filter never returns the identity encoding *)
Theorem ristretto_rejects_identity : rb_deser rb_identity = None.
Proof. vm_compute. reflexivity. Qed.

(* the small-order Curve25519 u-coordinates (canonical forms) are rejected *)
Theorem x25519_rejects_small_order :
  forallb (fun u => match x_deser_pk (Z_to_bytes_le 32 u) with None => true | Some _ => false end)
          [0; 1; p25519 - 1; p25519; p25519 + 1;
           325606250916557431795983626356110631294008115727848805560023387167927233504;
           39382357235489614581723060781553021112529911719440698176882885853963445705823]%Z = true.
Proof. vm_compute. reflexivity. Qed.
