(* The algebraic laws the generic theorems are parameterised by.
   [HashLaws] (output lengths) is PROVED for SHA-256/384/512 and HMAC in
   Theory/HashConcrete.v.  [GroupLaws] (the OPRF group and the key-exchange
   group behave as groups, encodings of valid values round-trip) is proved for
   the toy suite (Toy/Toy.v).  For the 20 concrete suites Theory/GroupSplit.v
   PROVES nine of its fifteen fields (samplers, hash-to-scalar, comparison, seeded
   key derivation, decoder validity via CodecLaws, shared-secret length) and
   collects the other six - facts of elliptic-curve arithmetic - in [CurveLaws],
   the only hypothesis left at a concrete suite (DESIGN.md 6: no elliptic-curve
   formalisation is available here); those six are what the correspondence
   check validates against the four Rust curve implementations. *)
From Coq Require Import List Arith Lia Bool.
From OKE Require Import Bytes Suite Generated.
Import ListNotations.

Record HashLaws (h : HashOps) : Prop := {
  hash_len : forall m, length (h_hash h m) = h_len h;
  hmac_len : forall k m, length (h_hmac h k m) = h_len h;
  h_len_pos : 0 < h_len h;
  h_len_small : h_len h <= 255;
}.

Section G.
  Context {E Sc Pk Sk : Type}.
  Variable CS : Suite E Sc Pk Sk.
  Let O := oprf CS.
  Let K := ke CS.

  (* valid = what the element-level decoder accepts and the encoder reproduces *)
  Definition ve (e : E) : Prop := o_deser_e O (o_ser_e O e) = Some e /\ length (o_ser_e O e) = o_Noe O.
  Definition vs (s : Sc) : Prop := o_deser_s O (o_ser_s O s) = Some s /\ length (o_ser_s O s) = o_Nok O.
  Definition vp (p : Pk) : Prop := k_deser_pk K (k_ser_pk K p) = Some p /\ length (k_ser_pk K p) = k_Npk K.
  Definition vk (s : Sk) : Prop := k_deser_sk K (k_ser_sk K s) = Some s /\ length (k_ser_sk K s) = k_Nsk K.

  Record GroupLaws : Prop := {
    (* OPRF group: prime order, scalars act on it *)
    g_mul_valid : forall P s, ve P -> vs s -> ve (o_mul O P s);
    g_mul_comm : forall P a b, ve P -> vs a -> vs b -> o_mul O (o_mul O P a) b = o_mul O (o_mul O P b) a;
    g_mul_inv : forall P r, ve P -> vs r -> o_mul O (o_mul O P r) (o_inv O r) = P;
    g_random_valid : forall t r t', o_random_scalar O t = Some (r, t') -> vs r;
    g_h2s_valid : forall m d, o_is_zero O (o_h2s O m d) = false -> vs (o_h2s O m d);
    g_eqb_eq : forall a b, o_eqb O a b = true <-> a = b;
    g_identity_invalid : forall P, ve P -> o_eqb O (o_identity O) P = false;
    g_deser_valid : forall b e, o_deser_e O b = Some e -> ve e;
    g_deser_s_valid : forall b s, length b = o_Nok O -> o_deser_s O b = Some s -> vs s;
    (* key-exchange group *)
    (* key derivation from a seed of the private-key length (what HKDF-Expand and the tape deliver) *)
    g_derive_valid : forall h id seed s, length seed = k_Nsk K -> k_derive K h id seed = Some s -> vk s;
    g_pub_valid : forall s, vk s -> vp (k_pub K s);
    g_dh_sym : forall a b, vk a -> vk b -> k_dh K (k_pub K a) b = k_dh K (k_pub K b) a;
    g_dh_len : forall p s, vp p -> vk s -> length (k_dh K p s) = k_Npk K;
    g_deser_pk_valid : forall b p, k_deser_pk K b = Some p -> vp p;
    g_deser_sk_valid : forall b s, length b = k_Nsk K -> k_deser_sk K b = Some s -> vk s;
  }.

  (* the suite's lengths fit HKDF-Expand *)
  Record SizeLaws : Prop := {
    sz_nok : o_Nok O <= 255 * h_len (hash CS);
    sz_nsk : k_Nsk K <= 255 * h_len (hash CS);
    sz_masked : k_Npk K + (ENVELOPE_NONCE_LEN + h_len (hash CS)) <= 255 * h_len (hash CS);
  }.
End G.
