(* C07 (distinct sessions, distinct keys): two sessions that release the same session key have the same
   transcript - in particular the same client nonce and ephemeral key (inside the request) and the same
   server nonce and ephemeral key - or an HMAC / hash collision is exhibited.  Sessions whose nonces were
   drawn from different tape ranges with different contents therefore have different keys. *)
From Coq Require Import List Arith Lia Bool NArith.
From Coq Require Import Init.Byte.
From OKE Require Import Bytes Suite Generated Hkdf Voprf Messages Envelope TripleDH Opaque.
From OKE Require Import ListLemmas BytesLemmas ResultLemmas Laws Layers Transcript Bad KeySchedule.
Import ListNotations.
Local Open Scope res_scope.

Section Fresh.
  Context {E Sc Pk Sk : Type}.
  Variable CS : Suite E Sc Pk Sk.
  Hypothesis HL : HashLaws (hash CS).

  Lemma label_info_inj label c c' i : label_info CS label c = Some i -> label_info CS label c' = Some i -> c = c'.
  Proof.
    unfold label_info. destruct (i2osp_nat 2 (h_len (hash CS))) as [a|]; [|discriminate].
    destruct (lenprefix 1 (STR_OPAQUE ++ label)) as [b|]; [|discriminate].
    destruct (lenprefix 1 c) as [x|] eqn:Ex; [|discriminate]. destruct (lenprefix 1 c') as [x'|] eqn:Ex'; [|discriminate].
    intros [= <-] [= H]. apply app_inv_head in H. apply app_inv_head in H. subst x'.
    eapply lenprefix_inj_nil; eauto.
  Qed.

  Theorem equal_session_keys_equal_transcripts a b c pre sk km2 km3 hs a' b' c' pre' sk' km2' km3' hs' :
    derive_3dh_keys CS a b c (h_hash (hash CS) pre) = Ok (sk, km2, km3, hs) ->
    derive_3dh_keys CS a' b' c' (h_hash (hash CS) pre') = Ok (sk', km2', km3', hs') ->
    sk = sk' -> pre = pre' \/ Bad (hash CS).
  Proof.
    unfold derive_3dh_keys. intros H H' Heq.
    apply bind_Ok in H as (hs0 & _ & H). apply bind_Ok in H as (sk0 & Hsk & H).
    apply bind_Ok in H as (k2 & _ & H). apply bind_Ok in H as (k3 & _ & H). injection H as <- _ _ _.
    apply bind_Ok in H' as (hs0' & _ & H'). apply bind_Ok in H' as (sk0' & Hsk' & H').
    apply bind_Ok in H' as (k2' & _ & H'). apply bind_Ok in H' as (k3' & _ & H'). injection H' as <- _ _ _.
    apply (hkdf_expand_label_value CS HL) in Hsk as (i & Hi & ->).
    apply (hkdf_expand_label_value CS HL) in Hsk' as (i' & Hi' & ->).
    apply (mac_inj (hash CS)) in Heq; [|unfold hkdf_extract; now rewrite !(hmac_len _ HL)].
    destruct Heq as [[_ Hm]|HB]; [|now right].
    apply app_inv_tail in Hm. subst i'.
    pose proof (label_info_inj _ _ _ _ Hi Hi') as Hh.
    destruct (list_eq_dec Byte.byte_eq_dec pre pre') as [->|Hne]; [now left|].
    right. exact (BadHash _ _ _ Hne Hh).
  Qed.

  (* with the transcript read back: same keys, same nonces and key shares *)
  Corollary equal_session_keys_equal_nonces
            a b c sk km2 km3 hs a' b' c' sk' km2' km3' hs'
            ctx u req s l2 n e pre ctx' u' req' s' l2' n' e' pre' iu is_ iu' is_' :
    lenprefix 2 iu = Some u -> lenprefix 2 is_ = Some s -> lenprefix 2 iu' = Some u' -> lenprefix 2 is_' = Some s' ->
    length req = length req' -> length l2 = length l2' -> length n = length n' ->
    preamble ctx u req s l2 n e = Ok pre -> preamble ctx' u' req' s' l2' n' e' = Ok pre' ->
    derive_3dh_keys CS a b c (h_hash (hash CS) pre) = Ok (sk, km2, km3, hs) ->
    derive_3dh_keys CS a' b' c' (h_hash (hash CS) pre') = Ok (sk', km2', km3', hs') ->
    sk = sk' -> (req = req' /\ n = n' /\ e = e') \/ Bad (hash CS).
  Proof.
    intros Hu Hs Hu' Hs' L1 L2 L3 Hp Hp' Hk Hk' Heq.
    destruct (equal_session_keys_equal_transcripts _ _ _ _ _ _ _ _ _ _ _ _ _ _ _ _ Hk Hk' Heq) as [->|HB]; [|now right].
    left. destruct (preamble_injective _ _ _ _ _ _ _ _ _ _ _ _ _ _ _ _ _ _ _ Hu Hs Hu' Hs' L1 L2 L3 Hp Hp') as (_ & _ & Hr & _ & _ & Hn & He).
    auto.
  Qed.
End Fresh.
