(* C01 / C16 over histories: in ANY world the adversary can reach - whatever else was started, finished, delivered or
   replayed before, in whatever order, all parties on one shared tape - an honest delivery completes.
   If client session i belongs to a user registered (honestly) under the world's setup with (pw, cred, ids), and server
   session j was started for that user's record on session i's own request, then delivering j's response to i makes the
   client accept with the registration's export key and server key, and delivering the client's finalization to j makes
   the server accept with the same session key.  The adversary cannot make an honestly routed login fail.
   From the invariant of Theory/CrashInv.v (every stored state is the output of the step that made it) and
   Theory/Honest.v (honest_login_agrees_any_tapes). *)
From Coq Require Import List Arith Lia Bool NArith.
From OKE Require Import Bytes Suite Generated Hkdf Voprf Messages Envelope TripleDH Opaque World WorldCrash.
From OKE Require Import ListLemmas BytesLemmas ResultLemmas Laws Honest WorldInv CrashInv.
Import ListNotations.
Local Open Scope res_scope.

Section HW.
  Context {E Sc Pk Sk : Type}.
  Variable CS : Suite E Sc Pk Sk.
  Hypothesis HL : HashLaws (hash CS).
  Hypothesis GL : GroupLaws CS.

  (* the invariant holds in every world reachable by plain steps *)
  Lemma reachable_made tape0 setup rest0 tape ops :
    server_setup_new CS tape0 = Ok (setup, rest0) ->
    (forall pw, In (OClientStart pw) ops -> good_pw CS pw) ->
    Made CS (run CS (@init E Sc Pk Sk setup tape) ops).
  Proof.
    intros Hs Hg. unfold run.
    assert (H : Made CS (@init E Sc Pk Sk setup tape)).
    { split; [exists tape0, rest0; exact Hs|]. split; constructor. }
    revert H Hg. generalize (@init E Sc Pk Sk setup tape).
    induction ops as [|o ops IH]; intros w H Hg; cbn [fold_left]; [exact H|].
    apply IH.
    - apply (Made_step CS); [exact H|]. intros pw ->. apply Hg. now left.
    - intros pw Hin. apply Hg. now right.
  Qed.

  Theorem honest_delivery_completes
          tape0 setup rest0 tape ops
          tr pw creg rq t2 cred rr tf ids upload ek spk t3 i c j s :
    server_setup_new CS tape0 = Ok (setup, rest0) ->
    (forall pw', In (OClientStart pw') ops -> good_pw CS pw') ->
    (* an honest registration under this setup (on tapes of its own) *)
    client_registration_start CS tr pw = Ok (creg, rq, t2) ->
    server_registration_start CS setup rq cred = Ok rr ->
    client_registration_finish CS creg tf pw rr ids None = Ok (upload, ek, spk, t3) ->
    let w := run CS (@init E Sc Pk Sk setup tape) ops in
    (* client session i is that user's; server session j was started for that user's record on i's own request *)
    nth_error (w_cli w) i = Some c -> cs_pw c = pw ->
    nth_error (w_srv w) j = Some s ->
    sv_file s = Some (server_registration_finish upload) -> sv_cred s = cred -> sv_ids s = ids ->
    sv_rq s = cl_request (cs_state c) ->
    o_eqb (oprf CS) (cq_blinded (sv_rq s)) (cr_eval (sv_resp s)) = false ->
    exists fin key dbg,
      client_login_finish CS (cs_state c) pw (sv_resp s) (sv_ctx s) ids None = Ok (fin, key, ek, spk, dbg) /\
      server_login_finish CS (sv_state s) fin = Ok key.
  Proof.
    intros Hs Hg Hrs Hsr Hrf w Hi Hpw Hj Hfile Hcred Hids Hrq Hnr.
    pose proof (reachable_made tape0 setup rest0 tape ops Hs Hg) as (_ & Hv & Hc). fold w in Hv, Hc.
    assert (Hsetup : w_setup w = setup) by (unfold w; apply setup_fixed).
    pose proof (proj1 (Forall_forall _ _) Hc c (nth_error_In _ _ Hi)) as (Hgood & tc & m & rest & Hcs).
    pose proof (proj1 (Forall_forall _ _) Hv s (nth_error_In _ _ Hj)) as (tv & restv & dbgv & Hss).
    rewrite Hsetup, Hfile, Hcred, Hids in Hss. rewrite Hpw in Hcs, Hgood.
    (* the message of the client's start step is its stored request *)
    assert (Hm : m = cl_request (cs_state c)).
    { unfold client_login_start in Hcs. apply bind_Ok in Hcs as ([[r b] t1] & _ & Hcs).
      apply bind_Ok in Hcs as ([[st ke1] t2'] & _ & Hcs). injection Hcs as Hst <- _. now rewrite <- Hst. }
    rewrite Hrq in Hss, Hnr. rewrite <- Hm in Hss, Hnr.
    destruct (honest_login_agrees_any_tapes CS HL GL _ _ _ _ _ _ _ _ _ _ _ _ _ _ _ _ _ _ _ _ _ _ _ _ _ _ _
                Hgood Hs Hrs Hsr Hrf Hcs Hss Hnr) as (fin & key & dbg & Hcf & Hsf & _).
    exists fin, key, dbg. split; assumption.
  Qed.
End HW.
