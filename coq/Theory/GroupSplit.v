(* GroupLaws, split into what is PROVED about the concrete suites and what stays a hypothesis.

   [GroupLaws] (Theory/Laws.v) has fifteen fields.  Nine of them are statements about encodings,
   samplers and derivations - byte-level code of the model - and are proved here for each of the 20
   concrete suites (three of them follow from [CodecLaws], already proved for the 20 suites).  The other
   six are facts of elliptic-curve arithmetic (the group is a group, point decompression inverts
   compression); they are collected in [CurveLaws], which is therefore the ONLY hypothesis the
   generic theorems carry when they are instantiated at a concrete suite:

       all_suites (fun CS => CurveLaws CS -> GroupLaws CS).

   No elliptic-curve formalisation is available in this sandbox and the primality of the field orders
   (needed for "a square has exactly two roots") is out of reach of vm_compute certificates we could
   write by hand; the correspondence check exercises exactly these six facts against the four Rust
   curve implementations (C09 primitives battery, C19 laws battery).  For the toy suite all fifteen
   are proved (Toy/Toy.v). *)
From Coq Require Import String.
From Coq Require Import List Arith Lia Bool ZArith NArith.
From Coq Require Import Init.Byte.
From OKE Require Import Bytes Suite Generated KeGroup Hkdf Sha2 Field Weierstrass Curve25519 Suites.
From OKE Require Import ListLemmas BytesLemmas ResultLemmas Codecs Laws CodecsConcrete GroupsConcrete.
Import ListNotations.

Section Split.
  Context {E Sc Pk Sk : Type}.
  Variable CS : Suite E Sc Pk Sk.

  (* elliptic-curve arithmetic: hypotheses for the concrete curves *)
  Record CurveLaws : Prop := {
    c_mul_valid : forall P s, ve CS P -> vs CS s -> ve CS (o_mul (oprf CS) P s);
    c_mul_comm : forall P a b, ve CS P -> vs CS a -> vs CS b ->
                 o_mul (oprf CS) (o_mul (oprf CS) P a) b = o_mul (oprf CS) (o_mul (oprf CS) P b) a;
    c_mul_inv : forall P r, ve CS P -> vs CS r -> o_mul (oprf CS) (o_mul (oprf CS) P r) (o_inv (oprf CS) r) = P;
    (* decompression inverts compression on decoded points *)
    c_deser_valid : forall b e, o_deser_e (oprf CS) b = Some e -> ve CS e;
    c_pub_valid : forall s, vk CS s -> vp CS (k_pub (ke CS) s);
    c_dh_sym : forall a b, vk CS a -> vk CS b -> k_dh (ke CS) (k_pub (ke CS) a) b = k_dh (ke CS) (k_pub (ke CS) b) a;
  }.

  (* samplers, hash-to-scalar, comparison, seeded derivation: proved below for the 20 suites *)
  Record EncodingLaws : Prop := {
    e_random_valid : forall t r t', o_random_scalar (oprf CS) t = Some (r, t') -> vs CS r;
    e_h2s_valid : forall m d, o_is_zero (oprf CS) (o_h2s (oprf CS) m d) = false -> vs CS (o_h2s (oprf CS) m d);
    e_eqb_eq : forall a b, o_eqb (oprf CS) a b = true <-> a = b;
    e_identity_invalid : forall P, ve CS P -> o_eqb (oprf CS) (o_identity (oprf CS)) P = false;
    e_derive_valid : forall h id seed s, length seed = k_Nsk (ke CS) -> k_derive (ke CS) h id seed = Some s -> vk CS s;
    (* a shared secret always has the length of a public key (even a degenerate one) *)
    e_dh_len : forall p s, length (k_dh (ke CS) p s) = k_Npk (ke CS);
  }.

  Theorem group_laws_from : CodecLaws CS -> EncodingLaws -> CurveLaws -> GroupLaws CS.
  Proof.
    intros CL EL CV. constructor.
    - exact (c_mul_valid CV).
    - exact (c_mul_comm CV).
    - exact (c_mul_inv CV).
    - exact (e_random_valid EL).
    - exact (e_h2s_valid EL).
    - exact (e_eqb_eq EL).
    - exact (e_identity_invalid EL).
    - exact (c_deser_valid CV).
    - intros b s Hl H. pose proof (os_canon CS CL b s Hl H) as Hc. split; rewrite Hc; assumption.
    - exact (e_derive_valid EL).
    - exact (c_pub_valid CV).
    - exact (c_dh_sym CV).
    - intros p s _ _. exact (e_dh_len EL p s).
    - intros b p H. pose proof (k_canon CS CL b p H) as Hc. split; rewrite Hc; [exact H | exact (k_pk_len CS CL b p H)].
    - intros b s Hl H. pose proof (ks_canon CS CL b s Hl H) as Hc. split; rewrite Hc; assumption.
  Qed.

  (* and back: the split loses nothing *)
  Theorem curve_laws_of : GroupLaws CS -> CurveLaws.
  Proof.
    intros GL. constructor.
    - exact (g_mul_valid CS GL).
    - exact (g_mul_comm CS GL).
    - exact (g_mul_inv CS GL).
    - exact (g_deser_valid CS GL).
    - exact (g_pub_valid CS GL).
    - exact (g_dh_sym CS GL).
  Qed.
End Split.

(* ---------------------------------------------------------------- per OPRF group / per KE group *)
Definition oprf_enc {E Sc} (O : OprfOps E Sc) : Prop :=
  (forall t r t', o_random_scalar O t = Some (r, t') -> o_deser_s O (o_ser_s O r) = Some r /\ length (o_ser_s O r) = o_Nok O) /\
  (forall m d, o_is_zero O (o_h2s O m d) = false ->
               o_deser_s O (o_ser_s O (o_h2s O m d)) = Some (o_h2s O m d) /\ length (o_ser_s O (o_h2s O m d)) = o_Nok O) /\
  (forall a b, o_eqb O a b = true <-> a = b) /\
  (forall P, o_deser_e O (o_ser_e O P) = Some P -> o_eqb O (o_identity O) P = false).

Definition ke_enc {Pk Sk} (K : KeOps Pk Sk) : Prop :=
  (forall h id seed s, length seed = k_Nsk K -> k_derive K h id seed = Some s ->
                       k_deser_sk K (k_ser_sk K s) = Some s /\ length (k_ser_sk K s) = k_Nsk K) /\
  (forall p s, length (k_dh K p s) = k_Npk K).

Lemma mk_suite_enc {E Sc Pk Sk} h (O : OprfOps E Sc) (K : KeOps Pk Sk) :
  oprf_enc O -> ke_enc K -> EncodingLaws (mk_suite h O K).
Proof.
  intros (H1 & H2 & H3 & H4) [H5 H6]. constructor; unfold vs, ve, vk; cbn [mk_suite oprf ke].
  - exact H1.
  - exact H2.
  - exact H3.
  - intros P [HP _]. exact (H4 P HP).
  - exact H5.
  - exact H6.
Qed.

(* ---------------------------------------------------------------- ristretto255 *)
Lemma r_random_fuel_valid fuel t r t' : r_random_scalar_fuel fuel t = Some (r, t') -> (0 < r < ell)%Z.
Proof.
  revert t. induction fuel as [|f IH]; intros t; cbn [r_random_scalar_fuel]; [discriminate|].
  destruct (length t <? 64); [discriminate|].
  destruct (Z.eqb_spec (bytes_to_Z_le (firstn 64 t) mod ell) 0) as [|Hz].
  - apply IH.
  - intros [= <- _]. pose proof (Z.mod_pos_bound (bytes_to_Z_le (firstn 64 t)) ell ltac:(unfold ell; lia)). lia.
Qed.

Lemma r_scalar_vs k : (0 < k < ell)%Z -> r_deser_scalar (r_ser_scalar k) = Some k /\ length (r_ser_scalar k) = 32.
Proof. intros H. split; [now apply r_scalar_roundtrip | unfold r_ser_scalar; apply Z_to_bytes_le_length]. Qed.

Lemma r_h2s_range h m d : r_is_zero (r_hash_to_scalar h m d) = false -> (0 < r_hash_to_scalar h m d < ell)%Z.
Proof.
  unfold r_is_zero, r_hash_to_scalar. intros Hz. apply Z.eqb_neq in Hz.
  pose proof (Z.mod_pos_bound (bytes_to_Z_le (expand_message_xmd h m d 64)) ell ltac:(unfold ell; lia)) as Hb.
  rewrite Z.mod_mod in Hz by (unfold ell; lia). lia.
Qed.

Lemma O_R255_enc : oprf_enc O_R255.
Proof.
  unfold oprf_enc, O_R255, oprf_ristretto;
    cbn [o_random_scalar o_deser_s o_ser_s o_Nok o_is_zero o_h2s o_eqb o_deser_e o_ser_e o_identity].
  split; [|split; [|split]].
  - intros t r t' H. unfold r_random_scalar in H. apply r_scalar_vs. eapply r_random_fuel_valid; exact H.
  - intros m d H. apply r_scalar_vs. now apply r_h2s_range.
  - apply bytes_eqb_eq.
  - intros P H. apply bytes_eqb_neq. intros <-. rewrite ristretto_rejects_identity in H. discriminate.
Qed.

(* decoded ristretto elements are valid (this CurveLaws field is provable for the ristretto OPRF) *)
Lemma O_R255_deser_valid b e : o_deser_e O_R255 b = Some e -> o_deser_e O_R255 (o_ser_e O_R255 e) = Some e /\ length (o_ser_e O_R255 e) = 32.
Proof. unfold O_R255, oprf_ristretto; cbn [o_deser_e o_ser_e]. intros H. pose proof (rb_deser_canon _ _ H) as [-> Hl]. split; assumption. Qed.

Lemma r_derive_loop_valid h prefix dst counter fuel k :
  derive_auth_loop (fun h' m d => Some (r_hash_to_scalar h' m d)) r_is_zero h prefix dst counter fuel = Some k ->
  (0 < k < ell)%Z.
Proof.
  revert counter. induction fuel as [|f IH]; intros counter; cbn [derive_auth_loop]; [discriminate|].
  destruct (r_is_zero (r_hash_to_scalar h (prefix ++ [byte_of_nat counter]) dst)) eqn:Hz.
  - apply IH.
  - intros [= <-]. now apply r_h2s_range.
Qed.

Lemma r_ser_length P : length (r_ser P) = 32.
Proof. unfold r_ser. destruct P as [[[X Y] Z0] T]. apply Z_to_bytes_le_length. Qed.

Lemma K_R255_enc : ke_enc K_R255.
Proof.
  split; [|intros p s; cbn [K_R255 ke_ristretto k_dh k_Npk]; unfold rb_mul; apply r_ser_length].
  intros h id seed s _ H. cbn [K_R255 ke_ristretto k_derive k_deser_sk k_ser_sk k_Nsk] in *.
  unfold derive_auth_keypair_default in H. destruct (i2osp_nat 2 _); [|discriminate].
  apply r_derive_loop_valid in H. now apply r_scalar_vs.
Qed.

(* ---------------------------------------------------------------- Curve25519 *)
Lemma mont_mul_bits_length n k u : length (mont_mul_bits n k u) = 32.
Proof.
  unfold mont_mul_bits. destruct (ladder _ _ _ _) as [[[[x2 z2] x3] z3] swap].
  destruct (swap =? 1)%Z; apply Z_to_bytes_le_length.
Qed.

Lemma K_X25519_enc : ke_enc K_X25519.
Proof.
  split; [|intros p s; cbn [K_X25519 ke_x25519 k_dh k_Npk]; unfold x25519; apply mont_mul_bits_length].
  intros h id seed s Hl H. cbn [K_X25519 ke_x25519 k_derive k_deser_sk k_ser_sk k_Nsk] in *.
  injection H as <-. split; [now apply x25519_clamped_is_valid_key | now apply clamp_length].
Qed.

(* ---------------------------------------------------------------- NIST curves *)
Section W.
  Variable C : wcurve.
  Hypothesis order_fits : (0 < w_n C < 256 ^ Z.of_nat (w_Nfe C))%Z.
  Hypothesis p_pos : (0 < w_p C)%Z.

  Lemma w_scalar_vs k : (0 < k < w_n C)%Z -> w_deser_scalar C (w_ser_scalar C k) = Some k /\ length (w_ser_scalar C k) = w_Nfe C.
  Proof. intros H. split; [now apply w_scalar_roundtrip | unfold w_ser_scalar; apply Z_to_bytes_be_length]. Qed.

  Lemma w_random_fuel_valid fuel t r t' : w_random_scalar_fuel C fuel t = Some (r, t') -> (0 < r < w_n C)%Z.
  Proof.
    revert t. induction fuel as [|f IH]; intros t; cbn [w_random_scalar_fuel]; [discriminate|].
    destruct (length t <? w_Nfe C); [discriminate|].
    destruct (Z.ltb_spec 0 (bytes_to_Z_be (firstn (w_Nfe C) t))) as [H0|]; cbn [andb]; [|apply IH].
    destruct (Z.ltb_spec (bytes_to_Z_be (firstn (w_Nfe C) t)) (w_n C)) as [H1|]; [|apply IH].
    intros [= <- _]. lia.
  Qed.

  Lemma w_h2s_range h m d : w_is_zero C (w_hash_to_scalar C h m d) = false -> (0 < w_hash_to_scalar C h m d < w_n C)%Z.
  Proof.
    unfold w_is_zero. intros Hz. apply Z.eqb_neq in Hz.
    assert (Hx : (0 <= w_hash_to_scalar C h m d < w_n C)%Z).
    { unfold w_hash_to_scalar, hash_to_field.
      destruct (split_reduce 1 (w_L C) (w_n C) _) as [|k0 [|? ?]] eqn:Hs; try lia.
      cbn [split_reduce] in Hs. injection Hs as <-. apply Z.mod_pos_bound. lia. }
    rewrite Z.mod_small in Hz by assumption. lia.
  Qed.

  Lemma w_eqb_eq (P Q : wpoint) : w_eqb P Q = true <-> P = Q.
  Proof.
    destruct P as [[x1 y1]|], Q as [[x2 y2]|]; cbn [w_eqb]; try (split; [discriminate | intros [=]]); try tauto.
    rewrite andb_true_iff, !Z.eqb_eq. split; [intros [-> ->]; reflexivity | intros [= -> ->]; auto].
  Qed.

  Lemma O_W_enc h id : oprf_enc (oprf_weierstrass C h id).
  Proof.
    unfold oprf_enc, oprf_weierstrass;
      cbn [o_random_scalar o_deser_s o_ser_s o_Nok o_is_zero o_h2s o_eqb o_deser_e o_ser_e o_identity].
    split; [|split; [|split]].
    - intros t r t' H. unfold w_random_scalar in H. apply w_scalar_vs. eapply w_random_fuel_valid; exact H.
    - intros m d H. apply w_scalar_vs. now apply w_h2s_range.
    - apply w_eqb_eq.
    - intros P H. destruct P as [[x y]|]; [reflexivity|].
      apply (w_decoder_only_accepts_curve_points C p_pos) in H as (_ & x & y & Hc & _). discriminate.
  Qed.

  Lemma K_W_enc : ke_enc (ke_weierstrass C).
  Proof.
    split; [|intros p s; cbn [ke_weierstrass k_dh k_Npk]; apply w_ser_length].
    intros h id seed s _ H. pose proof (w_derive_valid C order_fits h id seed s H) as [Hr Hd].
    split; [exact Hd | cbn; unfold w_ser_scalar; apply Z_to_bytes_be_length].
  Qed.
End W.

Lemma P256_p_pos : (0 < w_p P256)%Z. Proof. cbn. lia. Qed.
Lemma P384_p_pos : (0 < w_p P384)%Z. Proof. cbn. lia. Qed.
Lemma P521_p_pos : (0 < w_p P521)%Z. Proof. cbn. lia. Qed.

(* ---------------------------------------------------------------- the 20 suites *)
Lemma OE_R255 : oprf_enc O_R255. Proof. exact O_R255_enc. Qed.
Lemma OE_P256 : oprf_enc O_P256. Proof. exact (O_W_enc P256 P256_order_fits P256_p_pos SHA256 "P256-SHA256"). Qed.
Lemma OE_P384 : oprf_enc O_P384. Proof. exact (O_W_enc P384 P384_order_fits P384_p_pos SHA384 "P384-SHA384"). Qed.
Lemma OE_P521 : oprf_enc O_P521. Proof. exact (O_W_enc P521 P521_order_fits P521_p_pos SHA512 "P521-SHA512"). Qed.
Lemma KE_R255 : ke_enc K_R255. Proof. exact K_R255_enc. Qed.
Lemma KE_X25519 : ke_enc K_X25519. Proof. exact K_X25519_enc. Qed.
Lemma KE_P256 : ke_enc K_P256. Proof. exact (K_W_enc P256 P256_order_fits). Qed.
Lemma KE_P384 : ke_enc K_P384. Proof. exact (K_W_enc P384 P384_order_fits). Qed.
Lemma KE_P521 : ke_enc K_P521. Proof. exact (K_W_enc P521 P521_order_fits). Qed.

Theorem encoding_laws_20 : all_suites (fun _ _ _ _ CS => EncodingLaws CS).
Proof.
  unfold all_suites.
  repeat match goal with |- _ /\ _ => split end.
  - exact (mk_suite_enc SHA512 O_R255 K_R255 OE_R255 KE_R255).
  - exact (mk_suite_enc SHA512 O_R255 K_P256 OE_R255 KE_P256).
  - exact (mk_suite_enc SHA512 O_R255 K_P384 OE_R255 KE_P384).
  - exact (mk_suite_enc SHA512 O_R255 K_P521 OE_R255 KE_P521).
  - exact (mk_suite_enc SHA512 O_R255 K_X25519 OE_R255 KE_X25519).
  - exact (mk_suite_enc SHA256 O_P256 K_R255 OE_P256 KE_R255).
  - exact (mk_suite_enc SHA256 O_P256 K_P256 OE_P256 KE_P256).
  - exact (mk_suite_enc SHA256 O_P256 K_P384 OE_P256 KE_P384).
  - exact (mk_suite_enc SHA256 O_P256 K_P521 OE_P256 KE_P521).
  - exact (mk_suite_enc SHA256 O_P256 K_X25519 OE_P256 KE_X25519).
  - exact (mk_suite_enc SHA384 O_P384 K_R255 OE_P384 KE_R255).
  - exact (mk_suite_enc SHA384 O_P384 K_P256 OE_P384 KE_P256).
  - exact (mk_suite_enc SHA384 O_P384 K_P384 OE_P384 KE_P384).
  - exact (mk_suite_enc SHA384 O_P384 K_P521 OE_P384 KE_P521).
  - exact (mk_suite_enc SHA384 O_P384 K_X25519 OE_P384 KE_X25519).
  - exact (mk_suite_enc SHA512 O_P521 K_R255 OE_P521 KE_R255).
  - exact (mk_suite_enc SHA512 O_P521 K_P256 OE_P521 KE_P256).
  - exact (mk_suite_enc SHA512 O_P521 K_P384 OE_P521 KE_P384).
  - exact (mk_suite_enc SHA512 O_P521 K_P521 OE_P521 KE_P521).
  - exact (mk_suite_enc SHA512 O_P521 K_X25519 OE_P521 KE_X25519).
Qed.

(* the hypothesis the generic theorems carry at a concrete suite is CurveLaws alone *)
Theorem group_laws_20 : all_suites (fun _ _ _ _ CS => CurveLaws CS -> GroupLaws CS).
Proof.
  pose proof codec_laws_20 as HC. pose proof encoding_laws_20 as HE. unfold all_suites in *.
  repeat match goal with H : _ /\ _ |- _ => destruct H end.
  repeat match goal with |- _ /\ _ => split end; intros CV; apply group_laws_from; assumption.
Qed.
