(* C17: which bytes of the caller's random tape each operation reads, in which order, and what each
   range becomes.  Nonces, seeds and the fake masking key are COPIES of their own range; key pairs are
   DeriveDiffieHellmanKeyPair of theirs; nothing else is read (the rest of the tape is returned untouched).
   Determinism itself is definitional: every operation of the model is a function of its arguments and
   the tape.  (The OPRF blind is the group's random_scalar of the tape's head; its layout is stated in
   Concrete terms by the correspondence check, which compares tape positions byte for byte.) *)
From Coq Require Import List Arith Lia Bool NArith.
From OKE Require Import Bytes Suite Generated Hkdf Voprf Messages Envelope TripleDH Opaque.
From OKE Require Import ListLemmas BytesLemmas ResultLemmas.
Import ListNotations.
Local Open Scope res_scope.

Arguments firstn : simpl never.
Arguments skipn : simpl never.

Section Layout.
  Context {E Sc Pk Sk : Type}.
  Variable CS : Suite E Sc Pk Sk.

  Lemma take_split (t : bytes) n : n <= length t -> t = firstn n t ++ skipn n t /\ length (firstn n t) = n.
  Proof. intros H. split; [symmetry; apply firstn_skipn | now apply length_firstn_le]. Qed.

  Lemma generate_nonce_layout t n r :
    generate_nonce t = Ok (n, r) -> t = n ++ r /\ length n = KE_NONCE_LEN.
  Proof.
    unfold generate_nonce. destruct (Nat.ltb_spec (length t) KE_NONCE_LEN); [discriminate|].
    intros [= <- <-]. now apply take_split.
  Qed.

  Lemma keypair_generate_random_layout t kp r :
    keypair_generate_random CS t = Ok (kp, r) ->
    exists seed, t = seed ++ r /\ length seed = k_Nsk (ke CS) /\
                 k_derive (ke CS) (hash CS) (o_id (oprf CS)) seed = Some (kp_sk kp) /\
                 kp_pk kp = k_pub (ke CS) (kp_sk kp).
  Proof.
    unfold keypair_generate_random. destruct (Nat.ltb_spec (length t) (k_Nsk (ke CS))); [discriminate|].
    destruct (k_derive _ _ _ _) as [s|] eqn:Hs; [|discriminate]. intros [= <- <-].
    exists (firstn (k_Nsk (ke CS)) t). destruct (take_split t (k_Nsk (ke CS))) as [Hs1 Hs2]; [assumption|]. auto.
  Qed.

  (* ServerSetup::new: static-key seed, OPRF seed, fake-key seed - in that order *)
  Theorem server_setup_new_layout tape setup rest :
    server_setup_new CS tape = Ok (setup, rest) ->
    exists s1 seed s2,
      tape = s1 ++ seed ++ s2 ++ rest /\
      length s1 = k_Nsk (ke CS) /\ length seed = h_len (hash CS) /\ length s2 = k_Nsk (ke CS) /\
      ss_oprf_seed setup = seed /\
      k_derive (ke CS) (hash CS) (o_id (oprf CS)) s1 = Some (kp_sk (ss_keypair setup)) /\
      k_derive (ke CS) (hash CS) (o_id (oprf CS)) s2 = Some (kp_sk (ss_fake_keypair setup)).
  Proof.
    unfold server_setup_new. intros H.
    apply bind_Ok in H as ([kp t1] & Hkp & H).
    destruct (Nat.ltb_spec (length t1) (h_len (hash CS))); [discriminate|].
    apply bind_Ok in H as ([fk t2] & Hfk & H). injection H as <- <-.
    apply keypair_generate_random_layout in Hkp as (s1 & -> & L1 & D1 & _).
    apply keypair_generate_random_layout in Hfk as (s2 & Hs2 & L2 & D2 & _).
    destruct (take_split t1 (h_len (hash CS))) as [Ht1 Lh]; [assumption|].
    exists s1, (firstn (h_len (hash CS)) t1), s2. cbn. repeat split; auto.
    rewrite <- Hs2. now rewrite <- Ht1.
  Qed.

  (* registration finish: the envelope nonce is the first 32 bytes, nothing else is read *)
  Theorem envelope_seal_layout tape rp spk ids env cpk ek rest :
    envelope_seal CS tape rp spk ids = Ok (env, cpk, ek, rest) ->
    tape = env_nonce env ++ rest /\ length (env_nonce env) = ENVELOPE_NONCE_LEN.
  Proof.
    unfold envelope_seal. destruct (Nat.ltb_spec (length tape) ENVELOPE_NONCE_LEN) as [|Hlen]; [discriminate|]. intros H.
    apply bind_Ok in H as (kp & _ & H). apply bind_Ok in H as ([u s] & _ & H).
    apply bind_Ok in H as ([ak ek0] & _ & H). injection H as <- _ _ <-. cbn [env_nonce].
    now apply take_split.
  Qed.

  (* login start, after the blind: ephemeral-key seed, then the client nonce *)
  Theorem generate_ke1_layout tape st m rest :
    generate_ke1 CS tape = Ok (st, m, rest) ->
    exists seed, tape = seed ++ k1_nonce m ++ rest /\ length seed = k_Nsk (ke CS) /\ length (k1_nonce m) = KE_NONCE_LEN /\
      k_derive (ke CS) (hash CS) (o_id (oprf CS)) seed = Some (k1s_client_e_sk st) /\
      k1_client_e_pk m = k_pub (ke CS) (k1s_client_e_sk st) /\ k1s_nonce st = k1_nonce m.
  Proof.
    unfold generate_ke1. intros H.
    apply bind_Ok in H as ([kp t1] & Hkp & H). apply bind_Ok in H as ([n t2] & Hn & H). injection H as <- <- <-.
    apply keypair_generate_random_layout in Hkp as (seed & -> & L & D & P).
    apply generate_nonce_layout in Hn as [-> Ln]. exists seed. cbn. repeat split; auto.
  Qed.

  (* server login start with a record: masking nonce, ephemeral-key seed, server nonce;
     without a record the fake masking key comes first *)
  Theorem server_login_start_layout {S} (SK : SkOps Pk S) tape setup file rq cred ctx ids st resp rest dbg :
    server_login_start CS SK tape setup file rq cred ctx ids = Ok (st, resp, rest, dbg) ->
    exists fmk eseed,
      tape = fmk ++ cr_masking_nonce resp ++ eseed ++ k2_nonce (cr_ke2 resp) ++ rest /\
      length fmk = (match file with Some _ => 0 | None => h_len (hash CS) end) /\
      length (cr_masking_nonce resp) = KE_NONCE_LEN /\ length eseed = k_Nsk (ke CS) /\
      length (k2_nonce (cr_ke2 resp)) = KE_NONCE_LEN /\
      (exists esk, k_derive (ke CS) (hash CS) (o_id (oprf CS)) eseed = Some esk /\
                   k2_server_e_pk (cr_ke2 resp) = k_pub (ke CS) esk).
  Proof.
    unfold server_login_start. intros H.
    apply bind_Ok in H as ([rec t0] & Hrec & H).
    apply bind_Ok in H as (spk & _ & H).
    destruct (Nat.ltb_spec (length t0) KE_NONCE_LEN); [discriminate|].
    apply bind_Ok in H as (masked & _ & H). apply bind_Ok in H as ([u s] & _ & H).
    apply bind_Ok in H as (ev & _ & H). apply bind_Ok in H as ([[[st0 ke2] t2] d] & Hke2 & H).
    injection H as <- <- <- <-. cbn [cr_masking_nonce cr_ke2].
    unfold generate_ke2 in Hke2.
    apply bind_Ok in Hke2 as ([ekp t1] & Hkp & Hke2). apply bind_Ok in Hke2 as ([sn t3] & Hn & Hke2).
    apply bind_Ok in Hke2 as (pre & _ & Hke2). apply bind_Ok in Hke2 as (dh2 & _ & Hke2).
    apply bind_Ok in Hke2 as ([[[sk km2] km3] hs] & _ & Hke2). injection Hke2 as <- <- <- <-.
    cbn [k2_nonce k2_server_e_pk].
    apply keypair_generate_random_layout in Hkp as (eseed & Ht & Le & D & P).
    apply generate_nonce_layout in Hn as [-> Ln].
    destruct (take_split t0 KE_NONCE_LEN) as [Ht0 Lm]; [assumption|].
    assert (Hfm : exists fmk, tape = fmk ++ t0 /\ length fmk = match file with Some _ => 0 | None => h_len (hash CS) end).
    { destruct file as [f|].
      - injection Hrec as <- <-. exists []. auto.
      - unfold registration_upload_dummy in Hrec.
        destruct (Nat.ltb_spec (length tape) (h_len (hash CS))); [discriminate|]. injection Hrec as <- <-.
        exists (firstn (h_len (hash CS)) tape). now apply take_split. }
    destruct Hfm as (fmk & -> & Lf).
    exists fmk, eseed. repeat split; auto.
    - rewrite Ht0 at 1. now rewrite Ht.
    - eauto.
  Qed.

  (* the fake record's masking key is a copy of the first Nh tape bytes *)
  Theorem fake_masking_key_is_tape tape {S} (setup : ServerSetup Pk Sk S) rec rest :
    registration_upload_dummy CS tape setup = Ok (rec, rest) ->
    tape = ru_masking_key rec ++ rest /\ length (ru_masking_key rec) = h_len (hash CS) /\
    ru_client_s_pk rec = kp_pk (ss_fake_keypair setup) /\ ru_envelope rec = envelope_dummy CS.
  Proof.
    unfold registration_upload_dummy. destruct (Nat.ltb_spec (length tape) (h_len (hash CS))); [discriminate|].
    intros [= <- <-]. cbn. destruct (take_split tape (h_len (hash CS))); auto.
  Qed.
End Layout.
