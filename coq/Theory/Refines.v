(* C09: the code-shaped model computes the functions of RFC 9807 / RFC 9497 as transcribed in Spec/Rfc.v
   (same formulas, with the suite's own lengths, hash and OPRF context string).  Error values are
   forgotten ([to_opt]): the RFC functions are partial, the model names the error. *)
From Coq Require Import String.
From Coq Require Import List Arith Lia Bool NArith.
From Coq Require Import Init.Byte.
From OKE Require Import Bytes Suite Generated Labels Hkdf Voprf Messages Envelope TripleDH Opaque.
From OKE Require Import ListLemmas BytesLemmas ResultLemmas Laws Layers Codecs Rfc.
Import ListNotations.
Local Open Scope res_scope.

Definition to_opt {A} (r : result A) : option A := match r with Ok a => Some a | Err _ => None end.

Section Refines.
  Context {E Sc Pk Sk : Type}.
  Variable CS : Suite E Sc Pk Sk.

  Lemma vec16_lenprefix x : vec16 x = lenprefix 2 x.
  Proof. reflexivity. Qed.
  Lemma vec8_lenprefix x : vec8 x = lenprefix 1 x.
  Proof. reflexivity. Qed.

  (* Extract("", ikm) with the empty salt = Nh zero bytes *)
  Theorem extract_refines ikm : hkdf_extract (hash CS) None ikm = Extract CS [] ikm.
  Proof. reflexivity. Qed.

  (* Expand-Label with the CustomLabel structure *)
  Theorem expand_label_refines secret label context :
    to_opt (hkdf_expand_label CS secret label context) = Expand_Label CS secret label context (h_len (hash CS)).
  Proof.
    unfold hkdf_expand_label, Expand_Label, CustomLabel, I2OSP, vec8, I2OSP, lenprefix.
    change (bytes_of_string "OPAQUE-"%string) with STR_OPAQUE.
    destruct (i2osp_nat 2 (h_len (hash CS))); [|reflexivity]. cbn [of_option bind].
    destruct (i2osp_nat 1 (length (STR_OPAQUE ++ label))); [|reflexivity]. cbn [of_option bind].
    destruct (i2osp_nat 1 (length context)); [|reflexivity]. cbn [of_option bind].
    unfold Expand. destruct (hkdf_expand _ _ _ _); reflexivity.
  Qed.

  (* the transcript is the RFC's Preamble *)
  Theorem preamble_refines context cid sid u s ke1 resp nonce keyshare :
    lenprefix 2 cid = Some u -> lenprefix 2 sid = Some s ->
    to_opt (preamble context u ke1 s resp nonce keyshare) = Preamble context cid ke1 sid resp nonce keyshare.
  Proof.
    intros Hu Hs. unfold preamble, Preamble.
    change (vec16 cid) with (lenprefix 2 cid). change (vec16 sid) with (lenprefix 2 sid).
    change (vec16 context) with (lenprefix 2 context). rewrite Hu, Hs.
    change (bytes_of_string "OPAQUEv1-"%string) with STR_CONTEXT.
    destruct (lenprefix 2 context); reflexivity.
  Qed.

  (* DeriveKeys(ikm = dh1 || dh2 || dh3, preamble) *)
  Theorem derive_keys_refines (HL : HashLaws (hash CS)) dh1 dh2 dh3 pre :
    to_opt (derive_3dh_keys CS dh1 dh2 dh3 (h_hash (hash CS) pre)) =
    option_map (fun k => (rfc_session_key k, Km2 k, Km3 k, rfc_handshake_secret k)) (DeriveKeys CS (dh1 ++ dh2 ++ dh3) pre).
  Proof.
    unfold derive_3dh_keys, DeriveKeys, Derive_Secret, Hash.
    change (bytes_of_string "HandshakeSecret"%string) with STR_HANDSHAKE_SECRET.
    change (bytes_of_string "SessionKey"%string) with STR_SESSION_KEY.
    change (bytes_of_string "ServerMAC"%string) with STR_SERVER_MAC.
    change (bytes_of_string "ClientMAC"%string) with STR_CLIENT_MAC.
    rewrite <- !expand_label_refines, <- extract_refines.
    destruct (hkdf_expand_label CS _ STR_HANDSHAKE_SECRET _) as [hs|] eqn:Hhs; [|reflexivity]. cbn [bind to_opt].
    destruct (hkdf_expand_label CS _ STR_SESSION_KEY _) as [sk|]; [|reflexivity]. cbn [bind to_opt].
    unfold hkdf_expand_label_from_prk.
    pose proof (Reload_len := I). clear Reload_len.
    assert (Hl : length hs = h_len (hash CS)).
    { unfold hkdf_expand_label in Hhs. inv_res. eapply hkdf_expand_length; eauto. }
    rewrite Hl, Nat.ltb_irrefl. rewrite <- !expand_label_refines.
    destruct (hkdf_expand_label CS hs STR_SERVER_MAC []) as [k2|]; [|reflexivity]. cbn [bind to_opt].
    destruct (hkdf_expand_label CS hs STR_CLIENT_MAC []) as [k3|]; reflexivity.
  Qed.

  (* the data authenticated by the envelope is the RFC's CleartextCredentials structure *)
  Theorem cleartext_credentials_refines ids cpk spk u s :
    bytestrings_from_identifiers ids cpk spk = Ok (u, s) ->
    CreateCleartextCredentials spk cpk (id_server ids) (id_client ids) = Some (construct_aad u s spk).
  Proof.
    unfold bytestrings_from_identifiers, CreateCleartextCredentials, construct_aad.
    change vec16 with (lenprefix 2). intros H.
    destruct (lenprefix 2 match id_client ids with Some c => c | None => cpk end) as [u0|]; [|discriminate]. cbn [of_option bind] in H.
    destruct (lenprefix 2 match id_server ids with Some c => c | None => spk end) as [s0|]; [|discriminate]. cbn [of_option bind] in H.
    injection H as <- <-.
    destruct (id_server ids), (id_client ids); reflexivity.
  Qed.

  (* OPRF Finalize: the model writes the element length as the suite constant Noe *)
  Theorem finalize_refines input blind ev :
    length (o_ser_e (oprf CS) (o_mul (oprf CS) ev (o_inv (oprf CS) blind))) = o_Noe (oprf CS) ->
    (N.of_nat (o_Noe (oprf CS)) < 65536)%N ->
    to_opt (voprf_finalize (hash CS) (oprf CS) blind input ev) = Finalize CS input blind ev.
  Proof.
    intros Hl Hn. unfold voprf_finalize, Finalize, vec16, I2OSP. rewrite Hl.
    destruct (i2osp_nat 2 (length input)); [|reflexivity]. cbn [to_opt].
    unfold i2osp_nat, i2osp. change (256 ^ N.of_nat 2)%N with 65536%N.
    destruct (N.ltb_spec (N.of_nat (o_Noe (oprf CS))) 65536); [|lia].
    unfold Hash. change (bytes_of_string "Finalize"%string) with STR_FINALIZE. now rewrite <- !app_assoc.
  Qed.

  (* OPRF DeriveKeyPair, with contextString = "OPRFV1-" || 0x00 || "-" || identifier *)
  Lemma derive_key_loop_refines prefix counter fuel :
    to_opt (derive_key_loop (oprf CS) prefix counter fuel) = DeriveKeyPair_loop CS prefix counter fuel.
  Proof.
    revert counter. induction fuel as [|f IH]; intros counter; cbn [derive_key_loop DeriveKeyPair_loop]; [reflexivity|].
    change (bytes_of_string "DeriveKeyPair" ++ contextString CS) with (dst_derive_keypair (oprf CS)).
    destruct (o_is_zero (oprf CS) _); [apply IH | reflexivity].
  Qed.

  Theorem derive_key_pair_refines seed info :
    to_opt (voprf_derive_key (oprf CS) seed info) = DeriveKeyPair CS seed info.
  Proof.
    unfold voprf_derive_key, DeriveKeyPair, vec16, I2OSP.
    destruct (i2osp_nat 2 (length info)); [|reflexivity]. apply derive_key_loop_refines.
  Qed.

  (* the server's MAC check *)
  Theorem server_finish_refines st fin :
    to_opt (server_login_finish CS st fin) =
    ServerFinish (h_hmac (hash CS) (sl_km3 st) (sl_hashed_transcript st)) (sl_session_key st) (cf_mac fin).
  Proof.
    unfold server_login_finish, finish_ke, ServerFinish.
    destruct (bytes_eqb (h_hmac _ _ _) (cf_mac fin)) eqn:E1; destruct (bytes_eqb (cf_mac fin) _) eqn:E2; try reflexivity.
    - apply bytes_eqb_eq in E1. apply bytes_eqb_neq in E2. congruence.
    - apply bytes_eqb_eq in E2. apply bytes_eqb_neq in E1. congruence.
  Qed.

  (* the state kept by the server is (Km3, Hash(preamble || server_mac), session_key): the RFC's
     expected_client_mac is the MAC of the second under the first *)
  Theorem expected_client_mac_refines (k : Keys) pre :
    expected_client_mac CS k pre = h_hmac (hash CS) (Km3 k) (h_hash (hash CS) (pre ++ h_hmac (hash CS) (Km2 k) (h_hash (hash CS) pre))).
  Proof. reflexivity. Qed.

  (* masking of the credential response *)
  Theorem masked_response_refines mk nonce spk env m :
    mask_response CS mk nonce spk env = Ok m -> h_len (hash CS) <= length mk ->
    Rfc.masked_response CS mk nonce (k_ser_pk (ke CS) spk) (envelope_serialize env) =
      Some (xor_bytes (match masking_pad CS mk nonce with Ok p => p | Err _ => [] end) (k_ser_pk (ke CS) spk ++ envelope_serialize env)).
  Proof.
    intros H Hl. unfold Rfc.masked_response, Expand, masking_pad, hkdf_from_prk_expand, masked_response_len.
    destruct (Nat.ltb_spec (length mk) (h_len (hash CS))); [lia|].
    change (bytes_of_string "CredentialResponsePad"%string) with STR_CREDENTIAL_RESPONSE_PAD.
    unfold mask_response, masking_pad, hkdf_from_prk_expand, masked_response_len in H.
    destruct (Nat.ltb_spec (length mk) (h_len (hash CS))); [lia|].
    replace (k_Npk (ke CS) + 32 + h_len (hash CS)) with (KE_NONCE_LEN + h_len (hash CS) + k_Npk (ke CS)) by (change KE_NONCE_LEN with 32; lia).
    destruct (hkdf_expand _ _ _ _); [reflexivity | discriminate].
  Qed.
End Refines.
