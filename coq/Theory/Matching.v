(* C07 / C04(iii): matched conversations, pairwise.
   (1) If a client accepts a response whose MAC field equals the MAC of an honest server session, then the
       two transcripts are equal - so that server session consumed THIS client's request, the response is
       that session's response (every field), and context and identities agree - or a collision of HMAC /
       of the hash is exhibited.
   (2) If a server session accepts a finalization produced by a client run, then that run's transcript
       (including the server MAC it verified) is this session's transcript - or a collision is exhibited.
   No assumption on how messages were routed: the adversary may deliver anything to anyone. *)
From Coq Require Import List Arith Lia Bool NArith.
From Coq Require Import Init.Byte.
From OKE Require Import Bytes Suite Generated Hkdf Voprf Messages Envelope TripleDH Opaque.
From OKE Require Import ListLemmas BytesLemmas ResultLemmas Laws Layers Transcript Bad ClientAccept KeySchedule Accept.
Import ListNotations.
Local Open Scope res_scope.

Section Matching.
  Context {E Sc Pk Sk : Type}.
  Variable CS : Suite E Sc Pk Sk.
  Hypothesis HL : HashLaws (hash CS).

  (* (1) equal server MACs: equal transcripts (and equal key-schedule inputs) *)
  Theorem equal_server_mac_equal_transcript
          a b c pre sk km2 km3 hs a' b' c' pre' sk' km2' km3' hs' :
    derive_3dh_keys CS a b c (h_hash (hash CS) pre) = Ok (sk, km2, km3, hs) ->
    derive_3dh_keys CS a' b' c' (h_hash (hash CS) pre') = Ok (sk', km2', km3', hs') ->
    h_hmac (hash CS) km2 (h_hash (hash CS) pre) = h_hmac (hash CS) km2' (h_hash (hash CS) pre') ->
    (pre = pre' /\ a ++ b ++ c = a' ++ b' ++ c' /\ sk = sk' /\ km3 = km3') \/ Bad (hash CS).
  Proof.
    intros H H' Hm.
    destruct (server_mac_determines_inputs CS HL _ _ _ _ _ _ _ _ _ _ _ _ _ _ _ _ H H' Hm) as [(Hd & Hh & Hs & Hk)|HB]; [|now right].
    destruct (list_eq_dec Byte.byte_eq_dec pre pre') as [->|Hne]; [left; auto|].
    right. exact (BadHash _ _ _ Hne Hh).
  Qed.

  (* the transcript, read back: who talked to whom *)
  Theorem equal_transcripts_same_conversation
          ctx ids cpk spk u s req l2 n e pre ctx' ids' cpk' spk' u' s' req' l2' n' e' :
    bytestrings_from_identifiers ids cpk spk = Ok (u, s) ->
    bytestrings_from_identifiers ids' cpk' spk' = Ok (u', s') ->
    length req = length req' -> length l2 = length l2' -> length n = length n' ->
    preamble ctx u req s l2 n e = Ok pre ->
    preamble ctx' u' req' s' l2' n' e' = Ok pre ->
    ctx = ctx' /\ effective (id_client ids) cpk = effective (id_client ids') cpk' /\
    effective (id_server ids) spk = effective (id_server ids') spk' /\
    req = req' /\ l2 = l2' /\ n = n' /\ e = e'.
  Proof.
    intros Hb Hb' L1 L2 L3 Hp Hp'.
    apply bytestrings_Ok in Hb as [Hu Hs]. apply bytestrings_Ok in Hb' as [Hu' Hs'].
    destruct (preamble_injective _ _ _ _ _ _ _ _ _ _ _ _ _ _ _ _ _ _ _ Hu Hs Hu' Hs' L1 L2 L3 Hp Hp')
      as (-> & Hi & -> & Hj & -> & -> & ->). repeat split; auto.
  Qed.

  (* (2) the finalization a server session accepts is the MAC over ITS transcript under ITS key; a client run
     whose finalization it accepts has verified the same server MAC over the same transcript *)
  Theorem accepted_finalization_same_transcript st fin k pre mac km3c prec macc :
    sl_hashed_transcript st = h_hash (hash CS) (pre ++ mac) ->
    cf_mac fin = h_hmac (hash CS) km3c (h_hash (hash CS) (prec ++ macc)) ->
    length (sl_km3 st) = length km3c ->
    server_login_finish CS st fin = Ok k ->
    (sl_km3 st = km3c /\ pre ++ mac = prec ++ macc /\ k = sl_session_key st) \/ Bad (hash CS).
  Proof.
    intros Hst Hfin Hl Hacc. apply server_finish_accept_iff in Hacc as [Hm ->].
    rewrite Hfin, Hst in Hm. symmetry in Hm.
    apply (mac_inj (hash CS)) in Hm; [|exact Hl].
    destruct Hm as [[Hk Hh]|HB]; [|now right].
    destruct (list_eq_dec Byte.byte_eq_dec (pre ++ mac) (prec ++ macc)) as [He|Hne]; [left; auto|].
    right. exact (BadHash _ _ _ Hne Hh).
  Qed.
End Matching.
