(* C14 (keyed per credential): the per-credential OPRF key is DeriveKeyPair(Expand(seed, id || "OprfKey")).
   Two different credential identifiers under one seed get the same key only if HKDF-Expand collides on the two
   infos, or the OPRF key derivation collides on two different seeds - each exhibited with its witness. *)
From Coq Require Import List Arith Lia Bool NArith.
From Coq Require Import Init.Byte.
From OKE Require Import Bytes Suite Generated Hkdf Voprf Messages Envelope TripleDH Opaque.
From OKE Require Import ListLemmas BytesLemmas ResultLemmas Laws Layers Transcript Bad Honest.
Import ListNotations.
Local Open Scope res_scope.

Section KSep.
  Context {E Sc Pk Sk : Type}.
  Variable CS : Suite E Sc Pk Sk.
  Hypothesis GL : GroupLaws CS.

  (* a collision of the OPRF's DeriveKeyPair on two different seeds *)
  Inductive BadOprfDerive : Prop :=
  | BOD (ikm ikm' info : bytes) (k : Sc) :
      ikm <> ikm' -> voprf_derive_key (oprf CS) ikm info = Ok k -> voprf_derive_key (oprf CS) ikm' info = Ok k -> BadOprfDerive.

  Lemma oprf_key_inv seed cred k :
    oprf_key CS seed cred = Ok k ->
    exists ikm k0,
      hkdf_expand (hash CS) seed (cred ++ STR_OPRF_KEY) (o_Nok (oprf CS)) = Some ikm /\
      voprf_derive_key (oprf CS) ikm STR_OPAQUE_DERIVE_KEY_PAIR = Ok k0 /\
      o_deser_s (oprf CS) (firstn (o_Nok (oprf CS)) (o_ser_s (oprf CS) k0)) = Some k.
  Proof.
    unfold oprf_key, oprf_key_from_seed, hkdf_from_prk_expand, voprf_deser_scalar. intros H.
    apply bind_Ok in H as (kb & Hkb & H).
    apply bind_Ok in Hkb as (ikm & Hikm & Hkb). apply bind_Ok in Hkb as (k0 & Hk0 & Hkb). injection Hkb as <-.
    apply of_option_Ok in Hikm. destruct (length seed <? h_len (hash CS)); [discriminate|].
    destruct (length (o_ser_s (oprf CS) k0) <? o_Nok (oprf CS)); [discriminate|]. apply of_option_Ok in H.
    eauto.
  Qed.

  (* the derived key is non-zero, so it encodes and decodes to itself *)
  Lemma derive_key_loop_valid prefix counter fuel k :
    derive_key_loop (oprf CS) prefix counter fuel = Ok k -> vs CS k.
  Proof.
    revert counter. induction fuel as [|f IH]; intros counter; cbn [derive_key_loop]; [discriminate|].
    destruct (o_is_zero (oprf CS) _) eqn:Hz; [apply IH|]. intros [= <-]. now apply (g_h2s_valid CS GL).
  Qed.

  Theorem credential_identifiers_separate_keys seed cred cred' k :
    oprf_key CS seed cred = Ok k -> oprf_key CS seed cred' = Ok k -> cred <> cred' ->
    BadS CS \/ BadOprfDerive.
  Proof.
    intros H H' Hne.
    apply oprf_key_inv in H as (ikm & k0 & Hikm & Hk0 & Hd).
    apply oprf_key_inv in H' as (ikm' & k0' & Hikm' & Hk0' & Hd').
    assert (Hv : forall i x, voprf_derive_key (oprf CS) i STR_OPAQUE_DERIVE_KEY_PAIR = Ok x -> vs CS x).
    { intros i x Hx. unfold voprf_derive_key in Hx. destruct (i2osp_nat 2 _); [|discriminate].
      eapply derive_key_loop_valid; eauto. }
    pose proof (Hv _ _ Hk0) as [Hr Hl]. pose proof (Hv _ _ Hk0') as [Hr' Hl'].
    rewrite firstn_all2 in Hd, Hd' by lia. rewrite Hr in Hd. rewrite Hr' in Hd'.
    injection Hd as <-. injection Hd' as <-.
    destruct (list_eq_dec Byte.byte_eq_dec ikm ikm') as [Heq|Hi].
    - subst ikm'. left. eapply (BS_expand CS seed _ seed _ ikm _); [|exact Hikm|exact Hikm'].
      intros [= Hc]. apply app_inv_tail in Hc. contradiction.
    - right. exact (BOD _ _ _ _ Hi Hk0 Hk0').
  Qed.
End KSep.
