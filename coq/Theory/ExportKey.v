(* C16 (separation): the keys derived from the randomized password are HMACs of visibly different
   messages, so the export key equals the envelope's authentication key, the masking key, or the export key of
   another (randomized password, envelope nonce) only if an HMAC collision is exhibited. *)
From Coq Require Import List Arith Lia Bool NArith.
From Coq Require Import Init.Byte.
From OKE Require Import Bytes Suite Generated Hkdf Voprf Messages Envelope TripleDH Opaque.
From OKE Require Import ListLemmas BytesLemmas ResultLemmas Laws Layers Bad KeySchedule Oblivious.
Import ListNotations.
Local Open Scope res_scope.

Section EK.
  Context {E Sc Pk Sk : Type}.
  Variable CS : Suite E Sc Pk Sk.
  Hypothesis HL : HashLaws (hash CS).

  Lemma envelope_keys_hmac_form rp nonce ak ek :
    envelope_keys CS rp nonce = Ok (ak, ek) ->
    ek = h_hmac (hash CS) rp ((nonce ++ STR_EXPORT_KEY) ++ [x01]) /\
    ak = h_hmac (hash CS) rp ((nonce ++ STR_AUTH_KEY) ++ [x01]).
  Proof.
    intros H. apply (envelope_keys_export CS) in H as [He Ha].
    rewrite (hkdf_expand_one_block _ HL) in He, Ha. injection He as <-. injection Ha as <-. auto.
  Qed.

  Lemma masking_key_hmac_form rp mk :
    hkdf_expand (hash CS) rp STR_MASKING_KEY (h_len (hash CS)) = Some mk ->
    mk = h_hmac (hash CS) rp (STR_MASKING_KEY ++ [x01]).
  Proof. rewrite (hkdf_expand_one_block _ HL). now intros [= <-]. Qed.

  (* the export key is not the authentication key of the same envelope *)
  Theorem export_key_is_not_auth_key rp nonce ak ek :
    envelope_keys CS rp nonce = Ok (ak, ek) -> ek = ak -> Bad (hash CS).
  Proof.
    intros H Heq. apply envelope_keys_hmac_form in H as [-> ->].
    apply (mac_inj (hash CS)) in Heq; [|reflexivity]. destruct Heq as [[_ Hm]|HB]; [|exact HB].
    exfalso. apply app_inv_tail in Hm. apply app_inv_head in Hm. discriminate Hm.
  Qed.

  (* nor the masking key stored in the password file *)
  Theorem export_key_is_not_masking_key rp nonce ak ek mk :
    length nonce = ENVELOPE_NONCE_LEN ->
    envelope_keys CS rp nonce = Ok (ak, ek) ->
    hkdf_expand (hash CS) rp STR_MASKING_KEY (h_len (hash CS)) = Some mk -> ek = mk -> Bad (hash CS).
  Proof.
    intros Hn H Hmk Heq. apply envelope_keys_hmac_form in H as [-> _]. apply masking_key_hmac_form in Hmk as ->.
    apply (mac_inj (hash CS)) in Heq; [|reflexivity]. destruct Heq as [[_ Hm]|HB]; [|exact HB].
    exfalso. apply (f_equal (@length byte)) in Hm. rewrite !app_length, Hn in Hm. cbn in Hm. lia.
  Qed.

  (* another registration (fresh envelope nonce), another password, user or server (another randomized
     password): a different export key, or an HMAC collision *)
  Theorem export_keys_separated rp nonce ak ek rp' nonce' ak' ek' :
    length rp = length rp' -> length nonce = length nonce' ->
    envelope_keys CS rp nonce = Ok (ak, ek) -> envelope_keys CS rp' nonce' = Ok (ak', ek') ->
    ek = ek' -> (rp = rp' /\ nonce = nonce') \/ Bad (hash CS).
  Proof.
    intros Lr Ln H H' Heq. apply envelope_keys_hmac_form in H as [-> _]. apply envelope_keys_hmac_form in H' as [-> _].
    apply (mac_inj (hash CS)) in Heq; [|exact Lr]. destruct Heq as [[Hr Hm]|HB]; [|now right].
    left. split; [exact Hr|]. apply app_inv_tail in Hm. now apply app_eq_len in Hm as [Hn _].
  Qed.

  (* the session key is an HMAC under another key of a message of another length: it equals the export key
     only with an exhibited collision *)
  Theorem session_key_is_not_export_key rp nonce ak ek prk th sk :
    length nonce = ENVELOPE_NONCE_LEN -> length th = h_len (hash CS) -> length prk = length rp ->
    h_len (hash CS) <> 20 ->      (* 22 + Nh is the length of the Expand-Label message, 42 that of the export-key message *)
    envelope_keys CS rp nonce = Ok (ak, ek) ->
    hkdf_expand_label CS prk STR_SESSION_KEY th = Ok sk -> sk = ek -> Bad (hash CS).
  Proof.
    intros Hn Hth Hl Hnh H Hsk Heq. apply envelope_keys_hmac_form in H as [-> _].
    apply (hkdf_expand_label_value CS HL) in Hsk as (info & Hinfo & ->).
    apply (mac_inj (hash CS)) in Heq; [|exact Hl]. destruct Heq as [[_ Hm]|HB]; [|exact HB].
    exfalso. unfold label_info in Hinfo.
    destruct (i2osp_nat 2 (h_len (hash CS))) as [a|] eqn:Ea; [|discriminate].
    destruct (lenprefix 1 (STR_OPAQUE ++ STR_SESSION_KEY)) as [b|] eqn:Eb; [|discriminate].
    destruct (lenprefix 1 th) as [c|] eqn:Ec; [|discriminate]. injection Hinfo as <-.
    apply (f_equal (@length byte)) in Hm. rewrite !app_length, Hn in Hm.
    apply lenprefix_length in Eb, Ec. unfold i2osp_nat in Ea. apply i2osp_Some in Ea as (La & _ & _).
    rewrite La, Eb, Ec, Hth in Hm.
    change (length (STR_OPAQUE ++ STR_SESSION_KEY)) with 17 in Hm. change ENVELOPE_NONCE_LEN with 32 in Hm.
    change (length STR_EXPORT_KEY) with 9 in Hm. cbn [length] in Hm. lia.
  Qed.
End EK.
