(* C17 for the OPRF blind (per group): the blind is the reduction of ONE chunk of the tape - the first chunk
   that yields a valid scalar - preceded only by chunks the sampler rejected, and the rest of the tape is
   returned untouched.  NIST groups: Nok-byte big-endian chunks, accepted iff 0 < x < n (rejection sampling);
   ristretto255: 64-byte little-endian chunks reduced mod l, retried on zero. *)
From Coq Require Import List NArith ZArith Arith Lia Bool.
From OKE Require Import Bytes Suite ListLemmas BytesLemmas Field Weierstrass Curve25519.
Import ListNotations.

Arguments firstn : simpl never.
Arguments skipn : simpl never.

Section W.
  Variable C : wcurve.

  Definition w_chunk_rejected (c : bytes) : Prop :=
    length c = w_Nfe C /\ ~ (0 < bytes_to_Z_be c < w_n C)%Z.

  Lemma w_random_scalar_fuel_layout fuel tape k rest :
    w_random_scalar_fuel C fuel tape = Some (k, rest) ->
    exists rejected accepted,
      tape = concat rejected ++ accepted ++ rest /\
      Forall w_chunk_rejected rejected /\
      length accepted = w_Nfe C /\ k = bytes_to_Z_be accepted /\ (0 < k < w_n C)%Z.
  Proof.
    revert tape. induction fuel as [|f IH]; intros tape; cbn [w_random_scalar_fuel]; [discriminate|].
    destruct (Nat.ltb_spec (length tape) (w_Nfe C)) as [|Hl]; [discriminate|].
    destruct (Z.ltb_spec 0 (bytes_to_Z_be (firstn (w_Nfe C) tape))) as [H0|H0];
      destruct (Z.ltb_spec (bytes_to_Z_be (firstn (w_Nfe C) tape)) (w_n C)) as [H1|H1]; cbn [andb].
    - intros [= <- <-]. exists [], (firstn (w_Nfe C) tape). cbn [concat app].
      split; [symmetry; apply firstn_skipn|]. split; [constructor|]. split; [now apply length_firstn_le|].
      split; [reflexivity | lia].
    - intros H. apply IH in H as (rej & acc & Ht & Hr & La & Hk & Hv).
      exists (firstn (w_Nfe C) tape :: rej), acc.
      split; [cbn [concat]; rewrite <- app_assoc, <- Ht; symmetry; apply firstn_skipn|].
      split; [constructor; [split; [now apply length_firstn_le | lia] | assumption]|].
      split; [assumption|]. split; assumption.
    - intros H. apply IH in H as (rej & acc & Ht & Hr & La & Hk & Hv).
      exists (firstn (w_Nfe C) tape :: rej), acc.
      split; [cbn [concat]; rewrite <- app_assoc, <- Ht; symmetry; apply firstn_skipn|].
      split; [constructor; [split; [now apply length_firstn_le | lia] | assumption]|].
      split; [assumption|]. split; assumption.
    - intros H. apply IH in H as (rej & acc & Ht & Hr & La & Hk & Hv).
      exists (firstn (w_Nfe C) tape :: rej), acc.
      split; [cbn [concat]; rewrite <- app_assoc, <- Ht; symmetry; apply firstn_skipn|].
      split; [constructor; [split; [now apply length_firstn_le | lia] | assumption]|].
      split; [assumption|]. split; assumption.
  Qed.

  Theorem w_blind_layout tape k rest :
    w_random_scalar C tape = Some (k, rest) ->
    exists rejected accepted,
      tape = concat rejected ++ accepted ++ rest /\
      Forall w_chunk_rejected rejected /\
      length accepted = w_Nfe C /\ k = bytes_to_Z_be accepted /\ (0 < k < w_n C)%Z.
  Proof. apply w_random_scalar_fuel_layout. Qed.
End W.

Definition r_chunk_rejected (c : bytes) : Prop := length c = 64 /\ (bytes_to_Z_le c mod ell = 0)%Z.

Lemma r_random_scalar_fuel_layout fuel tape k rest :
  r_random_scalar_fuel fuel tape = Some (k, rest) ->
  exists rejected accepted,
    tape = concat rejected ++ accepted ++ rest /\
    Forall r_chunk_rejected rejected /\
    length accepted = 64 /\ k = (bytes_to_Z_le accepted mod ell)%Z /\ k <> 0%Z.
Proof.
  revert tape. induction fuel as [|f IH]; intros tape; cbn [r_random_scalar_fuel]; [discriminate|].
  destruct (Nat.ltb_spec (length tape) 64) as [|Hl]; [discriminate|].
  destruct (Z.eqb_spec (bytes_to_Z_le (firstn 64 tape) mod ell) 0) as [Hz|Hz].
  - intros H. apply IH in H as (rej & acc & Ht & Hr & La & Hk & Hv).
    exists (firstn 64 tape :: rej), acc.
    split; [cbn [concat]; rewrite <- app_assoc, <- Ht; symmetry; apply firstn_skipn|].
    split; [constructor; [split; [now apply length_firstn_le | assumption] | assumption]|].
    split; [assumption|]. split; assumption.
  - intros [= <- <-]. exists [], (firstn 64 tape). cbn [concat app].
    split; [symmetry; apply firstn_skipn|]. split; [constructor|]. split; [now apply length_firstn_le|].
    split; [reflexivity | assumption].
Qed.

Theorem r_blind_layout tape k rest :
  r_random_scalar tape = Some (k, rest) ->
  exists rejected accepted,
    tape = concat rejected ++ accepted ++ rest /\
    Forall r_chunk_rejected rejected /\
    length accepted = 64 /\ k = (bytes_to_Z_le accepted mod ell)%Z /\ k <> 0%Z.
Proof. apply r_random_scalar_fuel_layout. Qed.
