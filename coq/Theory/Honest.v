(* C01: an honest registration followed by a login with the same password,
   credential identifier, identities and context ends with the client accepting,
   the server accepting the client's finalization, both holding the same session
   key, and the client getting back the registration's export key and the
   server's public key.  Generic in the suite, under HashLaws + GroupLaws. *)
From Coq Require Import List Arith Lia Bool NArith.
From OKE Require Import Bytes Suite Generated Hkdf Voprf Messages Envelope TripleDH Opaque.
From OKE Require Import ListLemmas BytesLemmas ResultLemmas Codecs Roundtrip Laws Layers.
Import ListNotations.
Local Open Scope res_scope.

Arguments firstn : simpl never.
Arguments skipn : simpl never.

Section Honest.
  Context {E Sc Pk Sk : Type}.
  Variable CS : Suite E Sc Pk Sk.
  Hypothesis HL : HashLaws (hash CS).
  Hypothesis GL : GroupLaws CS.

  (* the per-credential OPRF key: a function of seed and credential identifier *)
  Definition oprf_key (seed cred : bytes) : result Sc :=
    let* kb := oprf_key_from_seed CS seed cred in voprf_deser_scalar (oprf CS) kb.

  Lemma server_evaluate_inv seed cred b ev :
    server_evaluate CS seed cred b = Ok ev ->
    exists k, oprf_key seed cred = Ok k /\ ev = o_mul (oprf CS) b k /\ vs CS k.
  Proof.
    unfold server_evaluate, oprf_key, voprf_blind_evaluate. intros H.
    apply bind_Ok in H as (kb & Hkb & H). apply bind_Ok in H as (k & Hk & H). injection H as <-.
    exists k. rewrite Hkb. cbn [bind]. split; [exact Hk|]. split; [reflexivity|].
    unfold voprf_deser_scalar in Hk.
    destruct (Nat.ltb_spec (length kb) (o_Nok (oprf CS))) as [|Hl]; [discriminate|].
    apply of_option_Ok in Hk. eapply (g_deser_s_valid CS GL); [|exact Hk].
    now rewrite length_firstn_le.
  Qed.

  Lemma blind_inv tape pw r b rest :
    voprf_blind (oprf CS) tape pw = Ok (r, b, rest) ->
    vs CS r /\ b = o_mul (oprf CS) (o_h2g (oprf CS) pw (dst_hash_to_group (oprf CS))) r.
  Proof.
    unfold voprf_blind. destruct (o_random_scalar (oprf CS) tape) as [[r0 t]|] eqn:Hr; [|discriminate].
    intros [= <- <- <-]. split; [eapply (g_random_valid CS GL); eauto | reflexivity].
  Qed.

  (* randomized password: independent of the blind *)
  Lemma rpwd_unblinded pw r k ksf rp :
    let P := o_h2g (oprf CS) pw (dst_hash_to_group (oprf CS)) in
    ve CS P -> vs CS r -> vs CS k ->
    get_password_derived_key CS pw r (o_mul (oprf CS) (o_mul (oprf CS) P r) k) ksf = Ok rp ->
    forall r', vs CS r' ->
      get_password_derived_key CS pw r' (o_mul (oprf CS) (o_mul (oprf CS) P r') k) ksf = Ok rp.
  Proof.
    intros P HP Hr Hk H r' Hr'. unfold get_password_derived_key in *.
    rewrite (oprf_unblind CS GL pw r k P HP Hr Hk) in H.
    rewrite (oprf_unblind CS GL pw r' k P HP Hr' Hk). exact H.
  Qed.

  Lemma keypair_generate_random_inv tape kp rest :
    keypair_generate_random CS tape = Ok (kp, rest) -> vk CS (kp_sk kp) /\ kp_pk kp = k_pub (ke CS) (kp_sk kp).
  Proof.
    unfold keypair_generate_random. destruct (Nat.ltb_spec (length tape) (k_Nsk (ke CS))) as [|Hlt]; [discriminate|].
    destruct (k_derive _ _ _ _) as [s|] eqn:Hs; [|discriminate]. intros [= <- <-]. cbn.
    split; [eapply (g_derive_valid CS GL); [|exact Hs]; now apply length_firstn_le | reflexivity].
  Qed.

  Lemma recover_keys_inv rpwd nonce kp :
    recover_keys_internal CS rpwd nonce = Ok kp -> vk CS (kp_sk kp) /\ kp_pk kp = k_pub (ke CS) (kp_sk kp).
  Proof.
    unfold recover_keys_internal, keypair_from_private_key_slice, sk_deserialize. intros H.
    apply bind_Ok in H as (seed & Hseed & H). apply bind_Ok in H as (s0 & Hs0 & H).
    apply bind_Ok in H as (s & Hs & H). injection H as <-. cbn.
    apply of_option_Ok in Hseed, Hs0, Hs.
    pose proof (g_derive_valid CS GL _ _ _ _ (hkdf_expand_length _ HL _ _ _ _ Hseed) Hs0) as [_ Hl].
    split; [eapply (g_deser_sk_valid CS GL); eauto | reflexivity].
  Qed.

  Lemma recover_keys_inv_open env rp spk ids kp ek u s :
    envelope_open CS env rp spk ids = Ok (kp, ek, u, s) -> vk CS (kp_sk kp) /\ kp_pk kp = k_pub (ke CS) (kp_sk kp).
  Proof.
    unfold envelope_open. destruct (negb (env_internal env)); [discriminate|]. intros H.
    apply bind_Ok in H as (kp0 & Hkp & H). apply bind_Ok in H as ([u0 s0] & _ & H).
    apply bind_Ok in H as ([ak ek0] & _ & H).
    destruct (bytes_eqb _ _); [|discriminate]. injection H as <- _ _ _.
    eapply recover_keys_inv; eauto.
  Qed.

  (* ---------------------------------------------------------------- the theorem *)
  Theorem honest_login_agrees
          tape setup t1 pw creg rq t2 cred rr ids ksf upload ek spk t3 clog ke1 t4 ctx slog ke2 t5 dbg :
    ve CS (o_h2g (oprf CS) pw (dst_hash_to_group (oprf CS))) ->          (* hash-to-group did not hit the identity *)
    server_setup_new CS tape = Ok (setup, t1) ->
    client_registration_start CS t1 pw = Ok (creg, rq, t2) ->
    server_registration_start CS setup rq cred = Ok rr ->
    client_registration_finish CS creg t2 pw rr ids ksf = Ok (upload, ek, spk, t3) ->
    client_login_start CS t3 pw = Ok (clog, ke1, t4) ->
    server_login_start CS (private_key_ops (ke CS)) t4 setup (Some (server_registration_finish upload)) ke1 cred ctx ids
      = Ok (slog, ke2, t5, dbg) ->
    o_eqb (oprf CS) (cq_blinded ke1) (cr_eval ke2) = false ->           (* the evaluation is not the reflected request *)
    exists ke3 sk dbg',
      client_login_finish CS clog pw ke2 ctx ids ksf = Ok (ke3, sk, ek, spk, dbg') /\
      server_login_finish CS slog ke3 = Ok sk /\
      spk = kp_pk (ss_keypair setup) /\ kp_pk (ss_keypair setup) = k_pub (ke CS) (kp_sk (ss_keypair setup)).
  Proof.
    intros HP Hsetup Hrs Hsr Hrf Hls Hss Hnr.
    set (P := o_h2g (oprf CS) pw (dst_hash_to_group (oprf CS))) in *.
    (* setup *)
    unfold server_setup_new in Hsetup.
    apply bind_Ok in Hsetup as ([skp ta] & Hskp & Hsetup).
    destruct (length ta <? h_len (hash CS)); [discriminate|].
    apply bind_Ok in Hsetup as ([fkp tb] & Hfkp & Hsetup). injection Hsetup as <- <-.
    apply keypair_generate_random_inv in Hskp as [Hssv Hspk].
    destruct skp as [spk0 ss]. cbn [kp_pk kp_sk] in *. subst spk0.
    (* registration start *)
    unfold client_registration_start in Hrs.
    apply bind_Ok in Hrs as ([[r b] t2'] & Hb & Hrs). injection Hrs as <- <- <-.
    apply blind_inv in Hb as [Hr ->]. fold P in Hsr, Hrf |- *.
    (* server registration start *)
    unfold server_registration_start in Hsr. cbn [ss_oprf_seed ss_keypair rq_blinded] in Hsr.
    apply bind_Ok in Hsr as (ev & Hev & Hsr). injection Hsr as <-.
    apply server_evaluate_inv in Hev as (k & Hk & -> & Hkv).
    (* registration finish *)
    unfold client_registration_finish in Hrf. cbn [crs_blinded crs_blind rr_eval rr_server_s_pk] in Hrf.
    destruct (o_eqb (oprf CS) (o_mul (oprf CS) P r) (o_mul (oprf CS) (o_mul (oprf CS) P r) k)); [discriminate|].
    apply bind_Ok in Hrf as (rp & Hrp & Hrf).
    apply bind_Ok in Hrf as (mk & Hmk & Hrf).
    apply bind_Ok in Hrf as ([[[env cpk] ek'] t3'] & Hseal & Hrf). injection Hrf as <- <- <- <-.
    apply of_option_Ok in Hmk.
    pose proof (hkdf_expand_length _ HL _ _ _ _ Hmk) as Hmkl.
    destruct (envelope_open_seal CS HL _ _ _ _ _ _ _ _ Hseal) as (ckp & u & s & Hopen & Hcpk & Hids & Henvwf & _ & _).
    (* login start *)
    unfold client_login_start in Hls.
    apply bind_Ok in Hls as ([[r' b'] t3a] & Hb' & Hls).
    apply bind_Ok in Hls as ([[k1st k1m] t3b] & Hke1 & Hls). injection Hls as <- <- <-.
    apply blind_inv in Hb' as [Hr' ->]. fold P in Hss, Hnr |- *.
    unfold generate_ke1 in Hke1.
    apply bind_Ok in Hke1 as ([ekp t3c] & Hekp & Hke1).
    apply bind_Ok in Hke1 as ([cnonce t3d] & Hcn & Hke1). injection Hke1 as <- <- <-.
    apply keypair_generate_random_inv in Hekp as [Hcev Hcepk].
    destruct ekp as [cepk ce]. cbn [kp_pk kp_sk] in *. subst cepk.
    (* server login start *)
    unfold server_login_start, server_registration_finish in Hss.
    cbn [bind ru_client_s_pk ru_masking_key ru_envelope ss_keypair ss_oprf_seed kp_sk private_key_ops s_pub cq_blinded cq_ke1] in Hss.
    destruct (length _ <? KE_NONCE_LEN); [discriminate|].
    apply bind_Ok in Hss as (masked & Hmask & Hss).
    apply bind_Ok in Hss as ([u' s'] & Hids' & Hss).
    apply bind_Ok in Hss as (ev' & Hev' & Hss).
    apply bind_Ok in Hss as ([[[st ke2m] t5'] dbg0] & Hke2 & Hss). injection Hss as <- <- <- <-.
    apply server_evaluate_inv in Hev' as (k' & Hk' & -> & _).
    rewrite Hk in Hk'. injection Hk' as <-.
    rewrite Hids in Hids'. injection Hids' as <- <-.
    (* the client's final step *)
    subst P.
    cbn [cr_eval cq_blinded] in Hnr.
    unfold client_login_finish.
    cbn [cl_request cl_blind cl_ke1_state cq_blinded cq_ke1 cr_eval cr_masking_nonce cr_masked cr_ke2].
    rewrite Hnr.
    rewrite (rpwd_unblinded pw r k ksf rp HP Hr Hkv Hrp r' Hr'). cbn [bind].
    rewrite Hmk. cbn [of_option bind].
    pose proof (g_pub_valid CS GL _ Hssv) as Hspkv.
    rewrite (unmask_mask CS HL _ _ _ _ _ Hspkv Henvwf Hmask). cbn [map_err bind].
    rewrite Hopen. cbn [map_err bind].
    apply recover_keys_inv_open in Hopen as [Hcsv Hcspk].
    destruct ckp as [cpk0 cs]. cbn [kp_pk kp_sk] in *. subst cpk0. subst cpk.
    destruct (ke_agreement CS GL _ _ _ _ _ _ _ _ _ _ _ _ _ _ Hcev Hcsv Hssv Hke2) as (dbg' & Hke3 & Hfin).
    cbn [k1s_client_e_sk k1s_nonce] in *.
    rewrite Hke3. cbn [bind].
    do 3 eexists. split; [reflexivity|]. split; [exact Hfin|]. split; reflexivity.
  Qed.

  (* the same with every party on its OWN tape (the statement above threads one tape through all steps, which is how
     the in-memory flow of the correspondence check runs; nothing in the proof uses the threading) *)
  Theorem honest_login_agrees_any_tapes
          tape setup t1 tr pw creg rq t2 cred rr tf ids ksf upload ek spk t3 tc clog ke1 t4 tv ctx slog ke2 t5 dbg :
    ve CS (o_h2g (oprf CS) pw (dst_hash_to_group (oprf CS))) ->          (* hash-to-group did not hit the identity *)
    server_setup_new CS tape = Ok (setup, t1) ->
    client_registration_start CS tr pw = Ok (creg, rq, t2) ->
    server_registration_start CS setup rq cred = Ok rr ->
    client_registration_finish CS creg tf pw rr ids ksf = Ok (upload, ek, spk, t3) ->
    client_login_start CS tc pw = Ok (clog, ke1, t4) ->
    server_login_start CS (private_key_ops (ke CS)) tv setup (Some (server_registration_finish upload)) ke1 cred ctx ids
      = Ok (slog, ke2, t5, dbg) ->
    o_eqb (oprf CS) (cq_blinded ke1) (cr_eval ke2) = false ->           (* the evaluation is not the reflected request *)
    exists ke3 sk dbg',
      client_login_finish CS clog pw ke2 ctx ids ksf = Ok (ke3, sk, ek, spk, dbg') /\
      server_login_finish CS slog ke3 = Ok sk /\
      spk = kp_pk (ss_keypair setup) /\ kp_pk (ss_keypair setup) = k_pub (ke CS) (kp_sk (ss_keypair setup)).
  Proof.
    intros HP Hsetup Hrs Hsr Hrf Hls Hss Hnr.
    set (P := o_h2g (oprf CS) pw (dst_hash_to_group (oprf CS))) in *.
    (* setup *)
    unfold server_setup_new in Hsetup.
    apply bind_Ok in Hsetup as ([skp ta] & Hskp & Hsetup).
    destruct (length ta <? h_len (hash CS)); [discriminate|].
    apply bind_Ok in Hsetup as ([fkp tb] & Hfkp & Hsetup). injection Hsetup as <- <-.
    apply keypair_generate_random_inv in Hskp as [Hssv Hspk].
    destruct skp as [spk0 ss]. cbn [kp_pk kp_sk] in *. subst spk0.
    (* registration start *)
    unfold client_registration_start in Hrs.
    apply bind_Ok in Hrs as ([[r b] t2'] & Hb & Hrs). injection Hrs as <- <- <-.
    apply blind_inv in Hb as [Hr ->]. fold P in Hsr, Hrf |- *.
    (* server registration start *)
    unfold server_registration_start in Hsr. cbn [ss_oprf_seed ss_keypair rq_blinded] in Hsr.
    apply bind_Ok in Hsr as (ev & Hev & Hsr). injection Hsr as <-.
    apply server_evaluate_inv in Hev as (k & Hk & -> & Hkv).
    (* registration finish *)
    unfold client_registration_finish in Hrf. cbn [crs_blinded crs_blind rr_eval rr_server_s_pk] in Hrf.
    destruct (o_eqb (oprf CS) (o_mul (oprf CS) P r) (o_mul (oprf CS) (o_mul (oprf CS) P r) k)); [discriminate|].
    apply bind_Ok in Hrf as (rp & Hrp & Hrf).
    apply bind_Ok in Hrf as (mk & Hmk & Hrf).
    apply bind_Ok in Hrf as ([[[env cpk] ek'] t3'] & Hseal & Hrf). injection Hrf as <- <- <- <-.
    apply of_option_Ok in Hmk.
    pose proof (hkdf_expand_length _ HL _ _ _ _ Hmk) as Hmkl.
    destruct (envelope_open_seal CS HL _ _ _ _ _ _ _ _ Hseal) as (ckp & u & s & Hopen & Hcpk & Hids & Henvwf & _ & _).
    (* login start *)
    unfold client_login_start in Hls.
    apply bind_Ok in Hls as ([[r' b'] t3a] & Hb' & Hls).
    apply bind_Ok in Hls as ([[k1st k1m] t3b] & Hke1 & Hls). injection Hls as <- <- <-.
    apply blind_inv in Hb' as [Hr' ->]. fold P in Hss, Hnr |- *.
    unfold generate_ke1 in Hke1.
    apply bind_Ok in Hke1 as ([ekp t3c] & Hekp & Hke1).
    apply bind_Ok in Hke1 as ([cnonce t3d] & Hcn & Hke1). injection Hke1 as <- <- <-.
    apply keypair_generate_random_inv in Hekp as [Hcev Hcepk].
    destruct ekp as [cepk ce]. cbn [kp_pk kp_sk] in *. subst cepk.
    (* server login start *)
    unfold server_login_start, server_registration_finish in Hss.
    cbn [bind ru_client_s_pk ru_masking_key ru_envelope ss_keypair ss_oprf_seed kp_sk private_key_ops s_pub cq_blinded cq_ke1] in Hss.
    destruct (length _ <? KE_NONCE_LEN); [discriminate|].
    apply bind_Ok in Hss as (masked & Hmask & Hss).
    apply bind_Ok in Hss as ([u' s'] & Hids' & Hss).
    apply bind_Ok in Hss as (ev' & Hev' & Hss).
    apply bind_Ok in Hss as ([[[st ke2m] t5'] dbg0] & Hke2 & Hss). injection Hss as <- <- <- <-.
    apply server_evaluate_inv in Hev' as (k' & Hk' & -> & _).
    rewrite Hk in Hk'. injection Hk' as <-.
    rewrite Hids in Hids'. injection Hids' as <- <-.
    (* the client's final step *)
    subst P.
    cbn [cr_eval cq_blinded] in Hnr.
    unfold client_login_finish.
    cbn [cl_request cl_blind cl_ke1_state cq_blinded cq_ke1 cr_eval cr_masking_nonce cr_masked cr_ke2].
    rewrite Hnr.
    rewrite (rpwd_unblinded pw r k ksf rp HP Hr Hkv Hrp r' Hr'). cbn [bind].
    rewrite Hmk. cbn [of_option bind].
    pose proof (g_pub_valid CS GL _ Hssv) as Hspkv.
    rewrite (unmask_mask CS HL _ _ _ _ _ Hspkv Henvwf Hmask). cbn [map_err bind].
    rewrite Hopen. cbn [map_err bind].
    apply recover_keys_inv_open in Hopen as [Hcsv Hcspk].
    destruct ckp as [cpk0 cs]. cbn [kp_pk kp_sk] in *. subst cpk0. subst cpk.
    destruct (ke_agreement CS GL _ _ _ _ _ _ _ _ _ _ _ _ _ _ Hcev Hcsv Hssv Hke2) as (dbg' & Hke3 & Hfin).
    cbn [k1s_client_e_sk k1s_nonce] in *.
    rewrite Hke3. cbn [bind].
    do 3 eexists. split; [reflexivity|]. split; [exact Hfin|]. split; reflexivity.
  Qed.
End Honest.
