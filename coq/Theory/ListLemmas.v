(* List facts used by the codec and transcript proofs. *)
From Coq Require Import List Arith Lia Bool.
Import ListNotations.

Section L.
  Context {A : Type}.
  Implicit Types l r : list A.

  Lemma firstn_app_exact l r : firstn (length l) (l ++ r) = l.
  Proof. rewrite firstn_app, Nat.sub_diag, firstn_all. cbn. apply app_nil_r. Qed.

  Lemma skipn_app_exact l r : skipn (length l) (l ++ r) = r.
  Proof. rewrite skipn_app, Nat.sub_diag, skipn_all. reflexivity. Qed.

  Lemma firstn_app_exact' n l r : n = length l -> firstn n (l ++ r) = l.
  Proof. intros ->. apply firstn_app_exact. Qed.

  Lemma skipn_app_exact' n l r : n = length l -> skipn n (l ++ r) = r.
  Proof. intros ->. apply skipn_app_exact. Qed.

  Lemma app_eq_len l1 l2 r1 r2 :
    length l1 = length l2 -> l1 ++ r1 = l2 ++ r2 -> l1 = l2 /\ r1 = r2.
  Proof.
    revert l2. induction l1 as [|x l1 IH]; intros [|y l2] Hl H; cbn in *; try discriminate.
    - auto.
    - injection H as -> H. destruct (IH l2) as [-> ->]; auto.
  Qed.

  Lemma split_firstn_skipn n l : l = firstn n l ++ skipn n l.
  Proof. symmetry. apply firstn_skipn. Qed.

  Lemma length_skipn n l : length (skipn n l) = length l - n.
  Proof. apply skipn_length. Qed.

  Lemma length_firstn_le n l : n <= length l -> length (firstn n l) = n.
  Proof. intros. rewrite firstn_length. lia. Qed.

  Lemma skipn_skipn' n m l : skipn n (skipn m l) = skipn (m + n) l.
  Proof.
    revert l. induction m as [|m IH]; intros l; cbn; [reflexivity|].
    destruct l; [now rewrite skipn_nil | apply IH].
  Qed.

  Lemma firstn_all' n l : length l <= n -> firstn n l = l.
  Proof. apply firstn_all2. Qed.

  Lemma app_inv_len_tail l1 l2 r1 r2 :
    length r1 = length r2 -> l1 ++ r1 = l2 ++ r2 -> l1 = l2 /\ r1 = r2.
  Proof.
    intros Hr H.
    assert (Hl : length l1 = length l2).
    { apply (f_equal (@length A)) in H. rewrite !app_length in H. lia. }
    apply app_eq_len; assumption.
  Qed.
  Lemma app4_slices (a b c d : list A) na nb nc :
    length a = na -> length b = nb -> length c = nc ->
    firstn na (a ++ b ++ c ++ d) = a /\
    firstn nb (skipn na (a ++ b ++ c ++ d)) = b /\
    firstn nc (skipn (na + nb) (a ++ b ++ c ++ d)) = c /\
    skipn (na + nb + nc) (a ++ b ++ c ++ d) = d.
  Proof.
    intros <- <- <-. repeat split.
    - apply firstn_app_exact.
    - rewrite skipn_app_exact. apply firstn_app_exact.
    - rewrite (app_assoc a b), <- app_length, skipn_app_exact. apply firstn_app_exact.
    - rewrite (app_assoc a b), (app_assoc (a ++ b) c), <- !app_length. apply skipn_app_exact.
  Qed.
End L.
