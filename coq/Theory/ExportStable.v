(* C16, stability against an adversary: whoever serves the login and whatever password the client types, if the
   client's final step OPENS the envelope that was sealed at registration (same nonce, same tag) it returns that
   registration's export key - unless a collision of HMAC or of HKDF-Expand is exhibited.  (Theory/Layers.v has the
   case of equal randomized passwords; here the randomized password at login is arbitrary.)  The chain: an accepted
   tag under the login's auth key equals the stored tag under the registration's auth key, so the keys are equal or
   HMAC collides; the two auth keys are Expand(randomized password, nonce || "AuthKey") of the same length, so the
   randomized passwords are equal or Expand collides; equal randomized passwords and equal nonce give equal export keys. *)
From Coq Require Import List Arith Lia Bool NArith.
From Coq Require Import Init.Byte.
From OKE Require Import Bytes Suite Generated Hkdf Voprf Messages Envelope TripleDH Opaque.
From OKE Require Import ListLemmas BytesLemmas ResultLemmas Laws Layers Transcript Bad KeySchedule ClientAccept.
Import ListNotations.
Local Open Scope res_scope.

Arguments firstn : simpl never.
Arguments skipn : simpl never.

Section ES.
  Context {E Sc Pk Sk : Type}.
  Variable CS : Suite E Sc Pk Sk.
  Hypothesis HL : HashLaws (hash CS).

  Theorem export_key_stable_against_any_server tape rp spk ids env cpk ek rest rp' spk' ids' kp ek' u s :
    envelope_seal CS tape rp spk ids = Ok (env, cpk, ek, rest) ->
    envelope_open CS env rp' spk' ids' = Ok (kp, ek', u, s) ->
    ek' = ek \/ BadS CS.
  Proof.
    unfold envelope_seal. intros Hs Ho.
    destruct (length tape <? ENVELOPE_NONCE_LEN); [discriminate|].
    apply bind_Ok in Hs as (kp0 & _ & Hs). apply bind_Ok in Hs as ([u0 s0] & _ & Hs).
    apply bind_Ok in Hs as ([ak ek0] & Hk & Hs). injection Hs as <- <- <- <-.
    unfold envelope_open in Ho. cbn [env_internal env_nonce env_hmac negb] in Ho.
    apply bind_Ok in Ho as (kp1 & _ & Ho). apply bind_Ok in Ho as ([u1 s1] & _ & Ho).
    apply bind_Ok in Ho as ([ak' ek1] & Hk' & Ho).
    destruct (bytes_eqb _ _) eqn:Heq; [|discriminate]. apply bytes_eqb_eq in Heq. injection Ho as _ <- _ _.
    set (nonce := firstn ENVELOPE_NONCE_LEN tape) in *.
    unfold envelope_keys in Hk, Hk'.
    apply bind_Ok in Hk as (a & Ha & Hk). apply bind_Ok in Hk as (e & He & Hk). injection Hk as <- <-.
    apply bind_Ok in Hk' as (a' & Ha' & Hk'). apply bind_Ok in Hk' as (e' & He' & Hk'). injection Hk' as <- <-.
    apply of_option_Ok in Ha, He, Ha', He'.
    pose proof (hkdf_expand_length _ HL _ _ _ _ Ha) as La. pose proof (hkdf_expand_length _ HL _ _ _ _ Ha') as La'.
    (* 1. equal tags: equal auth keys, or an HMAC collision *)
    destruct (mac_inj (hash CS) _ _ _ _ (eq_trans La' (eq_sym La)) Heq) as [[Hak _]|HB]; [|right; exact (BS_hash CS HB)].
    subst a'.
    (* 2. equal auth keys: equal randomized passwords, or an Expand collision *)
    destruct (list_eq_dec Byte.byte_eq_dec rp rp') as [<-|Hne].
    - left. rewrite He in He'. now injection He'.
    - right. eapply (BS_expand CS rp _ rp' _ a _); [|exact Ha|exact Ha']. intros [= H]. contradiction.
  Qed.

  (* the same at the API: registration produced (upload, ek); ANY later successful client login - any server, any
     response, any password, any parameters - opened some envelope; if that envelope is the registration's, the login
     returned ek (or a collision is exhibited) *)
  Theorem login_export_key_is_the_registrations
          creg tape pw rr ids ksf upload ek spk rest clog pw' r ctx ids' ksf' fin sk ek' spk' dbg :
    client_registration_finish CS creg tape pw rr ids ksf = Ok (upload, ek, spk, rest) ->
    client_login_finish CS clog pw' r ctx ids' ksf' = Ok (fin, sk, ek', spk', dbg) ->
    exists rp' mk env kp u s,
      unmask_response CS mk (cr_masking_nonce r) (cr_masked r) = Ok (spk', env) /\
      envelope_open CS env rp' spk' ids' = Ok (kp, ek', u, s) /\
      (env = ru_envelope upload -> ek' = ek \/ BadS CS).
  Proof.
    intros Hreg Hacc.
    apply client_accepts_iff in Hacc as (rp' & mk & env & kp & u & s & pre & km2 & km3 & hs & _ & _ & _ & Hun & Hopen & _).
    exists rp', mk, env, kp, u, s. split; [exact Hun|]. split; [exact Hopen|]. intros ->.
    unfold client_registration_finish in Hreg. destruct (o_eqb (oprf CS) _ _); [discriminate|].
    apply bind_Ok in Hreg as (rp & _ & Hreg). apply bind_Ok in Hreg as (mk0 & _ & Hreg).
    apply bind_Ok in Hreg as ([[[env0 cpk] e1] t3] & Hseal & Hreg). injection Hreg as <- <- _ _.
    cbn [ru_envelope] in Hopen.
    exact (export_key_stable_against_any_server _ _ _ _ _ _ _ _ _ _ _ _ _ _ _ Hseal Hopen).
  Qed.
End ES.
