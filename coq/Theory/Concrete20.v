(* From the generic theorems to the 20 concrete suites.
   Every generic theorem has the shape  forall CS, HashLaws (hash CS) -> GroupLaws CS -> Phi CS.
   For each of the 20 suites HashLaws, CodecLaws, SizeLaws and EncodingLaws are PROVED, and GroupLaws follows
   from CurveLaws (Theory/GroupSplit.v); so at a concrete suite the only hypothesis left is CurveLaws -
   seven facts of elliptic-curve arithmetic. *)
From Coq Require Import List.
From OKE Require Import Bytes Suite Generated Laws Codecs CodecsConcrete SuitesLaws GroupSplit.

Theorem all_suites_from_laws (P : forall E Sc Pk Sk, Suite E Sc Pk Sk -> Prop) :
  (forall E Sc Pk Sk (CS : Suite E Sc Pk Sk),
      HashLaws (hash CS) -> CodecLaws CS -> SizeLaws CS -> EncodingLaws CS -> (CurveLaws CS -> GroupLaws CS) -> P E Sc Pk Sk CS) ->
  all_suites P.
Proof.
  intros H. pose proof proved_laws_20 as H1. pose proof encoding_laws_20 as H2. pose proof group_laws_20 as H3.
  unfold all_suites, proved_laws in *.
  repeat match goal with X : _ /\ _ |- _ => destruct X end.
  repeat match goal with |- _ /\ _ => split end; apply H; assumption.
Qed.

Theorem at_the_20_suites (Phi : forall E Sc Pk Sk, Suite E Sc Pk Sk -> Prop) :
  (forall E Sc Pk Sk (CS : Suite E Sc Pk Sk), HashLaws (hash CS) -> GroupLaws CS -> Phi E Sc Pk Sk CS) ->
  all_suites (fun E Sc Pk Sk CS => CurveLaws CS -> Phi E Sc Pk Sk CS).
Proof.
  intros H. apply all_suites_from_laws. intros E Sc Pk Sk CS HL _ _ _ HG CV. exact (H E Sc Pk Sk CS HL (HG CV)).
Qed.

Theorem at_the_20_suites_g (Phi : forall E Sc Pk Sk, Suite E Sc Pk Sk -> Prop) :
  (forall E Sc Pk Sk (CS : Suite E Sc Pk Sk), GroupLaws CS -> Phi E Sc Pk Sk CS) ->
  all_suites (fun E Sc Pk Sk CS => CurveLaws CS -> Phi E Sc Pk Sk CS).
Proof. intros H. apply at_the_20_suites. intros E Sc Pk Sk CS _ GL. exact (H E Sc Pk Sk CS GL). Qed.
