(* C05 / C14 / C02 in one statement: after an honest registration with (pw, cred), a login attempt in which the
   client uses ANY other password, or the server evaluates under ANY other credential identifier, is never accepted by
   the client - unless an explicit bad event is exhibited (a collision of HMAC, the hash, HKDF-Expand, the client key
   derivation, Diffie-Hellman in the private key, or the OPRF key derivation).  Theory/WrongPassword.v is the case
   cred' = cred; the chain is the same up to the Finalize input, which also encodes the evaluated element P*k: with
   the same password, equal evaluated elements force equal OPRF keys because the scalar action of a prime-order group
   is free (hypothesis [action_free]: an additional group law, proved for the toy suite in Toy/Toy.v), and equal keys
   for different credential identifiers are a derivation collision (Theory/KeySeparation.v). *)
From Coq Require Import List Arith Lia Bool NArith.
From Coq Require Import Init.Byte.
From OKE Require Import Bytes Suite Generated Labels Hkdf Voprf Messages Envelope TripleDH Opaque.
From OKE Require Import ListLemmas BytesLemmas ResultLemmas Codecs Roundtrip Laws Layers Transcript Bad Honest ClientAccept KeySchedule WrongPassword KeySeparation.
Import ListNotations.
Local Open Scope res_scope.

Arguments firstn : simpl never.
Arguments skipn : simpl never.

Section WC.
  Context {E Sc Pk Sk : Type}.
  Variable CS : Suite E Sc Pk Sk.
  Hypothesis HL : HashLaws (hash CS).
  Hypothesis GL : GroupLaws CS.
  Hypothesis sk_eq_dec : forall a b : Sk, {a = b} + {a <> b}.
  (* the scalar action is free on valid elements and scalars (prime-order group, canonical scalars) *)
  Hypothesis action_free : forall P a b, ve CS P -> vs CS a -> vs CS b -> o_mul (oprf CS) P a = o_mul (oprf CS) P b -> a = b.

  Theorem mismatched_login_never_accepted
          tape setup t1 pw creg rq t2 cred rr ids ksf upload ek spk t3 pw' cred' clog ke1 t4 ctx slog ke2 t5 dbg out :
    ve CS (o_h2g (oprf CS) pw (dst_hash_to_group (oprf CS))) ->
    ve CS (o_h2g (oprf CS) pw' (dst_hash_to_group (oprf CS))) ->
    server_setup_new CS tape = Ok (setup, t1) ->
    client_registration_start CS t1 pw = Ok (creg, rq, t2) ->
    server_registration_start CS setup rq cred = Ok rr ->
    client_registration_finish CS creg t2 pw rr ids ksf = Ok (upload, ek, spk, t3) ->
    pw' <> pw \/ cred' <> cred ->
    client_login_start CS t3 pw' = Ok (clog, ke1, t4) ->
    server_login_start CS (private_key_ops (ke CS)) t4 setup (Some (server_registration_finish upload)) ke1 cred' ctx ids
      = Ok (slog, ke2, t5, dbg) ->
    client_login_finish CS clog pw' ke2 ctx ids ksf = Ok out ->
    BadS CS \/ BadOprfDerive CS.
  Proof.
    intros HP HP' Hsetup Hrs Hsr Hrf Hne Hls Hss Hacc.
    set (P := o_h2g (oprf CS) pw (dst_hash_to_group (oprf CS))) in *.
    set (P' := o_h2g (oprf CS) pw' (dst_hash_to_group (oprf CS))) in *.
    (* setup *)
    unfold server_setup_new in Hsetup.
    apply bind_Ok in Hsetup as ([skp ta] & Hskp & Hsetup).
    destruct (length ta <? h_len (hash CS)); [discriminate|].
    apply bind_Ok in Hsetup as ([fkp tb] & _ & Hsetup). injection Hsetup as <- <-.
    apply (keypair_generate_random_inv CS GL) in Hskp as [Hssv Hspk].
    destruct skp as [spk0 ss]. cbn [kp_pk kp_sk ss_keypair ss_oprf_seed] in *. subst spk0.
    (* registration *)
    unfold client_registration_start in Hrs.
    apply bind_Ok in Hrs as ([[r b] t2'] & Hb & Hrs). injection Hrs as <- <- <-.
    apply (blind_inv CS GL) in Hb as [Hr ->]. fold P in Hsr, Hrf.
    unfold server_registration_start in Hsr. cbn [ss_oprf_seed ss_keypair rq_blinded] in Hsr.
    apply bind_Ok in Hsr as (ev & Hev & Hsr). injection Hsr as <-.
    apply (server_evaluate_inv CS GL) in Hev as (k & Hk & -> & Hkv).
    unfold client_registration_finish in Hrf. cbn [crs_blinded crs_blind rr_eval rr_server_s_pk] in Hrf.
    destruct (o_eqb (oprf CS) _ _); [discriminate|].
    apply bind_Ok in Hrf as (rp & Hrp & Hrf). apply bind_Ok in Hrf as (mk & _ & Hrf).
    apply bind_Ok in Hrf as ([[[env cpk] ek'] t3'] & Hseal & Hrf). injection Hrf as <- <- <- <-.
    apply (envelope_seal_recover CS) in Hseal as (ckp & Hckp & ->).
    apply (recover_keys_seed CS HL GL) in Hckp as (seed & Hseed & Hder & Hcpk & Hcsv).
    destruct (rpwd_form CS GL pw r k ksf rp HP Hr Hkv Hrp) as (l & z & Hl & Hrpf). fold P in Hrpf.
    (* the login attempt *)
    unfold client_login_start in Hls.
    apply bind_Ok in Hls as ([[r' b'] t3a] & Hb' & Hls).
    apply bind_Ok in Hls as ([[k1st k1m] t3b] & Hke1 & Hls). injection Hls as <- <- <-.
    apply (blind_inv CS GL) in Hb' as [Hr' ->]. fold P' in Hss, Hacc.
    unfold generate_ke1 in Hke1.
    apply bind_Ok in Hke1 as ([ekp t3c] & Hekp & Hke1).
    apply bind_Ok in Hke1 as ([cnonce t3d] & _ & Hke1). injection Hke1 as <- <- <-.
    apply (keypair_generate_random_inv CS GL) in Hekp as [Hcev Hcepk].
    destruct ekp as [cepk ce]. cbn [kp_pk kp_sk] in *. subst cepk.
    (* what the server did *)
    apply (server_login_start_inv CS GL) in Hss
      as (se & u & s & pre & sk & km2 & km3 & hs & k' & Hsev & Hsepk & Hids & Hk' & Hkv' & Hevr & Hpre & Hkeys & Hmac & _).
    unfold server_registration_finish in *. cbn [ru_client_s_pk cq_blinded cq_ke1 k1_client_e_pk ss_oprf_seed ss_keypair kp_sk] in *.
    (* what the client checked *)
    destruct out as [[[[fin skc] ekc] spkc] dbgc].
    apply client_accepts_iff in Hacc
      as (rp' & mk' & env' & kp' & u' & s' & pre' & km2' & km3' & hs' & _ & Hrp' & _ & Hun & Hopen & Hpre' & Hkeys' & Hmac' & _).
    cbn [cl_blind cl_ke1_state cl_request cq_blinded k1s_client_e_sk] in *.
    rewrite Hevr in Hrp'. 
    destruct (rpwd_form CS GL pw' r' k' ksf rp' HP' Hr' Hkv' Hrp') as (l' & z' & Hl' & Hrpf'). fold P' in Hrpf'.
    pose proof (envelope_open_recover CS _ _ _ _ _ _ _ _ Hopen) as Hckp'.
    apply (recover_keys_seed CS HL GL) in Hckp' as (seed' & Hseed' & Hder' & Hcpk' & Hcsv').
    (* 1. equal server MACs: equal DH inputs, or an HMAC collision *)
    rewrite Hmac in Hmac'.
    destruct (server_mac_determines_inputs CS HL _ _ _ _ _ _ _ _ _ _ _ _ _ _ _ _ Hkeys Hkeys' Hmac') as [(Hdh & _)|HB];
      [|left; exact (BS_hash CS HB)].
    (* the third Diffie-Hellman value *)
    rewrite Hsepk in Hdh.
    assert (Hvspk : vp CS spkc).
    { unfold unmask_response in Hun. apply bind_Ok in Hun as (pad & _ & Hun).
      apply bind_Ok in Hun as (pk0 & Hpk0 & Hun). apply bind_Ok in Hun as (e0 & _ & Hun). injection Hun as <- _.
      apply map_err_Ok in Hpk0. unfold pk_deserialize in Hpk0. apply of_option_Ok in Hpk0.
      eapply (g_deser_pk_valid CS GL); eauto. }
    pose proof (g_pub_valid CS GL _ Hsev) as Hsepkv. pose proof (g_pub_valid CS GL _ Hcev) as Hcepkv.
    pose proof (g_pub_valid CS GL _ Hcsv) as Hcpkv. rewrite <- Hcpk in Hcpkv.
    apply app_eq_len in Hdh as [_ Hdh];
      [|rewrite !(g_dh_len CS GL); auto].
    apply app_eq_len in Hdh as [_ Hdh3];
      [|rewrite !(g_dh_len CS GL); auto].
    (* 2. Diffie-Hellman against the server's ephemeral key: same client static key, or a DH collision *)
    rewrite Hcpk in Hdh3. rewrite (g_dh_sym CS GL _ _ Hcsv Hsev) in Hdh3.
    destruct (sk_eq_dec (kp_sk ckp) (kp_sk kp')) as [Hcs|Hcs]; [|left; exact (BS_dh CS _ _ _ Hcs Hdh3)].
    (* 3. same derived key: same seed, or a derivation collision *)
    rewrite <- Hcs in Hder'.
    destruct (list_eq_dec Byte.byte_eq_dec seed seed') as [Hs|Hs]; [|left; exact (BS_derive CS _ _ _ Hs Hder Hder')].
    subst seed'.
    (* 4. same seed: same randomized password, or an Expand collision *)
    destruct (list_eq_dec Byte.byte_eq_dec rp rp') as [Hrpeq|Hrpne].
    2:{ left. eapply (BS_expand CS rp _ rp' _ seed _); [|exact Hseed|exact Hseed']. intros [= H _]. contradiction. }
    (* 5. same randomized password: same OPRF output, or an HMAC collision *)
    rewrite Hrpf, Hrpf' in Hrpeq.
    apply (mac_inj (hash CS)) in Hrpeq; [|reflexivity].
    destruct Hrpeq as [[_ Hyz]|HB]; [|left; exact (BS_hash CS HB)].
    apply app_eq_len in Hyz as [Hy _]; [|now rewrite !(hash_len _ HL)].
    (* 6. same OPRF output: same Finalize input, or a hash collision *)
    match type of Hy with h_hash _ ?x = h_hash _ ?y =>
      destruct (list_eq_dec Byte.byte_eq_dec x y) as [Hin|Hin]; [|left; exact (BS_hash CS (BadHash _ _ _ Hin Hy))] end.
    (* 7. the Finalize input is an injective encoding of the password and of the evaluated element *)
    pose proof (g_mul_valid CS GL _ _ HP Hkv) as [D1 L1]. pose proof (g_mul_valid CS GL _ _ HP' Hkv') as [D2 L2].
    destruct (finalize_input_injective CS _ _ _ _ _ _ Hl Hl' (eq_trans L1 (eq_sym L2)) Hin) as [Hpw Hser].
    destruct Hne as [Hne|Hne]; [exfalso; apply Hne; now symmetry|].
    (* 8. same password, same evaluated element: same OPRF key (the scalar action is free), hence a collision in
       the per-credential key derivation *)
    subst pw'. subst P'. fold P in D2, Hser.
    assert (Hel : o_mul (oprf CS) P k = o_mul (oprf CS) P k').
    { rewrite Hser in D1. rewrite D1 in D2. now injection D2. }
    pose proof (action_free _ _ _ HP Hkv Hkv' Hel) as Hkk. subst k'.
    apply (credential_identifiers_separate_keys CS GL _ _ _ _ Hk Hk'). intros ->. now apply Hne.
  Qed.

  (* the case C14 states: same password, the server evaluates under another credential identifier *)
  Corollary other_credential_identifier_never_accepted
          tape setup t1 pw creg rq t2 cred rr ids ksf upload ek spk t3 cred' clog ke1 t4 ctx slog ke2 t5 dbg out :
    ve CS (o_h2g (oprf CS) pw (dst_hash_to_group (oprf CS))) ->
    server_setup_new CS tape = Ok (setup, t1) ->
    client_registration_start CS t1 pw = Ok (creg, rq, t2) ->
    server_registration_start CS setup rq cred = Ok rr ->
    client_registration_finish CS creg t2 pw rr ids ksf = Ok (upload, ek, spk, t3) ->
    cred' <> cred ->
    client_login_start CS t3 pw = Ok (clog, ke1, t4) ->
    server_login_start CS (private_key_ops (ke CS)) t4 setup (Some (server_registration_finish upload)) ke1 cred' ctx ids
      = Ok (slog, ke2, t5, dbg) ->
    client_login_finish CS clog pw ke2 ctx ids ksf = Ok out ->
    BadS CS \/ BadOprfDerive CS.
  Proof.
    intros HP H0 H1 H2 H3 Hne H4 H5 H6.
    exact (mismatched_login_never_accepted _ _ _ _ _ _ _ _ _ _ _ _ _ _ _ _ _ _ _ _ _ _ _ _ _ _
             HP HP H0 H1 H2 H3 (or_intror Hne) H4 H5 H6).
  Qed.
End WC.
