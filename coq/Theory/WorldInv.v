(* C07 over histories: for EVERY sequence of adversary operations on the world of Model/World.v - any
   number of client and server sessions, any message delivered to anyone, in any order, one shared tape -
   every recorded acceptance is backed by the defining equation of the step that produced it (invariant by
   induction over the operations), and therefore, in every reachable world:
   - a completed client session that accepted a response carrying the MAC of a server session's response has
     that session's transcript: the session was started on THIS client's request, the response is that
     session's, contexts agree, and the client's key is the key that server session will release;
   - a completed server session accepted exactly the HMAC over its own transcript and released its own key;
   each up to an exhibited HMAC / hash collision. *)
From Coq Require Import List Arith Lia Bool NArith.
From OKE Require Import Bytes Suite Generated Hkdf Voprf Messages Envelope TripleDH Opaque World.
From OKE Require Import ListLemmas BytesLemmas ResultLemmas Laws Layers Bad ClientAccept Accept MatchingApi.
Import ListNotations.

Section WorldInv.
  Context {E Sc Pk Sk : Type}.
  Variable CS : Suite E Sc Pk Sk.
  Hypothesis HL : HashLaws (hash CS).
  Hypothesis GL : GroupLaws CS.

  Definition srv_ok (setup : ServerSetup Pk Sk Sk) (s : SrvSession (E := E) (Pk := Pk)) : Prop :=
    exists tape rest dbg,
      server_login_start CS (private_key_ops (ke CS)) tape setup (sv_file s) (sv_rq s) (sv_cred s) (sv_ctx s) (sv_ids s)
        = Ok (sv_state s, sv_resp s, rest, dbg).

  Definition cdone_ok (w : World (E := E) (Sc := Sc) (Pk := Pk) (Sk := Sk)) (d : CliDone (E := E) (Pk := Pk)) : Prop :=
    exists c dbg, nth_error (w_cli w) (cd_client d) = Some c /\
      client_login_finish CS (cs_state c) (cs_pw c) (cd_resp d) (cd_ctx d) (cd_ids d) None
        = Ok (cd_fin d, cd_key d, cd_export d, cd_spk d, dbg).

  Definition sdone_ok (w : World (E := E) (Sc := Sc) (Pk := Pk) (Sk := Sk)) (d : SrvDone) : Prop :=
    exists s, nth_error (w_srv w) (sd_server d) = Some s /\ server_login_finish CS (sv_state s) (sd_fin d) = Ok (sd_key d).

  Definition Inv (w : World (E := E) (Sc := Sc) (Pk := Pk) (Sk := Sk)) : Prop :=
    Forall (srv_ok (w_setup w)) (w_srv w) /\ Forall (cdone_ok w) (w_cdone w) /\ Forall (sdone_ok w) (w_sdone w).

  Lemma nth_error_app_keep {A} (l l' : list A) i x : nth_error l i = Some x -> nth_error (l ++ l') i = Some x.
  Proof. intros H. rewrite nth_error_app1; [exact H|]. apply nth_error_Some. congruence. Qed.

  Lemma Inv_init setup tape : Inv (@init E Sc Pk Sk setup tape).
  Proof. repeat split; constructor. Qed.

  Lemma Inv_step w o : Inv w -> Inv (step CS w o).
  Proof.
    intros (Hs & Hc & Hd). destruct o as [pw | file cred ctx ids rq | i r ctx ids | j fin]; cbn [step].
    - destruct (client_login_start CS (w_tape w) pw) as [[[st m] rest]|]; [|repeat split; assumption].
      repeat split; cbn; [assumption | | ].
      + eapply Forall_impl; [|exact Hc]. intros d (c & dbg & Hn & Hf). exists c, dbg. split; [|exact Hf].
        cbn. now apply nth_error_app_keep.
      + eapply Forall_impl; [|exact Hd]. intros d (s & Hn & Hf). exists s. auto.
    - destruct (server_login_start CS _ (w_tape w) (w_setup w) file rq cred ctx ids) as [[[[st resp] rest] dbg]|] eqn:Hst;
        [|repeat split; assumption].
      repeat split; cbn.
      + apply Forall_app. split; [assumption|]. constructor; [|constructor].
        exists (w_tape w), rest, dbg. exact Hst.
      + eapply Forall_impl; [|exact Hc]. intros d (c & dbg' & Hn & Hf). exists c, dbg'. auto.
      + eapply Forall_impl; [|exact Hd]. intros d (s & Hn & Hf). exists s. split; [|exact Hf].
        cbn. now apply nth_error_app_keep.
    - destruct (nth_error (w_cli w) i) as [c|] eqn:Hn; [|repeat split; assumption].
      destruct (client_login_finish CS (cs_state c) (cs_pw c) r ctx ids None) as [[[[[fin key] ek] spk] dbg]|] eqn:Hf;
        [|repeat split; assumption].
      repeat split; cbn; [assumption | | ].
      + apply Forall_app. split.
        * eapply Forall_impl; [|exact Hc]. intros d (c' & dbg' & Hn' & Hf'). exists c', dbg'. auto.
        * constructor; [|constructor]. exists c, dbg. cbn. auto.
      + eapply Forall_impl; [|exact Hd]. intros d (s & Hn' & Hf'). exists s. auto.
    - destruct (nth_error (w_srv w) j) as [s|] eqn:Hn; [|repeat split; assumption].
      destruct (server_login_finish CS (sv_state s) fin) as [key|] eqn:Hf; [|repeat split; assumption].
      repeat split; cbn; [assumption | | ].
      + eapply Forall_impl; [|exact Hc]. intros d (c' & dbg' & Hn' & Hf'). exists c', dbg'. auto.
      + apply Forall_app. split.
        * eapply Forall_impl; [|exact Hd]. intros d (s' & Hn' & Hf'). exists s'. auto.
        * constructor; [|constructor]. exists s. cbn. auto.
  Qed.

  (* every reachable world satisfies the invariant: induction over the operation list, no bound on its length *)
  Theorem reachable_inv setup tape ops : Inv (run CS (@init E Sc Pk Sk setup tape) ops).
  Proof.
    unfold run. generalize (Inv_init setup tape). generalize (@init E Sc Pk Sk setup tape).
    induction ops as [|o ops IH]; intros w Hw; cbn [fold_left]; [exact Hw|]. apply IH. now apply Inv_step.
  Qed.

  Lemma setup_fixed w ops : w_setup (run CS w ops) = w_setup w.
  Proof.
    unfold run. revert w. induction ops as [|o ops IH]; intros w; cbn [fold_left]; [reflexivity|].
    rewrite IH. destruct o; cbn [step].
    - destruct (client_login_start CS _ _) as [[[? ?] ?]|]; reflexivity.
    - destruct (server_login_start CS _ _ _ _ _ _ _ _) as [[[[? ?] ?] ?]|]; reflexivity.
    - destruct (nth_error _ _); [|reflexivity]. destruct (client_login_finish CS _ _ _ _ _ _) as [[[[[? ?] ?] ?] ?]|]; reflexivity.
    - destruct (nth_error _ _); [|reflexivity]. destruct (server_login_finish CS _ _); reflexivity.
  Qed.

  (* ---- matched conversations in every reachable world *)
  Theorem matched_conversations setup tape ops d s f :
    let w := run CS (@init E Sc Pk Sk setup tape) ops in
    In d (w_cdone w) -> In s (w_srv w) -> sv_file s = Some f ->
    k2_mac (cr_ke2 (cd_resp d)) = k2_mac (cr_ke2 (sv_resp s)) ->
    forall c, nth_error (w_cli w) (cd_client d) = Some c ->
    length (client_request_bytes CS (cs_state c)) = length (server_request_bytes CS (sv_rq s)) ->
    length (client_l2 CS (cd_resp d)) = length (client_l2 CS (sv_resp s)) ->
    length (k2_nonce (cr_ke2 (cd_resp d))) = length (k2_nonce (cr_ke2 (sv_resp s))) ->
    (client_request_bytes CS (cs_state c) = server_request_bytes CS (sv_rq s) /\
     client_l2 CS (cd_resp d) = client_l2 CS (sv_resp s) /\
     k2_nonce (cr_ke2 (cd_resp d)) = k2_nonce (cr_ke2 (sv_resp s)) /\
     k_ser_pk (ke CS) (k2_server_e_pk (cr_ke2 (cd_resp d))) = k_ser_pk (ke CS) (k2_server_e_pk (cr_ke2 (sv_resp s))) /\
     match cd_ctx d with Some x => x | None => [] end = match sv_ctx s with Some x => x | None => [] end /\
     cd_key d = sl_session_key (sv_state s))
    \/ Bad (hash CS).
  Proof.
    intros w Hd Hs Hf Hmac c Hc L1 L2 L3.
    destruct (reachable_inv setup tape ops) as (Isrv & Icd & _). fold w in Isrv, Icd.
    rewrite Forall_forall in Isrv, Icd.
    destruct (Isrv s Hs) as (t & rest & dbg & Hstart). destruct (Icd d Hd) as (c' & dbg' & Hc' & Hfin).
    rewrite Hc in Hc'. injection Hc' as <-. rewrite Hf in Hstart.
    eapply (accepted_response_is_that_sessions CS HL GL); eauto.
  Qed.

  (* ---- a completed server session accepted the one MAC over its own transcript, and released its own key *)
  Theorem server_completions setup tape ops d :
    let w := run CS (@init E Sc Pk Sk setup tape) ops in
    In d (w_sdone w) ->
    exists s, nth_error (w_srv w) (sd_server d) = Some s /\
      cf_mac (sd_fin d) = h_hmac (hash CS) (sl_km3 (sv_state s)) (sl_hashed_transcript (sv_state s)) /\
      sd_key d = sl_session_key (sv_state s).
  Proof.
    intros w Hd. destruct (reachable_inv setup tape ops) as (_ & _ & Isd). fold w in Isd.
    rewrite Forall_forall in Isd. destruct (Isd d Hd) as (s & Hn & Hf).
    exists s. split; [exact Hn|]. now apply server_finish_accept_iff in Hf.
  Qed.
End WorldInv.
