(* C02: after an honest registration with password pw, a login attempt with ANY other password pw'
   against the honest server is never accepted by the client - unless one of the explicit bad events
   (a collision of HMAC, of the hash, of HKDF-Expand, of the key derivation, or of Diffie-Hellman in the
   private key) is exhibited.  The chain runs backwards from the server MAC the client verified. *)
From Coq Require Import List Arith Lia Bool NArith.
From Coq Require Import Init.Byte.
From OKE Require Import Bytes Suite Generated Labels Hkdf Voprf Messages Envelope TripleDH Opaque.
From OKE Require Import ListLemmas BytesLemmas ResultLemmas Codecs Roundtrip Laws Layers Transcript Bad Honest ClientAccept KeySchedule.
Import ListNotations.
Local Open Scope res_scope.

Arguments firstn : simpl never.
Arguments skipn : simpl never.

Section WP.
  Context {E Sc Pk Sk : Type}.
  Variable CS : Suite E Sc Pk Sk.
  Hypothesis HL : HashLaws (hash CS).
  Hypothesis GL : GroupLaws CS.
  Hypothesis sk_eq_dec : forall a b : Sk, {a = b} + {a <> b}.

  (* ---------------- what the honest server computed *)
  Lemma server_login_start_inv tape (setup : ServerSetup Pk Sk Sk) file rq cred ctx ids slog resp rest dbg :
    server_login_start CS (private_key_ops (ke CS)) tape setup (Some file) rq cred ctx ids = Ok (slog, resp, rest, dbg) ->
    exists se u s pre sk km2 km3 hs k,
      vk CS se /\ k2_server_e_pk (cr_ke2 resp) = k_pub (ke CS) se /\
      bytestrings_from_identifiers ids (k_ser_pk (ke CS) (ru_client_s_pk file))
                                   (k_ser_pk (ke CS) (k_pub (ke CS) (kp_sk (ss_keypair setup)))) = Ok (u, s) /\
      oprf_key CS (ss_oprf_seed setup) cred = Ok k /\ vs CS k /\ cr_eval resp = o_mul (oprf CS) (cq_blinded rq) k /\
      preamble (match ctx with Some c => c | None => [] end) u
               (o_ser_e (oprf CS) (cq_blinded rq) ++ ke1_message_serialize CS (cq_ke1 rq)) s
               (credential_response_without_ke (o_ser_e (oprf CS) (cr_eval resp)) (cr_masking_nonce resp) (cr_masked resp))
               (k2_nonce (cr_ke2 resp)) (k_ser_pk (ke CS) (k_pub (ke CS) se)) = Ok pre /\
      derive_3dh_keys CS (k_dh (ke CS) (k1_client_e_pk (cq_ke1 rq)) se)
                         (k_dh (ke CS) (k1_client_e_pk (cq_ke1 rq)) (kp_sk (ss_keypair setup)))
                         (k_dh (ke CS) (ru_client_s_pk file) se)
                         (h_hash (hash CS) pre) = Ok (sk, km2, km3, hs) /\
      k2_mac (cr_ke2 resp) = h_hmac (hash CS) km2 (h_hash (hash CS) pre) /\
      sl_session_key slog = sk /\ sl_km3 slog = km3 /\
      sl_hashed_transcript slog = h_hash (hash CS) (pre ++ k2_mac (cr_ke2 resp)).
  Proof.
    unfold server_login_start. cbn [bind private_key_ops s_pub]. intros H.
    destruct (length tape <? KE_NONCE_LEN); [discriminate|].
    apply bind_Ok in H as (masked & _ & H). apply bind_Ok in H as ([u s] & Hids & H).
    apply bind_Ok in H as (ev & Hev & H). apply bind_Ok in H as ([[[st ke2] t2] d] & Hke2 & H).
    injection H as <- <- <- <-. cbn [cr_eval cr_masking_nonce cr_masked cr_ke2].
    apply (server_evaluate_inv CS GL) in Hev as (k & Hk & -> & Hkv).
    unfold generate_ke2 in Hke2.
    apply bind_Ok in Hke2 as ([ekp t1] & Hkp & Hke2). apply bind_Ok in Hke2 as ([sn t3] & _ & Hke2).
    apply bind_Ok in Hke2 as (pre & Hpre & Hke2). cbn [private_key_ops s_dh bind] in Hke2.
    apply bind_Ok in Hke2 as ([[[sk km2] km3] hs] & Hkeys & Hke2). injection Hke2 as <- <- <- <-.
    cbn [k2_nonce k2_server_e_pk k2_mac].
    apply (keypair_generate_random_inv CS GL) in Hkp as [Hsev Hsepk].
    destruct ekp as [sepk se]. cbn [kp_pk kp_sk] in *. subst sepk.
    exists se, u, s, pre, sk, km2, km3, hs, k. destruct Hsev, Hkv. repeat split; auto.
  Qed.

  (* ---------------- the client's static key is the derivation of Expand(randomized_pwd, nonce || "PrivateKey") *)
  Lemma recover_keys_seed rp nonce kp :
    recover_keys_internal CS rp nonce = Ok kp ->
    exists seed, hkdf_expand (hash CS) rp (nonce ++ STR_PRIVATE_KEY) (k_Nsk (ke CS)) = Some seed /\
                 k_derive (ke CS) (hash CS) (o_id (oprf CS)) seed = Some (kp_sk kp) /\
                 kp_pk kp = k_pub (ke CS) (kp_sk kp) /\ vk CS (kp_sk kp).
  Proof.
    unfold recover_keys_internal, keypair_from_private_key_slice, sk_deserialize. intros H.
    apply bind_Ok in H as (seed & Hseed & H). apply bind_Ok in H as (s0 & Hs0 & H).
    apply bind_Ok in H as (s & Hs & H). injection H as <-. cbn [kp_sk kp_pk].
    apply of_option_Ok in Hseed, Hs0, Hs.
    pose proof (g_derive_valid CS GL _ _ _ _ (hkdf_expand_length _ HL _ _ _ _ Hseed) Hs0) as [Hd Hl]. rewrite Hd in Hs. injection Hs as <-.
    exists seed. repeat split; auto.
  Qed.

  Lemma envelope_open_recover env rp spk ids kp ek u s :
    envelope_open CS env rp spk ids = Ok (kp, ek, u, s) -> recover_keys_internal CS rp (env_nonce env) = Ok kp.
  Proof.
    unfold envelope_open. destruct (negb (env_internal env)); [discriminate|]. intros H.
    apply bind_Ok in H as (kp0 & Hkp & H). apply bind_Ok in H as ([u0 s0] & _ & H).
    apply bind_Ok in H as ([ak ek0] & _ & H). destruct (bytes_eqb _ _); [|discriminate]. injection H as <- _ _ _. exact Hkp.
  Qed.

  Lemma envelope_seal_recover tape rp spk ids env cpk ek rest :
    envelope_seal CS tape rp spk ids = Ok (env, cpk, ek, rest) ->
    exists kp, recover_keys_internal CS rp (env_nonce env) = Ok kp /\ cpk = kp_pk kp.
  Proof.
    unfold envelope_seal. destruct (length tape <? ENVELOPE_NONCE_LEN); [discriminate|]. intros H.
    apply bind_Ok in H as (kp & Hkp & H). apply bind_Ok in H as ([u s] & _ & H).
    apply bind_Ok in H as ([ak ek0] & _ & H). injection H as <- <- _ _. cbn [env_nonce]. eauto.
  Qed.

  (* ---------------- randomized password: HMAC(0, y || ksf y) with y the hash of the Finalize input *)
  Lemma rpwd_form pw r k ksf rp :
    let P := o_h2g (oprf CS) pw (dst_hash_to_group (oprf CS)) in
    ve CS P -> vs CS r -> vs CS k ->
    get_password_derived_key CS pw r (o_mul (oprf CS) (o_mul (oprf CS) P r) k) ksf = Ok rp ->
    exists l z,
      i2osp_nat 2 (length pw) = Some l /\
      rp = h_hmac (hash CS) (zeros (h_len (hash CS)))
             (h_hash (hash CS) (l ++ pw ++ be_bytes 2 (N.of_nat (o_Noe (oprf CS))) ++ o_ser_e (oprf CS) (o_mul (oprf CS) P k) ++ STR_FINALIZE) ++ z).
  Proof.
    intros P HP Hr Hk H. unfold get_password_derived_key in H.
    rewrite (oprf_unblind CS GL pw r k P HP Hr Hk) in H.
    destruct (i2osp_nat 2 (length pw)) as [l|]; [|discriminate]. cbn [bind] in H.
    apply bind_Ok in H as (z & _ & H). injection H as <-. exists l, z. split; [reflexivity|]. reflexivity.
  Qed.

  (* ---------------- the theorem *)
  Theorem wrong_password_never_accepted
          tape setup t1 pw creg rq t2 cred rr ids ksf upload ek spk t3 pw' clog ke1 t4 ctx slog ke2 t5 dbg out :
    ve CS (o_h2g (oprf CS) pw (dst_hash_to_group (oprf CS))) ->
    ve CS (o_h2g (oprf CS) pw' (dst_hash_to_group (oprf CS))) ->
    server_setup_new CS tape = Ok (setup, t1) ->
    client_registration_start CS t1 pw = Ok (creg, rq, t2) ->
    server_registration_start CS setup rq cred = Ok rr ->
    client_registration_finish CS creg t2 pw rr ids ksf = Ok (upload, ek, spk, t3) ->
    pw' <> pw ->
    client_login_start CS t3 pw' = Ok (clog, ke1, t4) ->
    server_login_start CS (private_key_ops (ke CS)) t4 setup (Some (server_registration_finish upload)) ke1 cred ctx ids
      = Ok (slog, ke2, t5, dbg) ->
    client_login_finish CS clog pw' ke2 ctx ids ksf = Ok out ->
    BadS CS.
  Proof.
    intros HP HP' Hsetup Hrs Hsr Hrf Hne Hls Hss Hacc.
    set (P := o_h2g (oprf CS) pw (dst_hash_to_group (oprf CS))) in *.
    set (P' := o_h2g (oprf CS) pw' (dst_hash_to_group (oprf CS))) in *.
    (* setup *)
    unfold server_setup_new in Hsetup.
    apply bind_Ok in Hsetup as ([skp ta] & Hskp & Hsetup).
    destruct (length ta <? h_len (hash CS)); [discriminate|].
    apply bind_Ok in Hsetup as ([fkp tb] & _ & Hsetup). injection Hsetup as <- <-.
    apply (keypair_generate_random_inv CS GL) in Hskp as [Hssv Hspk].
    destruct skp as [spk0 ss]. cbn [kp_pk kp_sk ss_keypair ss_oprf_seed] in *. subst spk0.
    (* registration *)
    unfold client_registration_start in Hrs.
    apply bind_Ok in Hrs as ([[r b] t2'] & Hb & Hrs). injection Hrs as <- <- <-.
    apply (blind_inv CS GL) in Hb as [Hr ->]. fold P in Hsr, Hrf.
    unfold server_registration_start in Hsr. cbn [ss_oprf_seed ss_keypair rq_blinded] in Hsr.
    apply bind_Ok in Hsr as (ev & Hev & Hsr). injection Hsr as <-.
    apply (server_evaluate_inv CS GL) in Hev as (k & Hk & -> & Hkv).
    unfold client_registration_finish in Hrf. cbn [crs_blinded crs_blind rr_eval rr_server_s_pk] in Hrf.
    destruct (o_eqb (oprf CS) _ _); [discriminate|].
    apply bind_Ok in Hrf as (rp & Hrp & Hrf). apply bind_Ok in Hrf as (mk & _ & Hrf).
    apply bind_Ok in Hrf as ([[[env cpk] ek'] t3'] & Hseal & Hrf). injection Hrf as <- <- <- <-.
    apply envelope_seal_recover in Hseal as (ckp & Hckp & ->).
    apply recover_keys_seed in Hckp as (seed & Hseed & Hder & Hcpk & Hcsv).
    destruct (rpwd_form pw r k ksf rp HP Hr Hkv Hrp) as (l & z & Hl & Hrpf). fold P in Hrpf.
    (* the login attempt *)
    unfold client_login_start in Hls.
    apply bind_Ok in Hls as ([[r' b'] t3a] & Hb' & Hls).
    apply bind_Ok in Hls as ([[k1st k1m] t3b] & Hke1 & Hls). injection Hls as <- <- <-.
    apply (blind_inv CS GL) in Hb' as [Hr' ->]. fold P' in Hss, Hacc.
    unfold generate_ke1 in Hke1.
    apply bind_Ok in Hke1 as ([ekp t3c] & Hekp & Hke1).
    apply bind_Ok in Hke1 as ([cnonce t3d] & _ & Hke1). injection Hke1 as <- <- <-.
    apply (keypair_generate_random_inv CS GL) in Hekp as [Hcev Hcepk].
    destruct ekp as [cepk ce]. cbn [kp_pk kp_sk] in *. subst cepk.
    (* what the server did *)
    apply server_login_start_inv in Hss
      as (se & u & s & pre & sk & km2 & km3 & hs & k' & Hsev & Hsepk & Hids & Hk' & _ & Hevr & Hpre & Hkeys & Hmac & _).
    unfold server_registration_finish in *. cbn [ru_client_s_pk cq_blinded cq_ke1 k1_client_e_pk ss_oprf_seed ss_keypair kp_sk] in *.
    rewrite Hk in Hk'. injection Hk' as <-.
    (* what the client checked *)
    destruct out as [[[[fin skc] ekc] spkc] dbgc].
    apply client_accepts_iff in Hacc
      as (rp' & mk' & env' & kp' & u' & s' & pre' & km2' & km3' & hs' & _ & Hrp' & _ & Hun & Hopen & Hpre' & Hkeys' & Hmac' & _).
    cbn [cl_blind cl_ke1_state cl_request cq_blinded k1s_client_e_sk] in *.
    rewrite Hevr in Hrp'. 
    destruct (rpwd_form pw' r' k ksf rp' HP' Hr' Hkv Hrp') as (l' & z' & Hl' & Hrpf'). fold P' in Hrpf'.
    pose proof (envelope_open_recover _ _ _ _ _ _ _ _ Hopen) as Hckp'.
    apply recover_keys_seed in Hckp' as (seed' & Hseed' & Hder' & Hcpk' & Hcsv').
    (* 1. equal server MACs: equal DH inputs, or an HMAC collision *)
    rewrite Hmac in Hmac'.
    destruct (server_mac_determines_inputs CS HL _ _ _ _ _ _ _ _ _ _ _ _ _ _ _ _ Hkeys Hkeys' Hmac') as [(Hdh & _)|HB];
      [|exact (BS_hash CS HB)].
    (* the third Diffie-Hellman value *)
    rewrite Hsepk in Hdh.
    assert (Hvspk : vp CS spkc).
    { unfold unmask_response in Hun. apply bind_Ok in Hun as (pad & _ & Hun).
      apply bind_Ok in Hun as (pk0 & Hpk0 & Hun). apply bind_Ok in Hun as (e0 & _ & Hun). injection Hun as <- _.
      apply map_err_Ok in Hpk0. unfold pk_deserialize in Hpk0. apply of_option_Ok in Hpk0.
      eapply (g_deser_pk_valid CS GL); eauto. }
    pose proof (g_pub_valid CS GL _ Hsev) as Hsepkv. pose proof (g_pub_valid CS GL _ Hcev) as Hcepkv.
    pose proof (g_pub_valid CS GL _ Hcsv) as Hcpkv. rewrite <- Hcpk in Hcpkv.
    apply app_eq_len in Hdh as [_ Hdh];
      [|rewrite !(g_dh_len CS GL); auto].
    apply app_eq_len in Hdh as [_ Hdh3];
      [|rewrite !(g_dh_len CS GL); auto].
    (* 2. Diffie-Hellman against the server's ephemeral key: same client static key, or a DH collision *)
    rewrite Hcpk in Hdh3. rewrite (g_dh_sym CS GL _ _ Hcsv Hsev) in Hdh3.
    destruct (sk_eq_dec (kp_sk ckp) (kp_sk kp')) as [Hcs|Hcs]; [|exact (BS_dh CS _ _ _ Hcs Hdh3)].
    (* 3. same derived key: same seed, or a derivation collision *)
    rewrite <- Hcs in Hder'.
    destruct (list_eq_dec Byte.byte_eq_dec seed seed') as [Hs|Hs]; [|exact (BS_derive CS _ _ _ Hs Hder Hder')].
    subst seed'.
    (* 4. same seed: same randomized password, or an Expand collision *)
    destruct (list_eq_dec Byte.byte_eq_dec rp rp') as [Hrpeq|Hrpne].
    2:{ eapply (BS_expand CS rp _ rp' _ seed _); [|exact Hseed|exact Hseed']. intros [= H _]. contradiction. }
    (* 5. same randomized password: same OPRF output, or an HMAC collision *)
    rewrite Hrpf, Hrpf' in Hrpeq.
    apply (mac_inj (hash CS)) in Hrpeq; [|reflexivity].
    destruct Hrpeq as [[_ Hyz]|HB]; [|exact (BS_hash CS HB)].
    apply app_eq_len in Hyz as [Hy _]; [|now rewrite !(hash_len _ HL)].
    (* 6. same OPRF output: same Finalize input, or a hash collision *)
    match type of Hy with h_hash _ ?x = h_hash _ ?y =>
      destruct (list_eq_dec Byte.byte_eq_dec x y) as [Hin|Hin]; [|exact (BS_hash CS (BadHash _ _ _ Hin Hy))] end.
    (* 7. the Finalize input is an injective encoding of the password *)
    pose proof (g_mul_valid CS GL _ _ HP Hkv) as [_ L1]. pose proof (g_mul_valid CS GL _ _ HP' Hkv) as [_ L2].
    destruct (finalize_input_injective CS _ _ _ _ _ _ Hl Hl' (eq_trans L1 (eq_sym L2)) Hin) as [Hpw _].
    exfalso. apply Hne. now symmetry.
  Qed.
End WP.
