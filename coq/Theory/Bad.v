(* Explicit bad events (DESIGN.md 2.2).  The security-flavoured theorems are proved
   unconditionally in the form  "rejected  \/  Bad": every constructor of [Bad]
   carries a witness - a collision in HMAC or in the hash, between inputs the
   theorem exhibits.  Nothing is assumed about the hash functions. *)
From Coq Require Import List Arith Lia Bool.
From OKE Require Import Bytes Suite.
Import ListNotations.

Inductive Bad (h : HashOps) : Prop :=
| BadMac (k m k' m' : bytes) :
    length k = length k' -> (k, m) <> (k', m') -> h_hmac h k m = h_hmac h k' m' -> Bad h
| BadHash (x y : bytes) : x <> y -> h_hash h x = h_hash h y -> Bad h.

(* Suite-level bad events: besides HMAC / hash collisions, a collision of HKDF-Expand on a (possibly
   truncated) output, of the key derivation from a seed, or two different valid private keys with the
   same Diffie-Hellman output against one public key.  Every constructor carries its witness. *)
From OKE Require Import Hkdf.
Section BadS.
  Context {E Sc Pk Sk : Type}.
  Variable CS : Suite E Sc Pk Sk.

  Inductive BadS : Prop :=
  | BS_hash : Bad (hash CS) -> BadS
  | BS_expand (prk info prk' info' out : bytes) (len : nat) :
      (prk, info) <> (prk', info') ->
      hkdf_expand (hash CS) prk info len = Some out -> hkdf_expand (hash CS) prk' info' len = Some out -> BadS
  | BS_derive (seed seed' : bytes) (s : Sk) :
      seed <> seed' ->
      k_derive (ke CS) (hash CS) (o_id (oprf CS)) seed = Some s ->
      k_derive (ke CS) (hash CS) (o_id (oprf CS)) seed' = Some s -> BadS
  | BS_dh (P : Pk) (s s' : Sk) :
      s <> s' -> k_dh (ke CS) P s = k_dh (ke CS) P s' -> BadS.
End BadS.
