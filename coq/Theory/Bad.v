(* Explicit bad events (DESIGN.md 2.2).  The security-flavoured theorems are proved
   unconditionally in the form  "rejected  \/  Bad": every constructor of [Bad]
   carries a witness - a collision in HMAC or in the hash, between inputs the
   theorem exhibits.  Nothing is assumed about the hash functions. *)
From Coq Require Import List Arith Lia Bool.
From OKE Require Import Bytes Suite.
Import ListNotations.

Inductive Bad (h : HashOps) : Prop :=
| BadMac (k m k' m' : bytes) :
    length k = length k' -> (k, m) <> (k', m') -> h_hmac h k m = h_hmac h k' m' -> Bad h
| BadHash (x y : bytes) : x <> y -> h_hash h x = h_hash h y -> Bad h.
