(* Encode-then-decode is the identity on well-formed values, for the eleven
   native encodings (C10, C13).  "Well-formed" is what the API produces: byte
   fields of their fixed lengths and group elements / scalars / keys that
   survive their own element-level round trip. *)
From Coq Require Import List Arith Lia Bool.
From OKE Require Import Bytes Suite Generated Voprf Messages ListLemmas BytesLemmas ResultLemmas Codecs.
Import ListNotations.
Local Open Scope res_scope.

Arguments firstn : simpl never.
Arguments skipn : simpl never.

Section RT.
  Context {E Sc Pk Sk : Type}.
  Variable CS : Suite E Sc Pk Sk.
  Let O := oprf CS.
  Let K := ke CS.
  Let Nh := h_len (hash CS).
  Let Nn := KE_NONCE_LEN.

  Definition wf_elem (e : E) : Prop :=
    o_deser_e O (o_ser_e O e) = Some e /\ length (o_ser_e O e) = o_Noe O.
  Definition wf_elem_nonid (e : E) : Prop := wf_elem e /\ o_eqb O (o_identity O) e = false.
  Definition wf_scalar (s : Sc) : Prop :=
    o_deser_s O (o_ser_s O s) = Some s /\ length (o_ser_s O s) = o_Nok O.
  Definition wf_pk (p : Pk) : Prop :=
    k_deser_pk K (k_ser_pk K p) = Some p /\ length (k_ser_pk K p) = k_Npk K.
  Definition wf_sk (s : Sk) : Prop :=
    k_deser_sk K (k_ser_sk K s) = Some s /\ length (k_ser_sk K s) = k_Nsk K.

  Definition wf_envelope (e : Envelope) : Prop :=
    env_internal e = true /\ length (env_nonce e) = ENVELOPE_NONCE_LEN /\ length (env_hmac e) = Nh.
  Definition wf_ke1 (m : Ke1Message Pk) : Prop := length (k1_nonce m) = Nn /\ wf_pk (k1_client_e_pk m).
  Definition wf_ke2 (m : Ke2Message Pk) : Prop :=
    length (k2_nonce m) = Nn /\ wf_pk (k2_server_e_pk m) /\ length (k2_mac m) = Nh.
  Definition wf_masked (m : MaskedResponse) : Prop :=
    length (mr_nonce m) = Nn /\ length (mr_hash m) = Nh /\ length (mr_pk m) = k_Npk K.

  (* ---------------- element level *)
  Lemma deserialize_element_rt e : wf_elem e -> deserialize_element CS (o_ser_e O e) = Ok e.
  Proof.
    intros [Hd Hl]. unfold deserialize_element, voprf_deser_elem. fold O.
    rewrite Hl, Nat.ltb_irrefl. rewrite firstn_all' by lia. rewrite Hd. cbn [of_option bind].
    now rewrite bytes_eqb_refl.
  Qed.

  Lemma pk_deserialize_rt p : wf_pk p -> pk_deserialize CS (k_ser_pk K p) = Ok p.
  Proof. intros [Hd _]. unfold pk_deserialize. fold K. now rewrite Hd. Qed.

  Lemma sk_deserialize_rt s : wf_sk s -> sk_deserialize CS (k_ser_sk K s) = Ok s.
  Proof. intros [Hd _]. unfold sk_deserialize. fold K. now rewrite Hd. Qed.

  Lemma voprf_deser_scalar_rt s : wf_scalar s -> voprf_deser_scalar O (o_ser_s O s) = Ok s.
  Proof.
    intros [Hd Hl]. unfold voprf_deser_scalar. rewrite Hl, Nat.ltb_irrefl.
    rewrite firstn_all' by lia. now rewrite Hd.
  Qed.

  Lemma css_eq b n : length b = n -> check_slice_size b n = Ok b.
  Proof. intros <-. unfold check_slice_size. now rewrite Nat.eqb_refl. Qed.
  Lemma cssa_le b n : n <= length b -> check_slice_size_atleast b n = Ok b.
  Proof. intros H. unfold check_slice_size_atleast. destruct (Nat.ltb_spec (length b) n); [lia|reflexivity]. Qed.

  (* ---------------- envelope *)
  Lemma envelope_rt e : wf_envelope e -> envelope_deserialize CS (envelope_serialize e) = Ok e.
  Proof.
    intros (Hi & Hn & Hh). unfold envelope_deserialize, envelope_serialize.
    rewrite app_length, Hn. destruct (Nat.ltb_spec (ENVELOPE_NONCE_LEN + length (env_hmac e)) ENVELOPE_NONCE_LEN); [lia|].
    rewrite skipn_app_exact' by (unfold Nh, Nn, O, K in *; lia). rewrite css_eq by exact Hh. cbn [bind].
    rewrite firstn_app_exact' by (unfold Nh, Nn, O, K in *; lia). destruct e; cbn in *; now subst.
  Qed.

  (* ---------------- messages *)
  Theorem registration_request_rt m :
    wf_elem (rq_blinded m) -> registration_request_deserialize CS (registration_request_serialize CS m) = Ok m.
  Proof.
    intros H. unfold registration_request_deserialize, registration_request_serialize. fold O.
    rewrite deserialize_element_rt by assumption. now destruct m.
  Qed.

  Theorem registration_response_rt m :
    wf_elem (rr_eval m) -> wf_pk (rr_server_s_pk m) ->
    registration_response_deserialize CS (registration_response_serialize CS m) = Ok m.
  Proof.
    intros He Hp. unfold registration_response_deserialize, registration_response_serialize. fold O K.
    destruct He as [Hd Hl] eqn:?. destruct Hp as [Hdp Hlp] eqn:?.
    rewrite css_eq by (rewrite app_length; lia). cbn [bind].
    rewrite skipn_app_exact' by (unfold Nh, Nn, O, K in *; lia). rewrite pk_deserialize_rt by (split; assumption). cbn [bind].
    rewrite firstn_app_exact' by (unfold Nh, Nn, O, K in *; lia). rewrite deserialize_element_rt by (split; assumption). now destruct m.
  Qed.

  Theorem registration_upload_rt m :
    wf_envelope (ru_envelope m) -> length (ru_masking_key m) = Nh -> wf_pk (ru_client_s_pk m) ->
    registration_upload_deserialize CS (registration_upload_serialize CS m) = Ok m.
  Proof.
    intros He Hm [Hdp Hlp]. unfold registration_upload_deserialize, registration_upload_serialize, slice. fold K.
    rewrite cssa_le by (rewrite !app_length; unfold Nh, Nn, O, K in *; lia). cbn [bind].
    rewrite app_assoc.
    rewrite skipn_app_exact' by (rewrite app_length; unfold Nh, Nn, O, K in *; lia).
    rewrite envelope_rt by assumption. cbn [bind].
    rewrite <- app_assoc. rewrite firstn_app_exact' by (unfold Nh, Nn, O, K in *; lia).
    rewrite pk_deserialize_rt by (split; assumption). cbn [bind].
    rewrite skipn_app_exact' by (unfold Nh, Nn, O, K in *; lia). rewrite firstn_app_exact' by (unfold Nh, Nn, O, K in *; lia). now destruct m.
  Qed.

  Lemma ke1_message_rt m : wf_ke1 m -> ke1_message_deserialize CS (ke1_message_serialize CS m) = Ok m.
  Proof.
    intros [Hn [Hd Hl]]. unfold ke1_message_deserialize, ke1_message_serialize. fold K.
    rewrite css_eq by (rewrite app_length; unfold Nh, Nn, O, K in *; lia). cbn [bind].
    rewrite skipn_app_exact' by (unfold Nh, Nn, O, K in *; lia). rewrite pk_deserialize_rt by (split; assumption). cbn [bind].
    rewrite firstn_app_exact' by (unfold Nh, Nn, O, K in *; lia). now destruct m.
  Qed.

  Lemma ke1_message_ser_length m : wf_ke1 m -> length (ke1_message_serialize CS m) = ke1_message_len CS.
  Proof. intros [Hn [_ Hl]]. unfold ke1_message_serialize, ke1_message_len. fold K. rewrite app_length. unfold Nh, Nn, O, K in *. lia. Qed.

  Theorem credential_request_rt m :
    wf_elem_nonid (cq_blinded m) -> wf_ke1 (cq_ke1 m) ->
    credential_request_deserialize CS (credential_request_serialize CS m) = Ok m.
  Proof.
    intros [[Hd Hl] Hid] Hk. unfold credential_request_deserialize, credential_request_serialize. fold O.
    rewrite cssa_le by (rewrite app_length; lia). cbn [bind].
    rewrite firstn_app_exact' by (unfold Nh, Nn, O, K in *; lia). rewrite deserialize_element_rt by (split; assumption). cbn [bind].
    rewrite Hid. rewrite skipn_app_exact' by (unfold Nh, Nn, O, K in *; lia). rewrite ke1_message_rt by assumption. now destruct m.
  Qed.

  Lemma ke2_message_rt m : wf_ke2 m -> ke2_message_deserialize CS (ke2_message_serialize CS m) = Ok m.
  Proof.
    intros (Hn & [Hd Hl] & Hm). unfold ke2_message_deserialize, ke2_message_serialize. fold K.
    rewrite cssa_le by (rewrite !app_length; unfold Nh, Nn, O, K in *; lia). cbn [bind].
    rewrite skipn_app_exact' by (unfold Nh, Nn, O, K in *; lia).
    rewrite cssa_le by (rewrite !app_length; lia). cbn [bind].
    rewrite skipn_app_exact' by (unfold Nh, Nn, O, K in *; lia). rewrite css_eq by exact Hm. cbn [bind].
    rewrite firstn_app_exact' by (unfold Nh, Nn, O, K in *; lia). rewrite pk_deserialize_rt by (split; assumption). cbn [bind].
    rewrite firstn_app_exact' by (unfold Nh, Nn, O, K in *; lia). now destruct m.
  Qed.

  Lemma masked_response_rt m : wf_masked m -> masked_response_deserialize CS (masked_response_serialize m) = m.
  Proof.
    intros (Hn & Hh & Hp). unfold masked_response_deserialize, masked_response_serialize, slice. fold K.
    rewrite firstn_app_exact' by (unfold Nh, Nn, O, K in *; lia).
    rewrite skipn_app_exact' by (unfold Nh, Nn, O, K in *; lia). rewrite firstn_app_exact' by (unfold Nh, Nn, O, K in *; lia).
    rewrite app_assoc. rewrite skipn_app_exact' by (rewrite app_length; unfold Nh, Nn, O, K in *; lia).
    rewrite firstn_all' by lia. now destruct m.
  Qed.

  Theorem credential_response_rt m :
    wf_elem_nonid (cr_eval m) -> length (cr_masking_nonce m) = Nn -> wf_masked (cr_masked m) -> wf_ke2 (cr_ke2 m) ->
    credential_response_deserialize CS (credential_response_serialize CS m) = Ok m.
  Proof.
    intros [[Hd Hl] Hid] Hn Hm Hk.
    pose proof Hm as (Hm1 & Hm2 & Hm3). pose proof Hk as (Hk1 & [_ Hk2] & Hk3).
    pose proof nonce_lens_eq as Hne.
    assert (Hml : length (masked_response_serialize (cr_masked m)) = k_Npk K + envelope_len CS).
    { unfold masked_response_serialize, envelope_len. rewrite !app_length. unfold Nh, Nn, O, K in *. lia. }
    assert (Hkl : length (ke2_message_serialize CS (cr_ke2 m)) = ke2_message_len CS).
    { unfold ke2_message_serialize, ke2_message_len. rewrite !app_length. unfold Nh, Nn, O, K in *. lia. }
    unfold credential_response_deserialize, credential_response_serialize, slice. fold O K.
    rewrite cssa_le by (rewrite !app_length; unfold Nh, Nn, O, K in *; lia). cbn [bind].
    destruct (app4_slices (o_ser_e O (cr_eval m)) (cr_masking_nonce m) (masked_response_serialize (cr_masked m))
                (ke2_message_serialize CS (cr_ke2 m)) (o_Noe O) KE_NONCE_LEN (k_Npk K + envelope_len CS))
      as (E1 & E2 & E3 & E4); [exact Hl | exact Hn | exact Hml |].
    rewrite E1, E2, E3, E4.
    rewrite deserialize_element_rt by (split; assumption). cbn [bind].
    rewrite Hid. rewrite masked_response_rt by assumption.
    rewrite ke2_message_rt by assumption. now destruct m.
  Qed.

  Theorem credential_finalization_rt m :
    length (cf_mac m) = Nh -> credential_finalization_deserialize CS (credential_finalization_serialize m) = Ok m.
  Proof.
    intros H. unfold credential_finalization_deserialize, credential_finalization_serialize.
    rewrite css_eq by exact H. now destruct m.
  Qed.

  (* ---------------- states *)
  Theorem server_login_rt s :
    length (sl_km3 s) = Nh -> length (sl_hashed_transcript s) = Nh -> length (sl_session_key s) = Nh ->
    server_login_deserialize CS (server_login_serialize s) = Ok s.
  Proof.
    intros H1 H2 H3. unfold server_login_deserialize, server_login_serialize, slice.
    rewrite css_eq by (rewrite !app_length; unfold Nh, Nn, O, K in *; lia). cbn [bind].
    rewrite firstn_app_exact' by (unfold Nh, Nn, O, K in *; lia). rewrite skipn_app_exact' by (unfold Nh, Nn, O, K in *; lia). rewrite firstn_app_exact' by (unfold Nh, Nn, O, K in *; lia).
    rewrite app_assoc. rewrite skipn_app_exact' by (rewrite app_length; unfold Nh, Nn, O, K in *; lia).
    rewrite firstn_all' by (unfold Nh, Nn, O, K in *; lia). now destruct s.
  Qed.

  Theorem client_registration_rt s :
    wf_scalar (crs_blind s) -> wf_elem (crs_blinded s) ->
    client_registration_deserialize CS (client_registration_serialize CS s) = Ok s.
  Proof.
    intros [Hds Hls] [Hde Hle]. unfold client_registration_deserialize, client_registration_serialize. fold O.
    rewrite css_eq by (rewrite app_length; lia). cbn [bind].
    rewrite firstn_app_exact' by (unfold Nh, Nn, O, K in *; lia). rewrite voprf_deser_scalar_rt by (split; assumption). cbn [bind].
    rewrite skipn_app_exact' by (unfold Nh, Nn, O, K in *; lia). rewrite deserialize_element_rt by (split; assumption). now destruct s.
  Qed.

  Lemma ke1_state_rt s :
    wf_sk (k1s_client_e_sk s) -> length (k1s_nonce s) = Nn ->
    ke1_state_deserialize CS (ke1_state_serialize CS s) = Ok s.
  Proof.
    intros [Hd Hl] Hn. unfold ke1_state_deserialize, ke1_state_serialize, slice. fold K.
    rewrite cssa_le by (rewrite app_length; unfold Nh, Nn, O, K in *; lia). cbn [bind].
    rewrite firstn_app_exact' by (unfold Nh, Nn, O, K in *; lia). rewrite sk_deserialize_rt by (split; assumption). cbn [bind].
    rewrite skipn_app_exact' by (unfold Nh, Nn, O, K in *; lia). rewrite firstn_all' by (unfold Nh, Nn, O, K in *; lia). now destruct s.
  Qed.

  Theorem client_login_rt s :
    wf_scalar (cl_blind s) -> wf_elem_nonid (cq_blinded (cl_request s)) -> wf_ke1 (cq_ke1 (cl_request s)) ->
    wf_sk (k1s_client_e_sk (cl_ke1_state s)) -> length (k1s_nonce (cl_ke1_state s)) = Nn ->
    client_login_deserialize CS (client_login_serialize CS s) = Ok s.
  Proof.
    intros [Hds Hls] He Hk Hsk Hn.
    pose proof He as [[_ Hle] _]. pose proof (ke1_message_ser_length _ Hk) as Hkl. pose proof Hsk as [_ Hskl].
    assert (Hrl : length (credential_request_serialize CS (cl_request s)) = o_Noe O + ke1_message_len CS).
    { unfold credential_request_serialize. rewrite app_length. fold O. lia. }
    assert (Hsl : length (ke1_state_serialize CS (cl_ke1_state s)) = ke1_state_len CS).
    { unfold ke1_state_serialize, ke1_state_len. rewrite app_length. unfold Nh, Nn, O, K in *. lia. }
    unfold client_login_deserialize, client_login_serialize, slice. fold O.
    rewrite css_eq by (rewrite !app_length; lia). cbn [bind].
    rewrite app_assoc. rewrite skipn_app_exact' by (rewrite app_length; lia).
    rewrite ke1_state_rt by assumption. cbn [bind].
    rewrite <- app_assoc. rewrite firstn_app_exact' by (unfold Nh, Nn, O, K in *; lia).
    rewrite voprf_deser_scalar_rt by (split; assumption). cbn [bind].
    rewrite skipn_app_exact' by (unfold Nh, Nn, O, K in *; lia). rewrite firstn_app_exact' by (unfold Nh, Nn, O, K in *; lia).
    rewrite credential_request_rt by assumption. now destruct s.
  Qed.

  Theorem server_setup_rt s :
    length (ss_oprf_seed s) = Nh -> wf_sk (kp_sk (ss_keypair s)) -> wf_sk (kp_sk (ss_fake_keypair s)) ->
    kp_pk (ss_keypair s) = k_pub K (kp_sk (ss_keypair s)) ->
    kp_pk (ss_fake_keypair s) = k_pub K (kp_sk (ss_fake_keypair s)) ->
    server_setup_deserialize CS (private_key_ops K) (server_setup_serialize CS (private_key_ops K) s) = Ok s.
  Proof.
    intros Hs [Hd1 Hl1] [Hd2 Hl2] Hp1 Hp2.
    unfold server_setup_deserialize, server_setup_serialize, keypair_from_private_key_slice, slice.
    cbn [private_key_ops s_deser s_pub s_ser]. fold K.
    rewrite css_eq by (rewrite !app_length; unfold Nh, Nn, O, K in *; lia). cbn [bind].
    rewrite skipn_app_exact' by (unfold Nh, Nn, O, K in *; lia). rewrite firstn_app_exact' by (unfold Nh, Nn, O, K in *; lia).
    rewrite Hd1. cbn [of_option bind].
    rewrite app_assoc. rewrite skipn_app_exact' by (rewrite app_length; unfold Nh, Nn, O, K in *; lia).
    rewrite sk_deserialize_rt by (split; assumption). cbn [bind].
    rewrite <- app_assoc. rewrite firstn_app_exact' by (unfold Nh, Nn, O, K in *; lia).
    destruct s as [seed [pk1 sk1] [pk2 sk2]]; cbn in *. now subst.
  Qed.
End RT.
