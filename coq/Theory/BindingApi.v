(* C05 end to end: what a successful login says about the parameters of the two sides.
   If a client accepts a response whose MAC field is the MAC an honest server session (started under a
   record [file], credential identifier, context [ctx_s], identities [ids_s]) put into its response, then
   client and server used the same context (absent = empty), the same effective client identity (absent =
   the client's static public key: the one in the server's record on the server side, the one recovered
   from the envelope on the client side) and the same effective server identity (absent = the server's
   static public key: the setup's on the server side, the one unmasked from the response on the client
   side) - or an HMAC / hash collision is exhibited.  Contrapositive: any disagreement in context or
   effective identities makes the client's final step fail (up to an exhibited collision).
   Same proof as Theory/MatchingApi.v, keeping the identity conjuncts. *)
From Coq Require Import List Arith Lia Bool NArith.
From Coq Require Import Init.Byte.
From OKE Require Import Bytes Suite Generated Hkdf Voprf Messages Envelope TripleDH Opaque.
From OKE Require Import ListLemmas BytesLemmas ResultLemmas Laws Layers Transcript Bad ClientAccept KeySchedule Accept Matching Honest WrongPassword MatchingApi.
Import ListNotations.
Local Open Scope res_scope.

Section BindingApi.
  Context {E Sc Pk Sk : Type}.
  Variable CS : Suite E Sc Pk Sk.
  Hypothesis HL : HashLaws (hash CS).
  Hypothesis GL : GroupLaws CS.

  Theorem accepted_login_agrees_on_context_and_identities
          tape (setup : ServerSetup Pk Sk Sk) file rq cred ctx_s ids_s slog resp rest dbg
          clog pw r' ctx_c ids_c ksf fin sk ek spk dbgc :
    server_login_start CS (private_key_ops (ke CS)) tape setup (Some file) rq cred ctx_s ids_s = Ok (slog, resp, rest, dbg) ->
    client_login_finish CS clog pw r' ctx_c ids_c ksf = Ok (fin, sk, ek, spk, dbgc) ->
    k2_mac (cr_ke2 r') = k2_mac (cr_ke2 resp) ->
    (* messages of the suite's fixed lengths (C10) *)
    length (client_request_bytes CS clog) = length (server_request_bytes CS rq) ->
    length (client_l2 CS r') = length (client_l2 CS resp) ->
    length (k2_nonce (cr_ke2 r')) = length (k2_nonce (cr_ke2 resp)) ->
    (exists rp env kp u s,
       (* what the client recovered: its key pair from the envelope, the server key from the masked response *)
       envelope_open CS env rp spk ids_c = Ok (kp, ek, u, s) /\
       match ctx_c with Some c => c | None => [] end = match ctx_s with Some c => c | None => [] end /\
       effective (id_client ids_c) (k_ser_pk (ke CS) (kp_pk kp)) =
         effective (id_client ids_s) (k_ser_pk (ke CS) (ru_client_s_pk file)) /\
       effective (id_server ids_c) (k_ser_pk (ke CS) spk) =
         effective (id_server ids_s) (k_ser_pk (ke CS) (k_pub (ke CS) (kp_sk (ss_keypair setup)))))
    \/ Bad (hash CS).
  Proof.
    intros Hsrv Hacc Hmac L1 L2 L3.
    apply (server_login_start_inv CS GL) in Hsrv
      as (se & u & s & pre & sks & km2 & km3 & hs & k & _ & Hsepk & Hids & _ & _ & _ & Hpre & Hkeys & Hm & Hss & _ & _).
    apply client_accepts_iff in Hacc
      as (rp & mk & env & kp & u' & s' & pre' & km2' & km3' & hs' & _ & _ & _ & _ & Hopen & Hpre' & Hkeys' & Hm' & _).
    rewrite Hmac, Hm in Hm'.
    destruct (equal_server_mac_equal_transcript CS HL _ _ _ _ _ _ _ _ _ _ _ _ _ _ _ _ Hkeys Hkeys' Hm') as [(Hp & _ & Hsk & _)|HB]; [|now right].
    subst pre'. left.
    pose proof Hopen as Hopen0.
    unfold envelope_open in Hopen. destruct (negb (env_internal env)); [discriminate|].
    apply bind_Ok in Hopen as (kp0 & _ & Hopen). apply bind_Ok in Hopen as ([u0 s0] & Hids' & Hopen).
    apply bind_Ok in Hopen as ([ak ek0] & _ & Hopen). destruct (bytes_eqb _ _); [|discriminate].
    injection Hopen as <- _ <- <-.
    rewrite <- Hsepk in Hpre.
    destruct (equal_transcripts_same_conversation _ _ _ _ _ _ _ _ _ _ _ _ _ _ _ _ _ _ _ _ _
                Hids' Hids L1 L2 L3 Hpre' Hpre) as (Hc & Hiu & His & _).
    exists rp, env, kp0, u0, s0. repeat split; assumption.
  Qed.
End BindingApi.
