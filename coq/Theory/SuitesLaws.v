(* Everything that is PROVED about each of the 20 concrete suites: HashLaws, CodecLaws, SizeLaws.
   What remains assumed for them is exactly GroupLaws (DESIGN.md 6). *)
From Coq Require Import List NArith ZArith Arith Lia Bool.
From OKE Require Import Bytes Suite Generated Laws Codecs CodecsConcrete HashConcrete Sha2 Weierstrass Curve25519 Suites.
Import ListNotations.

Definition proved_laws {E Sc Pk Sk} (CS : Suite E Sc Pk Sk) : Prop :=
  HashLaws (hash CS) /\ CodecLaws CS /\ SizeLaws CS.

Lemma size_laws_by_computation {E Sc Pk Sk} (CS : Suite E Sc Pk Sk) :
  (o_Nok (oprf CS) <=? 255 * h_len (hash CS)) && (k_Nsk (ke CS) <=? 255 * h_len (hash CS))
  && (k_Npk (ke CS) + (ENVELOPE_NONCE_LEN + h_len (hash CS)) <=? 255 * h_len (hash CS)) = true -> SizeLaws CS.
Proof.
  intros H. apply andb_true_iff in H as [H H3]. apply andb_true_iff in H as [H1 H2].
  apply Nat.leb_le in H1, H2, H3. constructor; assumption.
Qed.

Theorem proved_laws_20 : all_suites (fun _ _ _ _ CS => proved_laws CS).
Proof.
  pose proof codec_laws_20 as HC. unfold all_suites, proved_laws in *.
  repeat match goal with H : _ /\ _ |- _ => destruct H end.
  repeat match goal with |- _ /\ _ => split end;
    first [ assumption | exact SHA256_laws | exact SHA384_laws | exact SHA512_laws
          | (apply size_laws_by_computation; vm_compute; reflexivity) ].
Qed.
