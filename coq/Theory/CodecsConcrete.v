(* The element-level codec laws ([CodecLaws]) for the concrete groups.
   Proved: scalar codecs of all groups (I2OSP / OS2IP ranges, X25519 raw
   strings), NIST public keys (canonical by construction of the repaired
   decoder), X25519 public keys (raw bytes), element lengths.
   Hypothesis: the ristretto255 decoder is canonical (RFC 9496), needed only
   when the key-exchange group is ristretto255. *)
From Coq Require Import List NArith ZArith Arith Lia Bool.
From OKE Require Import Bytes Suite Messages ListLemmas BytesLemmas ResultLemmas Codecs.
From OKE Require Import Api Sha2 Field Weierstrass Curve25519 Suites Run.
Import ListNotations.

Lemma Z_to_bytes_be_length n z : length (Z_to_bytes_be n z) = n.
Proof. apply be_bytes_length. Qed.
Lemma Z_to_bytes_le_length n z : length (Z_to_bytes_le n z) = n.
Proof. apply le_bytes_length. Qed.

Lemma be_roundtrip n b : length b = n -> Z_to_bytes_be n (bytes_to_Z_be b) = b.
Proof. intros H. unfold Z_to_bytes_be, bytes_to_Z_be. rewrite N2Z.id. now apply be_bytes_os2ip'. Qed.
Lemma le_roundtrip n b : length b = n -> Z_to_bytes_le n (bytes_to_Z_le b) = b.
Proof. intros H. unfold Z_to_bytes_le, bytes_to_Z_le. rewrite N2Z.id. now apply le_bytes_os2ip'. Qed.

(* ---------------------------------------------------------------- Weierstrass *)
Section W.
  Variable C : wcurve.

  Lemma w_ser_length P : length (w_ser C P) = w_Npk C.
  Proof.
    unfold w_ser, w_Npk. destruct P as [[x y]|].
    - cbn [length]. now rewrite Z_to_bytes_be_length.
    - unfold zeros. now rewrite repeat_length.
  Qed.

  Lemma w_scalar_canon b k : length b = w_Nfe C -> w_deser_scalar C b = Some k -> w_ser_scalar C k = b.
  Proof.
    unfold w_deser_scalar, w_ser_scalar. intros Hl H.
    destruct (_ || _); [|discriminate].
    destruct (_ && _); [|discriminate]. injection H as <-. now apply be_roundtrip.
  Qed.

  Lemma w_deser_gen_length c b P : w_deser_gen C c b = Some P -> length b = w_Npk C.
  Proof.
    unfold w_deser_gen. destruct (Nat.eqb_spec (length b) (w_Npk C)); cbn [negb]; [auto | discriminate].
  Qed.

  Lemma ke_w_canon b pk : k_deser_pk (ke_weierstrass C) b = Some pk -> k_ser_pk (ke_weierstrass C) pk = b.
  Proof.
    cbn [ke_weierstrass k_deser_pk k_ser_pk]. destruct (w_deser_gen C true b) as [P|]; [|discriminate].
    destruct (bytes_eqb (w_ser C P) b) eqn:E; [|discriminate]. intros [= <-]. now apply bytes_eqb_eq.
  Qed.

  Lemma ke_w_pk_len b pk : k_deser_pk (ke_weierstrass C) b = Some pk -> length b = k_Npk (ke_weierstrass C).
  Proof.
    cbn [ke_weierstrass k_deser_pk k_Npk]. destruct (w_deser_gen C true b) as [P|] eqn:E; [|discriminate].
    intros _. exact (w_deser_gen_length true b P E).
  Qed.
End W.

(* ---------------------------------------------------------------- ristretto255 / X25519 *)
(* ristretto255 elements are represented by their encodings: the decoder returns its input *)
Lemma rb_deser_canon b e : rb_deser b = Some e -> e = b /\ length b = 32.
Proof.
  unfold rb_deser, rb_valid. destruct (r_deser_gen false b) as [P|] eqn:E; [|discriminate].
  intros [= <-]. split; [reflexivity|].
  unfold r_deser_gen in E. destruct (Nat.eqb_spec (length b) 32); [assumption|discriminate].
Qed.

Lemma r_scalar_canon b k : length b = 32 -> r_deser_scalar b = Some k -> r_ser_scalar k = b.
Proof.
  unfold r_deser_scalar, r_ser_scalar. intros Hl H.
  destruct (negb _); [discriminate|]. destruct (_ && _); [|discriminate]. injection H as <-. now apply le_roundtrip.
Qed.

Lemma x_pk_canon b pk : x_deser_pk b = Some pk -> pk = b /\ length b = 32.
Proof.
  unfold x_deser_pk. destruct (Nat.eqb_spec (length b) 32); cbn [negb]; [|discriminate].
  destruct (mont_is_identity b); [discriminate|]. destruct (mont_is_identity _); [discriminate|].
  intros [= <-]. auto.
Qed.

Lemma x_sk_canon b s : x_deser_sk b = Some s -> s = b.
Proof.
  unfold x_deser_sk. destruct (negb _); [discriminate|]. destruct (negb _); [discriminate|].
  destruct (bytes_eqb b (zeros 32)); [discriminate|]. now intros [= <-].
Qed.

(* ---------------------------------------------------------------- the 20 suites *)
Definition oprf_suite_laws {E Sc} (O : OprfOps E Sc) : Prop :=
  (forall b s, length b = o_Nok O -> o_deser_s O b = Some s -> o_ser_s O s = b) /\
  (forall b e, o_deser_e O b = Some e -> length (o_ser_e O e) = o_Noe O).

Lemma O_R255_laws : oprf_suite_laws O_R255.
Proof.
  split; [exact r_scalar_canon|]. intros b e H. cbn in H |- *.
  now apply rb_deser_canon in H as [-> ->].
Qed.
Lemma O_W_laws C h id : oprf_suite_laws (oprf_weierstrass C h id).
Proof. split; [exact (w_scalar_canon C) | intros b e _; exact (w_ser_length C e)]. Qed.

Definition ke_suite_laws {Pk Sk} (K : KeOps Pk Sk) : Prop :=
  (forall b pk, k_deser_pk K b = Some pk -> k_ser_pk K pk = b) /\
  (forall b pk, k_deser_pk K b = Some pk -> length b = k_Npk K) /\
  (forall b s, length b = k_Nsk K -> k_deser_sk K b = Some s -> k_ser_sk K s = b).

Lemma K_W_laws C : ke_suite_laws (ke_weierstrass C).
Proof. split; [exact (ke_w_canon C)|]. split; [exact (ke_w_pk_len C) | exact (w_scalar_canon C)]. Qed.

Lemma K_X25519_laws : ke_suite_laws K_X25519.
Proof.
  split; [|split].
  - intros b pk H. now apply x_pk_canon in H as [-> _].
  - intros b pk H. now apply x_pk_canon in H as [_ ->].
  - intros b s _ H. now apply x_sk_canon in H.
Qed.

Lemma K_R255_laws : ke_suite_laws K_R255.
Proof.
  split; [|split].
  - intros b pk H. now apply rb_deser_canon in H as [-> _].
  - intros b pk H. now apply rb_deser_canon in H as [_ ->].
  - exact r_scalar_canon.
Qed.

Lemma mk_suite_laws {E Sc Pk Sk} h (O : OprfOps E Sc) (K : KeOps Pk Sk) :
  oprf_suite_laws O -> ke_suite_laws K -> CodecLaws (mk_suite h O K).
Proof. intros [H1 H2] (H3 & H4 & H5). constructor; cbn; auto. Qed.

(* a statement about each of the 20 concrete suites *)
Definition all_suites (P : forall E Sc Pk Sk, Suite E Sc Pk Sk -> Prop) : Prop :=
  (P _ _ _ _ (mk_suite SHA512 O_R255 K_R255) /\ P _ _ _ _ (mk_suite SHA512 O_R255 K_P256) /\
   P _ _ _ _ (mk_suite SHA512 O_R255 K_P384) /\ P _ _ _ _ (mk_suite SHA512 O_R255 K_P521) /\
   P _ _ _ _ (mk_suite SHA512 O_R255 K_X25519)) /\
  (P _ _ _ _ (mk_suite SHA256 O_P256 K_R255) /\ P _ _ _ _ (mk_suite SHA256 O_P256 K_P256) /\
   P _ _ _ _ (mk_suite SHA256 O_P256 K_P384) /\ P _ _ _ _ (mk_suite SHA256 O_P256 K_P521) /\
   P _ _ _ _ (mk_suite SHA256 O_P256 K_X25519)) /\
  (P _ _ _ _ (mk_suite SHA384 O_P384 K_R255) /\ P _ _ _ _ (mk_suite SHA384 O_P384 K_P256) /\
   P _ _ _ _ (mk_suite SHA384 O_P384 K_P384) /\ P _ _ _ _ (mk_suite SHA384 O_P384 K_P521) /\
   P _ _ _ _ (mk_suite SHA384 O_P384 K_X25519)) /\
  (P _ _ _ _ (mk_suite SHA512 O_P521 K_R255) /\ P _ _ _ _ (mk_suite SHA512 O_P521 K_P256) /\
   P _ _ _ _ (mk_suite SHA512 O_P521 K_P384) /\ P _ _ _ _ (mk_suite SHA512 O_P521 K_P521) /\
   P _ _ _ _ (mk_suite SHA512 O_P521 K_X25519)).

Theorem codec_laws_20 : all_suites (fun _ _ _ _ CS => CodecLaws CS).
Proof.
  unfold all_suites.
  repeat split; apply mk_suite_laws;
    first [ exact O_R255_laws | apply O_W_laws | apply K_W_laws | exact K_X25519_laws | exact K_R255_laws ].
Qed.

(* the run-time dispatcher of the correspondence check reaches exactly these suites *)
Lemma run_is_one_of_the_suites o k q :
  (forall t, q <> Api.QKeRandomSk t) ->
  exists E Sc Pk Sk (CS : Suite E Sc Pk Sk), run o k q = Api.run_request CS q.
Proof.
  intros Hq. destruct o, k; unfold run, run_with;
    (destruct q; try (exfalso; eapply Hq; reflexivity); do 5 eexists; reflexivity).
Qed.
