(* C13 over histories: crashes change nothing.
   In the world of Model/WorldCrash.v a network adversary schedules the parties and chooses every message, and between
   any two steps the server may restart (its setup restored from its serialization) and any pending server or client
   login session may be saved and restored.  For EVERY such history, every restore succeeds and the world reached is
   exactly the world reached by the same history without the crashes.  By induction over the operation list, with the
   invariant that every stored state is the output of the API step that made it (so the reload theorems of
   Theory/Reload.v apply to it). *)
From Coq Require Import List Arith Lia Bool NArith.
From OKE Require Import Bytes Suite Generated Hkdf Voprf Messages Envelope TripleDH Opaque World WorldCrash.
From OKE Require Import ListLemmas BytesLemmas ResultLemmas Laws Reload WorldInv.
Import ListNotations.
Local Open Scope res_scope.

Section WC.
  Context {E Sc Pk Sk : Type}.
  Variable CS : Suite E Sc Pk Sk.
  Hypothesis HL : HashLaws (hash CS).
  Hypothesis GL : GroupLaws CS.

  Notation W := (World (E := E) (Sc := Sc) (Pk := Pk) (Sk := Sk)).

  (* non-degenerate password: hash-to-group did not hit the identity *)
  Definition good_pw (pw : bytes) : Prop := ve CS (o_h2g (oprf CS) pw (dst_hash_to_group (oprf CS))).

  Definition cli_made (c : CliSession (E := E) (Sc := Sc) (Pk := Pk) (Sk := Sk)) : Prop :=
    good_pw (cs_pw c) /\ exists tape m rest, client_login_start CS tape (cs_pw c) = Ok (cs_state c, m, rest).

  Definition setup_made (s : ServerSetup Pk Sk Sk) : Prop := exists tape rest, server_setup_new CS tape = Ok (s, rest).

  Definition Made (w : W) : Prop :=
    setup_made (w_setup w) /\ Forall (srv_ok CS (w_setup w)) (w_srv w) /\ Forall cli_made (w_cli w).

  Definition good_ops (ops : list (cop (E := E) (Pk := Pk))) : Prop :=
    forall pw, In (CStep (OClientStart pw)) ops -> good_pw pw.

  Lemma replace_nth_same {A} (l : list A) n x : nth_error l n = Some x -> replace_nth l n x = l.
  Proof.
    unfold replace_nth. revert n. induction l as [|a l IH]; intros [|n] H; cbn [nth_error] in H; try discriminate.
    - injection H as ->. change (firstn 0 (x :: l)) with (@nil A). change (skipn 1 (x :: l)) with l. reflexivity.
    - change (firstn (S n) (a :: l)) with (a :: firstn n l). change (skipn (S (S n)) (a :: l)) with (skipn (S n) l).
      cbn [app]. f_equal. now apply IH.
  Qed.

  Lemma Made_step w o : Made w -> (forall pw, o = OClientStart pw -> good_pw pw) -> Made (step CS w o).
  Proof.
    intros (Hs & Hv & Hc) Hpw. destruct o as [pw | file cred ctx ids rq | i r ctx ids | j fin]; cbn [step].
    - destruct (client_login_start CS (w_tape w) pw) as [[[st m] rest]|] eqn:H; [|repeat split; assumption].
      repeat split; cbn; try assumption. apply Forall_app. split; [assumption|]. constructor; [|constructor].
      split; cbn; [now apply Hpw | eauto].
    - destruct (server_login_start CS _ (w_tape w) (w_setup w) file rq cred ctx ids) as [[[[st resp] rest] dbg]|] eqn:H;
        [|repeat split; assumption].
      repeat split; cbn; try assumption. apply Forall_app. split; [assumption|]. constructor; [|constructor].
      exists (w_tape w), rest, dbg. exact H.
    - destruct (nth_error (w_cli w) i) as [c|]; [|repeat split; assumption].
      destruct (client_login_finish CS _ _ _ _ _ _) as [[[[[fin key] ek] spk] dbg]|]; repeat split; assumption.
    - destruct (nth_error (w_srv w) j) as [s|]; [|repeat split; assumption].
      destruct (server_login_finish CS _ _); repeat split; assumption.
  Qed.

  (* a restore returns the world unchanged *)
  Lemma reload_is_identity w o : Made w -> (forall o', o <> CStep o') -> cstep CS w o = Ok w.
  Proof.
    intros (Hs & Hv & Hc) Hne. destruct o as [o' | | j | i]; cbn [cstep].
    - exfalso. now apply (Hne o').
    - destruct Hs as (tape & rest & Hs). rewrite (reload_server_setup CS GL _ _ _ Hs). cbn [bind]. now destruct w.
    - destruct (nth_error (w_srv w) j) as [s|] eqn:Hn; [|reflexivity].
      pose proof (proj1 (Forall_forall _ _) Hv s (nth_error_In _ _ Hn)) as (tape & rest & dbg & Hst).
      rewrite (reload_server_login CS HL _ _ _ _ _ _ _ _ _ _ _ _ Hst). cbn [bind].
      replace {| sv_file := sv_file s; sv_cred := sv_cred s; sv_ctx := sv_ctx s; sv_ids := sv_ids s; sv_rq := sv_rq s;
                 sv_state := sv_state s; sv_resp := sv_resp s |} with s by now destruct s.
      rewrite (replace_nth_same _ _ _ Hn). now destruct w.
    - destruct (nth_error (w_cli w) i) as [c|] eqn:Hn; [|reflexivity].
      pose proof (proj1 (Forall_forall _ _) Hc c (nth_error_In _ _ Hn)) as (Hg & tape & m & rest & Hst).
      destruct (reload_client_login CS GL _ _ _ _ _ Hg Hst) as [Hr _]. rewrite Hr. cbn [bind].
      replace {| cs_pw := cs_pw c; cs_state := cs_state c |} with c by now destruct c.
      rewrite (replace_nth_same _ _ _ Hn). now destruct w.
  Qed.

  Theorem crashes_change_nothing_from w ops :
    Made w -> good_ops ops -> crun CS w ops = Ok (run CS w (erase ops)).
  Proof.
    revert w. induction ops as [|o ops IH]; intros w Hm Hg; cbn [crun erase run fold_left]; [reflexivity|].
    assert (Hg' : good_ops ops) by (intros pw Hin; apply Hg; now right).
    destruct o as [o' | | j | i].
    - cbn [cstep bind]. rewrite IH; [reflexivity | | exact Hg'].
      apply Made_step; [exact Hm|]. intros pw ->. apply Hg. now left.
    - rewrite (reload_is_identity w CReloadSetup Hm) by discriminate. cbn [bind]. now apply IH.
    - rewrite (reload_is_identity w (CReloadServer j) Hm) by discriminate. cbn [bind]. now apply IH.
    - rewrite (reload_is_identity w (CReloadClient i) Hm) by discriminate. cbn [bind]. now apply IH.
  Qed.

  (* for every history that starts from a fresh server setup *)
  Theorem crashes_change_nothing tape0 setup rest0 tape ops :
    server_setup_new CS tape0 = Ok (setup, rest0) -> good_ops ops ->
    crun CS (init setup tape) ops = Ok (run CS (init setup tape) (erase ops)).
  Proof.
    intros Hs Hg. apply crashes_change_nothing_from; [|exact Hg].
    split; [exists tape0, rest0; exact Hs|]. split; constructor.
  Qed.
End WC.
