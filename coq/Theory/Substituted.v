(* C06: a password file served under another static key pair - even by a party that
   holds the genuine OPRF seed and the stolen file - makes the client's final login
   step fail with InvalidLogin, unless an HMAC collision is exhibited. *)
From Coq Require Import List Arith Lia Bool NArith.
From OKE Require Import Bytes Suite Generated Hkdf Voprf Messages Envelope TripleDH Opaque.
From OKE Require Import ListLemmas BytesLemmas ResultLemmas Codecs Roundtrip Laws Layers Transcript Bad Binding Honest.
Import ListNotations.
Local Open Scope res_scope.

Arguments firstn : simpl never.
Arguments skipn : simpl never.

Section Substituted.
  Context {E Sc Pk Sk : Type}.
  Variable CS : Suite E Sc Pk Sk.
  Hypothesis HL : HashLaws (hash CS).
  Hypothesis GL : GroupLaws CS.

  (* after an honest registration under [setup], a login served from the same file by any setup that
     shares the OPRF seed reduces, on the client, to opening the envelope under the public key that
     setup masks into its response *)
  Lemma client_finish_reduces
        tape setup t1 pw creg rq t2 cred rr ids ksf upload ek spk t3 clog ke1 t4 ctx slog ke2 t5 dbg setup' :
    ve CS (o_h2g (oprf CS) pw (dst_hash_to_group (oprf CS))) ->
    server_setup_new CS tape = Ok (setup, t1) ->
    client_registration_start CS t1 pw = Ok (creg, rq, t2) ->
    server_registration_start CS setup rq cred = Ok rr ->
    client_registration_finish CS creg t2 pw rr ids ksf = Ok (upload, ek, spk, t3) ->
    client_login_start CS t3 pw = Ok (clog, ke1, t4) ->
    ss_oprf_seed setup' = ss_oprf_seed setup ->
    vk CS (kp_sk (ss_keypair setup')) ->
    server_login_start CS (private_key_ops (ke CS)) t4 setup' (Some (server_registration_finish upload)) ke1 cred ctx ids
      = Ok (slog, ke2, t5, dbg) ->
    o_eqb (oprf CS) (cq_blinded ke1) (cr_eval ke2) = false ->
    exists rp tape_seal,
      envelope_seal CS tape_seal rp spk ids = Ok (ru_envelope upload, ru_client_s_pk upload, ek, t3) /\
      spk = kp_pk (ss_keypair setup) /\
      forall e,
        envelope_open CS (ru_envelope upload) rp (k_pub (ke CS) (kp_sk (ss_keypair setup'))) ids = Err e ->
        client_login_finish CS clog pw ke2 ctx ids ksf =
          Err (match e with ELibrary LSealOpenHmacError => EInvalidLogin | e' => e' end).
  Proof.
    intros HP Hsetup Hrs Hsr Hrf Hls Hseed Hssv' Hss Hnr.
    unfold server_setup_new in Hsetup.
    apply bind_Ok in Hsetup as ([skp ta] & Hskp & Hsetup).
    destruct (length ta <? h_len (hash CS)); [discriminate|].
    apply bind_Ok in Hsetup as ([fkp tb] & Hfkp & Hsetup). injection Hsetup as <- <-.
    cbn [ss_oprf_seed ss_keypair] in *.
    unfold client_registration_start in Hrs.
    apply bind_Ok in Hrs as ([[r b] t2'] & Hb & Hrs). injection Hrs as <- <- <-.
    apply blind_inv in Hb as [Hr ->]; [|exact GL].
    unfold server_registration_start in Hsr. cbn [ss_oprf_seed ss_keypair rq_blinded] in Hsr.
    apply bind_Ok in Hsr as (ev & Hev & Hsr). injection Hsr as <-.
    apply server_evaluate_inv in Hev as (k & Hk & -> & Hkv); [|exact GL].
    unfold client_registration_finish in Hrf. cbn [crs_blinded crs_blind rr_eval rr_server_s_pk] in Hrf.
    destruct (o_eqb (oprf CS) _ _); [discriminate|].
    apply bind_Ok in Hrf as (rp & Hrp & Hrf).
    apply bind_Ok in Hrf as (mk & Hmk & Hrf).
    apply bind_Ok in Hrf as ([[[env cpk] ek'] t3'] & Hseal & Hrf). injection Hrf as <- <- <- <-.
    apply of_option_Ok in Hmk.
    destruct (envelope_open_seal CS HL _ _ _ _ _ _ _ _ Hseal) as (ckp & u & s & _ & _ & _ & Henvwf & _ & _).
    unfold client_login_start in Hls.
    apply bind_Ok in Hls as ([[r' b'] t3a] & Hb' & Hls).
    apply bind_Ok in Hls as ([[k1st k1m] t3b] & Hke1 & Hls). injection Hls as <- <- <-.
    apply blind_inv in Hb' as [Hr' ->]; [|exact GL].
    unfold server_login_start, server_registration_finish in Hss.
    cbn [bind ru_client_s_pk ru_masking_key ru_envelope private_key_ops s_pub cq_blinded] in Hss.
    destruct (length _ <? KE_NONCE_LEN); [discriminate|].
    apply bind_Ok in Hss as (masked & Hmask & Hss).
    apply bind_Ok in Hss as ([u' s'] & Hids' & Hss).
    apply bind_Ok in Hss as (ev' & Hev' & Hss).
    apply bind_Ok in Hss as ([[[st ke2m] t5'] dbg0] & Hke2 & Hss). injection Hss as <- <- <- <-.
    rewrite Hseed in Hev'.
    apply server_evaluate_inv in Hev' as (k' & Hk' & -> & _); [|exact GL].
    rewrite Hk in Hk'. injection Hk' as <-.
    exists rp; eexists. cbn [ru_envelope ru_client_s_pk]. split; [exact Hseal|]. split; [reflexivity|].
    intros e He.
    cbn [cr_eval cq_blinded] in Hnr.
    unfold client_login_finish.
    cbn [cl_request cl_blind cl_ke1_state cq_blinded cq_ke1 cr_eval cr_masking_nonce cr_masked cr_ke2].
    rewrite Hnr.
    rewrite (rpwd_unblinded CS GL pw r k ksf rp HP Hr Hkv Hrp r' Hr'). cbn [bind].
    rewrite Hmk. cbn [of_option bind].
    pose proof (g_pub_valid CS GL _ Hssv') as Hspkv.
    rewrite (unmask_mask CS HL _ _ _ _ _ Hspkv Henvwf Hmask). cbn [map_err bind].
    rewrite He. cbn [map_err bind]. reflexivity.
  Qed.

  Theorem substituted_key_rejected
        tape setup t1 pw creg rq t2 cred rr ids ksf upload ek spk t3 clog ke1 t4 ctx slog ke2 t5 dbg setup' :
    ve CS (o_h2g (oprf CS) pw (dst_hash_to_group (oprf CS))) ->
    server_setup_new CS tape = Ok (setup, t1) ->
    client_registration_start CS t1 pw = Ok (creg, rq, t2) ->
    server_registration_start CS setup rq cred = Ok rr ->
    client_registration_finish CS creg t2 pw rr ids ksf = Ok (upload, ek, spk, t3) ->
    client_login_start CS t3 pw = Ok (clog, ke1, t4) ->
    (* the impostor: same OPRF seed, the stolen file, another static key pair *)
    ss_oprf_seed setup' = ss_oprf_seed setup ->
    vk CS (kp_sk (ss_keypair setup')) ->
    k_ser_pk (ke CS) (k_pub (ke CS) (kp_sk (ss_keypair setup'))) <> k_ser_pk (ke CS) (kp_pk (ss_keypair setup)) ->
    server_login_start CS (private_key_ops (ke CS)) t4 setup' (Some (server_registration_finish upload)) ke1 cred ctx ids
      = Ok (slog, ke2, t5, dbg) ->
    o_eqb (oprf CS) (cq_blinded ke1) (cr_eval ke2) = false ->
    client_login_finish CS clog pw ke2 ctx ids ksf = Err EInvalidLogin \/ Bad (hash CS).
  Proof.
    intros HP Hsetup Hrs Hsr Hrf Hls Hseed Hssv' Hne Hss Hnr.
    destruct (client_finish_reduces _ _ _ _ _ _ _ _ _ _ _ _ _ _ _ _ _ _ _ _ _ _ _ _
                HP Hsetup Hrs Hsr Hrf Hls Hseed Hssv' Hss Hnr) as (rp & ts & Hseal & Hspk & Hred).
    set (pk' := k_pub (ke CS) (kp_sk (ss_keypair setup'))) in *.
    pose proof (g_pub_valid CS GL _ Hssv') as [_ Hl'].
    assert (Hlen : length (k_ser_pk (ke CS) spk) = length (k_ser_pk (ke CS) pk')).
    { subst spk. unfold server_setup_new in Hsetup.
      apply bind_Ok in Hsetup as ([skp ta] & Hskp & Hsetup).
      destruct (length ta <? h_len (hash CS)); [discriminate|].
      apply bind_Ok in Hsetup as ([fkp tb] & _ & Hsetup). injection Hsetup as <- _. cbn [ss_keypair].
      apply keypair_generate_random_inv in Hskp as [Hv ->]; [|exact GL].
      pose proof (g_pub_valid CS GL _ Hv) as [_ Hl]. fold pk' in Hl'. congruence. }
    destruct (envelope_open CS (ru_envelope upload) rp pk' ids) as [r|e] eqn:Ho.
    - (* accepted under another key: the authenticated data coincide (excluded) or a collision *)
      destruct (envelope_binds CS _ _ _ _ _ _ _ _ _ _ _ Hseal Ho Hlen) as [(Heq & _)|HB]; [|now right].
      exfalso. apply Hne. subst spk. exact Heq.
    - (* rejected: which error?  the key schedule and the identities are those of the registration *)
      pose proof (Hred e eq_refl) as Hc.
      assert (He : e = ELibrary LSealOpenHmacError \/ Bad (hash CS)).
      { clear Hc Hred. unfold envelope_seal in Hseal.
        destruct (length ts <? ENVELOPE_NONCE_LEN); [discriminate|].
        apply bind_Ok in Hseal as (kp & Hkp & Hseal). apply bind_Ok in Hseal as ([u s] & Hus & Hseal).
        apply bind_Ok in Hseal as ([ak ek0] & Hk & Hseal).
        injection Hseal as Henv Hcpk _ _. rewrite <- Henv in Ho.
        unfold envelope_open in Ho. cbn [env_internal env_nonce env_hmac negb] in Ho.
        rewrite Hkp in Ho. cbn [bind] in Ho.
        (* the identities encode under pk' exactly when they did under spk: same lengths *)
        assert (Hids : exists u' s', bytestrings_from_identifiers ids (k_ser_pk (ke CS) (kp_pk kp)) (k_ser_pk (ke CS) pk') = Ok (u', s')).
        { unfold bytestrings_from_identifiers in Hus |- *.
          destruct (lenprefix 2 match id_client ids with Some c => c | None => k_ser_pk (ke CS) (kp_pk kp) end) as [uu|]; [|discriminate].
          cbn [of_option bind] in Hus |- *.
          destruct (id_server ids) as [sv|].
          - destruct (lenprefix 2 sv); [eauto|discriminate].
          - destruct (lenprefix 2 (k_ser_pk (ke CS) spk)) eqn:E1; [|discriminate].
            destruct (lenprefix 2 (k_ser_pk (ke CS) pk')) eqn:E2; [cbn; eauto|].
            apply lenprefix2_refuses in E2. rewrite <- Hlen in E2. apply lenprefix2_refuses in E2. congruence. }
        destruct Hids as (u' & s' & Hids). rewrite Hids in Ho. cbn [bind] in Ho. rewrite Hk in Ho. cbn [bind] in Ho.
        destruct (bytes_eqb _ _); [discriminate|]. injection Ho as <-. now left. }
      destruct He as [-> | HB]; [left; exact Hc | now right].
  Qed.
End Substituted.
