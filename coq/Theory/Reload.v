(* C13: every state a party must keep between steps - server setup, password file, client
   registration state, client login state, server login state - as produced by the API, decodes
   from its own native encoding to exactly itself.  Saving and reloading at a step boundary
   therefore hands the next step the same value, and the next step is a function of that value:
   nothing observable changes.  (serde encodings are not modelled; the harness performs the real
   bincode / JSON round trips and the model predicts "no change".) *)
From Coq Require Import List Arith Lia Bool NArith.
From OKE Require Import Bytes Suite Generated Hkdf Voprf Messages Envelope TripleDH Opaque.
From OKE Require Import ListLemmas BytesLemmas ResultLemmas Codecs Roundtrip Laws Layers Honest TapeLayout.
Import ListNotations.
Local Open Scope res_scope.

Arguments firstn : simpl never.
Arguments skipn : simpl never.

Section Reload.
  Context {E Sc Pk Sk : Type}.
  Variable CS : Suite E Sc Pk Sk.
  Hypothesis HL : HashLaws (hash CS).
  Hypothesis GL : GroupLaws CS.

  (* ---------------- server setup *)
  Theorem reload_server_setup tape setup rest :
    server_setup_new CS tape = Ok (setup, rest) ->
    server_setup_deserialize CS (private_key_ops (ke CS)) (server_setup_serialize CS (private_key_ops (ke CS)) setup) = Ok setup.
  Proof.
    intros H. pose proof (server_setup_new_layout CS _ _ _ H) as (s1 & seed & s2 & _ & _ & Ls & _ & Hseed & D1 & D2).
    unfold server_setup_new in H.
    apply bind_Ok in H as ([kp t1] & Hkp & H). destruct (length t1 <? h_len (hash CS)); [discriminate|].
    apply bind_Ok in H as ([fk t2] & Hfk & H). injection H as <- <-.
    apply (keypair_generate_random_inv CS GL) in Hkp as [V1 P1].
    apply (keypair_generate_random_inv CS GL) in Hfk as [V2 P2].
    apply server_setup_rt; cbn [ss_oprf_seed ss_keypair ss_fake_keypair] in *; auto. now rewrite Hseed.
  Qed.

  (* ---------------- client registration state *)
  Theorem reload_client_registration tape pw st m rest :
    ve CS (o_h2g (oprf CS) pw (dst_hash_to_group (oprf CS))) ->
    client_registration_start CS tape pw = Ok (st, m, rest) ->
    client_registration_deserialize CS (client_registration_serialize CS st) = Ok st /\
    registration_request_deserialize CS (registration_request_serialize CS m) = Ok m.
  Proof.
    intros HP H. unfold client_registration_start in H.
    apply bind_Ok in H as ([[r b] t] & Hb & H). injection H as <- <- <-.
    apply (blind_inv CS GL) in Hb as [Hr ->].
    pose proof (g_mul_valid CS GL _ _ HP Hr) as Hv.
    split; [apply client_registration_rt | apply registration_request_rt]; cbn; auto.
  Qed.

  (* ---------------- password file *)
  Theorem reload_password_file st tape pw rr ids ksf upload ek spk rest :
    client_registration_finish CS st tape pw rr ids ksf = Ok (upload, ek, spk, rest) ->
    registration_upload_deserialize CS (registration_upload_serialize CS (server_registration_finish upload))
      = Ok (server_registration_finish upload).
  Proof.
    unfold client_registration_finish, server_registration_finish. intros H.
    destruct (o_eqb (oprf CS) _ _); [discriminate|].
    apply bind_Ok in H as (rp & _ & H). apply bind_Ok in H as (mk & Hmk & H).
    apply bind_Ok in H as ([[[env cpk] e1] t3] & Hseal & H). injection H as <- _ _ _.
    apply of_option_Ok in Hmk.
    destruct (envelope_open_seal CS HL _ _ _ _ _ _ _ _ Hseal) as (kp & u & s & Hopen & Hcpk & _ & Hwf & _ & _).
    apply (recover_keys_inv_open CS HL GL) in Hopen as [Hv Hp].
    apply registration_upload_rt; cbn [ru_envelope ru_masking_key ru_client_s_pk]; auto.
    - eapply hkdf_expand_length; eauto.
    - rewrite <- Hcpk, Hp. now apply (g_pub_valid CS GL).
  Qed.

  (* ---------------- client login state *)
  Theorem reload_client_login tape pw st m rest :
    ve CS (o_h2g (oprf CS) pw (dst_hash_to_group (oprf CS))) ->
    client_login_start CS tape pw = Ok (st, m, rest) ->
    client_login_deserialize CS (client_login_serialize CS st) = Ok st /\
    credential_request_deserialize CS (credential_request_serialize CS m) = Ok m.
  Proof.
    intros HP H. unfold client_login_start in H.
    apply bind_Ok in H as ([[r b] t1] & Hb & H). apply bind_Ok in H as ([[ks km] t2] & Hke1 & H).
    injection H as <- <- <-.
    apply (blind_inv CS GL) in Hb as [Hr ->].
    pose proof (g_mul_valid CS GL _ _ HP Hr) as Hv.
    pose proof (g_identity_invalid CS GL _ Hv) as Hid.
    pose proof (generate_ke1_layout CS _ _ _ _ Hke1) as (seed & _ & Lseed & Ln & Hd & Hpk & Hn).
    pose proof (g_derive_valid CS GL _ _ _ _ Lseed Hd) as Hsk.
    pose proof (g_pub_valid CS GL _ Hsk) as Hpkv. rewrite <- Hpk in Hpkv.
    split.
    - apply client_login_rt; cbn [cl_blind cl_request cl_ke1_state cq_blinded cq_ke1]; auto.
      + split; assumption.
      + split; assumption.
      + now rewrite Hn.
    - apply credential_request_rt; cbn [cq_blinded cq_ke1]; [split; assumption | split; assumption].
  Qed.

  (* ---------------- server login state *)
  Lemma hkdf_expand_label_length secret label context out :
    hkdf_expand_label CS secret label context = Ok out -> length out = h_len (hash CS).
  Proof.
    unfold hkdf_expand_label. intros H. inv_res. eapply hkdf_expand_length; eauto.
  Qed.

  Theorem reload_server_login {S} (SK : SkOps Pk S) tape setup file rq cred ctx ids st resp rest dbg :
    server_login_start CS SK tape setup file rq cred ctx ids = Ok (st, resp, rest, dbg) ->
    server_login_deserialize CS (server_login_serialize st) = Ok st.
  Proof.
    unfold server_login_start. intros H.
    apply bind_Ok in H as ([rec t0] & _ & H). apply bind_Ok in H as (spk & _ & H).
    destruct (length t0 <? KE_NONCE_LEN); [discriminate|].
    apply bind_Ok in H as (masked & _ & H). apply bind_Ok in H as ([u s] & _ & H).
    apply bind_Ok in H as (ev & _ & H). apply bind_Ok in H as ([[[st0 ke2] t2] d] & Hke2 & H).
    injection H as <- _ _ _.
    unfold generate_ke2 in Hke2.
    apply bind_Ok in Hke2 as ([ekp t1] & _ & Hke2). apply bind_Ok in Hke2 as ([sn t3] & _ & Hke2).
    apply bind_Ok in Hke2 as (pre & _ & Hke2). apply bind_Ok in Hke2 as (dh2 & _ & Hke2).
    apply bind_Ok in Hke2 as ([[[sk km2] km3] hs] & Hkeys & Hke2). injection Hke2 as <- _ _ _.
    unfold derive_3dh_keys in Hkeys.
    apply bind_Ok in Hkeys as (hs0 & _ & Hkeys). apply bind_Ok in Hkeys as (sk0 & Hsk & Hkeys).
    apply bind_Ok in Hkeys as (km20 & _ & Hkeys). apply bind_Ok in Hkeys as (km30 & Hkm3 & Hkeys).
    injection Hkeys as <- _ <- _.
    unfold hkdf_expand_label_from_prk in Hkm3. destruct (length hs0 <? h_len (hash CS)); [discriminate|].
    apply server_login_rt; cbn [sl_km3 sl_hashed_transcript sl_session_key].
    - eapply hkdf_expand_label_length; eauto.
    - apply (hash_len _ HL).
    - eapply hkdf_expand_label_length; eauto.
  Qed.
End Reload.
