(* C08 / C17 over histories: every server login attempt - for a registered user or not - draws its random fields
   (fake masking key, masking nonce, ephemeral-key seed, server nonce) from its own range of the shared tape.
   In every world reachable in the adversarial model of Model/World.v (any number of attempts against any identifiers,
   interleaved in any order with real logins, client steps and finish steps, all parties sharing one tape), two server
   sessions j < k were started on tapes t_j, t_k with t_j = fields_j ++ rest_j and t_k a suffix of rest_j: the ranges the
   two attempts drew from are disjoint and consecutive in time, so no random field of one attempt is a function of
   the other's.  By induction over the operation list.
   [sampler_prefix]: the OPRF scalar sampler consumes a prefix of the tape (proved for the 20 suites below). *)
From Coq Require Import List Arith Lia Bool NArith.
From OKE Require Import Bytes Suite Generated Hkdf Voprf Messages Envelope TripleDH Opaque World.
From OKE Require Import ListLemmas BytesLemmas ResultLemmas Laws TapeLayout WorldInv.
Import ListNotations.
Local Open Scope res_scope.

Definition suffix (a b : bytes) : Prop := exists p, b = p ++ a.
Lemma suffix_refl a : suffix a a. Proof. now exists []. Qed.
Lemma suffix_trans a b c : suffix a b -> suffix b c -> suffix a c.
Proof. intros [p ->] [q ->]. exists (q ++ p). now rewrite app_assoc. Qed.
Lemma suffix_app p a : suffix a (p ++ a). Proof. now exists p. Qed.

Section FR.
  Context {E Sc Pk Sk : Type}.
  Variable CS : Suite E Sc Pk Sk.

  Definition sampler_prefix : Prop :=
    forall t r t', o_random_scalar (oprf CS) t = Some (r, t') -> suffix t' t.
  Hypothesis SP : sampler_prefix.

  Notation W := (World (E := E) (Sc := Sc) (Pk := Pk) (Sk := Sk)).
  Notation start setup t s :=
    (server_login_start CS (private_key_ops (ke CS)) t setup (sv_file s) (sv_rq s) (sv_cred s) (sv_ctx s) (sv_ids s)).

  (* the sessions, oldest first, each started on a suffix of what the previous one left; [final] is what is left now *)
  Fixpoint chain (setup : ServerSetup Pk Sk Sk) (upper : bytes) (l : list (SrvSession (E := E) (Pk := Pk))) (final : bytes) : Prop :=
    match l with
    | [] => suffix final upper
    | s :: l' => exists t rest dbg, suffix t upper /\ start setup t s = Ok (sv_state s, sv_resp s, rest, dbg) /\ chain setup rest l' final
    end.

  Lemma chain_weaken setup upper l final final' : chain setup upper l final -> suffix final' final -> chain setup upper l final'.
  Proof.
    revert upper. induction l as [|s l IH]; intros upper H Hs; cbn [chain] in *.
    - eapply suffix_trans; eauto.
    - destruct H as (t & rest & dbg & H1 & H2 & H3). exists t, rest, dbg. repeat split; auto.
  Qed.

  Lemma server_start_suffix setup t s st resp rest dbg :
    server_login_start CS (private_key_ops (ke CS)) t setup (sv_file s) (sv_rq s) (sv_cred s) (sv_ctx s) (sv_ids s) = Ok (st, resp, rest, dbg) ->
    suffix rest t.
  Proof.
    intros H. destruct (server_login_start_layout CS _ _ _ _ _ _ _ _ _ _ _ _ H) as (fmk & eseed & -> & _).
    exists (fmk ++ cr_masking_nonce resp ++ eseed ++ k2_nonce (cr_ke2 resp)). now rewrite <- !app_assoc.
  Qed.

  Lemma chain_snoc setup upper l final s rest dbg :
    chain setup upper l final -> start setup final s = Ok (sv_state s, sv_resp s, rest, dbg) -> chain setup upper (l ++ [s]) rest.
  Proof.
    revert upper. induction l as [|s0 l IH]; intros upper H Hs; cbn [chain app] in *.
    - exists final, rest, dbg. repeat split; auto. apply suffix_refl.
    - destruct H as (t & r0 & d0 & H1 & H2 & H3). exists t, r0, d0. repeat split; auto.
  Qed.

  Lemma client_start_suffix tape pw st m rest : client_login_start CS tape pw = Ok (st, m, rest) -> suffix rest tape.
  Proof.
    unfold client_login_start, voprf_blind. intros H.
    destruct (o_random_scalar (oprf CS) tape) as [[r t1]|] eqn:Hr; [|discriminate]. cbn [bind] in H.
    apply bind_Ok in H as ([[ks km] t2] & Hke1 & H). injection H as _ _ <-.
    destruct (generate_ke1_layout CS _ _ _ _ Hke1) as (seed & -> & _).
    eapply suffix_trans; [|exact (SP _ _ _ Hr)]. exists (seed ++ k1_nonce km). now rewrite <- app_assoc.
  Qed.

  Definition Fresh (t0 : bytes) (w : W) : Prop := chain (w_setup w) t0 (w_srv w) (w_tape w).

  Lemma Fresh_step t0 w o : Fresh t0 w -> Fresh t0 (step CS w o).
  Proof.
    unfold Fresh. intros H. destruct o as [pw | file cred ctx ids rq | i r ctx ids | j fin]; cbn [step].
    - destruct (client_login_start CS (w_tape w) pw) as [[[st m] rest]|] eqn:Hc; [|exact H]. cbn.
      eapply chain_weaken; [exact H|]. eapply client_start_suffix; eauto.
    - destruct (server_login_start CS _ (w_tape w) (w_setup w) file rq cred ctx ids) as [[[[st resp] rest] dbg]|] eqn:Hs; [|exact H]. cbn.
      eapply chain_snoc; [exact H|]. cbn. exact Hs.
    - destruct (nth_error (w_cli w) i) as [c|]; [|exact H].
      destruct (client_login_finish CS _ _ _ _ _ _) as [[[[[fin key] ek] spk] dbg]|]; exact H.
    - destruct (nth_error (w_srv w) j) as [s|]; [|exact H].
      destruct (server_login_finish CS _ _); exact H.
  Qed.

  Theorem reachable_fresh setup tape ops : Fresh tape (run CS (@init E Sc Pk Sk setup tape) ops).
  Proof.
    unfold run. assert (H : Fresh tape (@init E Sc Pk Sk setup tape)) by apply suffix_refl.
    revert H. generalize (@init E Sc Pk Sk setup tape). induction ops as [|o ops IH]; intros w H; cbn [fold_left]; [exact H|].
    apply IH. now apply Fresh_step.
  Qed.

  (* every session of a chain started on a suffix of [upper] *)
  Lemma chain_nth setup upper l final k sk :
    chain setup upper l final -> nth_error l k = Some sk ->
    exists tk restk dbgk, suffix tk upper /\ start setup tk sk = Ok (sv_state sk, sv_resp sk, restk, dbgk).
  Proof.
    revert upper k. induction l as [|s l IH]; intros upper k H Hk; [destruct k; discriminate|].
    cbn [chain] in H. destruct H as (t & rest & dbg & Ht & Hs & Hc). destruct k as [|k]; cbn [nth_error] in Hk.
    - injection Hk as <-. exists t, rest, dbg. split; assumption.
    - destruct (IH rest k Hc Hk) as (tk & restk & dbgk & Hsuf & Hst). exists tk, restk, dbgk. split; [|exact Hst].
      eapply suffix_trans; [exact Hsuf|]. eapply suffix_trans; [|exact Ht]. eapply server_start_suffix; eauto.
  Qed.

  (* two sessions of a chain: the later one started on a suffix of what the earlier one left *)
  Lemma chain_pair setup upper l final j k sj sk :
    chain setup upper l final -> j < k -> nth_error l j = Some sj -> nth_error l k = Some sk ->
    exists tj restj dbgj tk restk dbgk,
      start setup tj sj = Ok (sv_state sj, sv_resp sj, restj, dbgj) /\
      start setup tk sk = Ok (sv_state sk, sv_resp sk, restk, dbgk) /\
      suffix tk restj /\ suffix tj upper.
  Proof.
    revert upper j k. induction l as [|s l IH]; intros upper j k H Hjk Hj Hk; [destruct j; discriminate|].
    cbn [chain] in H. destruct H as (t & rest & dbg & Ht & Hs & Hc).
    destruct k as [|k]; [lia|]. cbn [nth_error] in Hk. destruct j as [|j]; cbn [nth_error] in Hj.
    - injection Hj as <-. destruct (chain_nth _ _ _ _ _ _ Hc Hk) as (tk & restk & dbgk & Hsuf & Hst).
      exists t, rest, dbg, tk, restk, dbgk. repeat split; assumption.
    - destruct (IH rest j k Hc ltac:(lia) Hj Hk) as (tj & restj & dbgj & tk & restk & dbgk & H1 & H2 & H3 & H4).
      exists tj, restj, dbgj, tk, restk, dbgk. repeat split; try assumption.
      eapply suffix_trans; [exact H4|]. eapply suffix_trans; [|exact Ht]. eapply server_start_suffix; eauto.
  Qed.

  (* the statement: in every reachable world, two server login attempts drew their random fields from disjoint,
     consecutive ranges of the one tape *)
  Theorem attempts_draw_from_disjoint_ranges setup tape ops j k sj sk :
    let w := run CS (@init E Sc Pk Sk setup tape) ops in
    j < k -> nth_error (w_srv w) j = Some sj -> nth_error (w_srv w) k = Some sk ->
    exists tj fj nj ej mj mid fk nk ek mk restk,
      (* session j was started on tj, session k on tk = fk ++ nk ++ ek ++ mk ++ restk, and *)
      tj = fj ++ nj ++ ej ++ mj ++ mid ++ fk ++ nk ++ ek ++ mk ++ restk /\
      nj = cr_masking_nonce (sv_resp sj) /\ mj = k2_nonce (cr_ke2 (sv_resp sj)) /\
      nk = cr_masking_nonce (sv_resp sk) /\ mk = k2_nonce (cr_ke2 (sv_resp sk)) /\
      length fj = (match sv_file sj with Some _ => 0 | None => h_len (hash CS) end) /\
      length fk = (match sv_file sk with Some _ => 0 | None => h_len (hash CS) end) /\
      length nj = KE_NONCE_LEN /\ length nk = KE_NONCE_LEN /\ length mj = KE_NONCE_LEN /\ length mk = KE_NONCE_LEN /\
      length ej = k_Nsk (ke CS) /\ length ek = k_Nsk (ke CS) /\
      (exists esk, k_derive (ke CS) (hash CS) (o_id (oprf CS)) ej = Some esk /\ k2_server_e_pk (cr_ke2 (sv_resp sj)) = k_pub (ke CS) esk) /\
      (exists esk, k_derive (ke CS) (hash CS) (o_id (oprf CS)) ek = Some esk /\ k2_server_e_pk (cr_ke2 (sv_resp sk)) = k_pub (ke CS) esk) /\
      (* ... all of it inside the one tape the world started with *)
      suffix tj tape.
  Proof.
    intros w Hjk Hj Hk. pose proof (reachable_fresh setup tape ops) as HF. unfold Fresh in HF. fold w in HF.
    assert (Hsetup : w_setup w = setup) by (unfold w; apply setup_fixed).
    destruct (chain_pair _ _ _ _ _ _ _ _ HF Hjk Hj Hk) as (tj & restj & dbgj & tk & restk & dbgk & Hsj & Hsk & [mid Hmid] & Hsuf).
    destruct (server_login_start_layout CS _ _ _ _ _ _ _ _ _ _ _ _ Hsj) as (fj & ej & Htj & Lfj & Lnj & Lej & Lmj & Hej).
    destruct (server_login_start_layout CS _ _ _ _ _ _ _ _ _ _ _ _ Hsk) as (fk & ek & Htk & Lfk & Lnk & Lek & Lmk & Hek).
    exists tj, fj, (cr_masking_nonce (sv_resp sj)), ej, (k2_nonce (cr_ke2 (sv_resp sj))), mid,
           fk, (cr_masking_nonce (sv_resp sk)), ek, (k2_nonce (cr_ke2 (sv_resp sk))), restk.
    split; [rewrite Htj at 1; rewrite Hmid, Htk; reflexivity|].
    repeat split; auto.
  Qed.
End FR.
