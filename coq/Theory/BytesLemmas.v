(* Facts about the byte-string layer of the model (Model/Bytes.v): byte <-> N,
   I2OSP / OS2IP round trips, refusal of I2OSP, injectivity of length-prefixed
   concatenation, decidable equality. *)
From Coq Require Import List NArith ZArith Arith Lia Bool.
From Coq Require Import Init.Byte.
From Coq Require Strings.Byte.
From OKE Require Import Bytes ListLemmas.
Import ListNotations.

Arguments N.add : simpl never.
Arguments N.mul : simpl never.
Arguments N.div : simpl never.
Arguments N.modulo : simpl never.
Arguments N.pow : simpl never.

Lemma b2n_lt b : (b2n b < 256)%N.
Proof. unfold b2n. pose proof (Strings.Byte.to_N_bounded b). lia. Qed.

Lemma n2b_b2n b : n2b (b2n b) = b.
Proof.
  unfold n2b. rewrite N.mod_small by apply b2n_lt.
  unfold b2n. now rewrite Strings.Byte.of_to_N.
Qed.

Lemma b2n_n2b n : (n < 256)%N -> b2n (n2b n) = n.
Proof.
  intros H. unfold n2b, b2n. rewrite N.mod_small by assumption.
  destruct (Strings.Byte.of_N n) as [b|] eqn:Hb.
  - now apply Strings.Byte.to_of_N.
  - apply Strings.Byte.of_N_None_iff in Hb. lia.
Qed.

Lemma b2n_n2b_mod n : b2n (n2b n) = (n mod 256)%N.
Proof.
  unfold n2b. assert (H : (n mod 256 < 256)%N) by (apply N.mod_lt; lia).
  destruct (Strings.Byte.of_N (n mod 256)) as [b|] eqn:Hb.
  - unfold b2n. now apply Strings.Byte.to_of_N.
  - apply Strings.Byte.of_N_None_iff in Hb. lia.
Qed.

Lemma b2n_inj a b : b2n a = b2n b -> a = b.
Proof. intros H. rewrite <- (n2b_b2n a), <- (n2b_b2n b). now rewrite H. Qed.

Lemma byte_eqb_eq a b : byte_eqb a b = true <-> a = b.
Proof. unfold byte_eqb. split; intros H; [now apply Byte.byte_dec_bl | now apply Byte.byte_dec_lb]. Qed.

Lemma bytes_eqb_eq a b : bytes_eqb a b = true <-> a = b.
Proof.
  revert b. induction a as [|x a IH]; intros [|y b]; cbn; split; intros H; try discriminate; auto.
  - apply andb_true_iff in H as [H1 H2]. apply byte_eqb_eq in H1. apply IH in H2. now subst.
  - injection H as -> ->. apply andb_true_iff. split; [now apply byte_eqb_eq | now apply IH].
Qed.

Lemma bytes_eqb_refl a : bytes_eqb a a = true.
Proof. now apply bytes_eqb_eq. Qed.

Lemma bytes_eqb_neq a b : bytes_eqb a b = false <-> a <> b.
Proof.
  split.
  - intros H ->. rewrite bytes_eqb_refl in H. discriminate.
  - intros H. destruct (bytes_eqb a b) eqn:E; [|reflexivity]. apply bytes_eqb_eq in E. contradiction.
Qed.

Lemma pow256_S n : (256 ^ N.of_nat (S n) = 256 * 256 ^ N.of_nat n)%N.
Proof. now rewrite Nat2N.inj_succ, N.pow_succ_r'. Qed.
Lemma pow256_1 : (256 ^ N.of_nat 1 = 256)%N.
Proof. reflexivity. Qed.
Lemma pow256_0 : (256 ^ N.of_nat 0 = 1)%N.
Proof. reflexivity. Qed.
Lemma pow256_pos n : (0 < 256 ^ N.of_nat n)%N.
Proof. apply N.neq_0_lt_0, N.pow_nonzero. lia. Qed.

(* ---------------------------------------------------------------- big-endian *)
Lemma be_bytes_length len n : length (be_bytes len n) = len.
Proof. revert n. induction len as [|l IH]; intros n; cbn; [reflexivity|]. rewrite app_length, IH. cbn. lia. Qed.

Lemma os2ip_be_app a b :
  os2ip_be (a ++ b) = (os2ip_be a * 256 ^ N.of_nat (length b) + os2ip_be b)%N.
Proof.
  unfold os2ip_be. revert a. induction b as [|x b IH] using rev_ind; intros a.
  - rewrite app_nil_r. cbn [length fold_left]. rewrite pow256_0. lia.
  - rewrite app_assoc, !fold_left_app. cbn [fold_left]. rewrite <- fold_left_app, IH.
    rewrite app_length. cbn [length]. rewrite Nat.add_1_r, pow256_S. lia.
Qed.

Lemma os2ip_be_single x : os2ip_be [x] = b2n x.
Proof. unfold os2ip_be. cbn. lia. Qed.

Lemma os2ip_be_lt b : (os2ip_be b < 256 ^ N.of_nat (length b))%N.
Proof.
  induction b as [|x b IH] using rev_ind.
  - cbn [length]. rewrite pow256_0. unfold os2ip_be. cbn. lia.
  - rewrite os2ip_be_app, os2ip_be_single, app_length. cbn [length].
    rewrite pow256_1, Nat.add_1_r, pow256_S.
    pose proof (b2n_lt x). nia.
Qed.

Lemma os2ip_be_bytes len n : os2ip_be (be_bytes len n) = (n mod 256 ^ N.of_nat len)%N.
Proof.
  revert n. induction len as [|l IH]; intros n.
  - cbn [be_bytes]. rewrite pow256_0, N.mod_1_r. reflexivity.
  - cbn [be_bytes]. rewrite os2ip_be_app, os2ip_be_single, IH. cbn [length].
    rewrite pow256_1, b2n_n2b_mod, pow256_S.
    pose proof (pow256_pos l) as Hp.
    rewrite (N.mod_mul_r n 256) by lia. lia.
Qed.

Lemma be_bytes_os2ip b : be_bytes (length b) (os2ip_be b) = b.
Proof.
  induction b as [|x b IH] using rev_ind; [reflexivity|].
  rewrite app_length. cbn [length]. rewrite Nat.add_1_r. cbn [be_bytes].
  rewrite os2ip_be_app, os2ip_be_single. cbn [length]. rewrite pow256_1.
  pose proof (b2n_lt x) as Hx.
  replace ((os2ip_be b * 256 + b2n x) / 256)%N with (os2ip_be b).
  2:{ symmetry. rewrite N.div_add_l by lia. rewrite N.div_small by assumption. lia. }
  rewrite IH. f_equal. f_equal.
  apply b2n_inj. rewrite b2n_n2b_mod.
  rewrite N.add_comm, N.mod_add by lia. now rewrite N.mod_small.
Qed.

Lemma be_bytes_os2ip' len b : length b = len -> be_bytes len (os2ip_be b) = b.
Proof. intros <-. apply be_bytes_os2ip. Qed.

Lemma be_bytes_inj len n m :
  (n < 256 ^ N.of_nat len)%N -> (m < 256 ^ N.of_nat len)%N -> be_bytes len n = be_bytes len m -> n = m.
Proof.
  intros Hn Hm H. apply (f_equal os2ip_be) in H. rewrite !os2ip_be_bytes in H.
  now rewrite !N.mod_small in H by assumption.
Qed.

(* ---------------------------------------------------------------- little-endian *)
Lemma le_bytes_length len n : length (le_bytes len n) = len.
Proof. revert n. induction len as [|l IH]; intros n; cbn; [reflexivity|]. now rewrite IH. Qed.

Lemma os2ip_le_lt b : (os2ip_le b < 256 ^ N.of_nat (length b))%N.
Proof.
  induction b as [|x b IH].
  - cbn [length]. rewrite pow256_0. unfold os2ip_le. cbn. lia.
  - unfold os2ip_le in *. cbn [fold_right length].
    rewrite pow256_S. pose proof (b2n_lt x). nia.
Qed.

Lemma os2ip_le_bytes len n : os2ip_le (le_bytes len n) = (n mod 256 ^ N.of_nat len)%N.
Proof.
  revert n. induction len as [|l IH]; intros n.
  - cbn [le_bytes]. rewrite pow256_0, N.mod_1_r. reflexivity.
  - cbn [le_bytes]. unfold os2ip_le in *. cbn [fold_right].
    rewrite IH, b2n_n2b_mod, pow256_S.
    pose proof (pow256_pos l) as Hp.
    rewrite (N.mod_mul_r n 256) by lia. lia.
Qed.

Lemma le_bytes_os2ip b : le_bytes (length b) (os2ip_le b) = b.
Proof.
  induction b as [|x b IH]; [reflexivity|].
  unfold os2ip_le in *. cbn [length le_bytes fold_right].
  set (v := fold_right (fun (x0 : byte) (acc : N) => (b2n x0 + 256 * acc)%N) 0%N b) in *.
  pose proof (b2n_lt x) as Hx.
  f_equal.
  - apply b2n_inj. rewrite b2n_n2b_mod.
    rewrite N.mul_comm, N.mod_add by lia. now rewrite N.mod_small.
  - replace ((b2n x + 256 * v) / 256)%N with v; [exact IH|].
    symmetry. rewrite N.mul_comm, N.div_add by lia. rewrite N.div_small by assumption. lia.
Qed.

Lemma le_bytes_os2ip' len b : length b = len -> le_bytes len (os2ip_le b) = b.
Proof. intros <-. apply le_bytes_os2ip. Qed.

(* ---------------------------------------------------------------- I2OSP *)
Lemma i2osp_Some len n p :
  i2osp len n = Some p -> length p = len /\ os2ip_be p = n /\ (n < 256 ^ N.of_nat len)%N.
Proof.
  unfold i2osp. destruct (N.ltb_spec n (256 ^ N.of_nat len)) as [H|H]; [|discriminate].
  intros [= <-]. split; [apply be_bytes_length|]. split; [|assumption].
  rewrite os2ip_be_bytes. now apply N.mod_small.
Qed.

(* I2OSP refuses exactly the values that do not fit: never a wrapped encoding *)
Lemma i2osp_None len n : i2osp len n = None <-> (256 ^ N.of_nat len <= n)%N.
Proof.
  unfold i2osp. destruct (N.ltb_spec n (256 ^ N.of_nat len)) as [H|H]; split; intros H'; try discriminate; try lia; auto.
Qed.

Lemma i2osp_inj len n m p : i2osp len n = Some p -> i2osp len m = Some p -> n = m.
Proof. intros H1 H2. apply i2osp_Some in H1 as (_ & <- & _). apply i2osp_Some in H2 as (_ & <- & _). reflexivity. Qed.

Lemma i2osp2_refuses n : i2osp_nat 2 n = None <-> (65536 <= N.of_nat n)%N.
Proof. unfold i2osp_nat. rewrite i2osp_None. change (256 ^ N.of_nat 2)%N with 65536%N. reflexivity. Qed.

Lemma i2osp1_refuses n : i2osp_nat 1 n = None <-> 256 <= n.
Proof. unfold i2osp_nat. rewrite i2osp_None. change (256 ^ N.of_nat 1)%N with 256%N. lia. Qed.

(* ---------------------------------------------------------------- length prefix *)
Lemma lenprefix_Some l x px :
  lenprefix l x = Some px ->
  exists p, i2osp_nat l (length x) = Some p /\ px = p ++ x /\ length p = l.
Proof.
  unfold lenprefix. destruct (i2osp_nat l (length x)) as [p|] eqn:E; [|discriminate].
  intros [= <-]. exists p. repeat split; auto. unfold i2osp_nat in E. now apply i2osp_Some in E.
Qed.

Lemma lenprefix_None l x : lenprefix l x = None <-> (256 ^ N.of_nat l <= N.of_nat (length x))%N.
Proof.
  unfold lenprefix, i2osp_nat. destruct (i2osp l (N.of_nat (length x))) eqn:E.
  - split; [discriminate|]. intros H. apply i2osp_None in H. congruence.
  - split; auto. intros _. now apply i2osp_None.
Qed.

Lemma lenprefix2_refuses x : lenprefix 2 x = None <-> (65536 <= N.of_nat (length x))%N.
Proof. rewrite lenprefix_None. change (256 ^ N.of_nat 2)%N with 65536%N. reflexivity. Qed.

Lemma lenprefix_length l x px : lenprefix l x = Some px -> length px = l + length x.
Proof. intros H. apply lenprefix_Some in H as (p & _ & -> & Hl). rewrite app_length. lia. Qed.

(* The key parse lemma: a length-prefixed field followed by anything determines
   the field and the rest.  No hash is involved. *)
Lemma lenprefix_inj l x y px py r1 r2 :
  lenprefix l x = Some px -> lenprefix l y = Some py ->
  px ++ r1 = py ++ r2 -> x = y /\ r1 = r2.
Proof.
  intros Hx Hy H.
  apply lenprefix_Some in Hx as (p & Hp & -> & Hlp).
  apply lenprefix_Some in Hy as (q & Hq & -> & Hlq).
  rewrite <- !app_assoc in H.
  apply app_eq_len in H as [Hpq H]; [|lia]. subst q.
  assert (Hlen : length x = length y).
  { unfold i2osp_nat in *. pose proof (i2osp_inj _ _ _ _ Hp Hq). lia. }
  now apply app_eq_len in H.
Qed.

Lemma lenprefix_inj_nil l x y px : lenprefix l x = Some px -> lenprefix l y = Some px -> x = y.
Proof.
  intros Hx Hy. destruct (lenprefix_inj l x y px px [] [] Hx Hy eq_refl) as [H _]. exact H.
Qed.

(* ---------------------------------------------------------------- xor *)
Lemma lxor_lt8 x y : (x < 2^8 -> y < 2^8 -> N.lxor x y < 2^8)%N.
Proof.
  intros Hx Hy.
  destruct (N.eq_dec (N.lxor x y) 0) as [->|Hnz]; [reflexivity|].
  apply N.log2_lt_pow2; [lia|].
  eapply N.le_lt_trans; [apply N.log2_lxor|].
  assert (L : forall z, (z < 2^8 -> N.log2 z < 8)%N).
  { intros z Hz. destruct (N.eq_dec z 0) as [->|Hz0]; [reflexivity|]. apply N.log2_lt_pow2; [lia|exact Hz]. }
  apply N.max_lub_lt; apply L; assumption.
Qed.

Lemma b2n_xorb8 a b : b2n (xorb8 a b) = N.lxor (b2n a) (b2n b).
Proof.
  unfold xorb8. rewrite b2n_n2b_mod. apply N.mod_small.
  change 256%N with (2^8)%N. apply lxor_lt8; change (2^8)%N with 256%N; apply b2n_lt.
Qed.

Lemma xorb8_involutive a b : xorb8 (xorb8 a b) b = a.
Proof.
  apply b2n_inj. rewrite !b2n_xorb8.
  now rewrite N.lxor_assoc, N.lxor_nilpotent, N.lxor_0_r.
Qed.

Lemma xorb8_cancel_l p x : xorb8 p (xorb8 p x) = x.
Proof.
  apply b2n_inj. rewrite !b2n_xorb8.
  now rewrite <- N.lxor_assoc, N.lxor_nilpotent, N.lxor_0_l.
Qed.

Lemma xor_bytes_length a b : length (xor_bytes a b) = Nat.min (length a) (length b).
Proof. revert b. induction a as [|x a IH]; intros [|y b]; cbn; auto. Qed.

Lemma xor_bytes_involutive pad m :
  length m <= length pad -> xor_bytes pad (xor_bytes pad m) = m.
Proof.
  revert m. induction pad as [|p pad IH]; intros [|x m] H; cbn in *; try lia; auto.
  f_equal; [apply xorb8_cancel_l | apply IH; lia].
Qed.
