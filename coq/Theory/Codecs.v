(* C10 / C13: the eleven native decoders of the model are strict (a decoded
   byte string re-encodes to itself, hence has the suite's fixed length and two
   different strings are never the same message) and round-trip on well-formed
   values.  Generic in the suite; the element-level laws are the fields of
   [CodecLaws] (discharged for the concrete groups in CodecsConcrete.v, except
   where DESIGN.md says otherwise). *)
From Coq Require Import List Arith Lia Bool.
From OKE Require Import Bytes Suite Generated Voprf Messages ListLemmas BytesLemmas ResultLemmas.
Import ListNotations.
Local Open Scope res_scope.

Arguments firstn : simpl never.
Arguments skipn : simpl never.

Lemma nonce_lens_eq : ENVELOPE_NONCE_LEN = KE_NONCE_LEN.
Proof. reflexivity. Qed.

Record CodecLaws {E Sc Pk Sk} (CS : Suite E Sc Pk Sk) : Prop := {
  (* key-exchange public keys: the decoder only accepts what the encoder produces *)
  k_canon : forall b pk, k_deser_pk (ke CS) b = Some pk -> k_ser_pk (ke CS) pk = b;
  k_pk_len : forall b pk, k_deser_pk (ke CS) b = Some pk -> length b = k_Npk (ke CS);
  (* private keys and OPRF scalars, on slices of exactly the scalar length *)
  ks_canon : forall b s, length b = k_Nsk (ke CS) -> k_deser_sk (ke CS) b = Some s -> k_ser_sk (ke CS) s = b;
  os_canon : forall b s, length b = o_Nok (oprf CS) -> o_deser_s (oprf CS) b = Some s -> o_ser_s (oprf CS) s = b;
  (* decoded OPRF elements encode on Noe bytes *)
  oe_len : forall b e, o_deser_e (oprf CS) b = Some e -> length (o_ser_e (oprf CS) e) = o_Noe (oprf CS);
}.

Section Strict.
  Context {E Sc Pk Sk : Type}.
  Variable CS : Suite E Sc Pk Sk.
  Hypothesis LAWS : CodecLaws CS.
  Let Nh := h_len (hash CS).
  Let Noe := o_Noe (oprf CS).
  Let Nok := o_Nok (oprf CS).
  Let Npk := k_Npk (ke CS).
  Let Nsk := k_Nsk (ke CS).
  Let Nn := KE_NONCE_LEN.

  Lemma check_slice_size_Ok b n c : check_slice_size b n = Ok c -> c = b /\ length b = n.
  Proof. unfold check_slice_size. destruct (Nat.eqb_spec (length b) n); [intros [= <-]; auto | discriminate]. Qed.

  Lemma check_slice_size_atleast_Ok b n c : check_slice_size_atleast b n = Ok c -> c = b /\ n <= length b.
  Proof. unfold check_slice_size_atleast. destruct (Nat.ltb_spec (length b) n); [discriminate | intros [= <-]; auto]. Qed.

  Ltac inv_size :=
    repeat match goal with
    | H : check_slice_size _ _ = Ok _ |- _ => apply check_slice_size_Ok in H; destruct H as [-> H]
    | H : check_slice_size_atleast _ _ = Ok _ |- _ => apply check_slice_size_atleast_Ok in H; destruct H as [-> H]
    end.

  (* ---------------- elements *)
  Lemma deserialize_element_strict b e :
    deserialize_element CS b = Ok e -> o_ser_e (oprf CS) e = b /\ length b = Noe.
  Proof.
    unfold deserialize_element. intros H. inv_res. subst v.
    apply bytes_eqb_eq in Hc. split; [exact Hc|].
    rewrite <- Hc. unfold voprf_deser_elem in Hb.
    destruct (length b <? o_Noe (oprf CS)); [discriminate|]. inv_res.
    eapply (oe_len CS LAWS); eauto.
  Qed.

  Lemma pk_deserialize_strict b pk :
    pk_deserialize CS b = Ok pk -> k_ser_pk (ke CS) pk = b /\ length b = Npk.
  Proof.
    unfold pk_deserialize. intros H. inv_res. split; [eapply k_canon | eapply k_pk_len]; eauto.
  Qed.

  Lemma sk_deserialize_strict b s :
    length b = Nsk -> sk_deserialize CS b = Ok s -> k_ser_sk (ke CS) s = b.
  Proof. unfold sk_deserialize. intros Hl H. inv_res. eapply ks_canon; eauto. Qed.

  Lemma voprf_deser_scalar_strict b s :
    length b = Nok -> voprf_deser_scalar (oprf CS) b = Ok s -> o_ser_s (oprf CS) s = b.
  Proof.
    unfold voprf_deser_scalar. intros Hl H.
    destruct (Nat.ltb_spec (length b) (o_Nok (oprf CS))); [discriminate|].
    inv_res. rewrite firstn_all' in H by (unfold Nh, Noe, Nok, Npk, Nsk, Nn in *; lia). eapply os_canon; eauto.
  Qed.

  (* ---------------- envelope *)
  Lemma envelope_strict b e :
    envelope_deserialize CS b = Ok e -> envelope_serialize e = b /\ length b = envelope_len CS /\ env_internal e = true.
  Proof.
    unfold envelope_deserialize, envelope_serialize, envelope_len. intros H.
    destruct (Nat.ltb_spec (length b) ENVELOPE_NONCE_LEN) as [|Hl]; [discriminate|].
    inv_res. inv_size. subst e. cbn [env_nonce env_hmac env_internal].
    rewrite firstn_skipn. split; [reflexivity|]. split; [|reflexivity].
    rewrite length_skipn in Hb. unfold Nh, Noe, Nok, Npk, Nsk, Nn in *. lia.
  Qed.

  (* ---------------- the six messages *)
  Theorem registration_request_strict b m :
    registration_request_deserialize CS b = Ok m -> registration_request_serialize CS m = b.
  Proof.
    unfold registration_request_deserialize, registration_request_serialize. intros H. inv_res. subst m. cbn.
    now apply deserialize_element_strict in Hb.
  Qed.

  Theorem registration_response_strict b m :
    registration_response_deserialize CS b = Ok m -> registration_response_serialize CS m = b.
  Proof.
    unfold registration_response_deserialize, registration_response_serialize. intros H. inv_res. inv_size.
    subst m. cbn [rr_eval rr_server_s_pk].
    apply deserialize_element_strict in Hb1 as [-> _]. apply pk_deserialize_strict in Hb0 as [-> _].
    apply firstn_skipn.
  Qed.

  Theorem registration_upload_strict b m :
    registration_upload_deserialize CS b = Ok m -> registration_upload_serialize CS m = b.
  Proof.
    unfold registration_upload_deserialize, registration_upload_serialize, slice. intros H. inv_res. inv_size.
    subst m. cbn [ru_envelope ru_masking_key ru_client_s_pk].
    apply envelope_strict in Hb0 as (-> & _ & _). apply pk_deserialize_strict in Hb1 as [-> _].
    rewrite <- (skipn_skipn' (h_len (hash CS)) (k_Npk (ke CS))).
    now rewrite firstn_skipn, firstn_skipn.
  Qed.

  Lemma ke1_message_strict b m :
    ke1_message_deserialize CS b = Ok m -> ke1_message_serialize CS m = b.
  Proof.
    unfold ke1_message_deserialize, ke1_message_serialize. intros H. inv_res. inv_size. subst m.
    cbn [k1_nonce k1_client_e_pk]. apply pk_deserialize_strict in Hb0 as [-> _]. apply firstn_skipn.
  Qed.

  Theorem credential_request_strict b m :
    credential_request_deserialize CS b = Ok m -> credential_request_serialize CS m = b.
  Proof.
    unfold credential_request_deserialize, credential_request_serialize. intros H. inv_res. inv_size.
    destruct (o_eqb (oprf CS) (o_identity (oprf CS)) v0); [discriminate|]. inv_res. subst m.
    cbn [cq_blinded cq_ke1]. apply deserialize_element_strict in Hb0 as [-> _].
    apply ke1_message_strict in Hb1 as ->. apply firstn_skipn.
  Qed.

  Lemma ke2_message_strict b m :
    ke2_message_deserialize CS b = Ok m -> ke2_message_serialize CS m = b.
  Proof.
    unfold ke2_message_deserialize, ke2_message_serialize. intros H. inv_res. inv_size. subst m.
    cbn [k2_nonce k2_server_e_pk k2_mac]. apply pk_deserialize_strict in Hb2 as [-> _].
    now rewrite firstn_skipn, firstn_skipn.
  Qed.

  Lemma masked_response_roundtrip b :
    length b = masked_response_len CS -> masked_response_serialize (masked_response_deserialize CS b) = b.
  Proof.
    unfold masked_response_len, masked_response_serialize, masked_response_deserialize, slice. intros Hl.
    cbn [mr_nonce mr_hash mr_pk].
    rewrite <- (skipn_skipn' (h_len (hash CS)) KE_NONCE_LEN).
    rewrite (firstn_all' (k_Npk (ke CS))) by (rewrite !length_skipn; lia).
    now rewrite firstn_skipn, firstn_skipn.
  Qed.

  Theorem credential_response_strict b m :
    credential_response_deserialize CS b = Ok m -> credential_response_serialize CS m = b.
  Proof.
    unfold credential_response_deserialize, credential_response_serialize, slice. intros H. inv_res. inv_size.
    destruct (o_eqb (oprf CS) (o_identity (oprf CS)) v0); [discriminate|]. inv_res. subst m.
    cbn [cr_eval cr_masking_nonce cr_masked cr_ke2].
    apply deserialize_element_strict in Hb0 as [-> _]. apply ke2_message_strict in Hb1 as ->.
    rewrite masked_response_roundtrip.
    2:{ pose proof nonce_lens_eq. rewrite firstn_length, length_skipn.
        unfold masked_response_len, envelope_len, ke2_message_len in *. lia. }
    rewrite <- (skipn_skipn' (k_Npk (ke CS) + envelope_len CS) (o_Noe (oprf CS) + KE_NONCE_LEN)).
    rewrite <- (skipn_skipn' KE_NONCE_LEN (o_Noe (oprf CS))).
    now rewrite !firstn_skipn.
  Qed.

  Theorem credential_finalization_strict b m :
    credential_finalization_deserialize CS b = Ok m -> credential_finalization_serialize m = b.
  Proof.
    unfold credential_finalization_deserialize, credential_finalization_serialize. intros H. inv_res. inv_size.
    now subst m.
  Qed.

  (* ---------------- the persisted states *)
  Theorem server_setup_strict b s :
    server_setup_deserialize CS (private_key_ops (ke CS)) b = Ok s ->
    server_setup_serialize CS (private_key_ops (ke CS)) s = b.
  Proof.
    unfold server_setup_deserialize, server_setup_serialize, keypair_from_private_key_slice, slice.
    cbn [private_key_ops s_deser s_pub s_ser]. intros H. inv_res. inv_size. subst s v2.
    cbn [ss_oprf_seed ss_keypair ss_fake_keypair kp_sk].
    rewrite (ks_canon CS LAWS (firstn (k_Nsk (ke CS)) (skipn (h_len (hash CS)) b)) v0); [ | | exact Hb0].
    2:{ rewrite firstn_length, length_skipn. lia. }
    match goal with Hs : sk_deserialize CS _ = Ok ?w |- _ =>
      rewrite (sk_deserialize_strict (skipn (h_len (hash CS) + k_Nsk (ke CS)) b) w); [ | | exact Hs] end.
    2:{ rewrite length_skipn. unfold Nh, Noe, Nok, Npk, Nsk, Nn in *. lia. }
    rewrite <- (skipn_skipn' (k_Nsk (ke CS)) (h_len (hash CS))).
    now rewrite !firstn_skipn.
  Qed.

  Theorem client_registration_strict b s :
    client_registration_deserialize CS b = Ok s -> client_registration_serialize CS s = b.
  Proof.
    unfold client_registration_deserialize, client_registration_serialize. intros H. inv_res. inv_size. subst s.
    cbn [crs_blind crs_blinded].
    apply deserialize_element_strict in Hb1 as [-> Hle].
    erewrite voprf_deser_scalar_strict; [apply firstn_skipn | | exact Hb0].
    rewrite firstn_length. rewrite length_skipn in Hle. unfold Nh, Noe, Nok, Npk, Nsk, Nn in *. lia.
  Qed.

  Lemma ke1_state_strict b s :
    length b = ke1_state_len CS -> ke1_state_deserialize CS b = Ok s -> ke1_state_serialize CS s = b.
  Proof.
    unfold ke1_state_deserialize, ke1_state_serialize, ke1_state_len, slice. intros Hl H. inv_res. inv_size. subst s.
    cbn [k1s_client_e_sk k1s_nonce].
    erewrite sk_deserialize_strict; [ | | exact Hb0].
    2:{ rewrite firstn_length. unfold Nh, Noe, Nok, Npk, Nsk, Nn in *. lia. }
    rewrite (firstn_all' KE_NONCE_LEN) by (rewrite length_skipn; lia).
    apply firstn_skipn.
  Qed.

  Theorem client_login_strict b s :
    client_login_deserialize CS b = Ok s -> client_login_serialize CS s = b.
  Proof.
    unfold client_login_deserialize, client_login_serialize, slice. intros H. inv_res. inv_size. subst s.
    cbn [cl_blind cl_request cl_ke1_state].
    apply ke1_state_strict in Hb0.
    2:{ rewrite length_skipn. lia. }
    rewrite Hb0. apply credential_request_strict in Hb2. rewrite Hb2.
    erewrite voprf_deser_scalar_strict; [ | | exact Hb1].
    2:{ rewrite firstn_length. unfold ke1_message_len, ke1_state_len in *. unfold Nh, Noe, Nok, Npk, Nsk, Nn in *. lia. }
    rewrite <- (skipn_skipn' (o_Noe (oprf CS) + ke1_message_len CS) (o_Nok (oprf CS))).
    now rewrite !firstn_skipn.
  Qed.

  Theorem server_login_strict b s :
    server_login_deserialize CS b = Ok s -> server_login_serialize s = b.
  Proof.
    unfold server_login_deserialize, server_login_serialize, slice. intros H. inv_res. inv_size. subst s.
    cbn [sl_km3 sl_hashed_transcript sl_session_key].
    replace (h_len (hash CS) + (h_len (hash CS) + 0)) with (h_len (hash CS) + h_len (hash CS)) by lia.
    rewrite (firstn_all' (h_len (hash CS)) (skipn (h_len (hash CS) + h_len (hash CS)) b)) by (rewrite length_skipn; lia).
    rewrite <- (skipn_skipn' (h_len (hash CS)) (h_len (hash CS))).
    now rewrite !firstn_skipn.
  Qed.

  (* ---------------- fixed lengths: a corollary of strictness *)
  Theorem credential_finalization_length b m :
    credential_finalization_deserialize CS b = Ok m -> length b = Nh.
  Proof. unfold credential_finalization_deserialize. intros H. inv_res. now inv_size. Qed.

  Theorem server_login_length b s : server_login_deserialize CS b = Ok s -> length b = 3 * Nh.
  Proof. unfold server_login_deserialize. intros H. inv_res. now inv_size. Qed.

  Theorem registration_request_length b m :
    registration_request_deserialize CS b = Ok m -> length b = Noe.
  Proof.
    unfold registration_request_deserialize. intros H. inv_res. now apply deserialize_element_strict in Hb.
  Qed.

  Theorem registration_upload_length b m :
    registration_upload_deserialize CS b = Ok m -> length b = Npk + Nh + envelope_len CS.
  Proof.
    unfold registration_upload_deserialize. intros H. inv_res. inv_size.
    apply envelope_strict in Hb0 as (_ & Hl & _). rewrite length_skipn in Hl. unfold Nh, Noe, Nok, Npk, Nsk, Nn in *. lia.
  Qed.

  Theorem credential_response_length b m :
    credential_response_deserialize CS b = Ok m -> length b = credential_response_len CS.
  Proof.
    unfold credential_response_deserialize, credential_response_len, masked_response_len. intros H. inv_res. inv_size.
    destruct (o_eqb (oprf CS) (o_identity (oprf CS)) v0); [discriminate|]. inv_res.
    unfold ke2_message_deserialize in Hb1. inv_res. inv_size.
    pose proof nonce_lens_eq. rewrite !length_skipn in *. unfold ke2_message_len, envelope_len in *. unfold Nh, Noe, Nok, Npk, Nsk, Nn in *. lia.
  Qed.

  (* two different byte strings are never the same message *)
  Corollary credential_response_injective b1 b2 m :
    credential_response_deserialize CS b1 = Ok m -> credential_response_deserialize CS b2 = Ok m -> b1 = b2.
  Proof. intros H1 H2. apply credential_response_strict in H1, H2. congruence. Qed.
End Strict.
