(* HashLaws proved for the concrete SHA-2 instances (output lengths of the
   model's SHA-256/384/512 and HMAC). *)
From Coq Require Import List NArith Arith Lia Bool.
From OKE Require Import Bytes Suite BytesLemmas Laws Sha2.
Import ListNotations.

Lemma sha2_length wb wbytes a1 a2 a3 a4 a5 a6 b1 b2 b3 b4 b5 b6 K IV out m :
  out <= 8 * wbytes ->
  length (sha2 wb wbytes a1 a2 a3 a4 a5 a6 b1 b2 b3 b4 b5 b6 K IV out m) = out.
Proof.
  intros Hle. unfold sha2.
  destruct (blocks _ _ _ _ _ _ _ _ _ _ _ _ _ _ _ _ _ _) as [[[[[[[a b] c] d] e] f] g] h].
  rewrite firstn_length. cbn [flat_map]. rewrite !app_length, !be_bytes_length. cbn [length]. lia.
Qed.

Lemma sha256_length m : length (sha256 m) = 32.
Proof. unfold sha256. apply sha2_length. lia. Qed.
Lemma sha512_length m : length (sha512 m) = 64.
Proof. unfold sha512, sha512_gen. apply sha2_length. lia. Qed.
Lemma sha384_length m : length (sha384 m) = 48.
Proof. unfold sha384, sha512_gen. apply sha2_length. lia. Qed.

Lemma mk_hash_laws H len block :
  (forall m, length (H m) = len) -> 0 < len -> len <= 255 -> HashLaws (mk_hash H len block).
Proof.
  intros HL Hp Hs. constructor; cbn [mk_hash h_hash h_hmac h_len]; auto.
  intros k m. unfold hmac_gen. apply HL.
Qed.

Theorem SHA256_laws : HashLaws SHA256.
Proof. apply mk_hash_laws; [exact sha256_length | lia | lia]. Qed.
Theorem SHA384_laws : HashLaws SHA384.
Proof. apply mk_hash_laws; [exact sha384_length | lia | lia]. Qed.
Theorem SHA512_laws : HashLaws SHA512.
Proof. apply mk_hash_laws; [exact sha512_length | lia | lia]. Qed.
