(* One statement for C02, C05 (credential identifier), C14 and C15: what an ACCEPTED login says about the client's
   inputs.  After an honest registration with (pw, cred, ksf), if a client that types pw' and stretches with ksf'
   accepts the response of the honest server evaluating under cred', then pw' = pw, cred' = cred and the two stretching
   functions agree on the OPRF output of this password - or a collision is exhibited (HMAC, hash, HKDF-Expand, client
   key derivation, Diffie-Hellman in the private key, OPRF key derivation).  Contrapositive: another password, another
   credential identifier, or stretching parameters that give another value on the OPRF output never log in.
   Same chain as Theory/WrongCredential.v, continued through the stretched value.  [action_free] as there. *)
From Coq Require Import List Arith Lia Bool NArith.
From Coq Require Import Init.Byte.
From OKE Require Import Bytes Suite Generated Labels Hkdf Voprf Messages Envelope TripleDH Opaque.
From OKE Require Import ListLemmas BytesLemmas ResultLemmas Codecs Roundtrip Laws Layers Transcript Bad Honest ClientAccept KeySchedule WrongPassword KeySeparation.
Import ListNotations.
Local Open Scope res_scope.

Arguments firstn : simpl never.
Arguments skipn : simpl never.

Section AL.
  Context {E Sc Pk Sk : Type}.
  Variable CS : Suite E Sc Pk Sk.
  Hypothesis HL : HashLaws (hash CS).
  Hypothesis GL : GroupLaws CS.
  Hypothesis sk_eq_dec : forall a b : Sk, {a = b} + {a <> b}.
  Hypothesis action_free : forall P a b, ve CS P -> vs CS a -> vs CS b -> o_mul (oprf CS) P a = o_mul (oprf CS) P b -> a = b.

  (* the stretching function a finish step applies: the caller's instance, or the suite's default *)
  Definition apply_ksf (k : option ksf_fn) (y : bytes) : option bytes :=
    match k with Some f => f y | None => ksf_default CS y end.

  (* randomized password = HMAC(0, y || z), y the OPRF output (hash of the Finalize input), z the stretched y *)
  Lemma rpwd_form2 pw r k ksf rp :
    let P := o_h2g (oprf CS) pw (dst_hash_to_group (oprf CS)) in
    ve CS P -> vs CS r -> vs CS k ->
    get_password_derived_key CS pw r (o_mul (oprf CS) (o_mul (oprf CS) P r) k) ksf = Ok rp ->
    exists l z,
      i2osp_nat 2 (length pw) = Some l /\
      voprf_finalize (hash CS) (oprf CS) r pw (o_mul (oprf CS) (o_mul (oprf CS) P r) k) =
        Ok (h_hash (hash CS) (l ++ pw ++ be_bytes 2 (N.of_nat (o_Noe (oprf CS))) ++ o_ser_e (oprf CS) (o_mul (oprf CS) P k) ++ STR_FINALIZE)) /\
      apply_ksf ksf (h_hash (hash CS) (l ++ pw ++ be_bytes 2 (N.of_nat (o_Noe (oprf CS))) ++ o_ser_e (oprf CS) (o_mul (oprf CS) P k) ++ STR_FINALIZE)) = Some z /\
      rp = h_hmac (hash CS) (zeros (h_len (hash CS)))
             (h_hash (hash CS) (l ++ pw ++ be_bytes 2 (N.of_nat (o_Noe (oprf CS))) ++ o_ser_e (oprf CS) (o_mul (oprf CS) P k) ++ STR_FINALIZE) ++ z).
  Proof.
    intros P HP Hr Hk H. unfold get_password_derived_key in H.
    rewrite (oprf_unblind CS GL pw r k P HP Hr Hk) in H. rewrite (oprf_unblind CS GL pw r k P HP Hr Hk).
    destruct (i2osp_nat 2 (length pw)) as [l|]; [|discriminate]. cbn [bind] in H.
    apply bind_Ok in H as (z & Hz & H). injection H as <-. apply of_option_Ok in Hz.
    exists l, z. split; [reflexivity|]. split; [reflexivity|]. split; [exact Hz|]. reflexivity.
  Qed.

  Theorem accepted_login_used_the_registrations_secrets
          tape setup t1 pw creg rq t2 cred rr ids ksf upload ek spk t3 pw' cred' ksf' clog ke1 t4 ctx slog ke2 t5 dbg out :
    ve CS (o_h2g (oprf CS) pw (dst_hash_to_group (oprf CS))) ->
    ve CS (o_h2g (oprf CS) pw' (dst_hash_to_group (oprf CS))) ->
    server_setup_new CS tape = Ok (setup, t1) ->
    client_registration_start CS t1 pw = Ok (creg, rq, t2) ->
    server_registration_start CS setup rq cred = Ok rr ->
    client_registration_finish CS creg t2 pw rr ids ksf = Ok (upload, ek, spk, t3) ->
    client_login_start CS t3 pw' = Ok (clog, ke1, t4) ->
    server_login_start CS (private_key_ops (ke CS)) t4 setup (Some (server_registration_finish upload)) ke1 cred' ctx ids
      = Ok (slog, ke2, t5, dbg) ->
    client_login_finish CS clog pw' ke2 ctx ids ksf' = Ok out ->
    (pw' = pw /\ cred' = cred /\
     exists y z, apply_ksf ksf y = Some z /\ apply_ksf ksf' y = Some z /\
                 voprf_finalize (hash CS) (oprf CS) (crs_blind creg) pw (rr_eval rr) = Ok y)
    \/ BadS CS \/ BadOprfDerive CS.
  Proof.
    intros HP HP' Hsetup Hrs Hsr Hrf Hls Hss Hacc.
    set (P := o_h2g (oprf CS) pw (dst_hash_to_group (oprf CS))) in *.
    set (P' := o_h2g (oprf CS) pw' (dst_hash_to_group (oprf CS))) in *.
    (* setup *)
    unfold server_setup_new in Hsetup.
    apply bind_Ok in Hsetup as ([skp ta] & Hskp & Hsetup).
    destruct (length ta <? h_len (hash CS)); [discriminate|].
    apply bind_Ok in Hsetup as ([fkp tb] & _ & Hsetup). injection Hsetup as <- <-.
    apply (keypair_generate_random_inv CS GL) in Hskp as [Hssv Hspk].
    destruct skp as [spk0 ss]. cbn [kp_pk kp_sk ss_keypair ss_oprf_seed] in *. subst spk0.
    (* registration *)
    unfold client_registration_start in Hrs.
    apply bind_Ok in Hrs as ([[r b] t2'] & Hb & Hrs). injection Hrs as <- <- <-.
    apply (blind_inv CS GL) in Hb as [Hr ->]. fold P in Hsr, Hrf.
    unfold server_registration_start in Hsr. cbn [ss_oprf_seed ss_keypair rq_blinded] in Hsr.
    apply bind_Ok in Hsr as (ev & Hev & Hsr). injection Hsr as <-.
    apply (server_evaluate_inv CS GL) in Hev as (k & Hk & -> & Hkv).
    unfold client_registration_finish in Hrf. cbn [crs_blinded crs_blind rr_eval rr_server_s_pk] in Hrf.
    destruct (o_eqb (oprf CS) _ _); [discriminate|].
    apply bind_Ok in Hrf as (rp & Hrp & Hrf). apply bind_Ok in Hrf as (mk & _ & Hrf).
    apply bind_Ok in Hrf as ([[[env cpk] ek'] t3'] & Hseal & Hrf). injection Hrf as <- <- <- <-.
    apply (envelope_seal_recover CS) in Hseal as (ckp & Hckp & ->).
    apply (recover_keys_seed CS HL GL) in Hckp as (seed & Hseed & Hder & Hcpk & Hcsv).
    destruct (rpwd_form2 pw r k ksf rp HP Hr Hkv Hrp) as (l & z & Hl & Hfin & Hz & Hrpf). fold P in Hrpf, Hfin, Hz.
    (* the login attempt *)
    unfold client_login_start in Hls.
    apply bind_Ok in Hls as ([[r' b'] t3a] & Hb' & Hls).
    apply bind_Ok in Hls as ([[k1st k1m] t3b] & Hke1 & Hls). injection Hls as <- <- <-.
    apply (blind_inv CS GL) in Hb' as [Hr' ->]. fold P' in Hss, Hacc.
    unfold generate_ke1 in Hke1.
    apply bind_Ok in Hke1 as ([ekp t3c] & Hekp & Hke1).
    apply bind_Ok in Hke1 as ([cnonce t3d] & _ & Hke1). injection Hke1 as <- <- <-.
    apply (keypair_generate_random_inv CS GL) in Hekp as [Hcev Hcepk].
    destruct ekp as [cepk ce]. cbn [kp_pk kp_sk] in *. subst cepk.
    (* what the server did *)
    apply (server_login_start_inv CS GL) in Hss
      as (se & u & s & pre & sk & km2 & km3 & hs & k' & Hsev & Hsepk & Hids & Hk' & Hkv' & Hevr & Hpre & Hkeys & Hmac & _).
    unfold server_registration_finish in *. cbn [ru_client_s_pk cq_blinded cq_ke1 k1_client_e_pk ss_oprf_seed ss_keypair kp_sk] in *.
    (* what the client checked *)
    destruct out as [[[[fin skc] ekc] spkc] dbgc].
    apply client_accepts_iff in Hacc
      as (rp' & mk' & env' & kp' & u' & s' & pre' & km2' & km3' & hs' & _ & Hrp' & _ & Hun & Hopen & Hpre' & Hkeys' & Hmac' & _).
    cbn [cl_blind cl_ke1_state cl_request cq_blinded k1s_client_e_sk] in *.
    rewrite Hevr in Hrp'. 
    destruct (rpwd_form2 pw' r' k' ksf' rp' HP' Hr' Hkv' Hrp') as (l' & z' & Hl' & _ & Hz' & Hrpf'). fold P' in Hrpf', Hz'.
    pose proof (envelope_open_recover CS _ _ _ _ _ _ _ _ Hopen) as Hckp'.
    apply (recover_keys_seed CS HL GL) in Hckp' as (seed' & Hseed' & Hder' & Hcpk' & Hcsv').
    (* 1. equal server MACs: equal DH inputs, or an HMAC collision *)
    rewrite Hmac in Hmac'.
    destruct (server_mac_determines_inputs CS HL _ _ _ _ _ _ _ _ _ _ _ _ _ _ _ _ Hkeys Hkeys' Hmac') as [(Hdh & _)|HB];
      [|right; left; exact (BS_hash CS HB)].
    (* the third Diffie-Hellman value *)
    rewrite Hsepk in Hdh.
    assert (Hvspk : vp CS spkc).
    { unfold unmask_response in Hun. apply bind_Ok in Hun as (pad & _ & Hun).
      apply bind_Ok in Hun as (pk0 & Hpk0 & Hun). apply bind_Ok in Hun as (e0 & _ & Hun). injection Hun as <- _.
      apply map_err_Ok in Hpk0. unfold pk_deserialize in Hpk0. apply of_option_Ok in Hpk0.
      eapply (g_deser_pk_valid CS GL); eauto. }
    pose proof (g_pub_valid CS GL _ Hsev) as Hsepkv. pose proof (g_pub_valid CS GL _ Hcev) as Hcepkv.
    pose proof (g_pub_valid CS GL _ Hcsv) as Hcpkv. rewrite <- Hcpk in Hcpkv.
    apply app_eq_len in Hdh as [_ Hdh];
      [|rewrite !(g_dh_len CS GL); auto].
    apply app_eq_len in Hdh as [_ Hdh3];
      [|rewrite !(g_dh_len CS GL); auto].
    (* 2. Diffie-Hellman against the server's ephemeral key: same client static key, or a DH collision *)
    rewrite Hcpk in Hdh3. rewrite (g_dh_sym CS GL _ _ Hcsv Hsev) in Hdh3.
    destruct (sk_eq_dec (kp_sk ckp) (kp_sk kp')) as [Hcs|Hcs]; [|right; left; exact (BS_dh CS _ _ _ Hcs Hdh3)].
    (* 3. same derived key: same seed, or a derivation collision *)
    rewrite <- Hcs in Hder'.
    destruct (list_eq_dec Byte.byte_eq_dec seed seed') as [Hs|Hs]; [|right; left; exact (BS_derive CS _ _ _ Hs Hder Hder')].
    subst seed'.
    (* 4. same seed: same randomized password, or an Expand collision *)
    destruct (list_eq_dec Byte.byte_eq_dec rp rp') as [Hrpeq|Hrpne].
    2:{ right; left. eapply (BS_expand CS rp _ rp' _ seed _); [|exact Hseed|exact Hseed']. intros [= H _]. contradiction. }
    (* 5. same randomized password: same OPRF output, or an HMAC collision *)
    rewrite Hrpf, Hrpf' in Hrpeq.
    apply (mac_inj (hash CS)) in Hrpeq; [|reflexivity].
    destruct Hrpeq as [[_ Hyz]|HB]; [|right; left; exact (BS_hash CS HB)].
    apply app_eq_len in Hyz as [Hy Hzz]; [|now rewrite !(hash_len _ HL)].
    (* 6. same OPRF output: same Finalize input, or a hash collision *)
    match type of Hy with h_hash _ ?x = h_hash _ ?y =>
      destruct (list_eq_dec Byte.byte_eq_dec x y) as [Hin|Hin]; [|right; left; exact (BS_hash CS (BadHash _ _ _ Hin Hy))] end.
    (* 7. the Finalize input is an injective encoding of the password and of the evaluated element *)
    pose proof (g_mul_valid CS GL _ _ HP Hkv) as [D1 L1]. pose proof (g_mul_valid CS GL _ _ HP' Hkv') as [D2 L2].
    destruct (finalize_input_injective CS _ _ _ _ _ _ Hl Hl' (eq_trans L1 (eq_sym L2)) Hin) as [Hpw Hser].
    (* 8. same password, same evaluated element: same OPRF key (the scalar action is free) *)
    subst pw'. subst P'. fold P in D2, Hser, Hz'.
    assert (Hel : o_mul (oprf CS) P k = o_mul (oprf CS) P k').
    { rewrite Hser in D1. rewrite D1 in D2. now injection D2. }
    pose proof (action_free _ _ _ HP Hkv Hkv' Hel) as Hkk. subst k'.
    (* 9. same OPRF key: same credential identifier, or a collision in the per-credential key derivation *)
    destruct (list_eq_dec Byte.byte_eq_dec cred cred') as [<-|Hc].
    2:{ right. exact (credential_identifiers_separate_keys CS GL _ _ _ _ Hk Hk' Hc). }
    (* 10. and the two stretching functions gave the same value on the OPRF output *)
    left. split; [reflexivity|]. split; [reflexivity|].
    rewrite Hl in Hl'. injection Hl' as <-.
    subst z'. eexists _, z. split; [exact Hz|]. split; [exact Hz'|]. exact Hfin.
  Qed.
End AL.
