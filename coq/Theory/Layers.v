(* Functional-correctness layers of the protocol, each proved separately under
   the laws of Theory/Laws.v; C01 composes them, C06 / C14 / C16 reuse them.
   A: HKDF output lengths.  B: unmask (mask x) = x.  C: open (seal x) = x.
   D: OPRF unblinding.  E: both sides of 3DH derive the same keys and accept
   each other's MAC. *)
From Coq Require Import List Arith Lia Bool NArith.
From OKE Require Import Bytes Suite Generated Hkdf Voprf Messages Envelope TripleDH Opaque.
From OKE Require Import ListLemmas BytesLemmas ResultLemmas Codecs Roundtrip Laws.
Import ListNotations.
Local Open Scope res_scope.

Arguments firstn : simpl never.
Arguments skipn : simpl never.

(* ---------------------------------------------------------------- A: HKDF *)
Section HkdfLen.
  Variable h : HashOps.
  Hypothesis HL : HashLaws h.

  Lemma expand_blocks_length prk info prev i n :
    length (expand_blocks h prk info prev i n) = n * h_len h.
  Proof.
    revert prev i. induction n as [|n IH]; intros prev i; cbn [expand_blocks]; [reflexivity|].
    rewrite app_length, IH, (hmac_len h HL). lia.
  Qed.

  Lemma ceil_div_mul_ge a b : 0 < b -> a <= ceil_div a b * b.
  Proof.
    intros Hb. unfold ceil_div.
    pose proof (Nat.div_mod (a + b - 1) b ltac:(lia)) as Hd.
    pose proof (Nat.mod_upper_bound (a + b - 1) b ltac:(lia)) as Hm. nia.
  Qed.

  Lemma hkdf_expand_length prk info len out : hkdf_expand h prk info len = Some out -> length out = len.
  Proof.
    unfold hkdf_expand. destruct (255 * h_len h <? len); [discriminate|]. intros [= <-].
    rewrite firstn_length, expand_blocks_length.
    pose proof (ceil_div_mul_ge len (h_len h) (h_len_pos h HL)). lia.
  Qed.

  Lemma hkdf_expand_Some prk info len : len <= 255 * h_len h -> exists out, hkdf_expand h prk info len = Some out.
  Proof.
    intros Hle. unfold hkdf_expand. destruct (Nat.ltb_spec (255 * h_len h) len); [lia|]. eauto.
  Qed.

  Lemma hkdf_from_prk_expand_eq prk info len :
    h_len h <= length prk -> hkdf_from_prk_expand h prk info len = hkdf_expand h prk info len.
  Proof. intros H. unfold hkdf_from_prk_expand. destruct (Nat.ltb_spec (length prk) (h_len h)); [lia|reflexivity]. Qed.

  Lemma hkdf_extract_length salt ikm : length (hkdf_extract h salt ikm) = h_len h.
  Proof. unfold hkdf_extract. apply (hmac_len h HL). Qed.
End HkdfLen.

Section Layers.
  Context {E Sc Pk Sk : Type}.
  Variable CS : Suite E Sc Pk Sk.
  Hypothesis HL : HashLaws (hash CS).
  Hypothesis GL : GroupLaws CS.
  Let h := hash CS.
  Let O := oprf CS.
  Let K := ke CS.

  (* ---------------------------------------------------------------- B: masking *)
  Lemma masking_pad_length mk nonce pad :
    masking_pad CS mk nonce = Ok pad -> length pad = masked_response_len CS.
  Proof.
    unfold masking_pad, hkdf_from_prk_expand. intros H. inv_res.
    destruct (length mk <? h_len (hash CS)); [discriminate|].
    eapply hkdf_expand_length; eauto.
  Qed.

  Lemma mask_response_ser mk nonce spk env m :
    mask_response CS mk nonce spk env = Ok m ->
    exists pad, masking_pad CS mk nonce = Ok pad /\
      m = masked_response_deserialize CS (xor_bytes pad (k_ser_pk K spk ++ envelope_serialize env)).
  Proof. unfold mask_response. intros H. inv_res. eauto. Qed.

  Theorem unmask_mask mk nonce spk env m :
    vp CS spk -> wf_envelope CS env ->
    mask_response CS mk nonce spk env = Ok m ->
    unmask_response CS mk nonce m = Ok (spk, env).
  Proof.
    intros [Hd Hl] Henv H.
    apply mask_response_ser in H as (pad & Hpad & ->).
    pose proof (masking_pad_length _ _ _ Hpad) as Hpl.
    pose proof nonce_lens_eq as Hne.
    assert (Hdata : length (k_ser_pk K spk ++ envelope_serialize env) = masked_response_len CS).
    { destruct Henv as (_ & Hn & Hh). unfold envelope_serialize, masked_response_len.
      rewrite !app_length. fold K in Hl. unfold K in *. lia. }
    unfold unmask_response. rewrite Hpad. cbn [bind].
    rewrite masked_response_roundtrip by (rewrite xor_bytes_length; lia).
    rewrite xor_bytes_involutive by lia.
    rewrite firstn_app_exact' by (unfold K in *; lia).
    unfold pk_deserialize. unfold K in *. rewrite Hd. cbn [of_option map_err bind].
    rewrite skipn_app_exact' by (unfold K in *; lia).
    now rewrite envelope_rt.
  Qed.

  (* ---------------------------------------------------------------- C: envelope *)
  Theorem envelope_open_seal tape rpwd spk ids env cpk ek rest :
    envelope_seal CS tape rpwd spk ids = Ok (env, cpk, ek, rest) ->
    exists kp u s,
      envelope_open CS env rpwd spk ids = Ok (kp, ek, u, s) /\ kp_pk kp = cpk /\
      bytestrings_from_identifiers ids (k_ser_pk K cpk) (k_ser_pk K spk) = Ok (u, s) /\
      wf_envelope CS env /\ rest = skipn ENVELOPE_NONCE_LEN tape /\ env_nonce env = firstn ENVELOPE_NONCE_LEN tape.
  Proof.
    unfold envelope_seal, envelope_open. intros H.
    destruct (Nat.ltb_spec (length tape) ENVELOPE_NONCE_LEN) as [|Hlt]; [discriminate|].
    apply bind_Ok in H as (kp & Hkp & H).
    apply bind_Ok in H as ([u s] & Hus & H).
    apply bind_Ok in H as ([ak ek'] & Hkeys & H).
    injection H as <- <- <- <-. cbn [env_internal env_nonce env_hmac negb].
    exists kp, u, s. unfold K in *. rewrite Hkp. cbn [bind]. rewrite Hus. cbn [bind]. rewrite Hkeys. cbn [bind].
    rewrite bytes_eqb_refl. repeat split; auto.
    - cbn. now rewrite length_firstn_le.
    - cbn. apply (hmac_len _ HL).
  Qed.

  (* the export key is a function of the randomized password and the envelope nonce only *)
  Lemma envelope_keys_export rpwd nonce ak ek :
    envelope_keys CS rpwd nonce = Ok (ak, ek) ->
    hkdf_expand h rpwd (nonce ++ STR_EXPORT_KEY) (h_len h) = Some ek /\
    hkdf_expand h rpwd (nonce ++ STR_AUTH_KEY) (h_len h) = Some ak.
  Proof. unfold envelope_keys. intros H. inv_res. inversion H; subst. auto. Qed.

  (* ---------------------------------------------------------------- D: OPRF *)
  (* unblinding removes the blind: the OPRF output does not depend on it *)
  Theorem oprf_unblind input r k P :
    ve CS P -> vs CS r -> vs CS k ->
    voprf_finalize h O r input (o_mul O (o_mul O P r) k) =
    match i2osp_nat 2 (length input) with
    | None => Err (ELibrary (LOprfError OInput))
    | Some len => Ok (h_hash h (len ++ input ++ be_bytes 2 (N.of_nat (o_Noe O)) ++ o_ser_e O (o_mul O P k) ++ Labels.STR_FINALIZE))
    end.
  Proof.
    intros HP Hr Hk. unfold voprf_finalize. unfold O.
    rewrite (g_mul_comm CS GL P r k HP Hr Hk).
    rewrite (g_mul_inv CS GL (o_mul (oprf CS) P k) r) by (try apply (g_mul_valid CS GL); assumption).
    reflexivity.
  Qed.

  (* ---------------------------------------------------------------- E: 3DH *)
  (* if the server ran generate_ke2 on the client's key share and static key, the client,
     holding the matching secrets and the same transcript inputs, accepts the server MAC,
     derives the same session key, and produces exactly the finalization the server expects *)
  Theorem ke_agreement tape req l2 cnonce ce cs ss u s ctx st ke2 rest dbg :
    vk CS ce -> vk CS cs -> vk CS ss ->
    generate_ke2 CS (private_key_ops (ke CS)) tape req l2
                 {| k1_nonce := cnonce; k1_client_e_pk := k_pub (ke CS) ce |} (k_pub (ke CS) cs) ss u s ctx
      = Ok (st, ke2, rest, dbg) ->
    exists dbg',
      generate_ke3 CS l2 ke2 {| k1s_client_e_sk := ce; k1s_nonce := cnonce |} req (k_pub (ke CS) ss) cs u s ctx
        = Ok (sl_session_key st,
              {| cf_mac := h_hmac (hash CS) (sl_km3 st) (sl_hashed_transcript st) |}, dbg') /\
      server_login_finish CS st {| cf_mac := h_hmac (hash CS) (sl_km3 st) (sl_hashed_transcript st) |}
        = Ok (sl_session_key st).
  Proof.
    intros Hce Hcs Hss H. unfold generate_ke2 in H.
    apply bind_Ok in H as ([ekp t1] & Hkp & H).
    apply bind_Ok in H as ([snonce t2] & Hn & H).
    apply bind_Ok in H as (pre & Hpre & H).
    cbn [private_key_ops s_dh bind k1_client_e_pk] in H.
    apply bind_Ok in H as ([[[sk km2] km3] hs] & Hkeys & H).
    injection H as <- <- <- <-.
    unfold keypair_generate_random in Hkp.
    destruct (Nat.ltb_spec (length tape) (k_Nsk (ke CS))) as [|Hlt]; [discriminate|].
    destruct (k_derive (ke CS) (hash CS) (o_id (oprf CS)) (firstn (k_Nsk (ke CS)) tape)) as [se|] eqn:Hse; [|discriminate].
    injection Hkp as <- <-. cbn [kp_pk kp_sk] in *.
    pose proof (g_derive_valid CS GL _ _ _ _ (length_firstn_le _ _ Hlt) Hse) as Hsev.
    rewrite (g_dh_sym CS GL ce se Hce Hsev) in Hkeys.
    rewrite (g_dh_sym CS GL ce ss Hce Hss) in Hkeys.
    rewrite (g_dh_sym CS GL cs se Hcs Hsev) in Hkeys.
    eexists. split.
    - unfold generate_ke3. cbn [k2_nonce k2_server_e_pk k2_mac k1s_client_e_sk].
      rewrite Hpre. cbn [bind]. rewrite Hkeys. cbn [bind]. rewrite bytes_eqb_refl. cbn [sl_session_key sl_km3 sl_hashed_transcript].
      reflexivity.
    - unfold server_login_finish, finish_ke. cbn [cf_mac]. now rewrite bytes_eqb_refl.
  Qed.
End Layers.
