(* C14 / C16: what the client derives from its password does not depend on the blind
   (re-registration gives the same masking key); the export key is
   Expand(randomized_pwd, envelope_nonce || "ExportKey") at seal and at open, hence
   independent of everything a login varies; protocol labels are pairwise distinct. *)
From Coq Require Import List Arith Lia Bool NArith.
From OKE Require Import Bytes Suite Generated Labels Hkdf Voprf Messages Envelope TripleDH Opaque.
From OKE Require Import ListLemmas BytesLemmas ResultLemmas Codecs Roundtrip Laws Layers Honest.
Import ListNotations.
Local Open Scope res_scope.

Section Oblivious.
  Context {E Sc Pk Sk : Type}.
  Variable CS : Suite E Sc Pk Sk.
  Hypothesis HL : HashLaws (hash CS).
  Hypothesis GL : GroupLaws CS.

  (* two registrations of the same password under the same setup and credential identifier, on
     independent tapes: the same masking key (and randomized password) *)
  Theorem reregistration_same_masking_key
          (setup : ServerSetup Pk Sk Sk) pw cred ids ksf ta ta' tb tb' creg rq r1 rr up ek spk r2 creg' rq' r1' rr' up' ek' spk' r2' :
    ve CS (o_h2g (oprf CS) pw (dst_hash_to_group (oprf CS))) ->
    client_registration_start CS ta pw = Ok (creg, rq, r1) ->
    server_registration_start CS setup rq cred = Ok rr ->
    client_registration_finish CS creg tb pw rr ids ksf = Ok (up, ek, spk, r2) ->
    client_registration_start CS ta' pw = Ok (creg', rq', r1') ->
    server_registration_start CS setup rq' cred = Ok rr' ->
    client_registration_finish CS creg' tb' pw rr' ids ksf = Ok (up', ek', spk', r2') ->
    ru_masking_key up = ru_masking_key up'.
  Proof.
    intros HP H1 H2 H3 H1' H2' H3'.
    unfold client_registration_start in H1, H1'.
    apply bind_Ok in H1 as ([[r b] t] & Hb & H1). injection H1 as <- <- <-.
    apply bind_Ok in H1' as ([[r' b'] t'] & Hb' & H1'). injection H1' as <- <- <-.
    apply (blind_inv CS GL) in Hb as [Hr ->]. apply (blind_inv CS GL) in Hb' as [Hr' ->].
    unfold server_registration_start in H2, H2'. cbn [rq_blinded] in *.
    apply bind_Ok in H2 as (ev & Hev & H2). injection H2 as <-.
    apply bind_Ok in H2' as (ev' & Hev' & H2'). injection H2' as <-.
    apply (server_evaluate_inv CS GL) in Hev as (k & Hk & -> & Hkv).
    apply (server_evaluate_inv CS GL) in Hev' as (k' & Hk' & -> & _).
    rewrite Hk in Hk'. injection Hk' as <-.
    unfold client_registration_finish in H3, H3'. cbn [crs_blinded crs_blind rr_eval rr_server_s_pk] in *.
    destruct (o_eqb (oprf CS) _ _); [discriminate|].
    destruct (o_eqb (oprf CS) _ _); [discriminate|].
    apply bind_Ok in H3 as (rp & Hrp & H3). apply bind_Ok in H3' as (rp' & Hrp' & H3').
    pose proof (rpwd_unblinded CS GL pw r k ksf rp HP Hr Hkv Hrp r' Hr') as Heq.
    rewrite Heq in Hrp'. injection Hrp' as <-.
    apply bind_Ok in H3 as (mk & Hmk & H3). apply bind_Ok in H3' as (mk' & Hmk' & H3').
    rewrite Hmk in Hmk'. injection Hmk' as <-.
    apply bind_Ok in H3 as ([[[env cpk] e1] t3] & _ & H3). apply bind_Ok in H3' as ([[[env' cpk'] e1'] t3'] & _ & H3').
    injection H3 as <- _ _ _. injection H3' as <- _ _ _. reflexivity.
  Qed.

  (* ---------------------------------------------------------------- export key *)
  Theorem export_key_at_seal tape rp spk ids env cpk ek rest :
    envelope_seal CS tape rp spk ids = Ok (env, cpk, ek, rest) ->
    hkdf_expand (hash CS) rp (env_nonce env ++ STR_EXPORT_KEY) (h_len (hash CS)) = Some ek.
  Proof.
    unfold envelope_seal. intros H. destruct (length tape <? ENVELOPE_NONCE_LEN); [discriminate|].
    apply bind_Ok in H as (kp & _ & H). apply bind_Ok in H as ([u s] & _ & H).
    apply bind_Ok in H as ([ak ek0] & Hk & H). injection H as <- _ <- _. cbn [env_nonce].
    now apply envelope_keys_export in Hk as [Hk _].
  Qed.

  Theorem export_key_at_open env rp spk ids kp ek u s :
    envelope_open CS env rp spk ids = Ok (kp, ek, u, s) ->
    hkdf_expand (hash CS) rp (env_nonce env ++ STR_EXPORT_KEY) (h_len (hash CS)) = Some ek.
  Proof.
    unfold envelope_open. intros H. destruct (negb (env_internal env)); [discriminate|].
    apply bind_Ok in H as (kp0 & _ & H). apply bind_Ok in H as ([u0 s0] & _ & H).
    apply bind_Ok in H as ([ak ek0] & Hk & H). destruct (bytes_eqb _ _); [|discriminate].
    injection H as _ <- _ _. now apply envelope_keys_export in Hk as [Hk _].
  Qed.

  (* whatever server key, identities, context, session randomness or number of earlier logins:
     every successful opening of one envelope under one randomized password gives one export key *)
  Corollary export_key_stable env rp spk ids kp ek u s spk' ids' kp' ek' u' s' :
    envelope_open CS env rp spk ids = Ok (kp, ek, u, s) ->
    envelope_open CS env rp spk' ids' = Ok (kp', ek', u', s') -> ek = ek'.
  Proof. intros H H'. apply export_key_at_open in H, H'. congruence. Qed.

  Corollary export_key_seal_open tape rp spk ids env cpk ek rest spk' ids' kp ek' u s :
    envelope_seal CS tape rp spk ids = Ok (env, cpk, ek, rest) ->
    envelope_open CS env rp spk' ids' = Ok (kp, ek', u, s) -> ek' = ek.
  Proof. intros H H'. apply export_key_at_seal in H. apply export_key_at_open in H'. congruence. Qed.
End Oblivious.

(* ---------------------------------------------------------------- labels (re-checked against /repo on every run) *)
From Coq Require Import String.
Local Open Scope string_scope.
Lemma generated_labels_eq_rfc :
  STR_CREDENTIAL_RESPONSE_PAD = bytes_of_string "CredentialResponsePad" /\
  STR_MASKING_KEY = bytes_of_string "MaskingKey" /\
  STR_OPRF_KEY = bytes_of_string "OprfKey" /\
  STR_OPAQUE_DERIVE_KEY_PAIR = bytes_of_string "OPAQUE-DeriveKeyPair" /\
  STR_AUTH_KEY = bytes_of_string "AuthKey" /\
  STR_EXPORT_KEY = bytes_of_string "ExportKey" /\
  STR_PRIVATE_KEY = bytes_of_string "PrivateKey" /\
  STR_CONTEXT = bytes_of_string "OPAQUEv1-" /\
  STR_CLIENT_MAC = bytes_of_string "ClientMAC" /\
  STR_HANDSHAKE_SECRET = bytes_of_string "HandshakeSecret" /\
  STR_SERVER_MAC = bytes_of_string "ServerMAC" /\
  STR_SESSION_KEY = bytes_of_string "SessionKey" /\
  STR_OPAQUE = bytes_of_string "OPAQUE-" /\
  STR_OPAQUE_DERIVE_AUTH_KEY_PAIR = bytes_of_string "OPAQUE-DeriveDiffieHellmanKeyPair" /\
  STR_OPRF = bytes_of_string "OPRFV1-" /\
  STR_DERIVE_KEYPAIR = bytes_of_string "DeriveKeyPair" /\
  ENVELOPE_NONCE_LEN = 32 /\ KE_NONCE_LEN = 32.
Proof. repeat split; reflexivity. Qed.

(* labels used in the same position with the same key are pairwise different, so the derived
   secrets are MACs of visibly different messages *)
Lemma generated_labels_separated :
  STR_AUTH_KEY <> STR_EXPORT_KEY /\ STR_AUTH_KEY <> STR_PRIVATE_KEY /\ STR_EXPORT_KEY <> STR_PRIVATE_KEY /\
  STR_HANDSHAKE_SECRET <> STR_SESSION_KEY /\ STR_SERVER_MAC <> STR_CLIENT_MAC /\
  List.length STR_AUTH_KEY <> List.length STR_MASKING_KEY /\ List.length STR_EXPORT_KEY <> List.length STR_MASKING_KEY.
Proof. repeat split; intro H; discriminate H. Qed.
