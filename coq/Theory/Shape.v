(* C08: a credential response produced without a password file has exactly the length and field layout
   of a real one (one code path after the dummy record is substituted). *)
From Coq Require Import List Arith Lia Bool NArith.
From OKE Require Import Bytes Suite Generated Hkdf Voprf Messages Envelope TripleDH Opaque.
From OKE Require Import ListLemmas BytesLemmas ResultLemmas Codecs Roundtrip Laws Layers Honest TapeLayout.
Import ListNotations.
Local Open Scope res_scope.

Arguments firstn : simpl never.
Arguments skipn : simpl never.

Section Shape.
  Context {E Sc Pk Sk : Type}.
  Variable CS : Suite E Sc Pk Sk.
  Hypothesis HL : HashLaws (hash CS).
  Hypothesis GL : GroupLaws CS.

  Definition envelope_has_length (e : Envelope) : Prop :=
    length (env_nonce e) = ENVELOPE_NONCE_LEN /\ length (env_hmac e) = h_len (hash CS).

  Lemma dummy_envelope_has_length : envelope_has_length (envelope_dummy CS).
  Proof. unfold envelope_has_length, envelope_dummy, zeros. cbn. now rewrite !repeat_length. Qed.

  Theorem response_length tape (setup : ServerSetup Pk Sk Sk) file rq cred ctx ids st resp rest dbg :
    server_login_start CS (private_key_ops (ke CS)) tape setup file rq cred ctx ids = Ok (st, resp, rest, dbg) ->
    ve CS (cq_blinded rq) -> vk CS (kp_sk (ss_keypair setup)) ->
    (forall f, file = Some f -> envelope_has_length (ru_envelope f)) ->
    length (credential_response_serialize CS resp) = credential_response_len CS.
  Proof.
    intros H Hb Hss Hfile.
    pose proof (server_login_start_layout CS _ _ _ _ _ _ _ _ _ _ _ _ H) as (fmk & eseed & _ & _ & Lmn & Leseed & Lsn & (esk & Hesk & Hepk)).
    unfold server_login_start in H.
    apply bind_Ok in H as ([rec t0] & Hrec & H).
    cbn [private_key_ops s_pub bind] in H.
    destruct (length t0 <? KE_NONCE_LEN); [discriminate|].
    apply bind_Ok in H as (masked & Hmask & H). apply bind_Ok in H as ([u s] & _ & H).
    apply bind_Ok in H as (ev & Hev & H). apply bind_Ok in H as ([[[st0 ke2] t2] d] & Hke2 & H).
    injection H as <- <- <- <-. cbn [cr_masking_nonce cr_ke2 cr_eval cr_masked] in *.
    (* evaluation element *)
    apply (server_evaluate_inv CS GL) in Hev as (k & _ & -> & Hkv).
    pose proof (g_mul_valid CS GL _ _ Hb Hkv) as [_ Lev].
    (* masked response *)
    apply (mask_response_ser CS) in Hmask as (pad & Hpad & ->).
    pose proof (masking_pad_length CS HL _ _ _ Hpad) as Lpad.
    assert (Lenv : envelope_has_length (ru_envelope rec)).
    { destruct file as [f|].
      - injection Hrec as <- _. now apply Hfile.
      - apply fake_masking_key_is_tape in Hrec as (_ & _ & _ & ->). apply dummy_envelope_has_length. }
    destruct Lenv as [Ln Lh].
    pose proof (g_pub_valid CS GL _ Hss) as [_ Lspk].
    pose proof nonce_lens_eq as Hne.
    assert (Lm : length (masked_response_serialize
                   (masked_response_deserialize CS (xor_bytes pad (k_ser_pk (ke CS) (k_pub (ke CS) (kp_sk (ss_keypair setup)))
                                                                   ++ envelope_serialize (ru_envelope rec)))))
                 = masked_response_len CS).
    { rewrite masked_response_roundtrip; rewrite xor_bytes_length, app_length; unfold envelope_serialize, masked_response_len in *;
        rewrite ?app_length; lia. }
    (* key-exchange part *)
    unfold generate_ke2 in Hke2.
    apply bind_Ok in Hke2 as ([ekp t1] & Hkp & Hke2). apply bind_Ok in Hke2 as ([sn t3] & Hn & Hke2).
    apply bind_Ok in Hke2 as (pre & _ & Hke2). apply bind_Ok in Hke2 as (dh2 & _ & Hke2).
    apply bind_Ok in Hke2 as ([[[sk km2] km3] hs] & _ & Hke2). injection Hke2 as <- <- <- <-.
    cbn [k2_nonce k2_server_e_pk k2_mac] in *.
    pose proof (g_pub_valid CS GL _ (g_derive_valid CS GL _ _ _ _ Leseed Hesk)) as [_ Lepk]. rewrite <- Hepk in Lepk.
    unfold credential_response_serialize, credential_response_len, ke2_message_serialize, ke2_message_len.
    cbn [cr_eval cr_masking_nonce cr_masked cr_ke2 k2_nonce k2_server_e_pk k2_mac].
    rewrite !app_length, Lm, Lev, Lmn, Lsn, Lepk, (hmac_len _ HL). lia.
  Qed.
End Shape.
