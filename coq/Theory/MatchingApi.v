(* C07 / C04(iii) at the API level: if a client accepts ANY response whose MAC field equals the MAC of
   the response an honest server session produced, then that server session was started on this client's own
   request, the accepted response agrees with the session's response in every field, and both sides used the
   same context and the same effective identities - or an HMAC / hash collision is exhibited.
   The adversary chooses what is delivered: r' is arbitrary. *)
From Coq Require Import List Arith Lia Bool NArith.
From Coq Require Import Init.Byte.
From OKE Require Import Bytes Suite Generated Hkdf Voprf Messages Envelope TripleDH Opaque.
From OKE Require Import ListLemmas BytesLemmas ResultLemmas Laws Layers Transcript Bad ClientAccept KeySchedule Accept Matching Honest WrongPassword.
Import ListNotations.
Local Open Scope res_scope.

Section MatchingApi.
  Context {E Sc Pk Sk : Type}.
  Variable CS : Suite E Sc Pk Sk.
  Hypothesis HL : HashLaws (hash CS).
  Hypothesis GL : GroupLaws CS.

  Definition server_request_bytes (rq : CredentialRequest E Pk) : bytes :=
    o_ser_e (oprf CS) (cq_blinded rq) ++ ke1_message_serialize CS (cq_ke1 rq).

  Theorem accepted_response_is_that_sessions
          tape (setup : ServerSetup Pk Sk Sk) file rq cred ctx_s ids_s slog resp rest dbg
          clog pw r' ctx_c ids_c ksf fin sk ek spk dbgc :
    server_login_start CS (private_key_ops (ke CS)) tape setup (Some file) rq cred ctx_s ids_s = Ok (slog, resp, rest, dbg) ->
    client_login_finish CS clog pw r' ctx_c ids_c ksf = Ok (fin, sk, ek, spk, dbgc) ->
    k2_mac (cr_ke2 r') = k2_mac (cr_ke2 resp) ->
    (* messages of the suite's fixed lengths (C10) *)
    length (client_request_bytes CS clog) = length (server_request_bytes rq) ->
    length (client_l2 CS r') = length (client_l2 CS resp) ->
    length (k2_nonce (cr_ke2 r')) = length (k2_nonce (cr_ke2 resp)) ->
    (client_request_bytes CS clog = server_request_bytes rq /\
     client_l2 CS r' = client_l2 CS resp /\
     k2_nonce (cr_ke2 r') = k2_nonce (cr_ke2 resp) /\
     k_ser_pk (ke CS) (k2_server_e_pk (cr_ke2 r')) = k_ser_pk (ke CS) (k2_server_e_pk (cr_ke2 resp)) /\
     match ctx_c with Some c => c | None => [] end = match ctx_s with Some c => c | None => [] end /\
     sk = sl_session_key slog)
    \/ Bad (hash CS).
  Proof.
    intros Hsrv Hacc Hmac L1 L2 L3.
    apply (server_login_start_inv CS GL) in Hsrv
      as (se & u & s & pre & sks & km2 & km3 & hs & k & _ & Hsepk & Hids & _ & _ & _ & Hpre & Hkeys & Hm & Hss & _ & _).
    apply client_accepts_iff in Hacc
      as (rp & mk & env & kp & u' & s' & pre' & km2' & km3' & hs' & _ & _ & _ & _ & Hopen & Hpre' & Hkeys' & Hm' & _).
    rewrite Hmac, Hm in Hm'.
    destruct (equal_server_mac_equal_transcript CS HL _ _ _ _ _ _ _ _ _ _ _ _ _ _ _ _ Hkeys Hkeys' Hm') as [(Hp & _ & Hsk & _)|HB]; [|now right].
    subst pre'. left.
    (* the client's identities, as it encoded them *)
    unfold envelope_open in Hopen. destruct (negb (env_internal env)); [discriminate|].
    apply bind_Ok in Hopen as (kp0 & _ & Hopen). apply bind_Ok in Hopen as ([u0 s0] & Hids' & Hopen).
    apply bind_Ok in Hopen as ([ak ek0] & _ & Hopen). destruct (bytes_eqb _ _); [|discriminate].
    injection Hopen as _ _ <- <-.
    rewrite <- Hsepk in Hpre.
    destruct (equal_transcripts_same_conversation _ _ _ _ _ _ _ _ _ _ _ _ _ _ _ _ _ _ _ _ _
                Hids' Hids L1 L2 L3 Hpre' Hpre) as (Hc & _ & _ & Hr & Hl2 & Hn & He).
    repeat split; auto. congruence.
  Qed.
End MatchingApi.
