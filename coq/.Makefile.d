Model/Bytes.vo Model/Bytes.glob Model/Bytes.v.beautified Model/Bytes.required_vo: Model/Bytes.v 
Model/Bytes.vio: Model/Bytes.v 
Model/Bytes.vos Model/Bytes.vok Model/Bytes.required_vos: Model/Bytes.v 
Model/Suite.vo Model/Suite.glob Model/Suite.v.beautified Model/Suite.required_vo: Model/Suite.v Model/Bytes.vo
Model/Suite.vio: Model/Suite.v Model/Bytes.vio
Model/Suite.vos Model/Suite.vok Model/Suite.required_vos: Model/Suite.v Model/Bytes.vos
Model/Generated.vo Model/Generated.glob Model/Generated.v.beautified Model/Generated.required_vo: Model/Generated.v Model/Bytes.vo
Model/Generated.vio: Model/Generated.v Model/Bytes.vio
Model/Generated.vos Model/Generated.vok Model/Generated.required_vos: Model/Generated.v Model/Bytes.vos
Model/Labels.vo Model/Labels.glob Model/Labels.v.beautified Model/Labels.required_vo: Model/Labels.v Model/Bytes.vo
Model/Labels.vio: Model/Labels.v Model/Bytes.vio
Model/Labels.vos Model/Labels.vok Model/Labels.required_vos: Model/Labels.v Model/Bytes.vos
Model/Hkdf.vo Model/Hkdf.glob Model/Hkdf.v.beautified Model/Hkdf.required_vo: Model/Hkdf.v Model/Bytes.vo Model/Suite.vo
Model/Hkdf.vio: Model/Hkdf.v Model/Bytes.vio Model/Suite.vio
Model/Hkdf.vos Model/Hkdf.vok Model/Hkdf.required_vos: Model/Hkdf.v Model/Bytes.vos Model/Suite.vos
Model/Voprf.vo Model/Voprf.glob Model/Voprf.v.beautified Model/Voprf.required_vo: Model/Voprf.v Model/Bytes.vo Model/Suite.vo Model/Generated.vo Model/Labels.vo
Model/Voprf.vio: Model/Voprf.v Model/Bytes.vio Model/Suite.vio Model/Generated.vio Model/Labels.vio
Model/Voprf.vos Model/Voprf.vok Model/Voprf.required_vos: Model/Voprf.v Model/Bytes.vos Model/Suite.vos Model/Generated.vos Model/Labels.vos
Model/KeGroup.vo Model/KeGroup.glob Model/KeGroup.v.beautified Model/KeGroup.required_vo: Model/KeGroup.v Model/Bytes.vo Model/Suite.vo Model/Generated.vo
Model/KeGroup.vio: Model/KeGroup.v Model/Bytes.vio Model/Suite.vio Model/Generated.vio
Model/KeGroup.vos Model/KeGroup.vok Model/KeGroup.required_vos: Model/KeGroup.v Model/Bytes.vos Model/Suite.vos Model/Generated.vos
Model/Messages.vo Model/Messages.glob Model/Messages.v.beautified Model/Messages.required_vo: Model/Messages.v Model/Bytes.vo Model/Suite.vo Model/Generated.vo Model/Voprf.vo
Model/Messages.vio: Model/Messages.v Model/Bytes.vio Model/Suite.vio Model/Generated.vio Model/Voprf.vio
Model/Messages.vos Model/Messages.vok Model/Messages.required_vos: Model/Messages.v Model/Bytes.vos Model/Suite.vos Model/Generated.vos Model/Voprf.vos
Model/Envelope.vo Model/Envelope.glob Model/Envelope.v.beautified Model/Envelope.required_vo: Model/Envelope.v Model/Bytes.vo Model/Suite.vo Model/Generated.vo Model/Hkdf.vo Model/Messages.vo
Model/Envelope.vio: Model/Envelope.v Model/Bytes.vio Model/Suite.vio Model/Generated.vio Model/Hkdf.vio Model/Messages.vio
Model/Envelope.vos Model/Envelope.vok Model/Envelope.required_vos: Model/Envelope.v Model/Bytes.vos Model/Suite.vos Model/Generated.vos Model/Hkdf.vos Model/Messages.vos
Model/TripleDH.vo Model/TripleDH.glob Model/TripleDH.v.beautified Model/TripleDH.required_vo: Model/TripleDH.v Model/Bytes.vo Model/Suite.vo Model/Generated.vo Model/Hkdf.vo Model/Messages.vo
Model/TripleDH.vio: Model/TripleDH.v Model/Bytes.vio Model/Suite.vio Model/Generated.vio Model/Hkdf.vio Model/Messages.vio
Model/TripleDH.vos Model/TripleDH.vok Model/TripleDH.required_vos: Model/TripleDH.v Model/Bytes.vos Model/Suite.vos Model/Generated.vos Model/Hkdf.vos Model/Messages.vos
Model/Opaque.vo Model/Opaque.glob Model/Opaque.v.beautified Model/Opaque.required_vo: Model/Opaque.v Model/Bytes.vo Model/Suite.vo Model/Generated.vo Model/Hkdf.vo Model/Voprf.vo Model/Messages.vo Model/Envelope.vo Model/TripleDH.vo
Model/Opaque.vio: Model/Opaque.v Model/Bytes.vio Model/Suite.vio Model/Generated.vio Model/Hkdf.vio Model/Voprf.vio Model/Messages.vio Model/Envelope.vio Model/TripleDH.vio
Model/Opaque.vos Model/Opaque.vok Model/Opaque.required_vos: Model/Opaque.v Model/Bytes.vos Model/Suite.vos Model/Generated.vos Model/Hkdf.vos Model/Voprf.vos Model/Messages.vos Model/Envelope.vos Model/TripleDH.vos
