(* The primitive operations the OPAQUE model is generic in (DESIGN.md 2.1), the
   error values of the crate, and the result monad.  Type arguments are
   parameters (not fields) so extraction gives ordinary polymorphic OCaml. *)
From Coq Require Import List NArith ZArith Bool.
From OKE Require Import Bytes.
Import ListNotations.

(* ---------------------------------------------------------------- errors.rs *)
(* voprf::Error, as far as opaque-ke can observe it *)
Inductive oprf_err := OInput | ODeserialization | ODeriveKeyPair | OProtocol.

(* InternalError<T>; [Custom] carries the external key's own error value
   (a number in the model) *)
Inductive lib_err :=
| LCustom (e : N)
| LInvalidByteSequence
| LSizeError
| LPointError
| LHashToScalar
| LHkdfError
| LHmacError
| LKsfError
| LSealOpenHmacError
| LIncompatibleEnvelopeModeError
| LOprfError (e : oprf_err)
| LOprfInternalError.

(* ProtocolError<T>, plus two model-only outcomes: a Rust panic on this path
   ([EPanic], e.g. the `unwrap` in `KeyPair::generate_random`) and a random
   tape that is too short ([ETape], harness RNG exhausted). *)
Inductive err :=
| ELibrary (e : lib_err)
| EInvalidLogin
| ESerialization
| EReflectedValue
| EIdentityGroupElement
| EPanic
| ETape.

Inductive result (A : Type) := Ok (a : A) | Err (e : err).
Arguments Ok {A}. Arguments Err {A}.

Definition bind {A B} (r : result A) (f : A -> result B) : result B :=
  match r with Ok a => f a | Err e => Err e end.
Definition map_err {A} (r : result A) (f : err -> err) : result A :=
  match r with Ok a => Ok a | Err e => Err (f e) end.
Definition of_option {A} (o : option A) (e : err) : result A :=
  match o with Some a => Ok a | None => Err e end.

Declare Scope res_scope.
Notation "'let*' x ':=' c1 'in' c2" := (bind c1 (fun x => c2))
  (at level 61, x pattern, c1 at next level, right associativity) : res_scope.
Notation "'let*' ' p ':=' c1 'in' c2" := (bind c1 (fun p => c2))
  (at level 61, p pattern, c1 at next level, right associativity) : res_scope.

(* ---------------------------------------------------------------- hash *)
Record HashOps := {
  h_hash  : bytes -> bytes;             (* CS::Hash *)
  h_len   : nat;                        (* Nh *)
  h_block : nat;                        (* block size (XMD, HMAC) *)
  h_hmac  : bytes -> bytes -> bytes;    (* HMAC(key, message) *)
}.

(* ---------------------------------------------------------------- OPRF group (voprf::Group + CipherSuite::ID) *)
Record OprfOps (E Sc : Type) := {
  o_Noe : nat;                                   (* ElemLen *)
  o_Nok : nat;                                   (* ScalarLen *)
  o_ser_e : E -> bytes;                          (* serialize_elem *)
  o_deser_e : bytes -> option E;                 (* Group::deserialize_elem (rejects the identity) *)
  o_ser_s : Sc -> bytes;
  o_deser_s : bytes -> option Sc;                (* rejects zero and non-canonical *)
  o_mul : E -> Sc -> E;
  o_inv : Sc -> Sc;
  o_eqb : E -> E -> bool;                        (* ct_eq on elements *)
  o_identity : E;
  o_is_zero : Sc -> bool;
  o_h2g : bytes -> bytes -> E;                   (* hash_to_curve msg dst *)
  o_h2s : bytes -> bytes -> Sc;                  (* hash_to_scalar msg dst (may be zero) *)
  o_random_scalar : bytes -> option (Sc * bytes);(* random_scalar on an RNG tape: scalar, rest of tape *)
  o_id : bytes;                                  (* CipherSuite::ID *)
}.
Arguments o_Noe {E Sc}. Arguments o_Nok {E Sc}. Arguments o_ser_e {E Sc}.
Arguments o_deser_e {E Sc}. Arguments o_ser_s {E Sc}. Arguments o_deser_s {E Sc}.
Arguments o_mul {E Sc}. Arguments o_inv {E Sc}. Arguments o_eqb {E Sc}.
Arguments o_identity {E Sc}. Arguments o_is_zero {E Sc}. Arguments o_h2g {E Sc}.
Arguments o_h2s {E Sc}. Arguments o_random_scalar {E Sc}. Arguments o_id {E Sc}.

(* ---------------------------------------------------------------- key-exchange group (KeGroup) *)
Record KeOps (Pk Sk : Type) := {
  k_Npk : nat;
  k_Nsk : nat;
  k_ser_pk : Pk -> bytes;
  k_deser_pk : bytes -> option Pk;
  k_ser_sk : Sk -> bytes;
  k_deser_sk : bytes -> option Sk;
  k_pub : Sk -> Pk;                              (* public_key *)
  k_dh : Pk -> Sk -> bytes;                      (* diffie_hellman, already serialised *)
  (* derive_auth_keypair::<OprfCs>(seed): takes the OPRF suite's hash and ID;
     None = the Err(..) of the Rust function *)
  k_derive : HashOps -> bytes -> bytes -> option Sk;
}.
Arguments k_Npk {Pk Sk}. Arguments k_Nsk {Pk Sk}. Arguments k_ser_pk {Pk Sk}.
Arguments k_deser_pk {Pk Sk}. Arguments k_ser_sk {Pk Sk}. Arguments k_deser_sk {Pk Sk}.
Arguments k_pub {Pk Sk}. Arguments k_dh {Pk Sk}. Arguments k_derive {Pk Sk}.

Record Suite (E Sc Pk Sk : Type) := {
  hash : HashOps;
  oprf : OprfOps E Sc;
  ke : KeOps Pk Sk;
  ksf_default : bytes -> option bytes;           (* CS::Ksf::default().hash; None = KsfError *)
}.
Arguments hash {E Sc Pk Sk}. Arguments oprf {E Sc Pk Sk}. Arguments ke {E Sc Pk Sk}.
Arguments ksf_default {E Sc Pk Sk}.

(* ---------------------------------------------------------------- keypair.rs: trait SecretKey<KG> *)
(* The server's static key may live behind this interface.  [S] is the key
   handle; both callbacks may fail with a custom error. *)
Record SkOps (Pk S : Type) := {
  s_len : nat;
  s_dh : S -> Pk -> result bytes;
  s_pub : S -> result Pk;
  s_ser : S -> bytes;
  s_deser : bytes -> result S;
}.
Arguments s_len {Pk S}. Arguments s_dh {Pk S}. Arguments s_pub {Pk S}.
Arguments s_ser {Pk S}. Arguments s_deser {Pk S}.

(* impl SecretKey<KG> for PrivateKey<KG> *)
Definition private_key_ops {Pk Sk} (K : KeOps Pk Sk) : SkOps Pk Sk := {|
  s_len := k_Nsk K;
  s_dh := fun sk pk => Ok (k_dh K pk sk);
  s_pub := fun sk => Ok (k_pub K sk);
  s_ser := k_ser_sk K;
  s_deser := fun b => of_option (k_deser_sk K b) (ELibrary LPointError);
|}.
