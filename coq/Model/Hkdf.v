(* HKDF (RFC 5869) as the `hkdf 0.12` crate computes it, defined from the
   suite's HMAC.  `expand_multi_info(&[a, b, ..])` is expand over a ++ b ++ ... *)
From Coq Require Import List NArith Bool Arith.
From OKE Require Import Bytes Suite.
Import ListNotations.

Section Hkdf.
  Variable h : HashOps.

  (* HkdfExtract::new(None): absent salt = Nh zero bytes *)
  Definition hkdf_extract (salt : option bytes) (ikm : bytes) : bytes :=
    h_hmac h (match salt with Some s => s | None => zeros (h_len h) end) ikm.

  (* T(i) = HMAC(prk, T(i-1) || info || i), i = 1 .. n *)
  Fixpoint expand_blocks (prk info prev : bytes) (i n : nat) : bytes :=
    match n with
    | O => []
    | S n' =>
        let t := h_hmac h prk (prev ++ info ++ [byte_of_nat i]) in
        t ++ expand_blocks prk info t (S i) n'
    end.

  Definition ceil_div (a b : nat) : nat := (a + b - 1) / b.

  (* Hkdf::expand on a hasher obtained from `extract` (no PRK length check);
     None = InvalidLength (more than 255 blocks) *)
  Definition hkdf_expand (prk info : bytes) (len : nat) : option bytes :=
    if 255 * h_len h <? len then None
    else Some (firstn len (expand_blocks prk info [] 1 (ceil_div len (h_len h)))).

  (* Hkdf::from_prk(prk)?.expand(..): refuses PRKs shorter than Nh *)
  Definition hkdf_from_prk_expand (prk info : bytes) (len : nat) : option bytes :=
    if length prk <? h_len h then None else hkdf_expand prk info len.
End Hkdf.
