(* src/messages.rs, the (de)serialisers of src/key_exchange/tripledh.rs,
   src/envelope.rs and the state (de)serialisers of src/opaque.rs.
   The decoders copy the check_slice_size / check_slice_size_atleast structure
   of the Rust code literally (DESIGN.md Appendix A). *)
From Coq Require Import List NArith Bool Arith.
From OKE Require Import Bytes Suite Generated Voprf.
Import ListNotations.
Local Open Scope res_scope.

(* ------------------------------------------------------------ errors.rs: utils *)
Definition check_slice_size (b : bytes) (n : nat) : result bytes :=
  if Nat.eqb (length b) n then Ok b else Err (ELibrary LSizeError).
Definition check_slice_size_atleast (b : bytes) (n : nat) : result bytes :=
  if length b <? n then Err (ELibrary LSizeError) else Ok b.

(* ------------------------------------------------------------ data *)
(* envelope.rs: InnerEnvelopeMode is Internal (true) or Zero (false, the dummy) *)
Record Envelope := { env_internal : bool; env_nonce : bytes; env_hmac : bytes }.

Record RegistrationRequest (E : Type) := { rq_blinded : E }.
Record RegistrationResponse (E Pk : Type) := { rr_eval : E; rr_server_s_pk : Pk }.
Record RegistrationUpload (Pk : Type) :=
  { ru_envelope : Envelope; ru_masking_key : bytes; ru_client_s_pk : Pk }.
Record Ke1Message (Pk : Type) := { k1_nonce : bytes; k1_client_e_pk : Pk }.
Record CredentialRequest (E Pk : Type) := { cq_blinded : E; cq_ke1 : Ke1Message Pk }.
Record MaskedResponse := { mr_nonce : bytes; mr_hash : bytes; mr_pk : bytes }.
Record Ke2Message (Pk : Type) := { k2_nonce : bytes; k2_server_e_pk : Pk; k2_mac : bytes }.
Record CredentialResponse (E Pk : Type) :=
  { cr_eval : E; cr_masking_nonce : bytes; cr_masked : MaskedResponse; cr_ke2 : Ke2Message Pk }.
Record CredentialFinalization := { cf_mac : bytes }.

Record KeyPair (Pk S : Type) := { kp_pk : Pk; kp_sk : S }.
Record ServerSetup (Pk Sk S : Type) :=
  { ss_oprf_seed : bytes; ss_keypair : KeyPair Pk S; ss_fake_keypair : KeyPair Pk Sk }.
Record ClientRegistration (E Sc : Type) := { crs_blind : Sc; crs_blinded : E }.
Record Ke1State (Sk : Type) := { k1s_client_e_sk : Sk; k1s_nonce : bytes }.
Record ClientLogin (E Sc Pk Sk : Type) :=
  { cl_blind : Sc; cl_ke1_state : Ke1State Sk; cl_request : CredentialRequest E Pk }.
Record ServerLogin := { sl_km3 : bytes; sl_hashed_transcript : bytes; sl_session_key : bytes }.

Arguments rq_blinded {E}. Arguments Build_RegistrationRequest {E}.
Arguments rr_eval {E Pk}. Arguments rr_server_s_pk {E Pk}. Arguments Build_RegistrationResponse {E Pk}.
Arguments ru_envelope {Pk}. Arguments ru_masking_key {Pk}. Arguments ru_client_s_pk {Pk}.
Arguments Build_RegistrationUpload {Pk}.
Arguments k1_nonce {Pk}. Arguments k1_client_e_pk {Pk}. Arguments Build_Ke1Message {Pk}.
Arguments cq_blinded {E Pk}. Arguments cq_ke1 {E Pk}. Arguments Build_CredentialRequest {E Pk}.
Arguments k2_nonce {Pk}. Arguments k2_server_e_pk {Pk}. Arguments k2_mac {Pk}. Arguments Build_Ke2Message {Pk}.
Arguments cr_eval {E Pk}. Arguments cr_masking_nonce {E Pk}. Arguments cr_masked {E Pk}.
Arguments cr_ke2 {E Pk}. Arguments Build_CredentialResponse {E Pk}.
Arguments kp_pk {Pk S}. Arguments kp_sk {Pk S}. Arguments Build_KeyPair {Pk S}.
Arguments ss_oprf_seed {Pk Sk S}. Arguments ss_keypair {Pk Sk S}. Arguments ss_fake_keypair {Pk Sk S}.
Arguments Build_ServerSetup {Pk Sk S}.
Arguments crs_blind {E Sc}. Arguments crs_blinded {E Sc}. Arguments Build_ClientRegistration {E Sc}.
Arguments k1s_client_e_sk {Sk}. Arguments k1s_nonce {Sk}. Arguments Build_Ke1State {Sk}.
Arguments cl_blind {E Sc Pk Sk}. Arguments cl_ke1_state {E Sc Pk Sk}. Arguments cl_request {E Sc Pk Sk}.
Arguments Build_ClientLogin {E Sc Pk Sk}.

Section Codecs.
  Context {E Sc Pk Sk : Type}.
  Variable CS : Suite E Sc Pk Sk.
  Let h := hash CS.
  Let OP := oprf CS.
  Let K := ke CS.
  Let Nh := h_len (hash CS).
  Let Noe := o_Noe (oprf CS).
  Let Nok := o_Nok (oprf CS).
  Let Npk := k_Npk (ke CS).
  Let Nsk := k_Nsk (ke CS).
  Let Nn := KE_NONCE_LEN.
  Let Nne := ENVELOPE_NONCE_LEN.

  (* keypair.rs: PublicKey::deserialize / PrivateKey::deserialize *)
  Definition pk_deserialize (b : bytes) : result Pk :=
    of_option (k_deser_pk K b) (ELibrary LPointError).
  Definition sk_deserialize (b : bytes) : result Sk :=
    of_option (k_deser_sk K b) (ELibrary LPointError).

  (* KeyPair::from_private_key_slice for a plain PrivateKey *)
  Definition keypair_from_private_key_slice (b : bytes) : result (KeyPair Pk Sk) :=
    let* sk := sk_deserialize b in
    Ok {| kp_pk := k_pub K sk; kp_sk := sk |}.

  (* ---------------- envelope.rs *)
  Definition envelope_len : nat := Nne + Nh.
  Definition envelope_serialize (e : Envelope) : bytes := env_nonce e ++ env_hmac e.
  Definition envelope_deserialize (b : bytes) : result Envelope :=
    if length b <? Nne then Err ESerialization
    else
      let nonce := firstn Nne b in
      let remainder := skipn Nne b in
      let* hmac := check_slice_size remainder Nh in
      Ok {| env_internal := true; env_nonce := nonce; env_hmac := hmac |}.
  Definition envelope_dummy : Envelope :=
    {| env_internal := false; env_nonce := zeros Nne; env_hmac := zeros Nh |}.

  (* ---------------- messages.rs: deserialize_blinded_element / deserialize_evaluation_element:
     voprf's decoder (takes Noe bytes from the front, accepts what the group
     decoder accepts), then "re-encodes to the input" *)
  Definition deserialize_element (b : bytes) : result E :=
    let* e := voprf_deser_elem OP b in
    if bytes_eqb (o_ser_e OP e) b then Ok e else Err ESerialization.

  (* ---------------- RegistrationRequest *)
  Definition registration_request_serialize (m : RegistrationRequest E) : bytes :=
    o_ser_e OP (rq_blinded m).
  Definition registration_request_deserialize (b : bytes) : result (RegistrationRequest E) :=
    let* e := deserialize_element b in
    Ok {| rq_blinded := e |}.

  (* ---------------- RegistrationResponse *)
  Definition registration_response_serialize (m : RegistrationResponse E Pk) : bytes :=
    o_ser_e OP (rr_eval m) ++ k_ser_pk K (rr_server_s_pk m).
  Definition registration_response_deserialize (b : bytes) : result (RegistrationResponse E Pk) :=
    let* checked := check_slice_size b (Noe + Npk) in
    let* pk := pk_deserialize (skipn Noe checked) in
    let* e := deserialize_element (firstn Noe checked) in
    Ok {| rr_eval := e; rr_server_s_pk := pk |}.

  (* ---------------- RegistrationUpload = ServerRegistration (the password file) *)
  Definition registration_upload_serialize (m : RegistrationUpload Pk) : bytes :=
    k_ser_pk K (ru_client_s_pk m) ++ ru_masking_key m ++ envelope_serialize (ru_envelope m).
  Definition registration_upload_deserialize (b : bytes) : result (RegistrationUpload Pk) :=
    let* checked := check_slice_size_atleast b (Npk + Nh) in
    let* env := envelope_deserialize (skipn (Npk + Nh) checked) in
    let* pk := pk_deserialize (firstn Npk checked) in
    Ok {| ru_envelope := env; ru_masking_key := slice checked Npk Nh; ru_client_s_pk := pk |}.

  (* ---------------- Ke1Message *)
  Definition ke1_message_len : nat := Nn + Npk.
  Definition ke1_message_serialize (m : Ke1Message Pk) : bytes :=
    k1_nonce m ++ k_ser_pk K (k1_client_e_pk m).
  Definition ke1_message_deserialize (b : bytes) : result (Ke1Message Pk) :=
    let* checked := check_slice_size b (Nn + Npk) in
    let* pk := pk_deserialize (skipn Nn checked) in
    Ok {| k1_nonce := firstn Nn checked; k1_client_e_pk := pk |}.

  (* ---------------- CredentialRequest *)
  Definition credential_request_len : nat := Noe + ke1_message_len.
  Definition credential_request_serialize (m : CredentialRequest E Pk) : bytes :=
    o_ser_e OP (cq_blinded m) ++ ke1_message_serialize (cq_ke1 m).
  Definition credential_request_deserialize (b : bytes) : result (CredentialRequest E Pk) :=
    let* checked := check_slice_size_atleast b Noe in
    let* e := deserialize_element (firstn Noe checked) in
    if o_eqb OP (o_identity OP) e then Err EIdentityGroupElement
    else
      let* ke1 := ke1_message_deserialize (skipn Noe checked) in
      Ok {| cq_blinded := e; cq_ke1 := ke1 |}.

  (* ---------------- MaskedResponse (opaque.rs) *)
  Definition masked_response_len : nat := Nn + Nh + Npk.
  Definition masked_response_serialize (m : MaskedResponse) : bytes :=
    mr_nonce m ++ mr_hash m ++ mr_pk m.
  (* infallible in Rust: only ever given exactly masked_response_len bytes *)
  Definition masked_response_deserialize (b : bytes) : MaskedResponse :=
    {| mr_nonce := firstn Nn b; mr_hash := slice b Nn Nh; mr_pk := slice b (Nn + Nh) Npk |}.

  (* ---------------- Ke2Message *)
  Definition ke2_message_len : nat := Nn + Npk + Nh.
  Definition ke2_message_serialize (m : Ke2Message Pk) : bytes :=
    k2_nonce m ++ k_ser_pk K (k2_server_e_pk m) ++ k2_mac m.
  Definition ke2_to_bytes_without_mac (m : Ke2Message Pk) : bytes :=
    k2_nonce m ++ k_ser_pk K (k2_server_e_pk m).
  Definition ke2_message_deserialize (b : bytes) : result (Ke2Message Pk) :=
    let* checked_nonce := check_slice_size_atleast b Nn in
    let* unchecked_pk := check_slice_size_atleast (skipn Nn checked_nonce) Npk in
    let* mac := check_slice_size (skipn Npk unchecked_pk) Nh in
    let* pk := pk_deserialize (firstn Npk unchecked_pk) in
    Ok {| k2_nonce := firstn Nn checked_nonce; k2_server_e_pk := pk; k2_mac := mac |}.

  (* ---------------- CredentialResponse *)
  Definition credential_response_len : nat := Noe + Nn + masked_response_len + ke2_message_len.
  Definition credential_response_serialize (m : CredentialResponse E Pk) : bytes :=
    o_ser_e OP (cr_eval m) ++ cr_masking_nonce m ++ masked_response_serialize (cr_masked m)
      ++ ke2_message_serialize (cr_ke2 m).
  (* serialize_without_ke, as one string (the Rust iterator yields the chunks) *)
  Definition credential_response_without_ke (beta masking_nonce : bytes) (m : MaskedResponse) : bytes :=
    beta ++ masking_nonce ++ masked_response_serialize m.
  Definition credential_response_deserialize (b : bytes) : result (CredentialResponse E Pk) :=
    let mrl := Npk + envelope_len in
    let* checked := check_slice_size_atleast b (Noe + Nn + mrl + ke2_message_len) in
    let* e := deserialize_element (firstn Noe checked) in
    if o_eqb OP (o_identity OP) e then Err EIdentityGroupElement
    else
      let masking_nonce := slice checked Noe Nn in
      let masked := masked_response_deserialize (slice checked (Noe + Nn) mrl) in
      let* ke2 := ke2_message_deserialize (skipn (Noe + Nn + mrl) checked) in
      Ok {| cr_eval := e; cr_masking_nonce := masking_nonce; cr_masked := masked; cr_ke2 := ke2 |}.

  (* ---------------- CredentialFinalization / Ke3Message *)
  Definition credential_finalization_serialize (m : CredentialFinalization) : bytes := cf_mac m.
  Definition credential_finalization_deserialize (b : bytes) : result CredentialFinalization :=
    let* checked := check_slice_size b Nh in
    Ok {| cf_mac := checked |}.

  (* ---------------- ServerSetup<CS, S> *)
  Section Setup.
    Context {S : Type}.
    Variable SK : SkOps Pk S.
    Definition server_setup_serialize (s : ServerSetup Pk Sk S) : bytes :=
      ss_oprf_seed s ++ s_ser SK (kp_sk (ss_keypair s)) ++ k_ser_sk K (kp_sk (ss_fake_keypair s)).
    (* NB: the Rust code slices with SkLen (not S::Len) *)
    Definition server_setup_deserialize (b : bytes) : result (ServerSetup Pk Sk S) :=
      let* checked := check_slice_size b (Nh + Nsk + Nsk) in
      let* sk := s_deser SK (slice checked Nh Nsk) in
      let* pk := s_pub SK sk in
      let* fake := keypair_from_private_key_slice (skipn (Nh + Nsk) checked) in
      Ok {| ss_oprf_seed := firstn Nh checked;
            ss_keypair := {| kp_pk := pk; kp_sk := sk |};
            ss_fake_keypair := fake |}.
  End Setup.

  (* ---------------- ClientRegistration *)
  Definition client_registration_serialize (s : ClientRegistration E Sc) : bytes :=
    o_ser_s OP (crs_blind s) ++ o_ser_e OP (crs_blinded s).
  Definition client_registration_deserialize (b : bytes) : result (ClientRegistration E Sc) :=
    let* checked := check_slice_size b (Nok + Noe) in
    let* r := voprf_deser_scalar OP (firstn Nok checked) in
    let* e := deserialize_element (skipn Nok checked) in
    Ok {| crs_blind := r; crs_blinded := e |}.

  (* ---------------- Ke1State *)
  Definition ke1_state_len : nat := Nsk + Nn.
  Definition ke1_state_serialize (s : Ke1State Sk) : bytes :=
    k_ser_sk K (k1s_client_e_sk s) ++ k1s_nonce s.
  Definition ke1_state_deserialize (b : bytes) : result (Ke1State Sk) :=
    let* checked := check_slice_size_atleast b (Nsk + Nn) in
    let* sk := sk_deserialize (firstn Nsk checked) in
    Ok {| k1s_client_e_sk := sk; k1s_nonce := slice checked Nsk Nn |}.

  (* ---------------- ClientLogin *)
  Definition client_login_serialize (s : ClientLogin E Sc Pk Sk) : bytes :=
    o_ser_s OP (cl_blind s) ++ credential_request_serialize (cl_request s)
      ++ ke1_state_serialize (cl_ke1_state s).
  Definition client_login_deserialize (b : bytes) : result (ClientLogin E Sc Pk Sk) :=
    let request_len := Noe + ke1_message_len in
    let* checked := check_slice_size b (Nok + request_len + ke1_state_len) in
    let* st := ke1_state_deserialize (skipn (Nok + request_len) checked) in
    let* r := voprf_deser_scalar OP (firstn Nok checked) in
    let* rq := credential_request_deserialize (slice checked Nok request_len) in
    Ok {| cl_blind := r; cl_ke1_state := st; cl_request := rq |}.

  (* ---------------- ServerLogin / Ke2State *)
  Definition server_login_serialize (s : ServerLogin) : bytes :=
    sl_km3 s ++ sl_hashed_transcript s ++ sl_session_key s.
  Definition server_login_deserialize (b : bytes) : result ServerLogin :=
    let* checked := check_slice_size b (3 * Nh) in
    Ok {| sl_km3 := firstn Nh checked;
          sl_hashed_transcript := slice checked Nh Nh;
          sl_session_key := slice checked (2 * Nh) Nh |}.
End Codecs.
