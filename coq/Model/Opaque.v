(* src/opaque.rs: the API steps.  Randomness is an explicit tape (the bytes
   `fill_bytes` returns, in order); every randomised step returns the rest of
   the tape.  The order of checks and the error mapping follow the Rust code. *)
From Coq Require Import List NArith Bool Arith.
From OKE Require Import Bytes Suite Generated Hkdf Voprf Messages Envelope TripleDH.
Import ListNotations.
Local Open Scope res_scope.

(* a key-stretching instance: None = Err(KsfError) *)
Definition ksf_fn := bytes -> option bytes.

Section Opaque.
  Context {E Sc Pk Sk : Type}.
  Variable CS : Suite E Sc Pk Sk.
  Let h := hash CS.
  Let OP := oprf CS.
  Let K := ke CS.
  Let Nh := h_len (hash CS).
  Let Noe := o_Noe (oprf CS).
  Let Nok := o_Nok (oprf CS).
  Let Npk := k_Npk (ke CS).
  Let Nsk := k_Nsk (ke CS).
  Let Nn := KE_NONCE_LEN.

  (* ---------------- helpers *)

  (* get_password_derived_key: randomized_pwd = Extract(0, oprf_output || ksf(oprf_output)) *)
  Definition get_password_derived_key (input : bytes) (blind : Sc) (evaluation : E) (ksf : option ksf_fn)
    : result bytes :=
    let* oprf_output := voprf_finalize h OP blind input evaluation in
    let* hardened := of_option (match ksf with Some f => f oprf_output | None => ksf_default CS oprf_output end)
                               (ELibrary LKsfError) in
    Ok (hkdf_extract h None (oprf_output ++ hardened)).

  (* oprf_key_from_seed: serialised OPRF key for a credential identifier *)
  Definition oprf_key_from_seed (oprf_seed credential_identifier : bytes) : result bytes :=
    let* ikm := of_option (hkdf_from_prk_expand h oprf_seed (credential_identifier ++ STR_OPRF_KEY) Nok)
                          (ELibrary LHkdfError) in
    let* k := voprf_derive_key OP ikm STR_OPAQUE_DERIVE_KEY_PAIR in
    Ok (o_ser_s OP k).

  (* the server's OPRF evaluation: oprf_key_from_seed, OprfServer::new_with_key, blind_evaluate *)
  Definition server_evaluate (oprf_seed credential_identifier : bytes) (blinded : E) : result E :=
    let* key_bytes := oprf_key_from_seed oprf_seed credential_identifier in
    let* k := voprf_deser_scalar OP key_bytes in
    Ok (voprf_blind_evaluate OP k blinded).

  Definition masking_pad (masking_key masking_nonce : bytes) : result bytes :=
    of_option (hkdf_from_prk_expand h masking_key (masking_nonce ++ STR_CREDENTIAL_RESPONSE_PAD)
                                    (masked_response_len CS))
              (ELibrary LHkdfError).

  (* mask_response: pad XOR (server_s_pk || envelope), re-read as a MaskedResponse *)
  Definition mask_response (masking_key masking_nonce : bytes) (server_s_pk : Pk) (env : Envelope)
    : result MaskedResponse :=
    let* pad := masking_pad masking_key masking_nonce in
    Ok (masked_response_deserialize CS (xor_bytes pad (k_ser_pk K server_s_pk ++ envelope_serialize env))).

  (* unmask_response *)
  Definition unmask_response (masking_key masking_nonce : bytes) (m : MaskedResponse)
    : result (Pk * Envelope) :=
    let* pad := masking_pad masking_key masking_nonce in
    let plain := xor_bytes pad (masked_response_serialize m) in
    let* pk := map_err (pk_deserialize CS (firstn Npk plain)) (fun _ => ESerialization) in
    let* env := envelope_deserialize CS (skipn Npk plain) in
    Ok (pk, env).

  (* ---------------- ServerSetup *)
  (* ServerSetup::new: static key pair, OPRF seed, fake key pair -- in that order *)
  Definition server_setup_new (tape : bytes) : result (ServerSetup Pk Sk Sk * bytes) :=
    let* '(kp, tape1) := keypair_generate_random CS tape in
    if length tape1 <? Nh then Err ETape
    else
      let* '(fake, tape2) := keypair_generate_random CS (skipn Nh tape1) in
      Ok ({| ss_oprf_seed := firstn Nh tape1; ss_keypair := kp; ss_fake_keypair := fake |}, tape2).

  (* ServerSetup::new_with_key *)
  Definition server_setup_new_with_key {S} (tape : bytes) (kp : KeyPair Pk S)
    : result (ServerSetup Pk Sk S * bytes) :=
    if length tape <? Nh then Err ETape
    else
      let* '(fake, tape2) := keypair_generate_random CS (skipn Nh tape) in
      Ok ({| ss_oprf_seed := firstn Nh tape; ss_keypair := kp; ss_fake_keypair := fake |}, tape2).

  (* ---------------- registration *)
  Definition client_registration_start (tape password : bytes)
    : result (ClientRegistration E Sc * RegistrationRequest E * bytes) :=
    let* '(r, blinded, tape') := voprf_blind OP tape password in
    Ok ({| crs_blind := r; crs_blinded := blinded |}, {| rq_blinded := blinded |}, tape').

  Definition server_registration_start {S} (setup : ServerSetup Pk Sk S)
             (message : RegistrationRequest E) (credential_identifier : bytes)
    : result (RegistrationResponse E Pk) :=
    let* ev := server_evaluate (ss_oprf_seed setup) credential_identifier (rq_blinded message) in
    Ok {| rr_eval := ev; rr_server_s_pk := kp_pk (ss_keypair setup) |}.

  (* Result: upload message, export key, server public key, rest of the tape *)
  Definition client_registration_finish (st : ClientRegistration E Sc) (tape password : bytes)
             (response : RegistrationResponse E Pk) (ids : Identifiers) (ksf : option ksf_fn)
    : result (RegistrationUpload Pk * bytes * Pk * bytes) :=
    if o_eqb OP (crs_blinded st) (rr_eval response) then Err EReflectedValue
    else
      let* randomized_pwd := get_password_derived_key password (crs_blind st) (rr_eval response) ksf in
      let* masking_key := of_option (hkdf_expand h randomized_pwd STR_MASKING_KEY Nh) (ELibrary LHkdfError) in
      let* '(env, client_s_pk, export_key, tape') :=
         envelope_seal CS tape randomized_pwd (rr_server_s_pk response) ids in
      Ok ({| ru_envelope := env; ru_masking_key := masking_key; ru_client_s_pk := client_s_pk |},
          export_key, rr_server_s_pk response, tape').

  (* ServerRegistration::finish is the identity on the upload *)
  Definition server_registration_finish (m : RegistrationUpload Pk) : RegistrationUpload Pk := m.

  (* ---------------- login *)
  Definition client_login_start (tape password : bytes)
    : result (ClientLogin E Sc Pk Sk * CredentialRequest E Pk * bytes) :=
    let* '(r, blinded, tape1) := voprf_blind OP tape password in
    let* '(st, ke1, tape2) := generate_ke1 CS tape1 in
    let rq := {| cq_blinded := blinded; cq_ke1 := ke1 |} in
    Ok ({| cl_blind := r; cl_ke1_state := st; cl_request := rq |}, rq, tape2).

  (* RegistrationUpload::dummy: random masking key, all-zero envelope, the setup's fake public key *)
  Definition registration_upload_dummy {S} (tape : bytes) (setup : ServerSetup Pk Sk S)
    : result (RegistrationUpload Pk * bytes) :=
    if length tape <? Nh then Err ETape
    else Ok ({| ru_envelope := envelope_dummy CS; ru_masking_key := firstn Nh tape;
                ru_client_s_pk := kp_pk (ss_fake_keypair setup) |}, skipn Nh tape).

  Section ServerLoginStart.
    Context {S : Type}.
    Variable SK : SkOps Pk S.

    (* Result: server state, response, rest of the tape (and handshake secret / km2
       for the RFC-vector replay) *)
    Definition server_login_start (tape : bytes) (setup : ServerSetup Pk Sk S)
               (password_file : option (RegistrationUpload Pk)) (request : CredentialRequest E Pk)
               (credential_identifier : bytes) (context : option bytes) (ids : Identifiers)
      : result (ServerLogin * CredentialResponse E Pk * bytes * (bytes * bytes)) :=
      let* '(record, tape0) :=
         match password_file with
         | Some x => Ok (x, tape)
         | None => registration_upload_dummy tape setup
         end in
      let client_s_pk := ru_client_s_pk record in
      let context := match context with Some c => c | None => [] end in
      let server_s_sk := kp_sk (ss_keypair setup) in
      let* server_s_pk := s_pub SK server_s_sk in
      if length tape0 <? Nn then Err ETape
      else
        let masking_nonce := firstn Nn tape0 in
        let tape1 := skipn Nn tape0 in
        let* masked := mask_response (ru_masking_key record) masking_nonce server_s_pk (ru_envelope record) in
        let* '(id_u, id_s) :=
           bytestrings_from_identifiers ids (k_ser_pk K client_s_pk) (k_ser_pk K server_s_pk) in
        let request_bytes := o_ser_e OP (cq_blinded request) ++ ke1_message_serialize CS (cq_ke1 request) in
        let* ev := server_evaluate (ss_oprf_seed setup) credential_identifier (cq_blinded request) in
        let beta := o_ser_e OP ev in
        let l2 := credential_response_without_ke beta masking_nonce masked in
        let* '(state, ke2, tape2, dbg) :=
           generate_ke2 CS SK tape1 request_bytes l2 (cq_ke1 request) client_s_pk server_s_sk id_u id_s context in
        Ok (state,
            {| cr_eval := ev; cr_masking_nonce := masking_nonce; cr_masked := masked; cr_ke2 := ke2 |},
            tape2, dbg).
  End ServerLoginStart.

  (* Result: finalisation message, session key, export key, server public key *)
  Definition client_login_finish (st : ClientLogin E Sc Pk Sk) (password : bytes)
             (response : CredentialResponse E Pk) (context : option bytes) (ids : Identifiers)
             (ksf : option ksf_fn)
    : result (CredentialFinalization * bytes * bytes * Pk * (bytes * bytes)) :=
    if o_eqb OP (cq_blinded (cl_request st)) (cr_eval response) then Err EReflectedValue
    else
      let* randomized_pwd := get_password_derived_key password (cl_blind st) (cr_eval response) ksf in
      let* masking_key := of_option (hkdf_expand h randomized_pwd STR_MASKING_KEY Nh) (ELibrary LHkdfError) in
      let* '(server_s_pk, env) :=
         map_err (unmask_response masking_key (cr_masking_nonce response) (cr_masked response))
                 (fun e => match e with ESerialization => EInvalidLogin | e' => e' end) in
      let* '(client_kp, export_key, id_u, id_s) :=
         map_err (envelope_open CS env randomized_pwd server_s_pk ids)
                 (fun e => match e with ELibrary LSealOpenHmacError => EInvalidLogin | e' => e' end) in
      let beta := o_ser_e OP (cr_eval response) in
      let l2 := credential_response_without_ke beta (cr_masking_nonce response) (cr_masked response) in
      let request_bytes := o_ser_e OP (cq_blinded (cl_request st))
                             ++ ke1_message_serialize CS (cq_ke1 (cl_request st)) in
      let* '(session_key, fin, dbg) :=
         generate_ke3 CS l2 (cr_ke2 response) (cl_ke1_state st) request_bytes server_s_pk
                      (kp_sk client_kp) id_u id_s (match context with Some c => c | None => [] end) in
      Ok (fin, session_key, export_key, server_s_pk, dbg).

  Definition server_login_finish (st : ServerLogin) (message : CredentialFinalization) : result bytes :=
    finish_ke CS message st.
End Opaque.
