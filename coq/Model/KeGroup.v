(* src/key_exchange/group/mod.rs: the default `KeGroup::derive_auth_keypair`
   (counter loop over the KE group's hash_to_scalar, with the OPRF suite's hash
   and identifier).  Curve25519 overrides it (Concrete/Suites.v). *)
From Coq Require Import List NArith Bool Arith.
From Coq Require Import Init.Byte.
From OKE Require Import Bytes Suite Generated.
Import ListNotations.

Section DeriveAuth.
  Context {Sk : Type}.
  (* KeGroup::hash_to_scalar::<H>(input, dst); None = Err(..) *)
  Variable h2s : HashOps -> bytes -> bytes -> option Sk.
  Variable is_zero : Sk -> bool.

  Definition derive_auth_dst (oprf_id : bytes) : bytes :=
    STR_DERIVE_KEYPAIR ++ STR_OPRF ++ [x00] ++ [x2d] ++ oprf_id.

  Fixpoint derive_auth_loop (h : HashOps) (prefix dst : bytes) (counter fuel : nat) : option Sk :=
    match fuel with
    | O => None
    | S fuel' =>
        match h2s h (prefix ++ [byte_of_nat counter]) dst with
        | None => None
        | Some sk => if is_zero sk then derive_auth_loop h prefix dst (S counter) fuel' else Some sk
        end
    end.

  Definition derive_auth_keypair_default (h : HashOps) (oprf_id seed : bytes) : option Sk :=
    match i2osp_nat 2 (length STR_OPAQUE_DERIVE_AUTH_KEY_PAIR) with
    | None => None
    | Some info_len =>
        derive_auth_loop h (seed ++ info_len ++ STR_OPAQUE_DERIVE_AUTH_KEY_PAIR)
                         (derive_auth_dst oprf_id) 0 256
    end.
End DeriveAuth.
