(* The world of Model/World.v with crashes: between any two steps any party may be stopped, its state saved in its
   native encoding and restored from it (C13).  A restore that fails is an error of the run.  Executable; no proofs. *)
From Coq Require Import List NArith Bool Arith.
From OKE Require Import Bytes Suite Generated Messages Envelope TripleDH Opaque World.
Import ListNotations.
Local Open Scope res_scope.

Section WorldCrash.
  Context {E Sc Pk Sk : Type}.
  Variable CS : Suite E Sc Pk Sk.

  Inductive cop :=
  | CStep (o : op (E := E) (Pk := Pk))
  | CReloadSetup                    (* the server restarts: its setup is restored from its serialization *)
  | CReloadServer (j : nat)         (* the pending server session j is restored from its serialization *)
  | CReloadClient (i : nat).        (* the pending client session i is restored from its serialization *)

  Definition replace_nth {A} (l : list A) (n : nat) (x : A) : list A := firstn n l ++ x :: skipn (S n) l.

  Definition cstep (w : World (E := E) (Sc := Sc) (Pk := Pk) (Sk := Sk)) (o : cop) : result World :=
    match o with
    | CStep o => Ok (step CS w o)
    | CReloadSetup =>
        let* s := server_setup_deserialize CS (private_key_ops (ke CS))
                    (server_setup_serialize CS (private_key_ops (ke CS)) (w_setup w)) in
        Ok {| w_setup := s; w_tape := w_tape w; w_srv := w_srv w; w_cli := w_cli w; w_cdone := w_cdone w; w_sdone := w_sdone w |}
    | CReloadServer j =>
        match nth_error (w_srv w) j with
        | None => Ok w
        | Some s =>
            let* st := server_login_deserialize CS (server_login_serialize (sv_state s)) in
            Ok {| w_setup := w_setup w; w_tape := w_tape w;
                  w_srv := replace_nth (w_srv w) j
                             {| sv_file := sv_file s; sv_cred := sv_cred s; sv_ctx := sv_ctx s; sv_ids := sv_ids s; sv_rq := sv_rq s;
                                sv_state := st; sv_resp := sv_resp s |};
                  w_cli := w_cli w; w_cdone := w_cdone w; w_sdone := w_sdone w |}
        end
    | CReloadClient i =>
        match nth_error (w_cli w) i with
        | None => Ok w
        | Some c =>
            let* st := client_login_deserialize CS (client_login_serialize CS (cs_state c)) in
            Ok {| w_setup := w_setup w; w_tape := w_tape w; w_srv := w_srv w;
                  w_cli := replace_nth (w_cli w) i {| cs_pw := cs_pw c; cs_state := st |};
                  w_cdone := w_cdone w; w_sdone := w_sdone w |}
        end
    end.

  Fixpoint crun (w : World (E := E) (Sc := Sc) (Pk := Pk) (Sk := Sk)) (ops : list cop) : result World :=
    match ops with
    | [] => Ok w
    | o :: r => let* w' := cstep w o in crun w' r
    end.

  (* the same history without the crashes *)
  Fixpoint erase (ops : list cop) : list (op (E := E) (Pk := Pk)) :=
    match ops with
    | [] => []
    | CStep o :: r => o :: erase r
    | _ :: r => erase r
    end.
End WorldCrash.
