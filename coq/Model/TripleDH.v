(* src/key_exchange/tripledh.rs: KE1 / KE2 / KE3, the transcript, the 3DH key
   schedule and Expand-Label. *)
From Coq Require Import List NArith Bool Arith.
From OKE Require Import Bytes Suite Generated Hkdf Messages.
Import ListNotations.
Local Open Scope res_scope.

Section TripleDH.
  Context {E Sc Pk Sk : Type}.
  Variable CS : Suite E Sc Pk Sk.
  Let h := hash CS.
  Let K := ke CS.
  Let Nh := h_len (hash CS).
  Let Nsk := k_Nsk (ke CS).
  Let Nn := KE_NONCE_LEN.

  (* KeyPair::generate_random: Nsk tape bytes -> derive_auth_keypair(..).unwrap() *)
  Definition keypair_generate_random (tape : bytes) : result (KeyPair Pk Sk * bytes) :=
    if length tape <? Nsk then Err ETape
    else
      match k_derive K h (o_id (oprf CS)) (firstn Nsk tape) with
      | None => Err EPanic
      | Some sk => Ok ({| kp_pk := k_pub K sk; kp_sk := sk |}, skipn Nsk tape)
      end.

  Definition generate_nonce (tape : bytes) : result (bytes * bytes) :=
    if length tape <? Nn then Err ETape else Ok (firstn Nn tape, skipn Nn tape).

  (* hkdf_expand_label_extracted: info = I2OSP(Nh, 2) || I2OSP(len("OPAQUE-" || label), 1)
     || "OPAQUE-" || label || I2OSP(len(context), 1) || context *)
  Definition hkdf_expand_label (secret label context : bytes) : result bytes :=
    let* length_u16 := of_option (i2osp_nat 2 Nh) ESerialization in
    let* lbl := of_option (lenprefix 1 (STR_OPAQUE ++ label)) ESerialization in
    let* ctx := of_option (lenprefix 1 context) ESerialization in
    of_option (hkdf_expand h secret (length_u16 ++ lbl ++ ctx) Nh) (ELibrary LHkdfError).

  (* hkdf_expand_label (the variant going through Hkdf::from_prk) *)
  Definition hkdf_expand_label_from_prk (secret label context : bytes) : result bytes :=
    if length secret <? Nh then Err (ELibrary LHkdfError)
    else hkdf_expand_label secret label context.

  (* derive_3dh_keys, given the three DH outputs in order.
     Result: session_key, km2, km3 (and the handshake secret, exposed for the
     RFC-vector replay only). *)
  Definition derive_3dh_keys (dh1 dh2 dh3 hashed_transcript : bytes)
    : result (bytes * bytes * bytes * bytes) :=
    let prk := hkdf_extract h None (dh1 ++ dh2 ++ dh3) in
    let* handshake_secret := hkdf_expand_label prk STR_HANDSHAKE_SECRET hashed_transcript in
    let* session_key := hkdf_expand_label prk STR_SESSION_KEY hashed_transcript in
    let* km2 := hkdf_expand_label_from_prk handshake_secret STR_SERVER_MAC [] in
    let* km3 := hkdf_expand_label_from_prk handshake_secret STR_CLIENT_MAC [] in
    Ok (session_key, km2, km3, handshake_secret).

  (* the transcript both sides hash: "OPAQUEv1-" || I2(ctx) || ctx || id_u || request
     || id_s || (beta || masking_nonce || masked_response) || server_nonce || server_e_pk
     (id_u, id_s already length-prefixed) *)
  Definition preamble (context id_u request id_s l2 server_nonce server_e_pk : bytes) : result bytes :=
    let* ctx := of_option (lenprefix 2 context) ESerialization in
    Ok (STR_CONTEXT ++ ctx ++ id_u ++ request ++ id_s ++ l2 ++ server_nonce ++ server_e_pk).

  (* generate_ke1: ephemeral key pair, then nonce *)
  Definition generate_ke1 (tape : bytes) : result (Ke1State Sk * Ke1Message Pk * bytes) :=
    let* '(kp, tape1) := keypair_generate_random tape in
    let* '(nonce, tape2) := generate_nonce tape1 in
    Ok ({| k1s_client_e_sk := kp_sk kp; k1s_nonce := nonce |},
        {| k1_nonce := nonce; k1_client_e_pk := kp_pk kp |}, tape2).

  (* generate_ke2, generic in the holder S of the server's static key *)
  Section Ke2.
    Context {S : Type}.
    Variable SK : SkOps Pk S.
    Definition generate_ke2 (tape request l2 : bytes) (ke1 : Ke1Message Pk) (client_s_pk : Pk)
               (server_s_sk : S) (id_u id_s context : bytes)
      : result (ServerLogin * Ke2Message Pk * bytes * (bytes * bytes)) :=
      let* '(server_e_kp, tape1) := keypair_generate_random tape in
      let* '(server_nonce, tape2) := generate_nonce tape1 in
      let server_e_pk_bytes := k_ser_pk K (kp_pk server_e_kp) in
      let* pre := preamble context id_u request id_s l2 server_nonce server_e_pk_bytes in
      let hashed := h_hash h pre in
      let dh1 := k_dh K (k1_client_e_pk ke1) (kp_sk server_e_kp) in
      let* dh2 := s_dh SK server_s_sk (k1_client_e_pk ke1) in
      let dh3 := k_dh K client_s_pk (kp_sk server_e_kp) in
      let* '(session_key, km2, km3, hs) := derive_3dh_keys dh1 dh2 dh3 hashed in
      let mac := h_hmac h km2 hashed in
      Ok ({| sl_km3 := km3; sl_hashed_transcript := h_hash h (pre ++ mac); sl_session_key := session_key |},
          {| k2_nonce := server_nonce; k2_server_e_pk := kp_pk server_e_kp; k2_mac := mac |},
          tape2, (hs, km2)).
  End Ke2.

  (* generate_ke3.  Result: session key, KE3 message (and handshake secret, km3). *)
  Definition generate_ke3 (l2 : bytes) (ke2 : Ke2Message Pk) (st : Ke1State Sk) (request : bytes)
             (server_s_pk : Pk) (client_s_sk : Sk) (id_u id_s context : bytes)
    : result (bytes * CredentialFinalization * (bytes * bytes)) :=
    let* pre := preamble context id_u request id_s l2 (k2_nonce ke2) (k_ser_pk K (k2_server_e_pk ke2)) in
    let hashed := h_hash h pre in
    let dh1 := k_dh K (k2_server_e_pk ke2) (k1s_client_e_sk st) in
    let dh2 := k_dh K server_s_pk (k1s_client_e_sk st) in
    let dh3 := k_dh K (k2_server_e_pk ke2) client_s_sk in
    let* '(session_key, km2, km3, hs) := derive_3dh_keys dh1 dh2 dh3 hashed in
    if bytes_eqb (h_hmac h km2 hashed) (k2_mac ke2) then
      Ok (session_key, {| cf_mac := h_hmac h km3 (h_hash h (pre ++ k2_mac ke2)) |}, (hs, km3))
    else Err EInvalidLogin.

  (* finish_ke *)
  Definition finish_ke (ke3 : CredentialFinalization) (st : ServerLogin) : result bytes :=
    if bytes_eqb (h_hmac h (sl_km3 st) (sl_hashed_transcript st)) (cf_mac ke3)
    then Ok (sl_session_key st)
    else Err EInvalidLogin.
End TripleDH.
