(* ASCII labels of the `voprf` crate (the opaque-ke labels are in Generated.v). *)
From Coq Require Import String.
From OKE Require Import Bytes.
Local Open Scope string_scope.
Definition STR_FINALIZE : bytes := bytes_of_string "Finalize".
Definition STR_HASH_TO_GROUP : bytes := bytes_of_string "HashToGroup-".
Definition STR_VOPRF_DERIVE_KEYPAIR : bytes := bytes_of_string "DeriveKeyPair".
Definition STR_VOPRF_OPRF : bytes := bytes_of_string "OPRFV1-".
Definition STR_DASH : bytes := bytes_of_string "-".
