(* Byte strings and the integer <-> octet-string conversions used throughout the
   model.  No proofs here (house rule: Model/*.v stays executable even when a
   proof elsewhere breaks). *)
From Coq Require Import List NArith ZArith Bool Arith.
From Coq Require Import Init.Byte.
From Coq Require Strings.Byte.
Import ListNotations.

Definition bytes := list byte.

Definition b2n (b : byte) : N := Strings.Byte.to_N b.
Definition n2b (n : N) : byte :=
  match Strings.Byte.of_N (n mod 256) with Some b => b | None => x00 end.
Definition b2z (b : byte) : Z := Z.of_N (b2n b).
Definition z2b (z : Z) : byte := n2b (Z.to_N (z mod 256)).

Definition byte_eqb (a b : byte) : bool := Byte.eqb a b.

Fixpoint bytes_eqb (a b : bytes) : bool :=
  match a, b with
  | [], [] => true
  | x :: a', y :: b' => byte_eqb x y && bytes_eqb a' b'
  | _, _ => false
  end.

Definition xorb8 (a b : byte) : byte := n2b (N.lxor (b2n a) (b2n b)).

(* Rust's `zip`: stops at the shorter argument. *)
Fixpoint xor_bytes (a b : bytes) : bytes :=
  match a, b with
  | x :: a', y :: b' => xorb8 x y :: xor_bytes a' b'
  | _, _ => []
  end.

Definition zeros (n : nat) : bytes := repeat x00 n.

(* Big-endian I2OSP on exactly [len] octets; the value is reduced mod 256^len
   (callers that must refuse use [i2osp] below). *)
Fixpoint be_bytes (len : nat) (n : N) : bytes :=
  match len with
  | O => []
  | S l => be_bytes l (n / 256) ++ [n2b n]
  end.

Fixpoint le_bytes (len : nat) (n : N) : bytes :=
  match len with
  | O => []
  | S l => n2b n :: le_bytes l (n / 256)
  end.

Definition os2ip_be (b : bytes) : N := fold_left (fun acc x => acc * 256 + b2n x)%N b 0%N.
Definition os2ip_le (b : bytes) : N := fold_right (fun x acc => b2n x + 256 * acc)%N 0%N b.

(* serialization/mod.rs: i2osp::<L>(input) -- refuses values that do not fit *)
Definition i2osp (len : nat) (n : N) : option bytes :=
  if (n <? 256 ^ N.of_nat len)%N then Some (be_bytes len n) else None.

Definition i2osp_nat (len : nat) (n : nat) : option bytes := i2osp len (N.of_nat n).

(* `Input::<U2>::from(x)` / `Input::<U1>::from(x)`: I2OSP(len(x), l) || x *)
Definition lenprefix (l : nat) (x : bytes) : option bytes :=
  match i2osp_nat l (length x) with
  | Some p => Some (p ++ x)
  | None => None
  end.

Definition slice (b : bytes) (off len : nat) : bytes := firstn len (skipn off b).

Definition byte_of_nat (n : nat) : byte := n2b (N.of_nat n).

(* ASCII literals for the protocol labels: Coq strings -> bytes *)
From Coq Require Import String Ascii.
Fixpoint bytes_of_string (s : string) : bytes :=
  match s with
  | EmptyString => []
  | String c s' => n2b (N_of_ascii c) :: bytes_of_string s'
  end.
