(* A world of login sessions around one server setup, driven by a network adversary (C07).
   The adversary schedules the honest parties and chooses EVERY message they receive: server sessions are
   started on any request (under any record, credential identifier, context, identities), client sessions
   are finished on any response, server sessions on any finalization.  One RNG tape is shared by all parties
   and threaded through the steps.  Executable; no proofs here. *)
From Coq Require Import List NArith Bool Arith.
From OKE Require Import Bytes Suite Generated Messages Envelope TripleDH Opaque.
Import ListNotations.

Section World.
  Context {E Sc Pk Sk : Type}.
  Variable CS : Suite E Sc Pk Sk.

  Record SrvSession := {
    sv_file : option (RegistrationUpload Pk); sv_cred : bytes; sv_ctx : option bytes; sv_ids : Identifiers;
    sv_rq : CredentialRequest E Pk; sv_state : ServerLogin; sv_resp : CredentialResponse E Pk }.
  Record CliSession := { cs_pw : bytes; cs_state : ClientLogin E Sc Pk Sk }.
  Record CliDone := {
    cd_client : nat; cd_resp : CredentialResponse E Pk; cd_ctx : option bytes; cd_ids : Identifiers;
    cd_fin : CredentialFinalization; cd_key : bytes; cd_export : bytes; cd_spk : Pk }.
  Record SrvDone := { sd_server : nat; sd_fin : CredentialFinalization; sd_key : bytes }.

  Record World := {
    w_setup : ServerSetup Pk Sk Sk; w_tape : bytes;
    w_srv : list SrvSession; w_cli : list CliSession; w_cdone : list CliDone; w_sdone : list SrvDone }.

  Inductive op :=
  | OClientStart (pw : bytes)
  | OServerStart (file : option (RegistrationUpload Pk)) (cred : bytes) (ctx : option bytes) (ids : Identifiers)
                 (rq : CredentialRequest E Pk)
  | OClientFinish (i : nat) (r : CredentialResponse E Pk) (ctx : option bytes) (ids : Identifiers)
  | OServerFinish (j : nat) (fin : CredentialFinalization).

  Definition step (w : World) (o : op) : World :=
    match o with
    | OClientStart pw =>
        match client_login_start CS (w_tape w) pw with
        | Ok (st, _, rest) =>
            {| w_setup := w_setup w; w_tape := rest; w_srv := w_srv w;
               w_cli := w_cli w ++ [{| cs_pw := pw; cs_state := st |}]; w_cdone := w_cdone w; w_sdone := w_sdone w |}
        | Err _ => w
        end
    | OServerStart file cred ctx ids rq =>
        match server_login_start CS (private_key_ops (ke CS)) (w_tape w) (w_setup w) file rq cred ctx ids with
        | Ok (st, resp, rest, _) =>
            {| w_setup := w_setup w; w_tape := rest;
               w_srv := w_srv w ++ [{| sv_file := file; sv_cred := cred; sv_ctx := ctx; sv_ids := ids; sv_rq := rq;
                                       sv_state := st; sv_resp := resp |}];
               w_cli := w_cli w; w_cdone := w_cdone w; w_sdone := w_sdone w |}
        | Err _ => w
        end
    | OClientFinish i r ctx ids =>
        match nth_error (w_cli w) i with
        | Some c =>
            match client_login_finish CS (cs_state c) (cs_pw c) r ctx ids None with
            | Ok (fin, key, ek, spk, _) =>
                {| w_setup := w_setup w; w_tape := w_tape w; w_srv := w_srv w; w_cli := w_cli w;
                   w_cdone := w_cdone w ++ [{| cd_client := i; cd_resp := r; cd_ctx := ctx; cd_ids := ids;
                                               cd_fin := fin; cd_key := key; cd_export := ek; cd_spk := spk |}];
                   w_sdone := w_sdone w |}
            | Err _ => w
            end
        | None => w
        end
    | OServerFinish j fin =>
        match nth_error (w_srv w) j with
        | Some s =>
            match server_login_finish CS (sv_state s) fin with
            | Ok key =>
                {| w_setup := w_setup w; w_tape := w_tape w; w_srv := w_srv w; w_cli := w_cli w; w_cdone := w_cdone w;
                   w_sdone := w_sdone w ++ [{| sd_server := j; sd_fin := fin; sd_key := key |}] |}
            | Err _ => w
            end
        | None => w
        end
    end.

  Definition run (w : World) (ops : list op) : World := fold_left step ops w.
  Definition init (setup : ServerSetup Pk Sk Sk) (tape : bytes) : World :=
    {| w_setup := setup; w_tape := tape; w_srv := []; w_cli := []; w_cdone := []; w_sdone := [] |}.
End World.
