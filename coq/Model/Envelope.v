(* src/envelope.rs: seal / open, the envelope key schedule, the AAD, and
   opaque.rs::bytestrings_from_identifiers. *)
From Coq Require Import List NArith Bool Arith.
From OKE Require Import Bytes Suite Generated Hkdf Messages.
Import ListNotations.
Local Open Scope res_scope.

(* opaque.rs: struct Identifiers { client, server : Option<&[u8]> } *)
Record Identifiers := { id_client : option bytes; id_server : option bytes }.
Definition no_identifiers : Identifiers := {| id_client := None; id_server := None |}.

Section Envelope.
  Context {E Sc Pk Sk : Type}.
  Variable CS : Suite E Sc Pk Sk.
  Let h := hash CS.
  Let K := ke CS.
  Let Nh := h_len (hash CS).
  Let Nsk := k_Nsk (ke CS).
  Let Nne := ENVELOPE_NONCE_LEN.

  Definition hkdf_err {A} : result A := Err (ELibrary LHkdfError).

  (* bytestrings_from_identifiers: each result is the Input::<U2> encoding
     I2OSP(len, 2) || bytes of the effective identity (the iterator's chunks
     concatenated).  An identity that does not fit 2 bytes of length is refused. *)
  Definition bytestrings_from_identifiers (ids : Identifiers) (client_s_pk server_s_pk : bytes)
    : result (bytes * bytes) :=
    let* id_u := of_option (lenprefix 2 (match id_client ids with Some c => c | None => client_s_pk end))
                           ESerialization in
    let* id_s := of_option (lenprefix 2 (match id_server ids with Some s => s | None => server_s_pk end))
                           ESerialization in
    Ok (id_u, id_s).

  (* construct_aad: server_s_pk || id_s || id_u (already length-prefixed) *)
  Definition construct_aad (id_u id_s server_s_pk : bytes) : bytes := server_s_pk ++ id_s ++ id_u.

  (* build_inner_envelope_internal / recover_keys_internal: the client's
     static key pair from randomized_pwd and the envelope nonce *)
  Definition recover_keys_internal (randomized_pwd nonce : bytes) : result (KeyPair Pk Sk) :=
    let* seed := of_option (hkdf_expand h randomized_pwd (nonce ++ STR_PRIVATE_KEY) Nsk)
                           (ELibrary LHkdfError) in
    let* sk := of_option (k_derive K h (o_id (oprf CS)) seed)
                         (ELibrary (LOprfError ODeriveKeyPair)) in
    keypair_from_private_key_slice CS (k_ser_sk K sk).

  (* seal_raw / open_raw share the key schedule *)
  Definition envelope_keys (randomized_pwd nonce : bytes) : result (bytes * bytes) :=
    let* auth_key := of_option (hkdf_expand h randomized_pwd (nonce ++ STR_AUTH_KEY) Nh)
                               (ELibrary LHkdfError) in
    let* export_key := of_option (hkdf_expand h randomized_pwd (nonce ++ STR_EXPORT_KEY) Nh)
                                 (ELibrary LHkdfError) in
    Ok (auth_key, export_key).

  (* Envelope::seal: nonce from the RNG tape; result: envelope, client public
     key, export key, rest of the tape *)
  Definition envelope_seal (tape randomized_pwd : bytes) (server_s_pk : Pk) (ids : Identifiers)
    : result (Envelope * Pk * bytes * bytes) :=
    if length tape <? Nne then Err ETape
    else
      let nonce := firstn Nne tape in
      let tape' := skipn Nne tape in
      let* kp := recover_keys_internal randomized_pwd nonce in
      let client_s_pk := kp_pk kp in
      let server_s_pk_bytes := k_ser_pk K server_s_pk in
      let* '(id_u, id_s) := bytestrings_from_identifiers ids (k_ser_pk K client_s_pk) server_s_pk_bytes in
      let aad := construct_aad id_u id_s server_s_pk_bytes in
      let* '(auth_key, export_key) := envelope_keys randomized_pwd nonce in
      let tag := h_hmac h auth_key (nonce ++ aad) in
      Ok ({| env_internal := true; env_nonce := nonce; env_hmac := tag |}, client_s_pk, export_key, tape').

  (* Envelope::open: result: client key pair, export key, id_u, id_s *)
  Definition envelope_open (env : Envelope) (randomized_pwd : bytes) (server_s_pk : Pk) (ids : Identifiers)
    : result (KeyPair Pk Sk * bytes * bytes * bytes) :=
    if negb (env_internal env) then Err (ELibrary LIncompatibleEnvelopeModeError)
    else
      let* kp := recover_keys_internal randomized_pwd (env_nonce env) in
      let server_s_pk_bytes := k_ser_pk K server_s_pk in
      let* '(id_u, id_s) := bytestrings_from_identifiers ids (k_ser_pk K (kp_pk kp)) server_s_pk_bytes in
      let aad := construct_aad id_u id_s server_s_pk_bytes in
      let* '(auth_key, export_key) := envelope_keys randomized_pwd (env_nonce env) in
      if bytes_eqb (h_hmac h auth_key (env_nonce env ++ aad)) (env_hmac env)
      then Ok (kp, export_key, id_u, id_s)
      else Err (ELibrary LSealOpenHmacError).
End Envelope.
