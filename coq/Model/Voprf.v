(* The part of `voprf 0.5.0` (RFC 9497, mode 0) that opaque-ke calls, generic
   over the group operations (DESIGN.md Appendix B).  Modelled, not verified. *)
From Coq Require Import List NArith Bool Arith.
From Coq Require Import Init.Byte.
From OKE Require Import Bytes Suite Generated Labels.
Import ListNotations.
Local Open Scope res_scope.
Local Open Scope list_scope.


Section Voprf.
  Context {E Sc : Type}.
  Variable h : HashOps.
  Variable OP : OprfOps E Sc.

  (* contextString = "OPRFV1-" || I2OSP(mode = 0, 1) || "-" || identifier *)
  Definition oprf_context : bytes := STR_VOPRF_OPRF ++ [x00] ++ STR_DASH ++ o_id OP.
  Definition dst_hash_to_group : bytes := STR_HASH_TO_GROUP ++ oprf_context.
  Definition dst_derive_keypair : bytes := STR_VOPRF_DERIVE_KEYPAIR ++ oprf_context.

  Definition oprf_err {A} (e : oprf_err) : result A := Err (ELibrary (LOprfError e)).

  (* serialization.rs: deserialize_elem / deserialize_scalar *take* their length
     from the front of the slice and ignore the rest *)
  Definition voprf_deser_elem (b : bytes) : result E :=
    if length b <? o_Noe OP then oprf_err ODeserialization
    else of_option (o_deser_e OP (firstn (o_Noe OP) b)) (ELibrary (LOprfError ODeserialization)).

  Definition voprf_deser_scalar (b : bytes) : result Sc :=
    if length b <? o_Nok OP then oprf_err ODeserialization
    else of_option (o_deser_s OP (firstn (o_Nok OP) b)) (ELibrary (LOprfError ODeserialization)).

  (* OprfClient::blind: random_scalar, then hash_to_group(input) * blind.
     Result: blind, blinded element, rest of the tape. *)
  Definition voprf_blind (tape input : bytes) : result (Sc * E * bytes) :=
    match o_random_scalar OP tape with
    | None => Err ETape
    | Some (r, tape') => Ok (r, o_mul OP (o_h2g OP input dst_hash_to_group) r, tape')
    end.

  (* OprfServer::blind_evaluate *)
  Definition voprf_blind_evaluate (k : Sc) (blinded : E) : E := o_mul OP blinded k.

  (* OprfClient::finalize *)
  Definition voprf_finalize (blind : Sc) (input : bytes) (evaluated : E) : result bytes :=
    let unblinded := o_mul OP evaluated (o_inv OP blind) in
    match i2osp_nat 2 (length input) with
    | None => oprf_err OInput
    | Some len =>
        Ok (h_hash h (len ++ input ++ be_bytes 2 (N.of_nat (o_Noe OP)) ++ o_ser_e OP unblinded ++ STR_FINALIZE))
    end.

  (* derive_key_internal: counter loop of HashToScalar *)
  Fixpoint derive_key_loop (prefix : bytes) (counter fuel : nat) : result Sc :=
    match fuel with
    | O => oprf_err OProtocol
    | S fuel' =>
        let sk := o_h2s OP (prefix ++ [byte_of_nat counter]) dst_derive_keypair in
        if o_is_zero OP sk then derive_key_loop prefix (S counter) fuel' else Ok sk
    end.

  Definition voprf_derive_key (seed info : bytes) : result Sc :=
    match i2osp_nat 2 (length info) with
    | None => oprf_err ODeriveKeyPair
    | Some info_len => derive_key_loop (seed ++ info_len ++ info) 0 256
    end.
End Voprf.
