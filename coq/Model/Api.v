(* The byte-level API: every step as a function from byte strings to byte
   strings (PROTOCOL.md).  Arguments are decoded with the model's decoders and
   results encoded with its encoders, exactly as a caller that persists every
   object between steps would do.  This is the interface the correspondence
   check drives on both sides. *)
From Coq Require Import List NArith Bool Arith.
From Coq Require Import Init.Byte.
From OKE Require Import Bytes Suite Generated Hkdf Voprf Messages Envelope TripleDH Opaque.
Import ListNotations.
Local Open Scope res_scope.

Inductive ksf_spec :=
| KsNone                                   (* params.ksf = None *)
| KsDefault                                (* Some(&Default::default()) *)
| KsReverse
| KsXor (b : byte)
| KsFail
| KsTable (t : list (bytes * bytes)).      (* finite table: replay of an opaque function (Argon2) *)

Inductive dec_type :=
| DRegistrationRequest | DRegistrationResponse | DRegistrationUpload
| DCredentialRequest | DCredentialResponse | DCredentialFinalization
| DServerRegistration | DServerSetup | DClientRegistration | DClientLogin | DServerLogin.

Inductive request :=
| QSetupNew (tape : bytes)
| QRegStart (tape pw : bytes)
| QSrvRegStart (setup msg cred : bytes)
| QRegFinish (state tape pw resp : bytes) (idu ids : option bytes) (ksf : ksf_spec)
| QSrvRegFinish (upload : bytes)
| QLoginStart (tape pw : bytes)
| QSrvLoginStart (tape setup : bytes) (file : option bytes) (msg cred : bytes) (ctx idu ids : option bytes)
| QLoginFinish (state pw resp : bytes) (ctx idu ids : option bytes) (ksf : ksf_spec)
| QSrvLoginFinish (state fin : bytes)
| QDec (ty : dec_type) (b : bytes)
| QKePub (sk : bytes)
| QKeDh (pk sk : bytes)
| QKeDerive (seed : bytes)
| QKeSk (b : bytes)
| QKePk (b : bytes)
| QKeRandomSk (tape : bytes)
| QLens
(* primitives of the OPRF suite, for validating the primitive layer of the model against the crates *)
| QPHash (m : bytes)
| QPHmac (k m : bytes)
| QPExpand (prk info : bytes) (len : nat)
| QPH2g (msg dst : bytes)
| QPH2s (msg dst : bytes)
| QPSmul (e s : bytes)
| QPSinv (s : bytes)
(* in-memory composition of a whole registration + login (no serialisation between steps) *)
| QFlow (tape pw cred : bytes) (ctx idu ids : option bytes) (ksf : ksf_spec)
| QFlowNoFile (tape pw cred : bytes) (ctx idu ids : option bytes) (ksf : ksf_spec)
(* server static key behind the SecretKey interface; each callback may be made to fail *)
| QExtSetup (tape sk : bytes) (fail_pub fail_dh : option N)
| QExtDecSetup (setup : bytes) (fail_pub fail_dh : option N)
| QExtSrvRegStart (setup msg cred : bytes) (fail_pub fail_dh : option N)
| QExtSrvLoginStart (tape setup : bytes) (file : option bytes) (msg cred : bytes) (ctx idu ids : option bytes)
                    (fail_pub fail_dh : option N).

Inductive tok :=
| TB (b : bytes)
| TN (n : nat)
| TLog (l : list (bytes * option bytes))   (* ksf calls: input, output (None = error) *)
| TRes (r : option err).                   (* flow_nofile: the client's verdict *)

Inductive response :=
| ROk (l : list tok)
| RErr (e : err)
| RArgErr (i : nat) (e : err)
| RStepErr (step : nat) (e : err).

Definition ksf_of_spec (s : ksf_spec) : option ksf_fn :=
  match s with
  | KsNone => None
  | KsDefault => Some (fun x => Some x)
  | KsReverse => Some (fun x => Some (rev x))
  | KsXor b => Some (fun x => Some (map (fun y => xorb8 y b) x))
  | KsFail => Some (fun _ => None)
  | KsTable t => Some (fun x =>
      match find (fun kv => bytes_eqb (fst kv) x) t with
      | Some kv => Some (snd kv)
      | None => None
      end)
  end.

Section Api.
  Context {E Sc Pk Sk : Type}.
  Variable CS : Suite E Sc Pk Sk.
  Let h := hash CS.
  Let OP := oprf CS.
  Let K := ke CS.
  Let PK := private_key_ops (ke CS).

  Definition arg {A} (i : nat) (r : result A) (k : A -> response) : response :=
    match r with Ok a => k a | Err e => RArgErr i e end.
  Definition fin (r : result (list tok)) : response :=
    match r with Ok l => ROk l | Err e => RErr e end.
  Definition consumed (tape rest : bytes) : tok := TN (length tape - length rest).

  Definition opt_dec {A} (f : bytes -> result A) (o : option bytes) : result (option A) :=
    match o with
    | None => Ok None
    | Some b => let* a := f b in Ok (Some a)
    end.

  (* the ksf call the finish steps make: on the OPRF output, once *)
  Definition ksf_log (input : bytes) (blind : Sc) (evaluation : E) (reflected : bool) (ksf : option ksf_fn)
    : tok :=
    if reflected then TLog []
    else
      match voprf_finalize h OP blind input evaluation with
      | Err _ => TLog []
      | Ok y => TLog [(y, match ksf with Some f => f y | None => ksf_default CS y end)]
      end.

  Definition ext_key_ops (fail_pub fail_dh : option N) : SkOps Pk Sk := {|
    s_len := k_Nsk K;
    s_dh := fun sk pk => match fail_dh with
                         | Some n => Err (ELibrary (LCustom n))
                         | None => Ok (k_dh K pk sk)
                         end;
    s_pub := fun sk => match fail_pub with
                       | Some n => Err (ELibrary (LCustom n))
                       | None => Ok (k_pub K sk)
                       end;
    s_ser := k_ser_sk K;
    s_deser := fun b => of_option (k_deser_sk K b) (ELibrary LPointError);
  |}.

  (* the setup is decoded with a key that does not fail; failures are injected
     into the operation itself *)
  Definition do_srv_reg_start (SK : SkOps Pk Sk) (setup msg cred : bytes) : response :=
    arg 1 (server_setup_deserialize CS PK setup) (fun s =>
    arg 2 (registration_request_deserialize CS msg) (fun m =>
    fin (let* r := server_registration_start CS s m cred in
         Ok [TB (registration_response_serialize CS r)]))).

  Definition do_srv_login_start (SK : SkOps Pk Sk) (tape setup : bytes) (file : option bytes)
             (msg cred : bytes) (ctx idu ids : option bytes) : response :=
    arg 2 (server_setup_deserialize CS PK setup) (fun s =>
    arg 3 (opt_dec (registration_upload_deserialize CS) file) (fun f =>
    arg 4 (credential_request_deserialize CS msg) (fun m =>
    fin (let* '(st, resp, rest, _) :=
           server_login_start CS SK tape s f m cred ctx {| id_client := idu; id_server := ids |} in
         Ok [TB (server_login_serialize st); TB (credential_response_serialize CS resp);
             consumed tape rest])))).

  Definition flow_ids (idu ids : option bytes) : Identifiers := {| id_client := idu; id_server := ids |}.

  (* the nine steps in memory; the step index of a failure is reported *)
  Definition step {A} (i : nat) (r : result A) (k : A -> response) : response :=
    match r with Ok a => k a | Err e => RStepErr i e end.

  Definition do_flow (tape pw cred : bytes) (ctx idu ids : option bytes) (ksf : ksf_spec) : response :=
    let kf := ksf_of_spec ksf in
    let I := flow_ids idu ids in
    step 0 (server_setup_new CS tape) (fun '(setup, t1) =>
    step 1 (client_registration_start CS t1 pw) (fun '(creg, rq, t2) =>
    step 2 (server_registration_start CS setup rq cred) (fun rr =>
    step 3 (client_registration_finish CS creg t2 pw rr I kf) (fun '(upload, export_reg, spk_reg, t3) =>
    let file := server_registration_finish upload in
    step 5 (client_login_start CS t3 pw) (fun '(clog, ke1, t4) =>
    step 6 (server_login_start CS PK t4 setup (Some file) ke1 cred ctx I) (fun '(slog, ke2, t5, _) =>
    step 7 (client_login_finish CS clog pw ke2 ctx I kf) (fun '(ke3, sk_c, export_login, spk_login, _) =>
    step 8 (server_login_finish CS slog ke3) (fun sk_s =>
    ROk [TB (server_setup_serialize CS PK setup);
         TB (registration_request_serialize CS rq);
         TB (registration_response_serialize CS rr);
         TB (registration_upload_serialize CS upload);
         TB export_reg; TB (k_ser_pk K spk_reg);
         TB (registration_upload_serialize CS file);
         TB (credential_request_serialize CS ke1);
         TB (credential_response_serialize CS ke2);
         TB (credential_finalization_serialize ke3);
         TB sk_c; TB sk_s; TB export_login; TB (k_ser_pk K spk_login);
         consumed tape t5])))))))).

  Definition do_flow_nofile (tape pw cred : bytes) (ctx idu ids : option bytes) (ksf : ksf_spec) : response :=
    let kf := ksf_of_spec ksf in
    let I := flow_ids idu ids in
    step 0 (server_setup_new CS tape) (fun '(setup, t1) =>
    step 1 (client_login_start CS t1 pw) (fun '(clog, ke1, t2) =>
    step 2 (server_login_start CS PK t2 setup None ke1 cred ctx I) (fun '(slog, ke2, t3, _) =>
    ROk [TB (server_setup_serialize CS PK setup);
         TB (credential_request_serialize CS ke1);
         TB (credential_response_serialize CS ke2);
         TRes (match client_login_finish CS clog pw ke2 ctx I kf with Ok _ => None | Err e => Some e end);
         consumed tape t3]))).

  Definition run_request (q : request) : response :=
    match q with
    | QSetupNew tape =>
        fin (let* '(s, rest) := server_setup_new CS tape in
             Ok [TB (server_setup_serialize CS PK s); consumed tape rest])
    | QRegStart tape pw =>
        fin (let* '(st, m, rest) := client_registration_start CS tape pw in
             Ok [TB (client_registration_serialize CS st); TB (registration_request_serialize CS m);
                 consumed tape rest])
    | QSrvRegStart setup msg cred => do_srv_reg_start PK setup msg cred
    | QRegFinish state tape pw resp idu ids ksf =>
        arg 1 (client_registration_deserialize CS state) (fun st =>
        arg 4 (registration_response_deserialize CS resp) (fun r =>
        let kf := ksf_of_spec ksf in
        fin (let* '(up, export_key, spk, rest) :=
               client_registration_finish CS st tape pw r {| id_client := idu; id_server := ids |} kf in
             Ok [TB (registration_upload_serialize CS up); TB export_key; TB (k_ser_pk K spk);
                 consumed tape rest;
                 ksf_log pw (crs_blind st) (rr_eval r) (o_eqb OP (crs_blinded st) (rr_eval r)) kf])))
    | QSrvRegFinish upload =>
        arg 1 (registration_upload_deserialize CS upload) (fun u =>
        ROk [TB (registration_upload_serialize CS (server_registration_finish u))])
    | QLoginStart tape pw =>
        fin (let* '(st, m, rest) := client_login_start CS tape pw in
             Ok [TB (client_login_serialize CS st); TB (credential_request_serialize CS m);
                 consumed tape rest])
    | QSrvLoginStart tape setup file msg cred ctx idu ids =>
        do_srv_login_start PK tape setup file msg cred ctx idu ids
    | QLoginFinish state pw resp ctx idu ids ksf =>
        arg 1 (client_login_deserialize CS state) (fun st =>
        arg 3 (credential_response_deserialize CS resp) (fun r =>
        let kf := ksf_of_spec ksf in
        fin (let* '(f, session_key, export_key, spk, _) :=
               client_login_finish CS st pw r ctx {| id_client := idu; id_server := ids |} kf in
             Ok [TB (credential_finalization_serialize f); TB session_key; TB export_key;
                 TB (k_ser_pk K spk);
                 ksf_log pw (cl_blind st) (cr_eval r)
                         (o_eqb OP (cq_blinded (cl_request st)) (cr_eval r)) kf])))
    | QSrvLoginFinish state f =>
        arg 1 (server_login_deserialize CS state) (fun st =>
        arg 2 (credential_finalization_deserialize CS f) (fun m =>
        fin (let* k := server_login_finish CS st m in Ok [TB k])))
    | QDec ty b =>
        fin (match ty with
             | DRegistrationRequest =>
                 let* m := registration_request_deserialize CS b in Ok [TB (registration_request_serialize CS m)]
             | DRegistrationResponse =>
                 let* m := registration_response_deserialize CS b in Ok [TB (registration_response_serialize CS m)]
             | DRegistrationUpload | DServerRegistration =>
                 let* m := registration_upload_deserialize CS b in Ok [TB (registration_upload_serialize CS m)]
             | DCredentialRequest =>
                 let* m := credential_request_deserialize CS b in Ok [TB (credential_request_serialize CS m)]
             | DCredentialResponse =>
                 let* m := credential_response_deserialize CS b in Ok [TB (credential_response_serialize CS m)]
             | DCredentialFinalization =>
                 let* m := credential_finalization_deserialize CS b in Ok [TB (credential_finalization_serialize m)]
             | DServerSetup =>
                 let* m := server_setup_deserialize CS PK b in Ok [TB (server_setup_serialize CS PK m)]
             | DClientRegistration =>
                 let* m := client_registration_deserialize CS b in Ok [TB (client_registration_serialize CS m)]
             | DClientLogin =>
                 let* m := client_login_deserialize CS b in Ok [TB (client_login_serialize CS m)]
             | DServerLogin =>
                 let* m := server_login_deserialize CS b in Ok [TB (server_login_serialize m)]
             end)
    | QKePub sk =>
        fin (let* kp := keypair_from_private_key_slice CS sk in Ok [TB (k_ser_pk K (kp_pk kp))])
    | QKeDh pk sk =>
        arg 1 (pk_deserialize CS pk) (fun p =>
        arg 2 (sk_deserialize CS sk) (fun s => ROk [TB (k_dh K p s)]))
    | QKeDerive seed =>
        fin (let* sk := of_option (k_derive K h (o_id OP) seed) (ELibrary (LOprfError ODeriveKeyPair)) in
             Ok [TB (k_ser_sk K sk); TB (k_ser_pk K (k_pub K sk))])
    | QKeSk b => fin (let* s := sk_deserialize CS b in Ok [TB (k_ser_sk K s)])
    | QKePk b => fin (let* p := pk_deserialize CS b in Ok [TB (k_ser_pk K p)])
    | QKeRandomSk tape => RErr EPanic  (* per-group; answered in Concrete/Run.v *)
    | QLens => ROk [TN (h_len h); TN (o_Noe OP); TN (o_Nok OP); TN (k_Npk K); TN (k_Nsk K)]
    | QPHash m => ROk [TB (h_hash h m)]
    | QPHmac k m => ROk [TB (h_hmac h k m)]
    | QPExpand prk info len =>
        fin (let* out := of_option (hkdf_from_prk_expand h prk info len) (ELibrary LHkdfError) in Ok [TB out])
    | QPH2g msg dst => ROk [TB (o_ser_e OP (o_h2g OP msg dst))]
    | QPH2s msg dst => ROk [TB (o_ser_s OP (o_h2s OP msg dst))]
    | QPSmul e s =>
        arg 1 (of_option (o_deser_e OP e) (ELibrary (LOprfError ODeserialization))) (fun e' =>
        arg 2 (of_option (o_deser_s OP s) (ELibrary (LOprfError ODeserialization))) (fun s' =>
        ROk [TB (o_ser_e OP (o_mul OP e' s'))]))
    | QPSinv s =>
        arg 1 (of_option (o_deser_s OP s) (ELibrary (LOprfError ODeserialization))) (fun s' =>
        ROk [TB (o_ser_s OP (o_inv OP s'))])
    | QFlow tape pw cred ctx idu ids ksf => do_flow tape pw cred ctx idu ids ksf
    | QFlowNoFile tape pw cred ctx idu ids ksf => do_flow_nofile tape pw cred ctx idu ids ksf
    | QExtSetup tape sk fp fd =>
        let SK := ext_key_ops fp fd in
        fin (let* s := s_deser SK sk in
             let* pk := s_pub SK s in
             let* '(setup, rest) := server_setup_new_with_key CS tape {| kp_pk := pk; kp_sk := s |} in
             Ok [TB (server_setup_serialize CS SK setup); consumed tape rest])
    | QExtDecSetup setup fp fd =>
        let SK := ext_key_ops fp fd in
        fin (let* s := server_setup_deserialize CS SK setup in Ok [TB (server_setup_serialize CS SK s)])
    | QExtSrvRegStart setup msg cred fp fd => do_srv_reg_start (ext_key_ops fp fd) setup msg cred
    | QExtSrvLoginStart tape setup file msg cred ctx idu ids fp fd =>
        do_srv_login_start (ext_key_ops fp fd) tape setup file msg cred ctx idu ids
    end.
End Api.
