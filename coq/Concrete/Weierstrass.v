(* Short Weierstrass curves y^2 = x^3 - 3x + b over F_p (P-256, P-384, P-521):
   group operations (Jacobian inside scalar multiplication, affine outside),
   SEC1 compressed encoding, simplified SWU / hash_to_curve (RFC 9380), scalars.
   Modelled from the RFCs and from reading the pinned crates; validated by the
   correspondence check.  No group law is proved (DESIGN.md 6). *)
From Coq Require Import List NArith ZArith Bool Arith.
From Coq Require Import Init.Byte.
From OKE Require Import Bytes Suite Field.
Import ListNotations.
Local Open Scope Z_scope.

Record wcurve := {
  w_p : Z; w_b : Z; w_n : Z; w_gx : Z; w_gy : Z;
  w_z : Z;          (* the SSWU constant Z *)
  w_L : nat;        (* hash_to_field length *)
  w_Nfe : nat;      (* field element / scalar length in bytes *)
}.

Definition wpoint := option (Z * Z).   (* None = the identity *)

Section W.
  Variable C : wcurve.
  Let p := w_p C.
  Let a := w_p C - 3.
  Let b := w_b C.

  Definition fadd x y := (x + y) mod p.
  Definition fsub x y := (x - y) mod p.
  Definition fmul x y := (x * y) mod p.

  Definition w_rhs (x : Z) : Z := (x * x * x + a * x + b) mod p.
  Definition w_on_curve (P : Z * Z) : bool := (snd P * snd P) mod p =? w_rhs (fst P).

  (* p = 3 mod 4 for the three curves *)
  Definition w_sqrt (v : Z) : option Z :=
    let r := fpow p v ((p + 1) / 4) in
    if (r * r) mod p =? v mod p then Some r else None.

  (* ---- Jacobian coordinates (X, Y, Z); Z = 0 is the identity *)
  Definition jpoint := (Z * Z * Z)%type.
  Definition j_identity : jpoint := (1, 1, 0).
  Definition to_j (P : wpoint) : jpoint :=
    match P with None => j_identity | Some (x, y) => (x, y, 1) end.
  Definition of_j (P : jpoint) : wpoint :=
    let '(X, Y, Zc) := P in
    if Zc mod p =? 0 then None
    else
      let zi := finv p Zc in
      let zi2 := fmul zi zi in
      Some (fmul X zi2, fmul Y (fmul zi2 zi)).

  Definition j_double (P : jpoint) : jpoint :=
    let '(X, Y, Zc) := P in
    if (Zc =? 0) || (Y =? 0) then j_identity
    else
      let delta := fmul Zc Zc in
      let gamma := fmul Y Y in
      let beta := fmul X gamma in
      let alpha := fmul 3 (fmul (fsub X delta) (fadd X delta)) in
      let X3 := fsub (fmul alpha alpha) (fmul 8 beta) in
      let Z3 := fsub (fsub (fmul (fadd Y Zc) (fadd Y Zc)) gamma) delta in
      let Y3 := fsub (fmul alpha (fsub (fmul 4 beta) X3)) (fmul 8 (fmul gamma gamma)) in
      (X3, Y3, Z3).

  Definition j_add (P Q : jpoint) : jpoint :=
    let '(X1, Y1, Z1) := P in
    let '(X2, Y2, Z2) := Q in
    if Z1 =? 0 then Q else if Z2 =? 0 then P
    else
      let Z1Z1 := fmul Z1 Z1 in
      let Z2Z2 := fmul Z2 Z2 in
      let U1 := fmul X1 Z2Z2 in
      let U2 := fmul X2 Z1Z1 in
      let S1 := fmul Y1 (fmul Z2 Z2Z2) in
      let S2 := fmul Y2 (fmul Z1 Z1Z1) in
      if U1 =? U2 then (if S1 =? S2 then j_double P else j_identity)
      else
        let H := fsub U2 U1 in
        let R := fsub S2 S1 in
        let HH := fmul H H in
        let HHH := fmul H HH in
        let V := fmul U1 HH in
        let X3 := fsub (fsub (fmul R R) HHH) (fmul 2 V) in
        let Y3 := fsub (fmul R (fsub V X3)) (fmul S1 HHH) in
        let Z3 := fmul H (fmul Z1 Z2) in
        (X3, Y3, Z3).

  (* k * P, double-and-add from the least significant bit; fuel = bit length bound *)
  Fixpoint j_mul_fuel (fuel : nat) (k : Z) (Q acc : jpoint) : jpoint :=
    match fuel with
    | O => acc
    | S f =>
        if k =? 0 then acc
        else j_mul_fuel f (k / 2) (j_double Q) (if k mod 2 =? 1 then j_add acc Q else acc)
    end.

  Definition normalize (P : wpoint) : wpoint :=
    match P with None => None | Some (x, y) => Some (x mod p, y mod p) end.

  Definition w_add (P Q : wpoint) : wpoint := of_j (j_add (to_j (normalize P)) (to_j (normalize Q))).
  Definition w_mul (P : wpoint) (k : Z) : wpoint :=
    of_j (j_mul_fuel 640 (k mod w_n C) (to_j (normalize P)) j_identity).
  Definition w_base : wpoint := Some (w_gx C, w_gy C).

  Definition w_eqb (P Q : wpoint) : bool :=
    match P, Q with
    | None, None => true
    | Some (x1, y1), Some (x2, y2) => (x1 =? x2) && (y1 =? y2)
    | _, _ => false
    end.

  (* ---- SEC1 compressed encoding *)
  Definition w_Npk : nat := S (w_Nfe C).
  (* to_encoded_point(true): the identity encodes as the single byte 0x00; voprf
     copies it into a zeroed array of ElemLen bytes *)
  Definition w_ser (P : wpoint) : bytes :=
    match P with
    | None => zeros w_Npk
    | Some (x, y) => (if y mod 2 =? 1 then x03 else x02) :: Z_to_bytes_be (w_Nfe C) x
    end.

  (* PublicKey::from_sec1_bytes restricted to inputs of the compressed length:
     tags 0x02 / 0x03 (compressed) and, when [compact] is set, 0x05 (SEC1
     "compact": y = min(y, p - y)).  Never yields the identity. *)
  Definition w_deser_gen (compact : bool) (bs : bytes) : option wpoint :=
    if negb (Nat.eqb (length bs) w_Npk) then None
    else
      match bs with
      | [] => None
      | tag :: xb =>
          let t := b2n tag in
          if negb ((t =? 2)%N || (t =? 3)%N || (compact && (t =? 5)%N)) then None
          else
            let x := bytes_to_Z_be xb in
            if p <=? x then None
            else
              match w_sqrt (w_rhs x) with
              | None => None
              | Some y =>
                  let y' :=
                    if (t =? 5)%N then Z.min y (p - y)
                    else if (y mod 2) =? Z.of_N (t - 2) then y else (p - y) mod p in
                  Some (Some (x, y'))
              end
      end.

  (* ---- scalars: big-endian, 0 < k < n; SecretKey::from_slice also takes
     24 .. Nfe-1 bytes, left-padded with zeros *)
  Definition w_ser_scalar (k : Z) : bytes := Z_to_bytes_be (w_Nfe C) k.
  Definition w_deser_scalar (bs : bytes) : option Z :=
    let l := length bs in
    if (Nat.eqb l (w_Nfe C)) || ((24 <=? l)%nat && (l <? w_Nfe C)%nat) then
      let k := bytes_to_Z_be bs in
      if (0 <? k) && (k <? w_n C) then Some k else None
    else None.
  Definition w_inv_scalar (k : Z) : Z := finv (w_n C) k.
  Definition w_is_zero (k : Z) : bool := k mod w_n C =? 0.

  (* SecretKey::random: rejection sampling over Nfe-byte chunks *)
  Fixpoint w_random_scalar_fuel (fuel : nat) (tape : bytes) : option (Z * bytes) :=
    match fuel with
    | O => None
    | S f =>
        if (length tape <? w_Nfe C)%nat then None
        else
          let k := bytes_to_Z_be (firstn (w_Nfe C) tape) in
          let rest := skipn (w_Nfe C) tape in
          if (0 <? k) && (k <? w_n C) then Some (k, rest) else w_random_scalar_fuel f rest
    end.
  Definition w_random_scalar (tape : bytes) : option (Z * bytes) :=
    w_random_scalar_fuel (S (length tape / w_Nfe C)) tape.

  (* ---- hash to curve (P256_XMD:SHA-256_SSWU_RO_ and friends) *)
  Definition sgn0 (x : Z) : Z := x mod 2.
  Definition sswu (u : Z) : Z * Z :=
    let Zc := w_z C mod p in
    let u2 := fmul u u in
    let tv1 := fadd (fmul (fmul Zc Zc) (fmul u2 u2)) (fmul Zc u2) in
    let x1 :=
      if tv1 =? 0 then fmul b (finv p (fmul Zc a))
      else fmul (fmul (fsub 0 b) (finv p a)) (fadd 1 (finv p tv1)) in
    let gx1 := w_rhs x1 in
    let x2 := fmul (fmul Zc u2) x1 in
    let gx2 := w_rhs x2 in
    let '(x, y) :=
      match w_sqrt gx1 with
      | Some y1 => (x1, y1)
      | None => (x2, match w_sqrt gx2 with Some y2 => y2 | None => 0 end)
      end in
    (x, if sgn0 u =? sgn0 y then y else (p - y) mod p).

  Definition w_hash_to_curve (h : HashOps) (msg dst : bytes) : wpoint :=
    match hash_to_field h msg dst 2 (w_L C) p with
    | [u0; u1] => w_add (Some (sswu u0)) (Some (sswu u1))
    | _ => None
    end.
  Definition w_hash_to_scalar (h : HashOps) (msg dst : bytes) : Z :=
    match hash_to_field h msg dst 1 (w_L C) (w_n C) with
    | [k] => k
    | _ => 0
    end.
End W.

Definition P256 : wcurve := {|
  w_p := 0xffffffff00000001000000000000000000000000ffffffffffffffffffffffff;
  w_b := 0x5ac635d8aa3a93e7b3ebbd55769886bc651d06b0cc53b0f63bce3c3e27d2604b;
  w_n := 0xffffffff00000000ffffffffffffffffbce6faada7179e84f3b9cac2fc632551;
  w_gx := 0x6b17d1f2e12c4247f8bce6e563a440f277037d812deb33a0f4a13945d898c296;
  w_gy := 0x4fe342e2fe1a7f9b8ee7eb4a7c0f9e162bce33576b315ececbb6406837bf51f5;
  w_z := -10; w_L := 48; w_Nfe := 32 |}.

Definition P384 : wcurve := {|
  w_p := 0xfffffffffffffffffffffffffffffffffffffffffffffffffffffffffffffffeffffffff0000000000000000ffffffff;
  w_b := 0xb3312fa7e23ee7e4988e056be3f82d19181d9c6efe8141120314088f5013875ac656398d8a2ed19d2a85c8edd3ec2aef;
  w_n := 0xffffffffffffffffffffffffffffffffffffffffffffffffc7634d81f4372ddf581a0db248b0a77aecec196accc52973;
  w_gx := 0xaa87ca22be8b05378eb1c71ef320ad746e1d3b628ba79b9859f741e082542a385502f25dbf55296c3a545e3872760ab7;
  w_gy := 0x3617de4a96262c6f5d9e98bf9292dc29f8f41dbd289a147ce9da3113b5f0b8c00a60b1ce1d7e819d7a431d7c90ea0e5f;
  w_z := -12; w_L := 72; w_Nfe := 48 |}.

Definition P521 : wcurve := {|
  w_p := 0x1ffffffffffffffffffffffffffffffffffffffffffffffffffffffffffffffffffffffffffffffffffffffffffffffffffffffffffffffffffffffffffffffffff;
  w_b := 0x0051953eb9618e1c9a1f929a21a0b68540eea2da725b99b315f3b8b489918ef109e156193951ec7e937b1652c0bd3bb1bf073573df883d2c34f1ef451fd46b503f00;
  w_n := 0x01fffffffffffffffffffffffffffffffffffffffffffffffffffffffffffffffffa51868783bf2f966b7fcc0148f709a5d03bb5c9b8899c47aebb6fb71e91386409;
  w_gx := 0x00c6858e06b70404e9cd9e3ecb662395b4429c648139053fb521f828af606b4d3dbaa14b5e77efe75928fe1dc127a2ffa8de3348b3c1856a429bf97e7e31c2e5bd66;
  w_gy := 0x011839296a789a3bc0045c8a5fb42c7d1bd998f54449579b446817afbd17273e662c97ee72995ef42640c550b9013fad0761353c7086a272c24088be94769fd16650;
  w_z := -4; w_L := 98; w_Nfe := 66 |}.
