(* Dispatch of a request to one of the 20 suites. *)
From Coq Require Import List NArith ZArith Bool Arith.
From OKE Require Import Bytes Suite Api Sha2 Weierstrass Curve25519 Suites.
Import ListNotations.

Inductive oprf_id := OR255 | OP256 | OP384 | OP521.
Inductive ke_id := KR255 | KP256 | KP384 | KP521 | KX25519.

(* KeGroup::random_sk is per group (not part of the generic records) *)
Definition ke_random_sk (k : ke_id) (tape : bytes) : response :=
  let out (r : option (bytes * bytes)) :=
    match r with
    | Some (sk, rest) => ROk [TB sk; TN (length tape - length rest)]
    | None => RErr ETape
    end in
  let wr (C : wcurve) :=
    out (match w_random_scalar C tape with
         | Some (s, rest) => Some (w_ser_scalar C s, rest) | None => None end) in
  match k with
  | KR255 => out (match r_random_scalar tape with
                  | Some (s, rest) => Some (r_ser_scalar s, rest) | None => None end)
  | KP256 => wr P256 | KP384 => wr P384 | KP521 => wr P521
  | KX25519 => out (x_random_sk tape)
  end.

Definition run_with {E Sc} (h : HashOps) (O : OprfOps E Sc) (k : ke_id) (q : request) : response :=
  match q with
  | QKeRandomSk tape => ke_random_sk k tape
  | _ =>
    match k with
    | KR255 => run_request (mk_suite h O K_R255) q
    | KP256 => run_request (mk_suite h O K_P256) q
    | KP384 => run_request (mk_suite h O K_P384) q
    | KP521 => run_request (mk_suite h O K_P521) q
    | KX25519 => run_request (mk_suite h O K_X25519) q
    end
  end.

Definition run (o : oprf_id) (k : ke_id) (q : request) : response :=
  match o with
  | OR255 => run_with SHA512 O_R255 k q
  | OP256 => run_with SHA256 O_P256 k q
  | OP384 => run_with SHA384 O_P384 k q
  | OP521 => run_with SHA512 O_P521 k q
  end.
