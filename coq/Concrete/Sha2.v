(* SHA-256 / SHA-384 / SHA-512 (FIPS 180-4) over [N] words, HMAC (RFC 2104).
   Modelled from the standard; validated against the implementation by the
   correspondence check and against known vectors in Concrete/SelfTest.v. *)
From Coq Require Import List NArith Bool Arith.
From Coq Require Import Init.Byte.
From OKE Require Import Bytes Suite.
Import ListNotations.
Local Open Scope N_scope.

Section Sha2.
  Variable wb : N.                        (* word size in bits: 32 or 64 *)
  Variable wbytes : nat.                  (* 4 or 8 *)
  Variables B0a B0b B0c B1a B1b B1c : N.  (* big sigma rotations *)
  Variables S0a S0b S0c S1a S1b S1c : N.  (* small sigma: two rotations and a shift *)
  Variable K : list N.                    (* round constants (64 or 80) *)
  Variable IV : list N.                   (* 8 words *)
  Variable out_len : nat.                 (* digest length in bytes *)

  Definition wmask : N := N.ones wb.
  Definition wadd (a b : N) : N := N.land (a + b) wmask.
  Definition rotr (x n : N) : N :=
    N.lor (N.shiftr x n) (N.land (N.shiftl x (wb - n)) wmask).
  Definition bsig0 x := N.lxor (rotr x B0a) (N.lxor (rotr x B0b) (rotr x B0c)).
  Definition bsig1 x := N.lxor (rotr x B1a) (N.lxor (rotr x B1b) (rotr x B1c)).
  Definition ssig0 x := N.lxor (rotr x S0a) (N.lxor (rotr x S0b) (N.shiftr x S0c)).
  Definition ssig1 x := N.lxor (rotr x S1a) (N.lxor (rotr x S1b) (N.shiftr x S1c)).
  Definition ch x y z := N.lxor (N.land x y) (N.land (N.lxor x wmask) z).
  Definition maj x y z := N.lxor (N.land x y) (N.lxor (N.land x z) (N.land y z)).

  Definition block_bytes : nat := (16 * wbytes)%nat.
  Definition lenfield_bytes : nat := (2 * wbytes)%nat.

  (* padding: 0x80, zeros, bit length on 2 words *)
  Definition pad (m : bytes) : bytes :=
    let l := length m in
    let r := ((l + 1 + lenfield_bytes) mod block_bytes)%nat in
    let k := ((block_bytes - r) mod block_bytes)%nat in
    m ++ [x80] ++ zeros k ++ be_bytes lenfield_bytes (8 * N.of_nat l).

  (* big-endian words of one block *)
  Fixpoint words (n : nat) (b : bytes) : list N :=
    match n with
    | O => []
    | S n' => os2ip_be (firstn wbytes b) :: words n' (skipn wbytes b)
    end.

  (* message schedule; [ws] holds W[t-1], W[t-2], ... (newest first) *)
  Fixpoint schedule (n : nat) (ws : list N) : list N :=
    match n with
    | O => ws
    | S n' =>
        let w := wadd (wadd (ssig1 (nth 1 ws 0)) (nth 6 ws 0))
                      (wadd (ssig0 (nth 14 ws 0)) (nth 15 ws 0)) in
        schedule n' (w :: ws)
    end.

  Definition st := (N * N * N * N * N * N * N * N)%type.

  Definition round (s : st) (kw : N * N) : st :=
    let '(a, b, c, d, e, f, g, h) := s in
    let t1 := wadd (wadd (wadd h (bsig1 e)) (wadd (ch e f g) (fst kw))) (snd kw) in
    let t2 := wadd (bsig0 a) (maj a b c) in
    (wadd t1 t2, a, b, c, wadd d t1, e, f, g).

  Definition compress (s : st) (block : bytes) : st :=
    let w16 := words 16 block in
    let w := rev (schedule (length K - 16) (rev w16)) in
    let '(a, b, c, d, e, f, g, h) := fold_left round (combine K w) s in
    let '(a0, b0, c0, d0, e0, f0, g0, h0) := s in
    (wadd a0 a, wadd b0 b, wadd c0 c, wadd d0 d, wadd e0 e, wadd f0 f, wadd g0 g, wadd h0 h).

  Fixpoint blocks (n : nat) (s : st) (b : bytes) : st :=
    match n with
    | O => s
    | S n' => blocks n' (compress s (firstn block_bytes b)) (skipn block_bytes b)
    end.

  Definition iv_state : st :=
    (nth 0 IV 0, nth 1 IV 0, nth 2 IV 0, nth 3 IV 0, nth 4 IV 0, nth 5 IV 0, nth 6 IV 0, nth 7 IV 0).

  Definition sha2 (m : bytes) : bytes :=
    let p := pad m in
    let '(a, b, c, d, e, f, g, h) := blocks (length p / block_bytes) iv_state p in
    firstn out_len (flat_map (be_bytes wbytes) [a; b; c; d; e; f; g; h]).
End Sha2.

Definition K256 : list N := [
 0x428a2f98; 0x71374491; 0xb5c0fbcf; 0xe9b5dba5; 0x3956c25b; 0x59f111f1; 0x923f82a4; 0xab1c5ed5;
 0xd807aa98; 0x12835b01; 0x243185be; 0x550c7dc3; 0x72be5d74; 0x80deb1fe; 0x9bdc06a7; 0xc19bf174;
 0xe49b69c1; 0xefbe4786; 0x0fc19dc6; 0x240ca1cc; 0x2de92c6f; 0x4a7484aa; 0x5cb0a9dc; 0x76f988da;
 0x983e5152; 0xa831c66d; 0xb00327c8; 0xbf597fc7; 0xc6e00bf3; 0xd5a79147; 0x06ca6351; 0x14292967;
 0x27b70a85; 0x2e1b2138; 0x4d2c6dfc; 0x53380d13; 0x650a7354; 0x766a0abb; 0x81c2c92e; 0x92722c85;
 0xa2bfe8a1; 0xa81a664b; 0xc24b8b70; 0xc76c51a3; 0xd192e819; 0xd6990624; 0xf40e3585; 0x106aa070;
 0x19a4c116; 0x1e376c08; 0x2748774c; 0x34b0bcb5; 0x391c0cb3; 0x4ed8aa4a; 0x5b9cca4f; 0x682e6ff3;
 0x748f82ee; 0x78a5636f; 0x84c87814; 0x8cc70208; 0x90befffa; 0xa4506ceb; 0xbef9a3f7; 0xc67178f2].

Definition IV256 : list N := [
 0x6a09e667; 0xbb67ae85; 0x3c6ef372; 0xa54ff53a; 0x510e527f; 0x9b05688c; 0x1f83d9ab; 0x5be0cd19].

Definition K512 : list N := [
 0x428a2f98d728ae22; 0x7137449123ef65cd; 0xb5c0fbcfec4d3b2f; 0xe9b5dba58189dbbc;
 0x3956c25bf348b538; 0x59f111f1b605d019; 0x923f82a4af194f9b; 0xab1c5ed5da6d8118;
 0xd807aa98a3030242; 0x12835b0145706fbe; 0x243185be4ee4b28c; 0x550c7dc3d5ffb4e2;
 0x72be5d74f27b896f; 0x80deb1fe3b1696b1; 0x9bdc06a725c71235; 0xc19bf174cf692694;
 0xe49b69c19ef14ad2; 0xefbe4786384f25e3; 0x0fc19dc68b8cd5b5; 0x240ca1cc77ac9c65;
 0x2de92c6f592b0275; 0x4a7484aa6ea6e483; 0x5cb0a9dcbd41fbd4; 0x76f988da831153b5;
 0x983e5152ee66dfab; 0xa831c66d2db43210; 0xb00327c898fb213f; 0xbf597fc7beef0ee4;
 0xc6e00bf33da88fc2; 0xd5a79147930aa725; 0x06ca6351e003826f; 0x142929670a0e6e70;
 0x27b70a8546d22ffc; 0x2e1b21385c26c926; 0x4d2c6dfc5ac42aed; 0x53380d139d95b3df;
 0x650a73548baf63de; 0x766a0abb3c77b2a8; 0x81c2c92e47edaee6; 0x92722c851482353b;
 0xa2bfe8a14cf10364; 0xa81a664bbc423001; 0xc24b8b70d0f89791; 0xc76c51a30654be30;
 0xd192e819d6ef5218; 0xd69906245565a910; 0xf40e35855771202a; 0x106aa07032bbd1b8;
 0x19a4c116b8d2d0c8; 0x1e376c085141ab53; 0x2748774cdf8eeb99; 0x34b0bcb5e19b48a8;
 0x391c0cb3c5c95a63; 0x4ed8aa4ae3418acb; 0x5b9cca4f7763e373; 0x682e6ff3d6b2b8a3;
 0x748f82ee5defb2fc; 0x78a5636f43172f60; 0x84c87814a1f0ab72; 0x8cc702081a6439ec;
 0x90befffa23631e28; 0xa4506cebde82bde9; 0xbef9a3f7b2c67915; 0xc67178f2e372532b;
 0xca273eceea26619c; 0xd186b8c721c0c207; 0xeada7dd6cde0eb1e; 0xf57d4f7fee6ed178;
 0x06f067aa72176fba; 0x0a637dc5a2c898a6; 0x113f9804bef90dae; 0x1b710b35131c471b;
 0x28db77f523047d84; 0x32caab7b40c72493; 0x3c9ebe0a15c9bebc; 0x431d67c49c100d4c;
 0x4cc5d4becb3e42b6; 0x597f299cfc657e2a; 0x5fcb6fab3ad6faec; 0x6c44198c4a475817].

Definition IV512 : list N := [
 0x6a09e667f3bcc908; 0xbb67ae8584caa73b; 0x3c6ef372fe94f82b; 0xa54ff53a5f1d36f1;
 0x510e527fade682d1; 0x9b05688c2b3e6c1f; 0x1f83d9abfb41bd6b; 0x5be0cd19137e2179].

Definition IV384 : list N := [
 0xcbbb9d5dc1059ed8; 0x629a292a367cd507; 0x9159015a3070dd17; 0x152fecd8f70e5939;
 0x67332667ffc00b31; 0x8eb44a8768581511; 0xdb0c2e0d64f98fa7; 0x47b5481dbefa4fa4].

Definition sha256 : bytes -> bytes :=
  sha2 32 4 2 13 22 6 11 25 7 18 3 17 19 10 K256 IV256 32.
Definition sha512_gen (iv : list N) (out : nat) : bytes -> bytes :=
  sha2 64 8 28 34 39 14 18 41 1 8 7 19 61 6 K512 iv out.
Definition sha512 : bytes -> bytes := sha512_gen IV512 64.
Definition sha384 : bytes -> bytes := sha512_gen IV384 48.

(* HMAC (RFC 2104) from a hash with the given block size *)
Definition hmac_gen (H : bytes -> bytes) (block : nat) (key msg : bytes) : bytes :=
  let k0 := if (block <? length key)%nat then H key else key in
  let k := k0 ++ zeros (block - length k0) in
  let ipad := map (fun b => xorb8 b x36) k in
  let opad := map (fun b => xorb8 b x5c) k in
  H (opad ++ H (ipad ++ msg)).

Definition mk_hash (H : bytes -> bytes) (len block : nat) : HashOps :=
  {| h_hash := H; h_len := len; h_block := block; h_hmac := hmac_gen H block |}.

Definition SHA256 : HashOps := mk_hash sha256 32 64.
Definition SHA384 : HashOps := mk_hash sha384 48 128.
Definition SHA512 : HashOps := mk_hash sha512 64 128.
