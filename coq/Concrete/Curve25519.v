(* edwards25519 in extended coordinates, ristretto255 (RFC 9496: encode, decode,
   one-way map), scalars mod l, and X25519 (RFC 7748).  Executable definitions
   only; modelled from the RFCs and curve25519-dalek 4.1.3, validated by the
   correspondence check. *)
From Coq Require Import List NArith ZArith Bool Arith.
From Coq Require Import Init.Byte.
From OKE Require Import Bytes Suite Field.
Import ListNotations.
Local Open Scope Z_scope.

Definition p25519 : Z := 2 ^ 255 - 19.
Definition ell : Z := 2 ^ 252 + 27742317777372353535851937790883648493.

Definition fm (x : Z) : Z := x mod p25519.
Definition c_d : Z := fm (-121665 * finv p25519 121666).
Definition sqrt_m1 : Z := fpow p25519 2 ((p25519 - 1) / 4).

Definition is_neg (x : Z) : bool := (fm x) mod 2 =? 1.
Definition cabs (x : Z) : Z := let y := fm x in if y mod 2 =? 1 then p25519 - y else y.

(* SQRT_RATIO_M1(u, v): (was_square, r) *)
Definition sqrt_ratio_m1 (u v : Z) : bool * Z :=
  let u := fm u in let v := fm v in
  let v3 := fm (v * v * v) in
  let v7 := fm (v3 * v3 * v) in
  let r := fm (u * v3 * fpow p25519 (fm (u * v7)) ((p25519 - 5) / 8)) in
  let check := fm (v * r * r) in
  let correct := check =? u in
  let flipped := check =? fm (- u) in
  let flipped_i := check =? fm (- u * sqrt_m1) in
  let r' := if flipped || flipped_i then fm (r * sqrt_m1) else r in
  (correct || flipped, cabs r').

Definition invsqrt_a_minus_d : Z := snd (sqrt_ratio_m1 1 (fm (-1 - c_d))).
(* sqrt(a*d - 1) with a = -1: RFC 9496 fixes the odd root *)
Definition sqrt_ad_minus_one : Z := p25519 - snd (sqrt_ratio_m1 (fm (- c_d - 1)) 1).
Definition one_minus_d_sq : Z := fm (1 - c_d * c_d).
Definition d_minus_one_sq : Z := fm ((c_d - 1) * (c_d - 1)).

Definition epoint := (Z * Z * Z * Z)%type.      (* extended (X : Y : Z : T) *)
Definition e_identity : epoint := (0, 1, 1, 0).

Definition e_add (P Q : epoint) : epoint :=
  let '(X1, Y1, Z1, T1) := P in
  let '(X2, Y2, Z2, T2) := Q in
  let A := fm ((Y1 - X1) * (Y2 - X2)) in
  let B := fm ((Y1 + X1) * (Y2 + X2)) in
  let C := fm (T1 * 2 * c_d * T2) in
  let D := fm (Z1 * 2 * Z2) in
  let E := B - A in let F := D - C in let G := D + C in let H := B + A in
  (fm (E * F), fm (G * H), fm (F * G), fm (E * H)).

Fixpoint e_mul_fuel (fuel : nat) (k : Z) (Q acc : epoint) : epoint :=
  match fuel with
  | O => acc
  | S f =>
      if k =? 0 then acc
      else e_mul_fuel f (k / 2) (e_add Q Q) (if k mod 2 =? 1 then e_add acc Q else acc)
  end.
Definition r_mul (P : epoint) (k : Z) : epoint := e_mul_fuel 260 (k mod ell) P e_identity.

(* ristretto equality: X1 Y2 = Y1 X2  or  Y1 Y2 = X1 X2 *)
Definition r_eqb (P Q : epoint) : bool :=
  let '(X1, Y1, _, _) := P in
  let '(X2, Y2, _, _) := Q in
  (fm (X1 * Y2 - Y1 * X2) =? 0) || (fm (Y1 * Y2 - X1 * X2) =? 0).

Definition r_ser (P : epoint) : bytes :=
  let '(X, Y, Zc, T) := P in
  let u1 := fm ((Zc + Y) * (Zc - Y)) in
  let u2 := fm (X * Y) in
  let invsqrt := snd (sqrt_ratio_m1 1 (fm (u1 * u2 * u2))) in
  let den1 := fm (invsqrt * u1) in
  let den2 := fm (invsqrt * u2) in
  let z_inv := fm (den1 * den2 * T) in
  let ix := fm (X * sqrt_m1) in
  let iy := fm (Y * sqrt_m1) in
  let enchanted := fm (den1 * invsqrt_a_minus_d) in
  let rot := is_neg (T * z_inv) in
  let X' := if rot then iy else X in
  let Y' := if rot then ix else Y in
  let den_inv := if rot then enchanted else den2 in
  let Y'' := if is_neg (X' * z_inv) then fm (- Y') else Y' in
  Z_to_bytes_le 32 (cabs (den_inv * (Zc - Y''))).

(* RFC 9496 decode; [allow_identity] = false adds the identity filter of
   voprf / opaque-ke *)
Definition r_deser_gen (allow_identity : bool) (bs : bytes) : option epoint :=
  if negb (Nat.eqb (length bs) 32) then None
  else
    let s := bytes_to_Z_le bs in
    if (p25519 <=? s) || (s mod 2 =? 1) then None
    else
      let ss := fm (s * s) in
      let u1 := fm (1 - ss) in
      let u2 := fm (1 + ss) in
      let u2s := fm (u2 * u2) in
      let v := fm (- (c_d * u1 * u1) - u2s) in
      let '(ok, invsqrt) := sqrt_ratio_m1 1 (fm (v * u2s)) in
      let dx := fm (invsqrt * u2) in
      let dy := fm (invsqrt * dx * v) in
      let x := cabs (2 * s * dx) in
      let y := fm (u1 * dy) in
      let t := fm (x * y) in
      if negb ok || is_neg t || (y =? 0) then None
      else
        let P := (x, y, 1, t) in
        if negb allow_identity && r_eqb P e_identity then None else Some P.

(* the Elligator-based MAP of RFC 9496 4.3.4 *)
Definition elligator (r0 : Z) : epoint :=
  let r := fm (sqrt_m1 * r0 * r0) in
  let u := fm ((r + 1) * one_minus_d_sq) in
  let v := fm ((-1 - r * c_d) * (r + c_d)) in
  let '(was_sq, sq) := sqrt_ratio_m1 u v in
  let s_prime := fm (- cabs (sq * r0)) in
  let s := if was_sq then sq else s_prime in
  let c := if was_sq then fm (-1) else r in
  let N := fm (c * (r - 1) * d_minus_one_sq - v) in
  let w0 := fm (2 * s * v) in
  let w1 := fm (N * sqrt_ad_minus_one) in
  let w2 := fm (1 - s * s) in
  let w3 := fm (1 + s * s) in
  (fm (w0 * w3), fm (w2 * w1), fm (w1 * w3), fm (w0 * w2)).

Definition two255 : Z := 2 ^ 255.
Definition r_from_uniform (b : bytes) : epoint :=
  let r0 := (bytes_to_Z_le (firstn 32 b)) mod two255 in
  let r1 := (bytes_to_Z_le (skipn 32 b)) mod two255 in
  e_add (elligator (fm r0)) (elligator (fm r1)).

Definition r_hash_to_curve (h : HashOps) (msg dst : bytes) : epoint :=
  r_from_uniform (expand_message_xmd h msg dst 64).
Definition r_hash_to_scalar (h : HashOps) (msg dst : bytes) : Z :=
  bytes_to_Z_le (expand_message_xmd h msg dst 64) mod ell.

Definition r_ser_scalar (k : Z) : bytes := Z_to_bytes_le 32 k.
Definition r_deser_scalar (bs : bytes) : option Z :=
  if negb (Nat.eqb (length bs) 32) then None
  else let k := bytes_to_Z_le bs in if (0 <? k) && (k <? ell) then Some k else None.
Definition r_inv_scalar (k : Z) : Z := finv ell k.
Definition r_is_zero (k : Z) : bool := k mod ell =? 0.

(* Scalar::random: 64 tape bytes, little-endian, reduced mod l; retry on zero *)
Fixpoint r_random_scalar_fuel (fuel : nat) (tape : bytes) : option (Z * bytes) :=
  match fuel with
  | O => None
  | S f =>
      if (length tape <? 64)%nat then None
      else
        let k := bytes_to_Z_le (firstn 64 tape) mod ell in
        let rest := skipn 64 tape in
        if k =? 0 then r_random_scalar_fuel f rest else Some (k, rest)
  end.
Definition r_random_scalar (tape : bytes) : option (Z * bytes) :=
  r_random_scalar_fuel (S (length tape / 64)) tape.

(* ---- ristretto255 elements represented by their canonical 32-byte encoding.
   Every operation decodes, computes in extended coordinates and re-encodes, so that
   equality of group elements is equality of byte strings (the quotient by the
   projective / coset representation is taken once, here). *)
Definition rb_valid (b : bytes) : bool :=
  match r_deser_gen false b with Some _ => true | None => false end.
Definition rb_point (b : bytes) : epoint :=
  match r_deser_gen true b with Some P => P | None => e_identity end.
Definition rb_mul (b : bytes) (k : Z) : bytes := r_ser (r_mul (rb_point b) k).
Definition rb_deser (b : bytes) : option bytes := if rb_valid b then Some b else None.
Definition rb_identity : bytes := zeros 32.
Definition rb_hash_to_curve (h : HashOps) (msg dst : bytes) : bytes := r_ser (r_hash_to_curve h msg dst).

(* the ristretto basepoint: the edwards25519 basepoint, y = 4/5 with even x *)
Definition r_base : epoint :=
  let by_ := fm (4 * finv p25519 5) in
  let bx := snd (sqrt_ratio_m1 (fm (by_ * by_ - 1)) (fm (c_d * by_ * by_ + 1))) in
  (bx, by_, 1, fm (bx * by_)).

(* ---------------------------------------------------------------- X25519 *)
Definition clamp (b : bytes) : bytes :=
  match b with
  | b0 :: rest =>
      let mid := firstn 30 rest in
      match skipn 30 rest with
      | b31 :: _ =>
          n2b (N.land (b2n b0) 248) :: mid ++ [n2b (N.lor (N.land (b2n b31) 127) 64)]
      | [] => b
      end
  | [] => b
  end.

Definition ladder_state := (Z * Z * Z * Z * Z)%type.  (* x2 z2 x3 z3 swap *)

(* Montgomery ladder on the u-coordinate over the bits t = nbits-1 .. 0 of k *)
Fixpoint ladder (t : nat) (k x1 : Z) (s : ladder_state) : ladder_state :=
  match t with
  | O => s
  | S t' =>
      let '(x2, z2, x3, z3, swap) := s in
      let kt := (k / 2 ^ Z.of_nat t') mod 2 in
      let sw := (swap + kt) mod 2 in
      let '(x2, x3) := if sw =? 1 then (x3, x2) else (x2, x3) in
      let '(z2, z3) := if sw =? 1 then (z3, z2) else (z2, z3) in
      let A := fm (x2 + z2) in let AA := fm (A * A) in
      let B := fm (x2 - z2) in let BB := fm (B * B) in
      let E := fm (AA - BB) in
      let C := fm (x3 + z3) in let D := fm (x3 - z3) in
      let DA := fm (D * A) in let CB := fm (C * B) in
      let x3' := fm ((DA + CB) * (DA + CB)) in
      let z3' := fm (x1 * ((DA - CB) * (DA - CB))) in
      let x2' := fm (AA * BB) in
      let z2' := fm (E * (AA + 121665 * E)) in
      ladder t' k x1 (x2', z2', x3', z3', kt)
  end.

(* u-coordinate of [k]u for a k of [nbits] bits; 0 encodes the point at infinity *)
Definition mont_mul_bits (nbits : nat) (k : Z) (u : bytes) : bytes :=
  let x1 := fm ((bytes_to_Z_le u) mod two255) in
  let '(x2, z2, x3, z3, swap) := ladder nbits k x1 (1, 0, x1, 1, 0) in
  let '(x2, z2) := if swap =? 1 then (x3, z3) else (x2, z2) in
  Z_to_bytes_le 32 (fm (x2 * finv p25519 z2)).

(* MontgomeryPoint::mul_clamped *)
Definition x25519 (k u : bytes) : bytes := mont_mul_bits 255 (bytes_to_Z_le (clamp k)) u.
Definition x25519_base : bytes := Z_to_bytes_le 32 9.

(* MontgomeryPoint equality is on the reduced u-coordinate (bit 255 ignored) *)
Definition mont_is_identity (u : bytes) : bool := fm ((bytes_to_Z_le u) mod two255) =? 0.

(* curve25519.rs::deserialize_pk: 32 bytes, not the identity, not of small order *)
Definition x_deser_pk (bs : bytes) : option bytes :=
  if negb (Nat.eqb (length bs) 32) then None
  else if mont_is_identity bs then None
  else if mont_is_identity (mont_mul_bits 4 8 bs) then None
  else Some bs.

Definition x_deser_sk (bs : bytes) : option bytes :=
  if negb (Nat.eqb (length bs) 32) then None
  else if negb (bytes_eqb (clamp bs) bs) then None
  else if bytes_eqb bs (zeros 32) then None
  else Some bs.

(* random_sk: 32 tape bytes, clamped; retry on zero (cannot happen: bit 254 is set) *)
Definition x_random_sk (tape : bytes) : option (bytes * bytes) :=
  if (length tape <? 32)%nat then None else Some (clamp (firstn 32 tape), skipn 32 tape).
