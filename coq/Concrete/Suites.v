(* The four OPRF suites, the five key-exchange groups and their 20 combinations
   as instances of the generic records of Model/Suite.v. *)
From Coq Require Import List NArith ZArith Bool Arith String.
From Coq Require Import Init.Byte.
From OKE Require Import Bytes Suite Generated KeGroup Sha2 Field Weierstrass Curve25519.
Import ListNotations.
Local Open Scope Z_scope.

(* ---------------------------------------------------------------- OPRF groups (voprf::Group) *)
Definition oprf_weierstrass (C : wcurve) (h : HashOps) (id : string) : OprfOps wpoint Z := {|
  o_Noe := w_Npk C;
  o_Nok := w_Nfe C;
  o_ser_e := w_ser C;
  (* voprf: PublicKey::from_sec1_bytes, which also takes the compact tag 0x05 *)
  o_deser_e := fun b => w_deser_gen C true b;
  o_ser_s := w_ser_scalar C;
  o_deser_s := w_deser_scalar C;
  o_mul := w_mul C;
  o_inv := w_inv_scalar C;
  o_eqb := w_eqb;
  o_identity := None;
  o_is_zero := w_is_zero C;
  o_h2g := w_hash_to_curve C h;
  o_h2s := w_hash_to_scalar C h;
  o_random_scalar := w_random_scalar C;
  o_id := bytes_of_string id;
|}.

Definition oprf_ristretto (h : HashOps) : OprfOps bytes Z := {|
  o_Noe := 32%nat;
  o_Nok := 32%nat;
  o_ser_e := fun e => e;
  o_deser_e := rb_deser;
  o_ser_s := r_ser_scalar;
  o_deser_s := r_deser_scalar;
  o_mul := rb_mul;
  o_inv := r_inv_scalar;
  o_eqb := bytes_eqb;
  o_identity := rb_identity;
  o_is_zero := r_is_zero;
  o_h2g := rb_hash_to_curve h;
  o_h2s := r_hash_to_scalar h;
  o_random_scalar := r_random_scalar;
  o_id := bytes_of_string "ristretto255-SHA512";
|}.

(* ---------------------------------------------------------------- KE groups (opaque_ke::KeGroup) *)
(* elliptic_curve.rs: hash_to_scalar refuses a zero scalar (mapped by the caller
   to OprfError(DeriveKeyPair)) *)
Definition ke_weierstrass (C : wcurve) : KeOps wpoint Z := {|
  k_Npk := w_Npk C;
  k_Nsk := w_Nfe C;
  k_ser_pk := w_ser C;
  (* elliptic_curve.rs::deserialize_pk: from_sec1_bytes (which also takes the compact
     tag), then "only accept the encoding produced by serialize_pk" *)
  k_deser_pk := fun b =>
    match w_deser_gen C true b with
    | Some P => if bytes_eqb (w_ser C P) b then Some P else None
    | None => None
    end;
  k_ser_sk := w_ser_scalar C;
  k_deser_sk := w_deser_scalar C;
  k_pub := fun sk => w_mul C (w_base C) sk;
  k_dh := fun pk sk => w_ser C (w_mul C pk sk);
  k_derive := fun h oprf_id seed =>
    derive_auth_keypair_default
      (fun h' m dst => let k := w_hash_to_scalar C h' m dst in
                       if w_is_zero C k then None else Some k)
      (w_is_zero C) h oprf_id seed;
|}.

(* ristretto255.rs: hash_to_scalar may return zero; the counter loop retries *)
Definition ke_ristretto : KeOps bytes Z := {|
  k_Npk := 32%nat;
  k_Nsk := 32%nat;
  k_ser_pk := fun p => p;
  k_deser_pk := rb_deser;
  k_ser_sk := r_ser_scalar;
  k_deser_sk := r_deser_scalar;
  k_pub := fun sk => r_ser (r_mul r_base sk);
  k_dh := fun pk sk => rb_mul pk sk;
  k_derive := fun h oprf_id seed =>
    derive_auth_keypair_default
      (fun h' m dst => Some (r_hash_to_scalar h' m dst)) r_is_zero h oprf_id seed;
|}.

(* curve25519.rs: raw u-coordinates, clamped scalars; derive_auth_keypair = clamp *)
Definition ke_x25519 : KeOps bytes bytes := {|
  k_Npk := 32%nat;
  k_Nsk := 32%nat;
  k_ser_pk := fun pk => pk;
  k_deser_pk := x_deser_pk;
  k_ser_sk := fun sk => sk;
  k_deser_sk := x_deser_sk;
  k_pub := fun sk => x25519 sk x25519_base;
  k_dh := fun pk sk => x25519 sk pk;
  k_derive := fun _ _ seed => Some (clamp seed);
|}.

(* ---------------------------------------------------------------- suites *)
Definition mk_suite {E Sc Pk Sk} (h : HashOps) (O : OprfOps E Sc) (K : KeOps Pk Sk) : Suite E Sc Pk Sk :=
  {| hash := h; oprf := O; ke := K; ksf_default := fun x => Some x |}.

Definition O_R255 := oprf_ristretto SHA512.
Definition O_P256 := oprf_weierstrass P256 SHA256 "P256-SHA256".
Definition O_P384 := oprf_weierstrass P384 SHA384 "P384-SHA384".
Definition O_P521 := oprf_weierstrass P521 SHA512 "P521-SHA512".
Definition K_R255 := ke_ristretto.
Definition K_P256 := ke_weierstrass P256.
Definition K_P384 := ke_weierstrass P384.
Definition K_P521 := ke_weierstrass P521.
Definition K_X25519 := ke_x25519.
