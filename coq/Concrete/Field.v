(* Modular arithmetic on Z (fuelled exponentiation), expand_message_xmd and
   hash_to_field (RFC 9380).  Executable definitions only. *)
From Coq Require Import List NArith ZArith Bool Arith.
From Coq Require Import Init.Byte.
From OKE Require Import Bytes Suite.
Import ListNotations.
Local Open Scope Z_scope.

(* b^e mod p, binary method, least significant bit first.  [fuel] bounds the
   bit length of e; 640 covers every exponent used here (< 2^522). *)
Fixpoint fpow_fuel (fuel : nat) (p b e acc : Z) : Z :=
  match fuel with
  | O => acc
  | S f =>
      if e =? 0 then acc
      else fpow_fuel f p (b * b mod p) (e / 2) (if e mod 2 =? 1 then acc * b mod p else acc)
  end.
Definition fpow (p b e : Z) : Z := fpow_fuel 640 p (b mod p) e 1.
Definition finv (p a : Z) : Z := fpow p a (p - 2).

Definition bytes_to_Z_be (b : bytes) : Z := Z.of_N (os2ip_be b).
Definition bytes_to_Z_le (b : bytes) : Z := Z.of_N (os2ip_le b).
Definition Z_to_bytes_be (len : nat) (z : Z) : bytes := be_bytes len (Z.to_N z).
Definition Z_to_bytes_le (len : nat) (z : Z) : bytes := le_bytes len (Z.to_N z).

Section Xmd.
  Variable h : HashOps.

  Definition ceil_div_nat (a b : nat) : nat := ((a + b - 1) / b)%nat.

  Fixpoint xmd_blocks (n : nat) (i : nat) (b0 prev dst_prime : bytes) : bytes :=
    match n with
    | O => []
    | S n' =>
        let bi := h_hash h (xor_bytes b0 prev ++ [byte_of_nat i] ++ dst_prime) in
        bi ++ xmd_blocks n' (S i) b0 bi dst_prime
    end.

  (* expand_message_xmd(msg, DST, len_in_bytes); DSTs here are short (< 256) *)
  Definition expand_message_xmd (msg dst : bytes) (len : nat) : bytes :=
    let ell := ceil_div_nat len (h_len h) in
    let dst_prime := dst ++ [byte_of_nat (length dst)] in
    let b0 := h_hash h (zeros (h_block h) ++ msg ++ be_bytes 2 (N.of_nat len) ++ [x00] ++ dst_prime) in
    let b1 := h_hash h (b0 ++ [x01] ++ dst_prime) in
    firstn len (b1 ++ xmd_blocks (ell - 1) 2 b0 b1 dst_prime).

  (* hash_to_field with m = 1: [count] elements of L bytes each, reduced mod [modulus] *)
  Fixpoint split_reduce (count L : nat) (modulus : Z) (u : bytes) : list Z :=
    match count with
    | O => []
    | S c => (bytes_to_Z_be (firstn L u) mod modulus) :: split_reduce c L modulus (skipn L u)
    end.
  Definition hash_to_field (msg dst : bytes) (count L : nat) (modulus : Z) : list Z :=
    split_reduce count L modulus (expand_message_xmd msg dst (count * L)).
End Xmd.
