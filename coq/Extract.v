(* Extraction of the executable model to OCaml (zarith-backed integers).
   Directives: ExtrOcamlBasic, ExtrOcamlZBigInt, plus the three bitwise
   operations on N that the library file omits (DESIGN.md 6). *)
From Coq Require Import NArith ZArith.
From OKE Require Import Bytes Suite Api Run.
Require Import Extraction ExtrOcamlBasic ExtrOcamlZBigInt.
Extract Constant N.lxor => "Big_int_Z.xor_big_int".
Extract Constant N.land => "Big_int_Z.and_big_int".
Extract Constant N.lor => "Big_int_Z.or_big_int".
Extraction "../ocaml/model.ml" run n2b b2n.
