(* A toy suite - the multiplicative group of Z_251, a 4-byte checksum "hash" - for which
   EVERY law the generic theorems assume (HashLaws, GroupLaws, CodecLaws) is PROVED, and on which
   the honest flow is evaluated inside Coq.  Purpose: non-vacuity.  The hypotheses of the
   generic theorems are jointly satisfiable, reachable states meet them, and the theorems'
   conclusions can be observed by computation.  (Nothing here is cryptographically meaningful.) *)
From Coq Require Import List NArith ZArith Arith Lia Bool.
From Coq Require Import Init.Byte.
From OKE Require Import Bytes Suite Generated Hkdf Voprf Messages Envelope TripleDH Opaque Api.
From OKE Require Import ListLemmas BytesLemmas ResultLemmas Codecs Laws Field.
Import ListNotations.
Local Open Scope Z_scope.

Definition q : Z := 251.

(* ---------------------------------------------------------------- a 4-byte "hash" *)
Definition toy_sum (m : bytes) : N := fold_left (fun acc x => (acc * 31 + b2n x + 7) mod 4294967296)%N m 5381%N.
Definition toy_hash (m : bytes) : bytes := be_bytes 4 (toy_sum m).
Definition toy_hmac (k m : bytes) : bytes := toy_hash (k ++ [x2a] ++ m ++ k).
Definition TOYHASH : HashOps := {| h_hash := toy_hash; h_len := 4; h_block := 8; h_hmac := toy_hmac |}.

Theorem toy_hash_laws : HashLaws TOYHASH.
Proof.
  constructor; cbn; intros; try lia; unfold toy_hmac, toy_hash; apply be_bytes_length.
Qed.

(* ---------------------------------------------------------------- Z_251^* *)
Definition hz (m : bytes) : Z := Z.of_N (toy_sum m).
Definition z2byte (z : Z) : bytes := [n2b (Z.to_N z)].
Definition byte2z (b : bytes) (lo hi : Z) : option Z :=
  match b with
  | [x] => let v := Z.of_N (b2n x) in if (lo <? v) && (v <? hi) then Some v else None
  | _ => None
  end.

Arguments byte2z : simpl never.
Arguments z2byte : simpl never.
Arguments fpow : simpl never.
Arguments hz : simpl never.
Arguments Z.mul : simpl never.
Arguments Z.add : simpl never.
Arguments Z.sub : simpl never.
Arguments Z.modulo : simpl never.

Definition toy_oprf : OprfOps Z Z := {|
  o_Noe := 1%nat; o_Nok := 1%nat;
  o_ser_e := z2byte; o_deser_e := fun b => byte2z b 0 q;
  o_ser_s := z2byte; o_deser_s := fun b => byte2z b 0 q;
  o_mul := fun P s => (P * s) mod q;
  o_inv := fun s => fpow q s (q - 2);
  o_eqb := Z.eqb;
  o_identity := 0;
  o_is_zero := fun s => s mod q =? 0;
  o_h2g := fun m d => 1 + hz (m ++ d) mod (q - 1);
  o_h2s := fun m d => 1 + hz (m ++ d) mod (q - 1);
  o_random_scalar := fun t => match t with x :: t' => Some (1 + Z.of_N (b2n x) mod (q - 1), t') | [] => None end;
  o_id := [x74; x6f; x79];
|}.

Definition gen : Z := 6.
Definition toy_ke : KeOps Z Z := {|
  k_Npk := 1%nat; k_Nsk := 1%nat;
  k_ser_pk := z2byte; k_deser_pk := fun b => byte2z b 0 q;
  k_ser_sk := z2byte; k_deser_sk := fun b => byte2z b 0 41;
  k_pub := fun s => fpow q gen s;
  k_dh := fun pk s => z2byte (fpow q pk s);
  k_derive := fun h id seed => Some (1 + hz (seed ++ id) mod 40);
|}.

Definition TOY : Suite Z Z Z Z :=
  {| hash := TOYHASH; oprf := toy_oprf; ke := toy_ke; ksf_default := fun x => Some x |}.

(* ---------------------------------------------------------------- finite checks, lifted *)
Definition zrange (lo : Z) (n : nat) : list Z := map (fun i => lo + Z.of_nat i) (seq 0 n).
Lemma in_zrange lo n z : lo <= z < lo + Z.of_nat n -> In z (zrange lo n).
Proof.
  intros H. unfold zrange. apply in_map_iff. exists (Z.to_nat (z - lo)). split; [lia|].
  apply in_seq. lia.
Qed.

Definition all1 (lo : Z) (n : nat) (f : Z -> bool) : bool := forallb f (zrange lo n).
Definition all2 (lo : Z) (n : nat) (f : Z -> Z -> bool) : bool := forallb (fun a => forallb (f a) (zrange lo n)) (zrange lo n).
Lemma all1_spec lo n f : all1 lo n f = true -> forall z, lo <= z < lo + Z.of_nat n -> f z = true.
Proof. unfold all1. intros H z Hz. eapply forallb_forall in H; [exact H|]. now apply in_zrange. Qed.
Lemma all2_spec lo n f : all2 lo n f = true -> forall a b, lo <= a < lo + Z.of_nat n -> lo <= b < lo + Z.of_nat n -> f a b = true.
Proof.
  unfold all2. intros H a b Ha Hb. eapply forallb_forall in H; [|apply in_zrange; exact Ha].
  eapply forallb_forall in H; [exact H | now apply in_zrange].
Qed.

Lemma byte_roundtrip z lo hi : 0 <= lo -> hi <= 256 -> lo < z < hi -> byte2z (z2byte z) lo hi = Some z.
Proof.
  intros Hlo Hhi Hz. unfold byte2z, z2byte. rewrite b2n_n2b by lia. rewrite Z2N.id by lia.
  destruct (Z.ltb_spec lo z); [|lia]. destruct (Z.ltb_spec z hi); [|lia]. reflexivity.
Qed.
Lemma byte2z_inv b lo hi z : byte2z b lo hi = Some z -> lo < z < hi /\ b = z2byte z /\ length b = 1%nat.
Proof.
  unfold byte2z. destruct b as [|x [|? ?]]; try discriminate.
  destruct (Z.ltb_spec lo (Z.of_N (b2n x))); [|discriminate].
  destruct (Z.ltb_spec (Z.of_N (b2n x)) hi); [|discriminate]. cbn [andb]. intros [= <-].
  split; [lia|]. split; [|reflexivity]. unfold z2byte. now rewrite N2Z.id, n2b_b2n.
Qed.

Lemma ve_iff e : ve TOY e <-> 0 < e < q.
Proof.
  unfold ve. cbn. split.
  - intros [H _]. now apply byte2z_inv in H as [H _].
  - intros H. split; [apply byte_roundtrip; unfold q in *; lia | reflexivity].
Qed.
Lemma vs_iff s : vs TOY s <-> 0 < s < q.
Proof. exact (ve_iff s). Qed.
Lemma vp_iff p : vp TOY p <-> 0 < p < q.
Proof. exact (ve_iff p). Qed.
Lemma vk_iff s : vk TOY s <-> 0 < s < 41.
Proof.
  unfold vk. cbn. split.
  - intros [H _]. now apply byte2z_inv in H as [H _].
  - intros H. split; [apply byte_roundtrip; unfold q in *; lia | reflexivity].
Qed.

Lemma chk_mul_valid : all2 1 250 (fun P s => let r := (P * s) mod q in (0 <? r) && (r <? q)) = true.
Proof. vm_compute. reflexivity. Qed.
Lemma chk_mul_inv : all2 1 250 (fun P r => ((P * r) mod q * fpow q r (q - 2)) mod q =? P) = true.
Proof. vm_compute. reflexivity. Qed.
Lemma chk_pub_valid : all1 1 40 (fun s => let r := fpow q gen s in (0 <? r) && (r <? q)) = true.
Proof. vm_compute. reflexivity. Qed.
Lemma chk_dh_sym : all2 1 40 (fun a b => fpow q (fpow q gen a) b =? fpow q (fpow q gen b) a) = true.
Proof. vm_compute. reflexivity. Qed.

Theorem toy_group_laws : GroupLaws TOY.
Proof.
  constructor.
  - intros P s HP Hs. apply ve_iff in HP. apply vs_iff in Hs. apply ve_iff. cbn.
    pose proof (all2_spec _ _ _ chk_mul_valid P s ltac:(unfold q in *; lia) ltac:(unfold q in *; lia)) as H. cbn beta zeta in H.
    apply andb_true_iff in H as [H1 H2]. apply Z.ltb_lt in H1, H2. lia.
  - intros P a b _ _ _. cbn. rewrite !Z.mul_mod_idemp_l by (unfold q; lia). f_equal. ring.
  - intros P r HP Hr. apply ve_iff in HP. apply vs_iff in Hr. cbn.
    pose proof (all2_spec _ _ _ chk_mul_inv P r ltac:(unfold q in *; lia) ltac:(unfold q in *; lia)) as H.
    now apply Z.eqb_eq in H.
  - intros t r t' H. cbn in H. destruct t as [|x t]; [discriminate|]. injection H as <- <-.
    apply vs_iff. pose proof (Z.mod_pos_bound (Z.of_N (b2n x)) (q - 1) ltac:(unfold q; lia)). unfold q in *. lia.
  - intros m d _. apply vs_iff. cbn. pose proof (Z.mod_pos_bound (hz (m ++ d)) (q - 1) ltac:(unfold q; lia)). unfold q in *. lia.
  - intros a b. cbn. apply Z.eqb_eq.
  - intros P HP. apply ve_iff in HP. cbn. destruct P; try reflexivity; lia.
  - intros b e H. cbn in H. apply byte2z_inv in H as (H & _ & _). now apply ve_iff.
  - intros b s _ H. cbn in H. apply byte2z_inv in H as (H & _ & _). now apply vs_iff.
  - intros h id seed s _ H. cbn in H. injection H as <-. apply vk_iff.
    pose proof (Z.mod_pos_bound (hz (seed ++ id)) 40 ltac:(lia)). lia.
  - intros s Hs. apply vk_iff in Hs. apply vp_iff. cbn.
    pose proof (all1_spec _ _ _ chk_pub_valid s ltac:(unfold q in *; lia)) as H. cbn beta zeta in H.
    apply andb_true_iff in H as [H1 H2]. apply Z.ltb_lt in H1, H2. lia.
  - intros a b Ha Hb. apply vk_iff in Ha, Hb. cbn. f_equal.
    pose proof (all2_spec _ _ _ chk_dh_sym a b ltac:(unfold q in *; lia) ltac:(unfold q in *; lia)) as H.
    now apply Z.eqb_eq in H.
  - intros p s _ _. reflexivity.
  - intros b p H. cbn in H. apply byte2z_inv in H as (H & _ & _). now apply vp_iff.
  - intros b s _ H. cbn in H. apply byte2z_inv in H as (H & _ & _). now apply vk_iff.
Qed.

Theorem toy_codec_laws : CodecLaws TOY.
Proof.
  constructor; cbn.
  - intros b pk H. apply byte2z_inv in H as (_ & -> & _). reflexivity.
  - intros b pk H. now apply byte2z_inv in H as (_ & _ & ->).
  - intros b s _ H. apply byte2z_inv in H as (_ & -> & _). reflexivity.
  - intros b s _ H. apply byte2z_inv in H as (_ & -> & _). reflexivity.
  - intros b e _. reflexivity.
Qed.

Theorem toy_size_laws : SizeLaws TOY.
Proof. constructor; cbn; lia. Qed.

(* the scalar action is free (used by Theory/WrongCredential.v): 251 is coprime to every valid element *)
Lemma chk_coprime : all1 1 250 (fun P => Z.gcd q P =? 1) = true.
Proof. vm_compute. reflexivity. Qed.

Theorem toy_action_free P a b : ve TOY P -> vs TOY a -> vs TOY b -> o_mul (oprf TOY) P a = o_mul (oprf TOY) P b -> a = b.
Proof.
  intros HP Ha Hb H. apply ve_iff in HP. apply vs_iff in Ha. apply vs_iff in Hb. cbn in H.
  pose proof (all1_spec _ _ _ chk_coprime P ltac:(unfold q in *; lia)) as Hg. apply Z.eqb_eq in Hg.
  assert (Hd : (q | P * (a - b))).
  { apply Z.mod_divide; [unfold q; lia|]. rewrite Z.mul_sub_distr_l, Zminus_mod, H, Z.sub_diag. reflexivity. }
  apply Z.gauss in Hd; [|exact Hg]. destruct Hd as [c Hc]. unfold q in *.
  assert (c = 0) by nia. subst c. lia.
Qed.
