(* Non-vacuity: the hypotheses of the property theorems are met by concrete, reachable states of the toy
   suite, and their conclusions are observed by evaluation inside Coq (vm_compute).  These are TESTS of
   the statements, not part of any proof. *)
From Coq Require Import List NArith ZArith Arith Lia Bool.
From Coq Require Import Init.Byte.
From OKE Require Import Bytes Suite Generated Hkdf Voprf Messages Envelope TripleDH Opaque Api.
From OKE Require Import Laws Codecs Honest Substituted Accept Bad KeySeparation WrongCredential AcceptedLogin World WorldCrash CrashInv FreshRanges HonestWorld WrongPassword WorldInv Toy.
Import ListNotations.

Definition tape0 : bytes := map (fun i => n2b (N.of_nat (i * 37 + 11))) (seq 0 300).
Definition pw0 : bytes := [x70; x61; x73; x73].
Definition cred0 : bytes := [x75; x31].
Definition ids0 : Identifiers := {| id_client := Some [x63]; id_server := None |}.

(* the whole honest flow, in memory, evaluated in Coq: it succeeds and the keys agree *)
Definition flow0 : response := do_flow TOY tape0 pw0 cred0 (Some [x78]) (Some [x63]) None KsNone.
Definition flow_ok (r : response) : bool :=
  match r with
  | ROk l =>
      match nth 10 l (TN 0), nth 11 l (TN 1), nth 4 l (TN 0), nth 12 l (TN 1), nth 5 l (TN 0), nth 13 l (TN 1) with
      | TB a, TB b, TB c, TB d, TB e, TB f => bytes_eqb a b && bytes_eqb c d && bytes_eqb e f && negb (bytes_eqb a c)
      | _, _, _, _, _, _ => false
      end
  | _ => false
  end.
Example toy_honest_flow_agrees : flow_ok flow0 = true.
Proof. vm_compute. reflexivity. Qed.

(* the premises of C01 / C06 / C16, step by step, on the same tape *)
Definition the {A} (d : A) (r : result A) : A := match r with Ok a => a | Err _ => d end.
Definition kp0 : KeyPair Z Z := {| kp_pk := 0%Z; kp_sk := 0%Z |}.
Definition d_setup : ServerSetup Z Z Z * bytes := ({| ss_oprf_seed := []; ss_keypair := kp0; ss_fake_keypair := kp0 |}, []).
Definition d_env : Envelope := {| env_internal := true; env_nonce := []; env_hmac := [] |}.
Definition d_upload : RegistrationUpload Z := {| ru_envelope := d_env; ru_masking_key := []; ru_client_s_pk := 0%Z |}.
Definition d_ke1 : Ke1Message Z := {| k1_nonce := []; k1_client_e_pk := 0%Z |}.
Definition d_rq : CredentialRequest Z Z := {| cq_blinded := 0%Z; cq_ke1 := d_ke1 |}.
Definition d_clog : ClientLogin Z Z Z Z := {| cl_blind := 0%Z; cl_ke1_state := {| k1s_client_e_sk := 0%Z; k1s_nonce := [] |}; cl_request := d_rq |}.
Definition d_slog : ServerLogin := {| sl_km3 := []; sl_hashed_transcript := []; sl_session_key := [] |}.
Definition d_resp : CredentialResponse Z Z :=
  {| cr_eval := 0%Z; cr_masking_nonce := []; cr_masked := {| mr_nonce := []; mr_hash := []; mr_pk := [] |};
     cr_ke2 := {| k2_nonce := []; k2_server_e_pk := 0%Z; k2_mac := [] |} |}.

Definition r0 := the d_setup (server_setup_new TOY tape0).
Definition setup0 := fst r0.
Definition r1 := the ({| crs_blind := 0%Z; crs_blinded := 0%Z |}, {| rq_blinded := 0%Z |}, []) (client_registration_start TOY (snd r0) pw0).
Definition r2 := the {| rr_eval := 0%Z; rr_server_s_pk := 0%Z |} (server_registration_start TOY setup0 (snd (fst r1)) cred0).
Definition r3 := the (d_upload, [], 0%Z, []) (client_registration_finish TOY (fst (fst r1)) (snd r1) pw0 r2 ids0 None).
Definition upload0 := fst (fst (fst r3)).
Definition r4 := the (d_clog, d_rq, []) (client_login_start TOY (snd r3) pw0).
Definition r5 := the (d_slog, d_resp, [], ([], [])) 
  (server_login_start TOY (private_key_ops (ke TOY)) (snd r4) setup0 (Some (server_registration_finish upload0)) (snd (fst r4)) cred0 (Some [x78]) ids0).

Example toy_premises_of_C01 :
    ve TOY (o_h2g (oprf TOY) pw0 (dst_hash_to_group (oprf TOY))) /\
    server_setup_new TOY tape0 = Ok (setup0, snd r0) /\
    client_registration_start TOY (snd r0) pw0 = Ok (fst (fst r1), snd (fst r1), snd r1) /\
    server_registration_start TOY setup0 (snd (fst r1)) cred0 = Ok r2 /\
    client_registration_finish TOY (fst (fst r1)) (snd r1) pw0 r2 ids0 None = Ok (upload0, snd (fst (fst r3)), snd (fst r3), snd r3) /\
    client_login_start TOY (snd r3) pw0 = Ok (fst (fst r4), snd (fst r4), snd r4) /\
    server_login_start TOY (private_key_ops (ke TOY)) (snd r4) setup0 (Some (server_registration_finish upload0)) (snd (fst r4)) cred0 (Some [x78]) ids0
      = Ok (fst (fst (fst r5)), snd (fst (fst r5)), snd (fst r5), snd r5) /\
    o_eqb (oprf TOY) (cq_blinded (snd (fst r4))) (cr_eval (snd (fst (fst r5)))) = false.
Proof.
  split; [apply ve_iff; vm_compute; split; reflexivity|].
  repeat split; vm_compute; reflexivity.
Qed.

(* hence the conclusion of C01 holds for it - obtained from the THEOREM, with every law discharged *)
Example toy_C01_conclusion :
  exists ke3 sk dbg',
    client_login_finish TOY (fst (fst r4)) pw0 (snd (fst (fst r5))) (Some [x78]) ids0 None
      = Ok (ke3, sk, snd (fst (fst r3)), snd (fst r3), dbg') /\
    server_login_finish TOY (fst (fst (fst r5))) ke3 = Ok sk /\
    snd (fst r3) = kp_pk (ss_keypair setup0).
Proof.
  destruct toy_premises_of_C01 as (HP & H0 & H1 & H2 & H3 & H4 & H5 & H6).
  destruct (honest_login_agrees TOY toy_hash_laws toy_group_laws _ _ _ _ _ _ _ _ _ _ _ _ _ _ _ _ _ _ _ _ _ _ _
              HP H0 H1 H2 H3 H4 H5 H6) as (ke3 & sk & dbg' & Hc & Hs & Hk & _).
  exists ke3, sk, dbg'. auto.
Qed.

(* C06 on the toy suite: an impostor setup with the same seed and another static key; the theorem's
   disjunction resolves to the rejection (no collision occurs here) *)
Definition setup_imp : ServerSetup Z Z Z :=
  {| ss_oprf_seed := ss_oprf_seed setup0; ss_keypair := {| kp_pk := k_pub (ke TOY) 7%Z; kp_sk := 7%Z |};
     ss_fake_keypair := ss_fake_keypair setup0 |}.
Definition r5i := the (d_slog, d_resp, [], ([], []))
  (server_login_start TOY (private_key_ops (ke TOY)) (snd r4) setup_imp (Some (server_registration_finish upload0)) (snd (fst r4)) cred0 (Some [x78]) ids0).
Example toy_C06_impostor_rejected :
  kp_sk (ss_keypair setup0) <> 7%Z /\
  client_login_finish TOY (fst (fst r4)) pw0 (snd (fst (fst r5i))) (Some [x78]) ids0 None = Err EInvalidLogin.
Proof. split; [vm_compute; discriminate | vm_compute; reflexivity]. Qed.

(* C03 on a concrete pending state: the expected MAC is accepted, its bit-flip is not *)
Definition st0 : ServerLogin := {| sl_km3 := [x01; x02; x03; x04]; sl_hashed_transcript := [x05; x06; x07; x08]; sl_session_key := [x09; x0a; x0b; x0c] |}.
Example toy_C03 :
  server_login_finish TOY st0 {| cf_mac := toy_hmac [x01; x02; x03; x04] [x05; x06; x07; x08] |} = Ok [x09; x0a; x0b; x0c] /\
  server_login_finish TOY st0 {| cf_mac := [x00; x00; x00; x00] |} = Err EInvalidLogin.
Proof. split; vm_compute; reflexivity. Qed.

(* C05 / C14 on the toy suite: the server evaluates the same request under ANOTHER credential identifier (same setup,
   same record, same password): the server step succeeds and the client's final step fails *)
Definition cred1 : bytes := [x75; x32].
Definition r5c := the (d_slog, d_resp, [], ([], []))
  (server_login_start TOY (private_key_ops (ke TOY)) (snd r4) setup0 (Some (server_registration_finish upload0)) (snd (fst r4)) cred1 (Some [x78]) ids0).
Example toy_C05_other_credential_identifier_rejected :
  server_login_start TOY (private_key_ops (ke TOY)) (snd r4) setup0 (Some (server_registration_finish upload0)) (snd (fst r4)) cred1 (Some [x78]) ids0
    = Ok (fst (fst (fst r5c)), snd (fst (fst r5c)), snd (fst r5c), snd r5c) /\
  client_login_finish TOY (fst (fst r4)) pw0 (snd (fst (fst r5c))) (Some [x78]) ids0 None = Err EInvalidLogin.
Proof. split; vm_compute; reflexivity. Qed.

(* ... as the theorem says, with every law (the free scalar action included) discharged for the toy suite: had the
   client accepted, a collision would have been exhibited *)
Example toy_C05_theorem_instance :
  forall out, client_login_finish TOY (fst (fst r4)) pw0 (snd (fst (fst r5c))) (Some [x78]) ids0 None = Ok out ->
              BadS TOY \/ BadOprfDerive TOY.
Proof.
  intros out Hacc.
  destruct toy_premises_of_C01 as (HP & H0 & H1 & H2 & H3 & H4 & _ & _).
  destruct toy_C05_other_credential_identifier_rejected as [H5 _].
  refine (mismatched_login_never_accepted TOY toy_hash_laws toy_group_laws Z.eq_dec toy_action_free
            _ _ _ _ _ _ _ _ _ _ _ _ _ _ _ _ _ _ _ _ _ _ _ _ _ _ HP HP H0 H1 H2 H3 _ H4 H5 Hacc).
  right. vm_compute. discriminate.
Qed.

(* C13 over histories on the toy suite: an honest login with a crash and restore of every party between all steps
   reaches the same world as the uninterrupted one, and that world holds one completed session on each side with
   equal keys (evaluated; then the same equality from the theorem) *)
Definition fin0 : CredentialFinalization :=
  match client_login_finish TOY (fst (fst r4)) pw0 (snd (fst (fst r5))) (Some [x78]) ids0 None with
  | Ok (f, _, _, _, _) => f | Err _ => {| cf_mac := [] |} end.
Definition hist0 : list (cop (E := Z) (Pk := Z)) :=
  [ CReloadSetup; CStep (OClientStart pw0); CReloadClient 0; CReloadSetup;
    CStep (OServerStart (Some (server_registration_finish upload0)) cred0 (Some [x78]) ids0 (snd (fst r4)));
    CReloadServer 0; CReloadClient 0; CReloadServer 7;
    CStep (OClientFinish 0 (snd (fst (fst r5))) (Some [x78]) ids0); CReloadServer 0; CReloadSetup;
    CStep (OServerFinish 0 fin0); CReloadClient 0 ].
Definition w0 := @init Z Z Z Z setup0 (snd r3).
Definition keys_of (w : World (E := Z) (Sc := Z) (Pk := Z) (Sk := Z)) : list bytes * list bytes :=
  (map cd_key (w_cdone w), map sd_key (w_sdone w)).
Example toy_C13_history_with_crashes :
  match crun TOY w0 hist0 with
  | Ok w => keys_of w = keys_of (run TOY w0 (erase hist0)) /\
            match keys_of w with ([k1], [k2]) => bytes_eqb k1 k2 = true | _ => False end
  | Err _ => False
  end.
Proof. vm_compute. split; reflexivity. Qed.

Example toy_C13_theorem_instance : crun TOY w0 hist0 = Ok (run TOY w0 (erase hist0)).
Proof.
  destruct toy_premises_of_C01 as (HP & H0 & _).
  apply (crashes_change_nothing TOY toy_hash_laws toy_group_laws tape0 setup0 (snd r0) (snd r3) hist0 H0).
  intros pw Hin. cbn in Hin.
  repeat match goal with H : _ \/ _ |- _ => destruct H as [H|H]; try discriminate H end; try contradiction.
  injection Hin as <-. exact HP.
Qed.

(* C08 / C17 over histories on the toy suite: three login attempts for one request - no record, the real record, no
   record again - on one tape: the world has three server sessions, and the theorem (with the sampler law proved for the
   toy suite below) places the random fields of the first and of the third attempt in disjoint ranges of that tape *)
Lemma toy_sampler_prefix : sampler_prefix TOY.
Proof. intros t r t' H. cbn in H. destruct t as [|x t]; [discriminate|]. injection H as _ <-. now exists [x]. Qed.

Definition hist1 : list (op (E := Z) (Pk := Z)) :=
  [ OClientStart pw0;
    OServerStart None cred0 (Some [x78]) ids0 (snd (fst r4));
    OServerStart (Some (server_registration_finish upload0)) cred0 (Some [x78]) ids0 (snd (fst r4));
    OServerStart None cred0 (Some [x78]) ids0 (snd (fst r4)) ].
Definition w1 := run TOY w0 hist1.
Example toy_three_attempts : length (w_srv w1) = 3 /\
  match w_srv w1 with
  | [a; b; c] => negb (bytes_eqb (cr_masking_nonce (sv_resp a)) (cr_masking_nonce (sv_resp c))) &&
                 negb (bytes_eqb (k2_nonce (cr_ke2 (sv_resp a))) (k2_nonce (cr_ke2 (sv_resp c)))) &&
                 negb (bytes_eqb (mr_nonce (cr_masked (sv_resp a)) ++ mr_hash (cr_masked (sv_resp a)) ++ mr_pk (cr_masked (sv_resp a)))
                                 (mr_nonce (cr_masked (sv_resp c)) ++ mr_hash (cr_masked (sv_resp c)) ++ mr_pk (cr_masked (sv_resp c)))) = true
  | _ => False
  end.
Proof. vm_compute. split; reflexivity. Qed.

Definition d_cli : CliSession (E := Z) (Sc := Z) (Pk := Z) (Sk := Z) := {| cs_pw := []; cs_state := d_clog |}.
Definition d_srv : SrvSession (E := Z) (Pk := Z) :=
  {| sv_file := None; sv_cred := []; sv_ctx := None; sv_ids := ids0; sv_rq := d_rq; sv_state := d_slog; sv_resp := d_resp |}.
Definition srv0 := nth 0 (w_srv w1) d_srv.
Definition srv2 := nth 2 (w_srv w1) d_srv.
Lemma toy_fr_0 : nth_error (w_srv (run TOY (init setup0 (snd r3)) hist1)) 0 = Some srv0. Proof. vm_compute. reflexivity. Qed.
Lemma toy_fr_2 : nth_error (w_srv (run TOY (init setup0 (snd r3)) hist1)) 2 = Some srv2. Proof. vm_compute. reflexivity. Qed.

Example toy_attempts_theorem_instance :
  exists tj fj ej mid fk ek restk,
    tj = fj ++ cr_masking_nonce (sv_resp srv0) ++ ej ++ k2_nonce (cr_ke2 (sv_resp srv0)) ++ mid ++
         fk ++ cr_masking_nonce (sv_resp srv2) ++ ek ++ k2_nonce (cr_ke2 (sv_resp srv2)) ++ restk /\
    suffix tj (snd r3).
Proof.
  destruct (attempts_draw_from_disjoint_ranges TOY toy_sampler_prefix setup0 (snd r3) hist1 0 2 srv0 srv2 ltac:(lia) toy_fr_0 toy_fr_2)
    as (tj & fj & nj & ej & mj & mid & fk & nk & ek & mk & restk & Ht & -> & -> & -> & -> & _ & _ & _ & _ & _ & _ & _ & _ & _ & _ & Hs).
  exists tj, fj, ej, mid, fk, ek, restk. split; assumption.
Qed.

(* C15 on the toy suite: registered under the default stretching function (the identity), login with an instance that
   reverses its input: the server step is the honest one (r5), the client's final step fails; and the theorem, with
   every law discharged, says an acceptance would have exhibited a collision or an agreement of the two functions *)
Definition rev_ksf : ksf_fn := fun y => Some (rev y).
Example toy_C15_other_stretching_rejected :
  client_login_finish TOY (fst (fst r4)) pw0 (snd (fst (fst r5))) (Some [x78]) ids0 (Some rev_ksf) = Err EInvalidLogin.
Proof. vm_compute. reflexivity. Qed.

Example toy_C15_theorem_instance :
  forall out, client_login_finish TOY (fst (fst r4)) pw0 (snd (fst (fst r5))) (Some [x78]) ids0 (Some rev_ksf) = Ok out ->
    (exists y z, apply_ksf TOY None y = Some z /\ apply_ksf TOY (Some rev_ksf) y = Some z) \/ BadS TOY \/ BadOprfDerive TOY.
Proof.
  intros out Hacc.
  destruct toy_premises_of_C01 as (HP & H0 & H1 & H2 & H3 & H4 & H5 & _).
  destruct (accepted_login_used_the_registrations_secrets TOY toy_hash_laws toy_group_laws Z.eq_dec toy_action_free
              _ _ _ _ _ _ _ _ _ _ _ _ _ _ _ _ _ _ _ _ _ _ _ _ _ _ _ HP HP H0 H1 H2 H3 H4 H5 Hacc)
    as [(_ & _ & y & z & Ha & Hb & _)|HB]; [left; eauto | right; exact HB].
Qed.

(* C01 over histories on the toy suite: in the world of the three attempts above, the honest delivery (client session 0,
   server session 1 - the one started on the real record) completes; from the theorem, every law discharged.
   (Premises are closed computations, each proved by vm_compute on its own.) *)
Definition cli0 := nth 0 (w_cli w1) d_cli.
Definition srv1 := nth 1 (w_srv w1) d_srv.
Lemma toy_hw_c : nth_error (w_cli (run TOY (init setup0 (snd r3)) hist1)) 0 = Some cli0. Proof. vm_compute. reflexivity. Qed.
Lemma toy_hw_s : nth_error (w_srv (run TOY (init setup0 (snd r3)) hist1)) 1 = Some srv1. Proof. vm_compute. reflexivity. Qed.
Lemma toy_hw_pw : cs_pw cli0 = pw0. Proof. vm_compute. reflexivity. Qed.
Lemma toy_hw_file : sv_file srv1 = Some (server_registration_finish upload0). Proof. vm_compute. reflexivity. Qed.
Lemma toy_hw_cred : sv_cred srv1 = cred0. Proof. vm_compute. reflexivity. Qed.
Lemma toy_hw_ids : sv_ids srv1 = ids0. Proof. vm_compute. reflexivity. Qed.
Lemma toy_hw_rq : sv_rq srv1 = cl_request (cs_state cli0). Proof. vm_compute. reflexivity. Qed.
Lemma toy_hw_nr : o_eqb (oprf TOY) (cq_blinded (sv_rq srv1)) (cr_eval (sv_resp srv1)) = false. Proof. vm_compute. reflexivity. Qed.
Lemma toy_hw_good : forall pw', In (OClientStart pw') hist1 -> good_pw TOY pw'.
Proof.
  intros pw' Hin. destruct toy_premises_of_C01 as (HP & _).
  cbn [hist1 In] in Hin. destruct Hin as [Hin|[Hin|[Hin|[Hin|[]]]]]; try discriminate Hin. injection Hin as <-. exact HP.
Qed.

Example toy_C01_history_instance :
  exists fin key dbg,
    client_login_finish TOY (cs_state cli0) pw0 (sv_resp srv1) (sv_ctx srv1) ids0 None = Ok (fin, key, snd (fst (fst r3)), snd (fst r3), dbg) /\
    server_login_finish TOY (sv_state srv1) fin = Ok key.
Proof.
  destruct toy_premises_of_C01 as (_ & H0 & H1 & H2 & H3 & _).
  exact (honest_delivery_completes TOY toy_hash_laws toy_group_laws tape0 setup0 (snd r0) (snd r3) hist1
           _ _ _ _ _ _ _ _ _ _ _ _ _ 0 cli0 1 srv1 H0 toy_hw_good H1 H2 H3
           toy_hw_c toy_hw_pw toy_hw_s toy_hw_file toy_hw_cred toy_hw_ids toy_hw_rq toy_hw_nr).
Qed.

(* C02 on the toy suite: the same registration, a login with ANOTHER password against the honest server on the
   registration's record: the client's final step fails with the invalid-login error (evaluated); and the theorem,
   every law discharged, says an acceptance would have exhibited a collision *)
Definition pw_other : bytes := [x70; x61; x73; x74].
Definition r4w := the (d_clog, d_rq, []) (client_login_start TOY (snd r3) pw_other).
Definition r5w := the (d_slog, d_resp, [], ([], []))
  (server_login_start TOY (private_key_ops (ke TOY)) (snd r4w) setup0 (Some (server_registration_finish upload0)) (snd (fst r4w)) cred0 (Some [x78]) ids0).
Lemma toy_C02_pw1 : ve TOY (o_h2g (oprf TOY) pw_other (dst_hash_to_group (oprf TOY))).
Proof. apply ve_iff; vm_compute; split; reflexivity. Qed.
Lemma toy_C02_start : client_login_start TOY (snd r3) pw_other = Ok (fst (fst r4w), snd (fst r4w), snd r4w).
Proof. vm_compute. reflexivity. Qed.
Lemma toy_C02_server :
  server_login_start TOY (private_key_ops (ke TOY)) (snd r4w) setup0 (Some (server_registration_finish upload0)) (snd (fst r4w)) cred0 (Some [x78]) ids0
    = Ok (fst (fst (fst r5w)), snd (fst (fst r5w)), snd (fst r5w), snd r5w).
Proof. vm_compute. reflexivity. Qed.
Example toy_C02_wrong_password_rejected :
  pw_other <> pw0 /\ client_login_finish TOY (fst (fst r4w)) pw_other (snd (fst (fst r5w))) (Some [x78]) ids0 None = Err EInvalidLogin.
Proof. split; [discriminate | vm_compute; reflexivity]. Qed.
Example toy_C02_theorem_instance :
  forall out, client_login_finish TOY (fst (fst r4w)) pw_other (snd (fst (fst r5w))) (Some [x78]) ids0 None = Ok out -> BadS TOY.
Proof.
  intros out Hacc.
  destruct toy_premises_of_C01 as (HP & H0 & H1 & H2 & H3 & _).
  exact (wrong_password_never_accepted TOY toy_hash_laws toy_group_laws Z.eq_dec
           _ _ _ _ _ _ _ _ _ _ _ _ _ _ _ _ _ _ _ _ _ _ _ _ _ HP toy_C02_pw1 H0 H1 H2 H3
           (proj1 toy_C02_wrong_password_rejected) toy_C02_start toy_C02_server Hacc).
Qed.

(* C07 on the toy suite: the world of the three attempts, then the adversary delivers the real record's response
   (server session 1) to client session 0 and that client's finalization to server session 1: one client and one
   server completion; the theorems on every reachable world, every law discharged, then give the matching
   conversation (or a collision of the toy hash) and the accepted finalization's MAC *)
Definition d_cdone : CliDone (E := Z) (Pk := Z) :=
  {| cd_client := 0; cd_resp := d_resp; cd_ctx := None; cd_ids := ids0; cd_fin := {| cf_mac := [] |}; cd_key := []; cd_export := []; cd_spk := 0%Z |}.
Definition hist2a := hist1 ++ [OClientFinish 0 (sv_resp srv1) (Some [x78]) ids0].
Definition done0 := nth 0 (w_cdone (run TOY (init setup0 (snd r3)) hist2a)) d_cdone.
Definition hist2 := hist2a ++ [OServerFinish 1 (cd_fin done0)].
Definition d_sdone : SrvDone := {| sd_server := 0; sd_fin := {| cf_mac := [] |}; sd_key := [] |}.
Definition sdone0 := nth 0 (w_sdone (run TOY (init setup0 (snd r3)) hist2)) d_sdone.
Lemma toy_C07_cd : In done0 (w_cdone (run TOY (init setup0 (snd r3)) hist2)). Proof. vm_compute. left. reflexivity. Qed.
Lemma toy_C07_sd : In sdone0 (w_sdone (run TOY (init setup0 (snd r3)) hist2)). Proof. vm_compute. left. reflexivity. Qed.
Lemma toy_C07_srv : In srv1 (w_srv (run TOY (init setup0 (snd r3)) hist2)). Proof. vm_compute. right. left. reflexivity. Qed.
Lemma toy_C07_file : sv_file srv1 = Some (server_registration_finish upload0). Proof. vm_compute. reflexivity. Qed.
Lemma toy_C07_mac : k2_mac (cr_ke2 (cd_resp done0)) = k2_mac (cr_ke2 (sv_resp srv1)). Proof. vm_compute. reflexivity. Qed.
Lemma toy_C07_cli : nth_error (w_cli (run TOY (init setup0 (snd r3)) hist2)) (cd_client done0) = Some cli0. Proof. vm_compute. reflexivity. Qed.
Example toy_C07_completions :
  length (w_cdone (run TOY (init setup0 (snd r3)) hist2)) = 1 /\ length (w_sdone (run TOY (init setup0 (snd r3)) hist2)) = 1 /\ cd_key done0 = sd_key sdone0 /\ cd_key done0 <> [].
Proof. vm_compute. repeat split; discriminate. Qed.
Example toy_C07_matched_instance :
  (cd_key done0 = sl_session_key (sv_state srv1) /\  match cd_ctx done0 with Some x => x | None => [] end = match sv_ctx srv1 with Some x => x | None => [] end)
  \/ Bad (hash TOY).
Proof.
  destruct (matched_conversations TOY toy_hash_laws toy_group_laws setup0 (snd r3) hist2 done0 srv1 _
              toy_C07_cd toy_C07_srv toy_C07_file toy_C07_mac cli0 toy_C07_cli) as [(_ & _ & _ & _ & Hc & Hk)|HB];
    [vm_compute; reflexivity | vm_compute; reflexivity | vm_compute; reflexivity | left; split; assumption | right; exact HB].
Qed.
Example toy_C07_server_completion_instance :
  exists s, nth_error (w_srv (run TOY (init setup0 (snd r3)) hist2)) (sd_server sdone0) = Some s /\   cf_mac (sd_fin sdone0) = h_hmac (hash TOY) (sl_km3 (sv_state s)) (sl_hashed_transcript (sv_state s)) /\   sd_key sdone0 = sl_session_key (sv_state s).
Proof. exact (server_completions TOY setup0 (snd r3) hist2 sdone0 toy_C07_sd). Qed.
