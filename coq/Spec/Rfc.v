(* RFC 9807 (OPAQUE-3DH) and RFC 9497 (OPRF, mode 0) pseudocode, transcribed function by function over
   the same [Suite] record, in the RFC's own shape (structures as their wire encodings, nil identities,
   Derive-Secret / Expand-Label / CustomLabel, expected_client_mac in the server state, ...).
   Theory/Refines.v proves that the code-shaped model of Model/*.v computes exactly these functions.
   Transcribed from memory (no network); anchored by the RFC vectors embedded in the repository, which
   the C09 check replays through the model and the crate. *)
From Coq Require Import List NArith Bool Arith String.
From Coq Require Import Init.Byte.
From OKE Require Import Bytes Suite Generated Labels Hkdf.
Import ListNotations.

Section Rfc.
  Context {E Sc Pk Sk : Type}.
  Variable CS : Suite E Sc Pk Sk.
  Let h := hash CS.
  Let OP := oprf CS.
  Let K := ke CS.
  Let Nh := h_len (hash CS).
  Let Nn := 32.

  Definition I2OSP (n len : nat) : option bytes := i2osp_nat len n.
  Definition Hash := h_hash h.
  Definition MAC := h_hmac h.
  Definition Extract (salt ikm : bytes) : bytes := h_hmac h (match salt with [] => zeros Nh | _ => salt end) ikm.
  Definition Expand (prk info : bytes) (L : nat) : option bytes := hkdf_expand h prk info L.

  (* opaque x<0..2^16-1> and opaque x<0..255> *)
  Definition vec16 (x : bytes) : option bytes := match I2OSP (List.length x) 2 with Some l => Some (l ++ x) | None => None end.
  Definition vec8 (x : bytes) : option bytes := match I2OSP (List.length x) 1 with Some l => Some (l ++ x) | None => None end.

  (* ---------------------------------------------------------------- RFC 9497 *)
  Definition contextString : bytes := bytes_of_string "OPRFV1-" ++ [x00] ++ bytes_of_string "-" ++ o_id OP.

  (* Finalize(input, blind, evaluatedElement) *)
  Definition Finalize (input : bytes) (blind : Sc) (evaluatedElement : E) : option bytes :=
    let N := o_mul OP evaluatedElement (o_inv OP blind) in
    let unblindedElement := o_ser_e OP N in
    match vec16 input, vec16 unblindedElement with
    | Some a, Some b => Some (Hash (a ++ b ++ bytes_of_string "Finalize"))
    | _, _ => None
    end.

  Definition BlindEvaluate (skS : Sc) (blindedElement : E) : E := o_mul OP blindedElement skS.

  (* DeriveKeyPair(seed, info): counter loop *)
  Fixpoint DeriveKeyPair_loop (deriveInput : bytes) (counter fuel : nat) : option Sc :=
    match fuel with
    | O => None
    | S f =>
        let skS := o_h2s OP (deriveInput ++ [byte_of_nat counter]) (bytes_of_string "DeriveKeyPair" ++ contextString) in
        if o_is_zero OP skS then DeriveKeyPair_loop deriveInput (S counter) f else Some skS
    end.
  Definition DeriveKeyPair (seed info : bytes) : option Sc :=
    match vec16 info with
    | Some i => DeriveKeyPair_loop (seed ++ i) 0 256
    | None => None
    end.

  (* ---------------------------------------------------------------- RFC 9807: envelope *)
  (* CleartextCredentials { server_public_key[Npk]; server_identity<1..2^16-1>; client_identity<1..2^16-1> } *)
  Definition CreateCleartextCredentials (server_public_key client_public_key : bytes)
             (server_identity client_identity : option bytes) : option bytes :=
    let sid := match server_identity with None => server_public_key | Some x => x end in
    let cid := match client_identity with None => client_public_key | Some x => x end in
    match vec16 sid, vec16 cid with
    | Some s, Some c => Some (server_public_key ++ s ++ c)
    | _, _ => None
    end.

  Record StoreResult := { sr_envelope : bytes; sr_client_public_key : bytes; sr_masking_key : bytes; sr_export_key : bytes }.

  (* Store(randomized_password, server_public_key, server_identity, client_identity), with the nonce made explicit *)
  Definition Store (envelope_nonce randomized_password server_public_key : bytes) (server_identity client_identity : option bytes)
    : option StoreResult :=
    match Expand randomized_password (bytes_of_string "MaskingKey") Nh,
          Expand randomized_password (envelope_nonce ++ bytes_of_string "AuthKey") Nh,
          Expand randomized_password (envelope_nonce ++ bytes_of_string "ExportKey") Nh,
          Expand randomized_password (envelope_nonce ++ bytes_of_string "PrivateKey") (k_Nsk K) with
    | Some masking_key, Some auth_key, Some export_key, Some seed =>
        match k_derive K h (o_id OP) seed with
        | Some sk =>
            let client_public_key := k_ser_pk K (k_pub K sk) in
            match CreateCleartextCredentials server_public_key client_public_key server_identity client_identity with
            | Some cc =>
                let auth_tag := MAC auth_key (envelope_nonce ++ cc) in
                Some {| sr_envelope := envelope_nonce ++ auth_tag; sr_client_public_key := client_public_key;
                        sr_masking_key := masking_key; sr_export_key := export_key |}
            | None => None
            end
        | None => None
        end
    | _, _, _, _ => None
    end.

  (* ---------------------------------------------------------------- RFC 9807: 3DH *)
  (* struct { uint16 length; opaque label<8..255> = "OPAQUE-" + Label; uint8 context<0..255>; } CustomLabel *)
  Definition CustomLabel (L : nat) (label context : bytes) : option bytes :=
    match I2OSP L 2, vec8 (bytes_of_string "OPAQUE-" ++ label), vec8 context with
    | Some a, Some b, Some c => Some (a ++ b ++ c)
    | _, _, _ => None
    end.
  Definition Expand_Label (secret label context : bytes) (L : nat) : option bytes :=
    match CustomLabel L label context with Some cl => Expand secret cl L | None => None end.
  Definition Derive_Secret (secret label transcript_hash : bytes) : option bytes :=
    Expand_Label secret label transcript_hash Nh.

  Definition Preamble (context client_identity ke1 server_identity credential_response server_nonce server_public_keyshare : bytes)
    : option bytes :=
    match vec16 context, vec16 client_identity, vec16 server_identity with
    | Some c, Some ci, Some si =>
        Some (bytes_of_string "OPAQUEv1-" ++ c ++ ci ++ ke1 ++ si ++ credential_response ++ server_nonce ++ server_public_keyshare)
    | _, _, _ => None
    end.

  Record Keys := { Km2 : bytes; Km3 : bytes; rfc_session_key : bytes; rfc_handshake_secret : bytes }.
  Definition DeriveKeys (ikm preamble : bytes) : option Keys :=
    let prk := Extract [] ikm in
    match Derive_Secret prk (bytes_of_string "HandshakeSecret") (Hash preamble),
          Derive_Secret prk (bytes_of_string "SessionKey") (Hash preamble) with
    | Some handshake_secret, Some session_key =>
        match Derive_Secret handshake_secret (bytes_of_string "ServerMAC") [],
              Derive_Secret handshake_secret (bytes_of_string "ClientMAC") [] with
        | Some km2, Some km3 => Some {| Km2 := km2; Km3 := km3; rfc_session_key := session_key; rfc_handshake_secret := handshake_secret |}
        | _, _ => None
        end
    | _, _ => None
    end.

  (* AuthServerRespond: server_mac and the state (expected_client_mac, session_key) *)
  Definition server_mac (keys : Keys) (preamble : bytes) : bytes := MAC (Km2 keys) (Hash preamble).
  Definition expected_client_mac (keys : Keys) (preamble : bytes) : bytes :=
    MAC (Km3 keys) (Hash (preamble ++ server_mac keys preamble)).

  (* ServerFinish(ke3) *)
  Definition ServerFinish (expected_mac session_key client_mac : bytes) : option bytes :=
    if bytes_eqb client_mac expected_mac then Some session_key else None.

  (* CreateCredentialResponse: masked_response = xor(pad, server_public_key || envelope) *)
  Definition masked_response (masking_key masking_nonce server_public_key envelope : bytes) : option bytes :=
    match Expand masking_key (masking_nonce ++ bytes_of_string "CredentialResponsePad") (k_Npk K + Nn + Nh) with
    | Some pad => Some (xor_bytes pad (server_public_key ++ envelope))
    | None => None
    end.

  (* per-credential OPRF key: DeriveKeyPair(Expand(oprf_seed, credential_identifier || "OprfKey", Nok), "OPAQUE-DeriveKeyPair") *)
  Definition server_oprf_key (oprf_seed credential_identifier : bytes) : option Sc :=
    match Expand oprf_seed (credential_identifier ++ bytes_of_string "OprfKey") (o_Nok OP) with
    | Some seed => DeriveKeyPair seed (bytes_of_string "OPAQUE-DeriveKeyPair")
    | None => None
    end.

  (* randomized_password = Extract("", oprf_output || Stretch(oprf_output)) *)
  Definition randomized_password (oprf_output stretched : bytes) : bytes := Extract [] (oprf_output ++ stretched).
End Rfc.
