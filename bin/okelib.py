"""Shared machinery of the opaque-ke checks: process pairs (real crate / extracted Coq model),
script execution on both sides, trace projection and comparison, replay files, evidence.

A *script* is a Python function `f(ctx, **params)`; it is run twice, once against the Rust harness
(`side='impl'`) and once against the extracted model (`side='model'`).  It only ever sees its own
side's outputs, so tampering, routing and control flow are interpreted by each side on its own
registers.  Every call is recorded; `ctx.expect(cond, what)` records the property's own oracle.
"""
import hashlib, json, os, queue, random, select, subprocess, sys, threading, time
from concurrent.futures import ThreadPoolExecutor

ROOT = os.path.dirname(os.path.dirname(os.path.abspath(__file__)))
HARNESS = os.path.join(ROOT, "harness", "target", "release", "oke-harness")
HARNESS_PLAIN = os.path.join(ROOT, "harness", "target", "plain", "oke-harness")   # no overflow checks, assertions compiled out
MODEL = os.path.join(ROOT, "ocaml", "oke-model")

OPRFS = ["R255", "P256", "P384", "P521"]
KES = ["R255", "P256", "P384", "P521", "X25519"]
ALL_SUITES = ["%s/%s" % (o, k) for o in OPRFS for k in KES]
DIAG_SUITES = ["R255/R255", "P256/P256", "P384/P384", "P521/P521", "R255/X25519"]
LENS = {  # Nh, Noe, Nok (per oprf); Npk, Nsk (per ke)
    "R255": (64, 32, 32), "P256": (32, 33, 32), "P384": (48, 49, 48), "P521": (64, 67, 66)}
KLENS = {"R255": (32, 32), "P256": (33, 32), "P384": (49, 48), "P521": (67, 66), "X25519": (32, 32)}
NN = 32


# suites whose DEFAULT stretching function is a zero-sized, non-identity type (it reverses its input); harness only.
# The model has no such suite: for it the same request is spelled with the base suite and the explicit instance `R`
# wherever the harness says `~` (absent) or `D` (explicit default) - that IS the specification of "absent = default".
Z_SUITES = ["R255/R255+z", "P256/P256+z", "P384/X25519+z"]
KSF_ARG = {"flow": 8, "flow_nofile": 8, "flow_blobs": 8, "reg_finish": 6, "login_finish": 6}


class Lens:
    def __init__(s, suite):
        suite = suite.split("+")[0]
        o, k = suite.split("/")
        s.Nh, s.Noe, s.Nok = LENS[o]
        s.Npk, s.Nsk = KLENS[k]
        s.oprf, s.ke = o, k
        s.envelope = NN + s.Nh
        s.masked = s.Npk + s.envelope
        s.reg_request = s.Noe
        s.reg_response = s.Noe + s.Npk
        s.upload = s.Npk + s.Nh + s.envelope
        s.ke1 = NN + s.Npk
        s.cred_request = s.Noe + s.ke1
        s.ke2 = NN + s.Npk + s.Nh
        s.cred_response = s.Noe + NN + s.masked + s.ke2
        s.finalization = s.Nh
        s.setup = s.Nh + 2 * s.Nsk
        s.client_reg = s.Nok + s.Noe
        s.client_login = s.Nok + s.cred_request + s.Nsk + NN
        s.server_login = 3 * s.Nh


def suites_for(tier, seed):
    """quick: the five suites covering every OPRF group and every KE group + two mixed ones by seed."""
    if tier == "thorough":
        return list(ALL_SUITES)
    rnd = random.Random(seed)
    rest = [x for x in ALL_SUITES if x not in DIAG_SUITES]
    return DIAG_SUITES + rnd.sample(rest, 2)


def hx(b):
    return b.hex() if b else "-"


def ohx(b):
    return "~" if b is None else hx(b)


def unhx(t):
    return b"" if t == "-" else bytes.fromhex(t)


class Proc:
    """one line-server child process; request/response over pipes, with a timeout by select() (no helper threads)"""
    def __init__(s, path, name):
        s.path, s.name = path, name
        s.start()

    def start(s):
        s.p = subprocess.Popen([s.path], stdin=subprocess.PIPE, stdout=subprocess.PIPE, stderr=subprocess.DEVNULL, bufsize=0)
        s.fd_in = s.p.stdin.fileno()
        s.fd_out = s.p.stdout.fileno()
        s.buf = b""
        s.n = 0

    def _readline(s, timeout):
        deadline = time.time() + timeout
        while True:
            i = s.buf.find(b"\n")
            if i >= 0:
                line, s.buf = s.buf[:i], s.buf[i + 1:]
                return line.decode()
            left = deadline - time.time()
            if left <= 0:
                return None
            r, _, _ = select.select([s.fd_out], [], [], left)
            if not r:
                return None
            chunk = os.read(s.fd_out, 1 << 16)
            if not chunk:
                return ""
            s.buf += chunk

    def call(s, suite, op, args, timeout=120.0):
        s.n += 1
        tag = "q%d" % s.n
        line = (" ".join([tag, suite, op] + list(args)) + "\n").encode()
        try:
            view = memoryview(line)
            while view:
                # a large request may fill the pipe while the child is still writing nothing: plain blocking write is fine,
                # the child reads a whole line before answering
                w = os.write(s.fd_in, view[:1 << 16])
                view = view[w:]
        except OSError:
            rc = s.p.poll()
            s.start()
            return ("CRASH", "exit=%s" % rc)
        out = s._readline(timeout)
        if out is None:
            s.p.kill()
            s.start()
            return ("TIMEOUT", "")
        if out == "":
            rc = s.p.poll()
            s.start()
            return ("CRASH", "exit=%s" % rc)
        parts = out.split(" ")
        if parts[0] != tag:
            return ("CRASH", "desync:" + out[:80])
        if parts[1] == "OK":
            return ("OK", parts[2:])
        return (parts[1], " ".join(parts[2:]))

    def close(s):
        try:
            s.p.stdin.close()
            s.p.wait(timeout=5)
        except Exception:
            s.p.kill()


class Pair:
    def __init__(s):
        s.impl = Proc(HARNESS, "impl")
        s.impl_plain = Proc(HARNESS_PLAIN if os.path.exists(HARNESS_PLAIN) else HARNESS, "impl")
        s.model = Proc(MODEL, "model")

    def close(s):
        s.impl.close()
        s.impl_plain.close()
        s.model.close()


class Pool:
    def __init__(s, n=16):
        s.q = queue.Queue()
        s.pairs = [Pair() for _ in range(n)]
        for p in s.pairs:
            s.q.put(p)
        s.n = n

    def map(s, fn, items):
        def run(it):
            p = s.q.get()
            try:
                return fn(p, it)
            finally:
                s.q.put(p)
        with ThreadPoolExecutor(s.n) as ex:
            return list(ex.map(run, items))

    def close(s):
        for p in s.pairs:
            p.close()


class Stop(Exception):
    pass


class Res:
    """Result of one call on one side."""
    def __init__(s, status, payload):
        s.status, s.payload = status, payload
        s.ok = status == "OK"
        s.err = None if s.ok else (payload if status == "ERR" else status)
        s.outs = payload if s.ok else []

    def b(s, i):
        return unhx(s.outs[i])

    def n(s, i):
        return int(s.outs[i])


def err_class(e):
    """coarse verdict class of an error token"""
    if e is None:
        return "Ok"
    for k in ("InvalidLogin", "Reflected", "IdentityElement", "Tape", "PANIC", "TIMEOUT", "CRASH", "BADREQ"):
        if e.startswith(k):
            return k
    if e.startswith("Arg"):
        return "ArgErr"
    return "OtherErr"


class Ctx:
    def __init__(s, proc, side, suite, rnd_seed):
        s.proc, s.side, s.suite = proc, side, suite
        s.L = Lens(suite)
        s.trace = []      # list of dicts: op, args, status, payload
        s.oracle = []     # list of (ok, what)
        s.notes = {}
        s.rnd = random.Random(rnd_seed)   # same seed on both sides
        s.nontrivial = False
        s.counting = True     # calls made while False are set-up, not counted as non-trivial cases

    def call(s, op, *args, suite=None, impl_only=False, model_args=None, model_op=None, impl_extra=0):
        """impl_only: the model is not asked (bulk sweeps; harness-only ops).
        model_args/model_op: the model gets a different spelling of the same request (e.g. `flow`
        without the reload arguments, which the model treats as the identity)."""
        if impl_only and s.side == "model":
            return None
        if s.side == "model" and model_args is not None:
            args = model_args
        if s.side == "model" and model_op is not None:
            rec_op, op = op, model_op
        else:
            rec_op = op
        toks = [a if isinstance(a, str) else (ohx(a) if (a is None or isinstance(a, (bytes, bytearray))) else str(a))
                for a in args]
        use_suite = suite or s.suite
        if s.side == "model" and use_suite.endswith("+z"):
            use_suite = use_suite[:-2]
            i = KSF_ARG.get(op)
            if i is not None:
                i = i if model_args is None or op not in ("flow", "flow_nofile") else i - 2   # `flow` on the model: no reload arguments
                if i < len(toks) and toks[i] in ("~", "D"):
                    toks[i] = "R"
        st, pl = s.proc.call(use_suite, op, toks)
        extra = []
        if impl_extra and s.side == "impl" and st == "OK":
            # trailing output tokens that only the harness reports (e.g. the callback trace of an external key)
            extra, pl = pl[-impl_extra:], pl[:-impl_extra]
        s.trace.append({"op": rec_op, "suite": suite or s.suite, "args": toks, "status": st,
                        "payload": pl, "impl_only": impl_only, "counted": s.counting})
        res = Res(st, pl)
        res.extra = extra
        return res

    def expect(s, cond, what):
        s.oracle.append((bool(cond), what))
        return bool(cond)

    def tape(s, n):
        return bytes(s.rnd.getrandbits(8) for _ in range(n))

    def blind_draw(s, rejections=0):
        """tape bytes for one OPRF `random_scalar`: accepted at the first chunk (after `rejections`
        chunks that the sampler must reject)"""
        L = s.L
        if L.oprf == "R255":
            rej = bytes(64) * rejections          # zero scalar: retried
            return rej + s.tape(64)
        rej = (b"\xff" * L.Nok) * rejections    # >= group order: rejected
        c = bytearray(s.tape(L.Nok))
        if L.oprf == "P521":
            c[0] &= 1
        elif c[0] == 0xff:
            c[0] = 0xfe
        return rej + bytes(c)

    def sk_tape(s, extra=16, random_chunks=2):
        """a tape for `KeGroup::random_sk` (rejection sampling over chunks of the private-key length; for P-521 only
        one chunk in 128 is below the order): `random_chunks` uniform chunks - accepted or rejected as they come -
        then one chunk that is certainly a valid key, then `extra` uniform bytes.  Never exhausted."""
        L = s.L
        n = 64 if L.ke == "R255" else L.Nsk
        c = bytearray(s.tape(n))
        if L.ke == "P521":
            c[0] &= 1
            if c[0] == 1 and c[1] == 0xff:
                c[1] = 0xfe
        elif L.ke in ("P256", "P384"):
            if c[0] == 0xff:
                c[0] = 0xfe
            if not any(c):
                c[-1] = 1
        elif L.ke == "R255" and not any(c):
            c[0] = 1
        return s.tape(n * random_chunks) + bytes(c) + s.tape(extra)

    def btape(s, extra=256, rejections=0):
        """a tape for an operation that starts with a blind: blind draw + `extra` uniform bytes"""
        return s.blind_draw(rejections) + s.tape(extra)


def project(trace, mode):
    """Projection of a trace that is compared between the two sides.
    mode 'raw': status + exact payload; mode 'pattern': verdict class + equality pattern of outputs."""
    out = []
    seen = {}
    for t in trace:
        if t.get("impl_only"):
            continue
        if mode == "raw":
            out.append((t["op"], t["status"], tuple(t["payload"]) if t["status"] == "OK" else t["payload"]))
        else:
            if t["status"] == "OK":
                pat = []
                for tok in t["payload"]:
                    if tok not in seen:
                        seen[tok] = len(seen)
                    pat.append((seen[tok], len(tok) if not tok.isdigit() else tok))
                out.append((t["op"], "Ok", tuple(pat)))
            else:
                e = t["payload"] if t["status"] == "ERR" else t["status"]
                out.append((t["op"], err_class(e), e if mode == "pattern+err" else None))
    return out


def run_case(pair, case):
    """case = dict(script=fn, suite=..., params=..., seed=..., mode=...). Returns a result dict."""
    fn, suite, params = case["script"], case["suite"], case.get("params", {})
    res = {"case": {k: v for k, v in case.items() if k != "script"}, "script": fn.__name__}
    sides = {}
    shared = {}
    # the code runs in one of two builds of the same source (PROTOCOL.md): "checked" (overflow checks and debug assertions
    # on) or "plain" (a production release build); both must behave as the model
    impl = pair.impl_plain if case.get("build") == "plain" else pair.impl
    for side, proc in (("impl", impl), ("model", pair.model)):
        ctx = Ctx(proc, side, suite, case.get("seed", 0))
        ctx.shared = shared      # written by the impl run (first), read by the model run: replay of opaque functions (Argon2)
        try:
            fn(ctx, **params)
        except Stop:
            pass
        except (IndexError, AttributeError, TypeError, ValueError, KeyError) as e:
            # the script used an output of a step that did not deliver it (the step failed or answered in another
            # shape): on the unchanged tree every step of a battery delivers, so this is itself an oracle failure
            last = ctx.trace[-1] if ctx.trace else {"op": "-", "status": "-", "payload": ""}
            ctx.expect(False, "step %s answered %s %s where the battery needs its outputs (%s: %s)"
                       % (last["op"], last["status"], str(last["payload"])[:60], type(e).__name__, e))
        sides[side] = ctx
    ci, cm = sides["impl"], sides["model"]
    mode = case.get("mode", "pattern")
    pi, pm = project(ci.trace, mode), project(cm.trace, mode)
    res["agree"] = pi == pm
    if pi != pm:
        for k, (a, b) in enumerate(zip(pi, pm)):
            if a != b:
                res["first_diff"] = {"index": k, "impl": repr(a)[:400], "model": repr(b)[:400]}
                break
        else:
            res["first_diff"] = {"index": min(len(pi), len(pm)), "impl_len": len(pi), "model_len": len(pm)}
    # cross-check: operations that draw no randomness are pure functions of their arguments; replay the
    # implementation's own arguments on the model and compare the results byte for byte.  This is insensitive to
    # how the implementation draws randomness elsewhere, and sensitive to any deviation from the proved model
    # in the operation itself (e.g. a transcript framed differently but consistently on both sides).
    cross_ops = case.get("cross") or ()
    ncross = 0
    if res["agree"] and cross_ops:
        seen = set()
        for t in ci.trace:
            if t["op"] not in cross_ops or t.get("impl_only") or t["status"] not in ("OK", "ERR"):
                continue
            key = (t["op"], tuple(t["args"]))
            if key in seen:
                continue
            seen.add(key)
            if case.get("cross_limit") and ncross >= case["cross_limit"]:
                break
            ncross += 1
            st, pl = pair.model.call(t["suite"], t["op"], t["args"])
            if st == "BADREQ":
                continue     # a token only the harness understands (e.g. an Argon2 instance)
            if (st, pl) != (t["status"], t["payload"]):
                res["agree"] = False
                res["first_diff"] = {"cross_check": t["op"], "args": [a[:80] for a in t["args"]],
                                     "impl": repr((t["status"], t["payload"]))[:300], "model": repr((st, pl))[:300]}
                break
    res["cross_checked"] = ncross
    res["oracle_fail_impl"] = [w for ok, w in ci.oracle if not ok]
    res["oracle_fail_model"] = [w for ok, w in cm.oracle if not ok]
    res["oracle_checks"] = len(ci.oracle)
    res["panics"] = [t for t in ci.trace if t["status"] in ("PANIC", "TIMEOUT", "CRASH")]
    res["calls"] = len(ci.trace)
    res["nontrivial"] = ci.nontrivial
    res["nontrivial_sigs"] = {hashlib.sha1(repr((t["suite"], t["op"], t["args"])).encode()).digest()[:10]
                              for t in ci.trace if t.get("counted")}
    res["verdicts_impl"] = [err_class(None if t["status"] == "OK" else (t["payload"] if t["status"] == "ERR" else t["status"])) for t in ci.trace]
    res["ops"] = [t["op"] for t in ci.trace]
    res["sig"] = hashlib.sha1(repr((suite, fn.__name__, [(t["op"], t["args"]) for t in ci.trace])).encode()).hexdigest()
    res["trace_impl"] = ci.trace
    res["trace_model"] = cm.trace
    return res
