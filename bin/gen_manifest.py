#!/usr/bin/env python3
"""Writes MANIFEST.json (kept in git; regenerate after editing the table below)."""
import json, os
V = os.path.dirname(os.path.dirname(os.path.abspath(__file__)))
COMMON_NOTE = ("trusted: Coq 8.16.1 kernel; hand-written Gallina model tied to /repo by the differential run (extraction "
               "ExtrOcamlBasic + ExtrOcamlZBigInt + N.lxor/land/lor directives, Rust harness in the production cfg); "
               "no axioms (Print Assumptions closed under every theorem)")
P = {
 "C01": ("theorem honest_login_agrees (generic in the suite; restated at each of the 20 concrete suites, where HashLaws, CodecLaws, SizeLaws and the "
         "encoding half of GroupLaws are proved and the only hypothesis left is CurveLaws - six facts of elliptic-curve arithmetic): "
         "after an honest registration the client accepts, the server accepts its finalization, keys agree, export key and server key as at "
         "registration - also with every party on a tape of its own, and over histories: in any world the adversary can reach an honestly routed login "
         "completes on both sides; differential run of honest flows on boundary-length, coinciding and maximal inputs, constant-byte tapes, serde-persisted "
         "states, non-identity default KSF suites, all suites, both builds",
         "CurveLaws (closure, commutativity and invertibility of the scalar action, decompression inverts compression, derived public keys valid, DH symmetric) "
         "is a hypothesis for the concrete curves (all laws proved for the toy suite); non-degeneracy hypotheses are explicit in the statement"),
 "C02": ("theorem wrong_password_never_accepted: after an honest registration with pw, a login with any pw' <> pw against the honest server is "
         "never accepted by the client unless an explicit bad event is exhibited (collision of HMAC / hash / HKDF-Expand / key derivation / DH in the "
         "private key, each with its witness); injective password encoding, refusal of over-long passwords; near-miss battery with the InvalidLogin oracle",
         "CurveLaws is a hypothesis for the concrete curves (restated at each of the 20 suites under CurveLaws alone); the error kind InvalidLogin is observed by the battery"),
 "C03": ("theorem: exactly one byte string (the HMAC of the stored transcript under the stored key) completes a pending server login, everything else is "
         "InvalidLogin - unconditional, also at the byte-level API; exhaustive bit flips, structured multi-byte alterations and random strings on the crate",
         "none beyond the common trusted base"),
 "C04": ("PARTIAL: acceptance characterisation, transcript covers every non-MAC component, MAC-only alteration rejected (theorems); every-offset tamper "
         "sweep, field splices and structured alterations on the crate",
         "unforgeability of the MAC for altered transcripts is not a theorem (not a collision statement)"),
 "C05": ("theorems: injectivity of the transcript / AAD / Finalize input / OPRF-key info encodings for all lengths < 2^16, refusal above, default-identity "
         "spelling; end to end: an accepted login agrees on context and effective identities with the honest server session whose MAC it carries, and a login "
         "under another password or another credential identifier is never accepted - each up to exhibited collisions; triples battery incl. boundary-shifted "
         "splits, one field over-long at one site, digest-related identifiers; cross-check of every client finish",
         "the credential-identifier theorem additionally assumes the scalar action free on valid elements (proved for the toy suite); sealed identities: C06_envelope_binds"),
 "C06": ("theorems: reported key = setup key; envelope binds server key and identities, substituted static key => InvalidLogin or an exhibited HMAC collision "
         "(restated at each of the 20 suites under CurveLaws alone); battery incl. stolen files whose binding tag is altered in one byte or in all bytes but one",
         "CurveLaws is a hypothesis for the concrete curves"),
 "C07": ("theorems: an invariant over ALL histories of a world in which a network adversary chooses every delivered message and the order of all steps "
         "(induction over the operation list, shared tape): in every reachable world a completed client session that accepted a response carrying an honest "
         "server session's MAC has that session's transcript (the session consumed this client's request; context agrees; keys agree), a completed server "
         "session accepted exactly the MAC over its own transcript, equal session keys force equal nonces - or an HMAC/hash collision is exhibited; "
         "exhaustive routing battery with the matched-conversation oracle, incl. the matched session's request and response altered in one bit in transit (field edges, bits 0 and 7)",
         "rejection of responses whose MAC no honest session produced is unforgeability (C04 gap), covered by the batteries; concrete group laws are hypotheses"),
 "C08": ("theorems: same length/structure, same evaluation function, fake record = (tape masking key, zero envelope, fake key), fields from fresh tape ranges, "
         "no other finalization accepted; over histories: in every reachable world of the adversarial model any two login attempts (with or without a record) "
         "drew their random fields from disjoint ranges of the one tape (induction over the operation list; sampler-prefix law proved for the 20 suites); "
         "battery incl. fake-state freshness, a failing generator entry point and degenerate restored setups (stand-in key = static key)",
         "client InvalidLogin on a fake response rests on a BadGuess event; validated by the battery"),
 "C09": ("byte-exact differential run model vs crate (a byte difference is itself the counterexample) + the nine RFC 9807 vectors of the repository replayed through "
         "both sides; theorems: labels regenerated from /repo/src equal the RFC's, and the model computes the RFC-shaped functions of Spec/Rfc.v (Expand-Label / "
         "CustomLabel, Preamble, DeriveKeys, CleartextCredentials, OPRF Finalize and DeriveKeyPair, ServerFinish)",
         "Spec/Rfc.v is my transcription of the RFC pseudocode (no network), anchored by the embedded vectors"),
 "C10": ("theorems: all eleven decoders strict for all 20 suites (unconditional), fixed lengths, round trip on well-formed values; decode battery",
         "none beyond the common trusted base"),
 "C11": ("theorems: decoders build elements/scalars/keys only through validators; NIST decoder results are reduced on-curve points, X25519 keys are not of small "
         "order, scalars in range; invalid-encoding battery through native, bincode and JSON",
         "serde framing not modelled (crate's own encodings spliced)"),
 "C12": ("PARTIAL: model totality (Coq termination checker), refusal of over-long inputs, reads within bounds (theorems); panic exploration under catch_unwind "
         "with overflow checks", "absence of panics in compiled Rust is explored, not proved"),
 "C13": ("theorems: each of the five persisted states produced by the API decodes from its native encoding to itself; over histories: in the adversarial "
         "world extended with crash operations (server restart, save and restore of any pending server or client session between any two steps) every "
         "restore succeeds and the world reached equals that of the same history without crashes (induction over the operation list); reload battery "
         "over subsets x formats, constant-byte tapes",
         "serde encodings not modelled (real round trips in the harness, model predicts no change)"),
 "C14": ("theorems: randomized password independent of the blind, re-registration same masking key, evaluation is a function of (seed, id, request) only; battery",
         "separation of different ids/passwords holds up to collisions; validated by the battery"),
 "C15": ("theorems: both finish steps use the KSF only at the OPRF output, None = default, failure = KsfError, stretched value bound into randomized_pwd; "
         "end to end: an accepted login used the registration's password, the registration's credential identifier and a stretching function that agrees "
         "with the registration's on the OPRF output, or a collision is exhibited; call-log comparison with the crate, Argon2 instance variants, suites whose "
         "default function is a zero-sized non-identity type",
         "Argon2 itself is replayed as a table; the end-to-end theorem additionally assumes the scalar action free (proved for the toy suite)"),
 "C16": ("PARTIAL: export-key formula at seal/open, stability - also against any server / any typed password: a login that opens the registration's envelope "
         "returns the registration's export key or exhibits an HMAC / Expand collision -, separation from other registrations and from the auth / masking / "
         "session keys, label separation (theorems); substring scan incl. serde encodings of in-memory objects, separation battery",
         "unaligned verbatim appearance is searched, not proved"),
 "C17": ("theorems: tape layout of every randomised operation (ranges, order, copies/derivations, untouched rest); over histories: any two server sessions of a "
         "reachable world drew from disjoint ranges of the shared tape; raw determinism / tape-position comparison, rejection sampling with boundary keys, both builds",
         "blind layout is per group (checked by correspondence)"),
 "C18": ("theorems: never-failing external key = private key interface record, operations equal, only the two callbacks used, failures returned as Custom",
         "call counts are taken from the crate's own trace"),
 "C19": ("PARTIAL: scalar and key codecs round-trip both ways, clamping lemmas, every sampled / hashed / derived scalar and key is valid for each of the 20 suites "
         "(EncodingLaws), shared secrets have the public-key length (theorems); DH symmetry, boundary keys, RFC 7748 vectors and arbitrary Curve25519 peer shares (battery)",
         "that the concrete formulas form a group (CurveLaws: six facts of elliptic-curve arithmetic) is validated against the crate, not proved"),
}
checks = []
for pid in sorted(P):
    text, note = P[pid]
    checks.append({
        "property_id": pid,
        "quick_cmd": "./bin/check %s quick" % pid,
        "thorough_cmd": "./bin/check %s thorough" % pid,
        "evidence_file": "evidence/%s.json" % pid,
        "replay_cmd_template": "./bin/check replay {path}",
        "engine": "coq-model",
        "level_claimed": {"category": "proof", "text": text, "design_ref": "DESIGN.md section 4, " + pid},
        "level_note": note + "; " + COMMON_NOTE,
        "technique": "machine-checked proof in Coq (Rocq) of a model + model/implementation correspondence check",
    })
m = {
 "version": 1,
 "setup_cmd": "./bin/setup",
 "hooks": {
  "guard": "opaque_ke_verif",
  "enable": "no source hook is needed: the harness links /repo as an ordinary dependency (production cfg) and observes it through the public API and its native/serde encodings; RUSTFLAGS=\"--cfg opaque_ke_verif\" is reserved and unused",
  "baseline_off_cmd": "cd /repo && CARGO_NET_OFFLINE=true cargo test --workspace --no-fail-fast --offline",
  "source_commits": [],
  "add_only": True
 },
 "engines": [
  {"name": "coq-model", "path": "coq/", "serves_properties": sorted(P), "kind_free_text": "Gallina model of opaque-ke and its primitives + theorems (Coq 8.16.1); extracted to OCaml (zarith) for the correspondence run"},
  {"name": "harness", "path": "harness/", "serves_properties": sorted(P), "kind_free_text": "Rust line server around the real crate in the production cfg; same line protocol as the extracted model (PROTOCOL.md)"},
  {"name": "orchestrator", "path": "bin/check", "serves_properties": sorted(P), "kind_free_text": "builds, checks proof obligations and Print Assumptions, runs the per-property battery on both sides, decides, writes evidence and replays"}
 ],
 "checks": checks,
 "not_applicable": [],
 "notes": "Three genuine defects were repaired in /repo by 'fix:' commits (known_findings.json). seeded/ holds 188 confirmed property-breaking changes (five rounds of independent agents working from the property texts alone) used to test the checks, and seven behaviour-preserving rewrites that keep all checks silent (DESIGN.md appendix E). The code under test is built twice (overflow checks + debug assertions on / plain release) and both builds must behave as the model."
}
json.dump(m, open(os.path.join(V, "MANIFEST.json"), "w"), indent=1)
print("wrote MANIFEST.json with", len(checks), "checks")
