#!/usr/bin/env python3
"""Executable notes (design phase): replays, from the tape alone, the full production-build flow
(ServerSetup::new, registration, login, login without a record) and compares every serialised
message/state/key with what the real crate produced (file of JSON lines written by a scratch probe).
Validates: P-384/P-521 parameters, mixed-suite DeriveDiffieHellmanKeyPair, RNG draw order and sizes,
state layouts, fake-record path.  NOT part of the verification machinery."""
import json, sys
from spec_reference import *

class TapeR:
    def __init__(s, b): s.b, s.pos = b, 0
    def take(s, n): r = s.b[s.pos:s.pos + n]; assert len(r) == n, "tape exhausted"; s.pos += n; return r
def rand_scalar(g, t):
    if g is R255:
        while True:
            k = int.from_bytes(t.take(64), "little") % ELL
            if k: return k
    while True:
        k = OS2IP(t.take(g.Nsk))
        if 0 < k < g.n: return k

def run(d):
    oprf, ke = OPRF[d["oprf"]], KE[d["ke"]]; o = Opaque(oprf, ke); h = oprf.h
    t = TapeR(bytes.fromhex(d["tape"])); g = lambda k: bytes.fromhex(d[k]) if d[k] is not None else None
    pw, cred, ctx, idu, ids_ = g("pw"), g("cred"), g("ctx"), g("idu"), g("ids"); ctxb = ctx or b""
    out, pos = {}, []
    # ServerSetup::new : static seed, oprf seed, fake seed
    s_sk = ke.derive(oprf, t.take(ke.Nsk)); seed = t.take(h.Nh); f_sk = ke.derive(oprf, t.take(ke.Nsk)); pos.append(t.pos)
    out["setup"] = seed + ke.ser_sk(s_sk) + ke.ser_sk(f_sk); spk = ke.pub(s_sk)
    # registration
    br = rand_scalar(oprf.g, t); pos.append(t.pos)
    req = oprf.blind(pw, br); out["reg_request"] = req; out["creg_state"] = oprf.g.ser_scalar(br) + req
    resp = o.reg_response(seed, spk, cred, req); out["reg_response"] = resp
    upload, export = o.reg_finish(pw, br, resp, t.take(32), idu, ids_); pos.append(t.pos)
    out["upload"], out["export_reg"] = upload, export
    # login
    def login_start():
        bl = rand_scalar(oprf.g, t); esk = ke.derive(oprf, t.take(ke.Nsk)); cn = t.take(32)
        ke1 = oprf.blind(pw, bl) + cn + ke.pub(esk)
        return bl, esk, cn, ke1
    bl, esk, cn, ke1 = login_start(); pos.append(t.pos)
    out["ke1"] = ke1; out["clogin_state"] = oprf.g.ser_scalar(bl) + ke1 + ke.ser_sk(esk) + cn
    mn = t.take(32); es = t.take(ke.Nsk); sn = t.take(32); pos.append(t.pos)
    ke2, sstate, _, _ = o.ke2(seed, s_sk, upload, cred, ke1, ctxb, idu, ids_, mn, es, sn)
    out["ke2"], out["slogin_state"] = ke2, sstate
    r = o.ke3(pw, bl, ke1, esk, ke2, ctxb, idu, ids_); assert r is not None, "client rejected"
    out["ke3"], out["session_key"], out["export_login"] = r[0], r[1], r[2]; out["server_session_key"] = sstate[-h.Nh:]
    assert r[3] == spk and r[0] == h.hmac(sstate[:h.Nh], sstate[h.Nh:2 * h.Nh])
    # login without a record: fake masking key first, then masking nonce, eph seed, server nonce
    bl2, esk2, cn2, ke1b = login_start(); pos.append(t.pos); out["ke1_b"] = ke1b
    fmk = t.take(h.Nh); mn = t.take(32); es = t.take(ke.Nsk); sn = t.take(32); pos.append(t.pos)
    record = ke.pub(f_sk) + fmk + bytes(32 + h.Nh)
    fke2, fstate, _, _ = o.ke2(seed, s_sk, record, cred, ke1b, ctxb, idu, ids_, mn, es, sn)
    out["fake_ke2"], out["fake_state"] = fke2, fstate
    assert o.ke3(pw, bl2, ke1b, esk2, fke2, ctxb, idu, ids_) is None
    bad = [k for k, v in out.items() if v.hex() != d[k]]
    if pos != d["pos"]: bad.append("tape positions %s vs %s" % (pos, d["pos"]))
    return bad

if __name__ == "__main__":
    allok = True
    for line in open(sys.argv[1]):
        d = json.loads(line); bad = run(d); allok &= not bad
        print(d["oprf"], d["ke"], "pw=%d bytes" % (len(d["pw"]) // 2), "OK" if not bad else "MISMATCH " + ", ".join(bad))
    sys.exit(0 if allok else 1)
