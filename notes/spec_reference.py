#!/usr/bin/env python3
"""Executable notes (design phase): my reading of RFC 9807 / 9497 / 9380 / 9496 / 7748 / 5869,
written down in plain Python so that it can be validated against the RFC vectors embedded in
/repo/src/tests/opaque_vectors.rs before it is transliterated into Gallina.
NOT part of the verification machinery; nothing in a check depends on it."""
import hashlib, hmac as _hmac, re, sys

# ---------------------------------------------------------------- hashes / HKDF
class Hash:
    def __init__(s, name, fn, out, block): s.name, s.fn, s.Nh, s.block = name, fn, out, block
    def H(s, m): return s.fn(m).digest()
    def hmac(s, k, m): return _hmac.new(k, m, s.fn).digest()
    def extract(s, salt, ikm): return s.hmac(salt if salt else bytes(s.Nh), ikm)
    def expand(s, prk, info, L):
        t, out, i = b"", b"", 1
        while len(out) < L:
            t = s.hmac(prk, t + info + bytes([i])); out += t; i += 1
        return out[:L]
SHA256 = Hash("SHA256", hashlib.sha256, 32, 64)
SHA384 = Hash("SHA384", hashlib.sha384, 48, 128)
SHA512 = Hash("SHA512", hashlib.sha512, 64, 128)

def I2OSP(n, l):
    if n >= 256 ** l: raise ValueError("i2osp")
    return n.to_bytes(l, "big")
def OS2IP(b): return int.from_bytes(b, "big")
def lp(x, l=2): return I2OSP(len(x), l) + x
def xor(a, b): return bytes(x ^ y for x, y in zip(a, b))

def expand_message_xmd(h, msg, dst, L):
    assert len(dst) <= 255
    ell = -(-L // h.Nh); assert ell <= 255
    dstp = dst + I2OSP(len(dst), 1)
    b0 = h.H(bytes(h.block) + msg + I2OSP(L, 2) + b"\x00" + dstp)
    b = [h.H(b0 + b"\x01" + dstp)]
    for i in range(2, ell + 1): b.append(h.H(xor(b0, b[-1]) + I2OSP(i, 1) + dstp))
    return b"".join(b)[:L]

# ---------------------------------------------------------------- Weierstrass (a = -3)
class WCurve:
    def __init__(s, name, p, b, n, gx, gy, Z, L, Nfe):
        s.name, s.p, s.a, s.b, s.n, s.G, s.Z, s.L, s.Nfe = name, p, p - 3, b, n, (gx, gy), Z % p, L, Nfe
        s.Npk, s.Nsk = Nfe + 1, Nfe
    def on_curve(s, P): x, y = P; return (y * y - (x * x * x + s.a * x + s.b)) % s.p == 0
    def add(s, P, Q):
        if P is None: return Q
        if Q is None: return P
        p = s.p; (x1, y1), (x2, y2) = P, Q
        if x1 == x2:
            if (y1 + y2) % p == 0: return None
            lam = (3 * x1 * x1 + s.a) * pow(2 * y1, -1, p) % p
        else: lam = (y2 - y1) * pow(x2 - x1, -1, p) % p
        x3 = (lam * lam - x1 - x2) % p
        return (x3, (lam * (x1 - x3) - y1) % p)
    def mul(s, P, k):
        R = None
        for bit in bin(k)[2:]:
            R = s.add(R, R)
            if bit == "1": R = s.add(R, P)
        return R
    def sqrt(s, a): r = pow(a, (s.p + 1) // 4, s.p); return r if r * r % s.p == a % s.p else None
    def ser(s, P):
        if P is None: raise ValueError("identity")
        return bytes([2 + (P[1] & 1)]) + I2OSP(P[0], s.Nfe)
    def deser(s, bs, allow_compact=False):
        if len(bs) != s.Npk or bs[0] not in ((2, 3, 5) if allow_compact else (2, 3)): return None
        x = OS2IP(bs[1:])
        if x >= s.p: return None
        y = s.sqrt((x * x * x + s.a * x + s.b) % s.p)
        if y is None: return None
        if bs[0] == 5: y = min(y, s.p - y)
        elif (y & 1) != bs[0] - 2: y = s.p - y
        return (x, y)
    def ser_scalar(s, k): return I2OSP(k, s.Nsk)
    def deser_scalar(s, bs):
        if len(bs) != s.Nsk: return None
        k = OS2IP(bs); return k if 0 < k < s.n else None
    def sgn0(s, x): return x & 1
    def sswu(s, u):
        p, A, B, Z = s.p, s.a, s.b, s.Z
        tv1 = (Z * Z * pow(u, 4, p) + Z * u * u) % p
        x1 = (-B * pow(A, -1, p) * (1 + pow(tv1, -1, p))) % p if tv1 else B * pow(Z * A, -1, p) % p
        gx1 = (x1 ** 3 + A * x1 + B) % p
        x2 = Z * u * u * x1 % p
        gx2 = (x2 ** 3 + A * x2 + B) % p
        y1 = s.sqrt(gx1)
        x, y = (x1, y1) if y1 is not None else (x2, s.sqrt(gx2))
        if s.sgn0(u) != s.sgn0(y): y = p - y
        return (x, y)
    def hash_to_field(s, h, msg, dst, count, modulus):
        u = expand_message_xmd(h, msg, dst, count * s.L)
        return [OS2IP(u[i * s.L:(i + 1) * s.L]) % modulus for i in range(count)]
    def hash_to_curve(s, h, msg, dst):
        u0, u1 = s.hash_to_field(h, msg, dst, 2, s.p)
        return s.add(s.sswu(u0), s.sswu(u1))
    def hash_to_scalar(s, h, msg, dst): return s.hash_to_field(h, msg, dst, 1, s.n)[0]
    def random_scalar(s, tape):
        while True:
            c, tape = tape[:s.Nsk], tape[s.Nsk:]
            assert len(c) == s.Nsk, "tape exhausted"
            k = OS2IP(c)
            if 0 < k < s.n: return k, tape
    def inv(s, k): return pow(k, -1, s.n)
    identity = None

P256 = WCurve("P256", 2**256 - 2**224 + 2**192 + 2**96 - 1,
    0x5ac635d8aa3a93e7b3ebbd55769886bc651d06b0cc53b0f63bce3c3e27d2604b,
    0xffffffff00000000ffffffffffffffffbce6faada7179e84f3b9cac2fc632551,
    0x6b17d1f2e12c4247f8bce6e563a440f277037d812deb33a0f4a13945d898c296,
    0x4fe342e2fe1a7f9b8ee7eb4a7c0f9e162bce33576b315ececbb6406837bf51f5, -10, 48, 32)
P384 = WCurve("P384", 2**384 - 2**128 - 2**96 + 2**32 - 1,
    0xb3312fa7e23ee7e4988e056be3f82d19181d9c6efe8141120314088f5013875ac656398d8a2ed19d2a85c8edd3ec2aef,
    0xffffffffffffffffffffffffffffffffffffffffffffffffc7634d81f4372ddf581a0db248b0a77aecec196accc52973,
    0xaa87ca22be8b05378eb1c71ef320ad746e1d3b628ba79b9859f741e082542a385502f25dbf55296c3a545e3872760ab7,
    0x3617de4a96262c6f5d9e98bf9292dc29f8f41dbd289a147ce9da3113b5f0b8c00a60b1ce1d7e819d7a431d7c90ea0e5f, -12, 72, 48)
P521 = WCurve("P521", 2**521 - 1,
    0x0051953eb9618e1c9a1f929a21a0b68540eea2da725b99b315f3b8b489918ef109e156193951ec7e937b1652c0bd3bb1bf073573df883d2c34f1ef451fd46b503f00,
    0x01fffffffffffffffffffffffffffffffffffffffffffffffffffffffffffffffffa51868783bf2f966b7fcc0148f709a5d03bb5c9b8899c47aebb6fb71e91386409,
    0x00c6858e06b70404e9cd9e3ecb662395b4429c648139053fb521f828af606b4d3dbaa14b5e77efe75928fe1dc127a2ffa8de3348b3c1856a429bf97e7e31c2e5bd66,
    0x011839296a789a3bc0045c8a5fb42c7d1bd998f54449579b446817afbd17273e662c97ee72995ef42640c550b9013fad0761353c7086a272c24088be94769fd16650, -4, 98, 66)

# ---------------------------------------------------------------- edwards25519 / ristretto255 / X25519
P25519 = 2**255 - 19
ELL = 2**252 + 27742317777372353535851937790883648493
D = -121665 * pow(121666, -1, P25519) % P25519
SQRT_M1 = pow(2, (P25519 - 1) // 4, P25519)
def is_neg(x): return (x % P25519) & 1
def cabs(x): x %= P25519; return P25519 - x if x & 1 else x
def sqrt_ratio_m1(u, v):
    p = P25519; u %= p; v %= p
    v3 = v * v * v % p; v7 = v3 * v3 * v % p
    r = u * v3 * pow(u * v7, (p - 5) // 8, p) % p
    check = v * r * r % p
    correct = check == u; flipped = check == (-u) % p; flipped_i = check == (-u * SQRT_M1) % p
    if flipped or flipped_i: r = r * SQRT_M1 % p
    return (correct or flipped), cabs(r)
INVSQRT_A_MINUS_D = sqrt_ratio_m1(1, (-1 - D) % P25519)[1]
SQRT_AD_MINUS_ONE = P25519 - sqrt_ratio_m1((-D - 1) % P25519, 1)[1]  # sqrt(a*d - 1), a = -1: RFC 9496 fixes the odd root (…750235)
ONE_MINUS_D_SQ = (1 - D * D) % P25519
D_MINUS_ONE_SQ = (D - 1) ** 2 % P25519
class Ristretto:
    name = "ristretto255"; Npk = Nsk = 32; n = ELL
    identity = (0, 1, 1, 0)
    B = None
    def add(s, P, Q):
        p = P25519; X1, Y1, Z1, T1 = P; X2, Y2, Z2, T2 = Q
        A = (Y1 - X1) * (Y2 - X2) % p; Bq = (Y1 + X1) * (Y2 + X2) % p
        C = T1 * 2 * D * T2 % p; Dd = Z1 * 2 * Z2 % p
        E, F, G, H = Bq - A, Dd - C, Dd + C, Bq + A
        return (E * F % p, G * H % p, F * G % p, E * H % p)
    def mul(s, P, k):
        R = s.identity
        for bit in bin(k)[2:]:
            R = s.add(R, R)
            if bit == "1": R = s.add(R, P)
        return R
    def eq(s, P, Q):
        X1, Y1, _, _ = P; X2, Y2, _, _ = Q
        return (X1 * Y2 - Y1 * X2) % P25519 == 0 or (Y1 * Y2 - X1 * X2) % P25519 == 0
    def ser(s, P):
        p = P25519; X, Y, Z, T = P
        u1 = (Z + Y) * (Z - Y) % p; u2 = X * Y % p
        _, invsqrt = sqrt_ratio_m1(1, u1 * u2 * u2 % p)
        den1 = invsqrt * u1 % p; den2 = invsqrt * u2 % p
        z_inv = den1 * den2 * T % p
        ix, iy = X * SQRT_M1 % p, Y * SQRT_M1 % p
        enchanted = den1 * INVSQRT_A_MINUS_D % p
        if is_neg(T * z_inv): X, Y, den_inv = iy, ix, enchanted
        else: den_inv = den2
        if is_neg(X * z_inv): Y = -Y % p
        return cabs(den_inv * (Z - Y)).to_bytes(32, "little")
    def deser(s, bs, allow_identity=False):
        if len(bs) != 32: return None
        p = P25519; sv = int.from_bytes(bs, "little")
        if sv >= p or sv & 1: return None
        ss = sv * sv % p; u1 = (1 - ss) % p; u2 = (1 + ss) % p; u2s = u2 * u2 % p
        v = (-(D * u1 * u1) - u2s) % p
        ok, invsqrt = sqrt_ratio_m1(1, v * u2s % p)
        dx = invsqrt * u2 % p; dy = invsqrt * dx * v % p
        x = cabs(2 * sv * dx); y = u1 * dy % p; t = x * y % p
        if not ok or is_neg(t) or y == 0: return None
        P = (x, y, 1, t)
        if not allow_identity and s.eq(P, s.identity): return None
        return P
    def elligator(s, r0):
        p = P25519
        r = SQRT_M1 * r0 * r0 % p
        u = (r + 1) * ONE_MINUS_D_SQ % p
        v = (-1 - r * D) * (r + D) % p
        was_sq, sq = sqrt_ratio_m1(u, v)
        s_prime = (-cabs(sq * r0)) % p
        if not was_sq: sq = s_prime
        c = -1 % p if was_sq else r
        N = (c * (r - 1) * D_MINUS_ONE_SQ - v) % p
        w0 = 2 * sq * v % p; w1 = N * SQRT_AD_MINUS_ONE % p
        w2 = (1 - sq * sq) % p; w3 = (1 + sq * sq) % p
        return (w0 * w3 % p, w2 * w1 % p, w1 * w3 % p, w0 * w2 % p)
    def from_uniform(s, b):
        r0 = int.from_bytes(b[:32], "little") & (2**255 - 1); r1 = int.from_bytes(b[32:], "little") & (2**255 - 1)
        return s.add(s.elligator(r0 % P25519), s.elligator(r1 % P25519))
    def hash_to_curve(s, h, msg, dst): return s.from_uniform(expand_message_xmd(h, msg, dst, 64))
    def hash_to_scalar(s, h, msg, dst): return int.from_bytes(expand_message_xmd(h, msg, dst, 64), "little") % ELL
    def ser_scalar(s, k): return k.to_bytes(32, "little")
    def deser_scalar(s, bs):
        if len(bs) != 32: return None
        k = int.from_bytes(bs, "little"); return k if 0 < k < ELL else None
    def random_scalar(s, tape):
        while True:
            c, tape = tape[:64], tape[64:]; assert len(c) == 64, "tape exhausted"
            k = int.from_bytes(c, "little") % ELL
            if k: return k, tape
    def inv(s, k): return pow(k, -1, ELL)
R255 = Ristretto()
_by = 4 * pow(5, -1, P25519) % P25519
_bx = sqrt_ratio_m1((_by * _by - 1) % P25519, (D * _by * _by + 1) % P25519)[1]
R255.G = (_bx, _by, 1, _bx * _by % P25519)

def clamp(b): b = bytearray(b); b[0] &= 248; b[31] &= 127; b[31] |= 64; return bytes(b)
def x25519(k, u):
    p = P25519; k = int.from_bytes(clamp(k), "little"); x1 = (int.from_bytes(u, "little") & (2**255 - 1)) % p
    x2, z2, x3, z3, swap = 1, 0, x1, 1, 0
    for t in reversed(range(255)):
        kt = (k >> t) & 1; swap ^= kt
        if swap: x2, x3, z2, z3 = x3, x2, z3, z2
        swap = kt
        A = (x2 + z2) % p; AA = A * A % p; B = (x2 - z2) % p; BB = B * B % p; E = (AA - BB) % p
        C = (x3 + z3) % p; Dd = (x3 - z3) % p; DA = Dd * A % p; CB = C * B % p
        x3 = (DA + CB) ** 2 % p; z3 = x1 * (DA - CB) ** 2 % p; x2 = AA * BB % p; z2 = E * (AA + 121665 * E) % p
    if swap: x2, x3, z2, z3 = x3, x2, z3, z2
    return (x2 * pow(z2, p - 2, p) % p).to_bytes(32, "little")

# ---------------------------------------------------------------- KE groups (opaque-ke `KeGroup`)
class KeW:
    def __init__(s, c): s.c, s.Npk, s.Nsk, s.name = c, c.Npk, c.Nsk, c.name
    def pub(s, sk): return s.c.ser(s.c.mul(s.c.G, sk))
    def dh(s, pk_bytes, sk): return s.c.ser(s.c.mul(s.c.deser(pk_bytes), sk))
    def ser_sk(s, sk): return s.c.ser_scalar(sk)
    def derive(s, oprf, seed):
        info = b"OPAQUE-DeriveDiffieHellmanKeyPair"
        for ctr in range(256):
            sk = s.c.hash_to_scalar(oprf.h, seed + lp(info) + bytes([ctr]), b"DeriveKeyPair" + oprf.ctx)
            if sk: return sk
        raise ValueError
class KeX25519:
    Npk = Nsk = 32; name = "curve25519"
    def pub(s, sk): return x25519(sk, (9).to_bytes(32, "little"))
    def dh(s, pk_bytes, sk): return x25519(sk, pk_bytes)
    def ser_sk(s, sk): return sk
    def derive(s, oprf, seed): return clamp(seed)
KE = {"ristretto255": KeW(R255), "P256": KeW(P256), "P384": KeW(P384), "P521": KeW(P521), "curve25519": KeX25519()}

# ---------------------------------------------------------------- OPRF (RFC 9497 mode 0)
class Oprf:
    def __init__(s, ident, g, h): s.id, s.g, s.h = ident, g, h; s.ctx = b"OPRFV1-\x00-" + ident.encode(); s.Noe, s.Nok = g.Npk, g.Nsk
    def h2g(s, x): return s.g.hash_to_curve(s.h, x, b"HashToGroup-" + s.ctx)
    def blind(s, x, r): return s.g.ser(s.g.mul(s.h2g(x), r))
    def evaluate(s, k, blinded): return s.g.ser(s.g.mul(s.g.deser(blinded), k))
    def finalize(s, x, r, evaluated):
        n = s.g.ser(s.g.mul(s.g.deser(evaluated), s.g.inv(r)))
        return s.h.H(lp(x) + lp(n) + b"Finalize")
    def derive_key(s, seed, info):
        for ctr in range(256):
            k = s.g.hash_to_scalar(s.h, seed + lp(info) + bytes([ctr]), b"DeriveKeyPair" + s.ctx)
            if k: return k
        raise ValueError
OPRF = {"ristretto255-SHA512": Oprf("ristretto255-SHA512", R255, SHA512), "P256-SHA256": Oprf("P256-SHA256", P256, SHA256),
        "P384-SHA384": Oprf("P384-SHA384", P384, SHA384), "P521-SHA512": Oprf("P521-SHA512", P521, SHA512)}

# ---------------------------------------------------------------- OPAQUE-3DH (RFC 9807), as implemented
Nn = 32
class Opaque:
    def __init__(s, oprf, ke, ksf=lambda x: x): s.o, s.k, s.h, s.ksf = oprf, ke, oprf.h, ksf
    def oprf_key(s, seed, cred):
        return s.o.derive_key(s.h.expand(seed, cred + b"OprfKey", s.o.Nok), b"OPAQUE-DeriveKeyPair")
    def rpwd(s, pw, blind, evaluated):
        y = s.o.finalize(pw, blind, evaluated); return s.h.extract(b"", y + s.ksf(y))
    def ids(s, idu, ids_, cpk, spk): return (idu if idu is not None else cpk), (ids_ if ids_ is not None else spk)
    def envelope(s, rpwd, nonce, spk, idu, ids_):
        h = s.h
        auth = h.expand(rpwd, nonce + b"AuthKey", h.Nh); export = h.expand(rpwd, nonce + b"ExportKey", h.Nh)
        csk = s.k.derive(s.o, h.expand(rpwd, nonce + b"PrivateKey", s.k.Nsk)); cpk = s.k.pub(csk)
        idu, ids_ = s.ids(idu, ids_, cpk, spk)
        tag = h.hmac(auth, nonce + spk + lp(ids_) + lp(idu))
        return nonce + tag, csk, cpk, export, h.expand(rpwd, b"MaskingKey", h.Nh), idu, ids_
    def reg_response(s, seed, spk, cred, request): return s.o.evaluate(s.oprf_key(seed, cred), request) + spk
    def reg_finish(s, pw, blind, response, nonce, idu=None, ids_=None):
        ev, spk = response[:s.o.Noe], response[s.o.Noe:]
        env, _, cpk, export, mk, _, _ = s.envelope(s.rpwd(pw, blind, ev), nonce, spk, idu, ids_)
        return cpk + mk + env, export
    def preamble(s, ctx, idu, req, ids_, resp_wo_mac): return b"OPAQUEv1-" + lp(ctx) + lp(idu) + req + lp(ids_) + resp_wo_mac
    def expand_label(s, secret, label, ctx): return s.h.expand(secret, I2OSP(s.h.Nh, 2) + lp(b"OPAQUE-" + label, 1) + lp(ctx, 1), s.h.Nh)
    def keys(s, ikm, pre):
        prk = s.h.extract(b"", ikm); th = s.h.H(pre)
        hs = s.expand_label(prk, b"HandshakeSecret", th); sk = s.expand_label(prk, b"SessionKey", th)
        return s.expand_label(hs, b"ServerMAC", b""), s.expand_label(hs, b"ClientMAC", b""), sk, hs
    def ke2(s, seed, s_sk, record, cred, request, ctx, idu, ids_, masking_nonce, e_seed, server_nonce):
        Npk, Nh, Noe = s.k.Npk, s.h.Nh, s.o.Noe
        cpk, mk, env = record[:Npk], record[Npk:Npk + Nh], record[Npk + Nh:]
        spk = s.k.pub(s_sk)
        ev = s.o.evaluate(s.oprf_key(seed, cred), request[:Noe])
        masked = xor(s.h.expand(mk, masking_nonce + b"CredentialResponsePad", Npk + Nn + Nh), spk + env)
        e_sk = s.k.derive(s.o, e_seed); e_pk = s.k.pub(e_sk)
        idu, ids_ = s.ids(idu, ids_, cpk, spk)
        c_epk = request[Noe + Nn:]
        pre = s.preamble(ctx, idu, request, ids_, ev + masking_nonce + masked + server_nonce + e_pk)
        km2, km3, sk, hs = s.keys(s.k.dh(c_epk, e_sk) + s.k.dh(c_epk, s_sk) + s.k.dh(cpk, e_sk), pre)
        mac = s.h.hmac(km2, s.h.H(pre))
        return ev + masking_nonce + masked + server_nonce + e_pk + mac, km3 + s.h.H(pre + mac) + sk, hs, km2
    def ke3(s, pw, blind, request, c_esk, response, ctx, idu, ids_):
        Npk, Nh, Noe = s.k.Npk, s.h.Nh, s.o.Noe
        ev, mn = response[:Noe], response[Noe:Noe + Nn]; masked = response[Noe + Nn:Noe + Nn + Npk + Nn + Nh]
        rest = response[Noe + Nn + Npk + Nn + Nh:]; s_nonce, e_pk, mac = rest[:Nn], rest[Nn:Nn + Npk], rest[Nn + Npk:]
        rp = s.rpwd(pw, blind, ev); mk = s.h.expand(rp, b"MaskingKey", Nh)
        un = xor(s.h.expand(mk, mn + b"CredentialResponsePad", Npk + Nn + Nh), masked); spk, env = un[:Npk], un[Npk:]
        env2, csk, cpk, export, _, idu, ids_ = s.envelope(rp, env[:Nn], spk, idu, ids_)
        if env2 != env: return None
        pre = s.preamble(ctx, idu, request, ids_, response[:-Nh])
        km2, km3, sk, hs = s.keys(s.k.dh(e_pk, c_esk) + s.k.dh(spk, c_esk) + s.k.dh(e_pk, csk), pre)
        if s.h.hmac(km2, s.h.H(pre)) != mac: return None
        return s.h.hmac(km3, s.h.H(pre + mac)), sk, export, spk

# ---------------------------------------------------------------- RFC vectors from the repository
def parse_vectors(path="/repo/src/tests/opaque_vectors.rs"):
    txt = open(path).read(); vs = []
    for block in re.split(r"\n### ", txt)[1:]:
        title = block.split("\n", 1)[0]; d = {"title": title}
        for body in re.findall(r"~~~\n(.*?)~~~", block, re.S):
            cur = None
            for line in body.split("\n"):
                m = re.match(r"^([A-Za-z_0-9]+): ?(.*)$", line)
                if m: cur = m.group(1); d[cur] = m.group(2).strip()
                elif cur and line.strip(): d[cur] += line.strip()
        vs.append(d)
    return vs
def hx(d, k): return bytes.fromhex(d[k]) if k in d else None
def run_vectors():
    ok = True
    for d in parse_vectors():
        oprf = OPRF[d["OPRF"]]; grp = d["Group"]
        ke = KE["P256" if grp.startswith("P256") else grp]
        o = Opaque(oprf, ke); ctx = hx(d, "Context"); fake = "Fake" in d["title"]
        idu, ids_ = hx(d, "client_identity"), hx(d, "server_identity")
        sk_raw = hx(d, "server_private_key")
        s_sk = sk_raw if ke.name == "curve25519" else (int.from_bytes(sk_raw, "little") if ke.name == "ristretto255" else OS2IP(sk_raw))
        res = []
        def chk(name, got):
            nonlocal ok
            good = got == hx(d, name); ok &= good; res.append(("ok " if good else "BAD ") + name)
        to_sc = (lambda b: int.from_bytes(b, "little")) if oprf.g is R255 else OS2IP
        if not fake:
            br = to_sc(hx(d, "blind_registration")); pw = hx(d, "password")
            req = oprf.blind(pw, br); chk("registration_request", req)
            resp = o.reg_response(hx(d, "oprf_seed"), hx(d, "server_public_key"), hx(d, "credential_identifier"), req); chk("registration_response", resp)
            upload, export = o.reg_finish(pw, br, resp, hx(d, "envelope_nonce"), idu, ids_); chk("registration_upload", upload); chk("export_key", export)
            bl = to_sc(hx(d, "blind_login")); c_esk = ke.derive(oprf, hx(d, "client_keyshare_seed"))
            ke1 = oprf.blind(pw, bl) + hx(d, "client_nonce") + ke.pub(c_esk); chk("KE1", ke1)
            ke2, sstate, hs, km2 = o.ke2(hx(d, "oprf_seed"), s_sk, upload, hx(d, "credential_identifier"), ke1, ctx, idu, ids_, hx(d, "masking_nonce"), hx(d, "server_keyshare_seed"), hx(d, "server_nonce")); chk("KE2", ke2)
            chk("handshake_secret", hs); chk("server_mac_key", km2)
            out = o.ke3(pw, bl, ke1, c_esk, ke2, ctx, idu, ids_)
            chk("KE3", out[0]); chk("session_key", out[1]); ok &= out[2] == export
            ok &= sstate[-oprf.h.Nh:] == out[1]
        else:
            ke1 = hx(d, "KE1"); record = hx(d, "client_public_key") + hx(d, "masking_key") + bytes(Nn + oprf.h.Nh)
            ke2, *_ = o.ke2(hx(d, "oprf_seed"), s_sk, record, hx(d, "credential_identifier"), ke1, ctx, idu, ids_, hx(d, "masking_nonce"), hx(d, "server_keyshare_seed"), hx(d, "server_nonce")); chk("KE2", ke2)
        print(d["title"], "|", d["OPRF"], grp, "|", " ".join(res))
    return ok
if __name__ == "__main__":
    sys.exit(0 if run_vectors() else 1)
