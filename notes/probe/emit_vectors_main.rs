use opaque_ke::*;
use opaque_ke::ksf::Identity;
use opaque_ke::key_exchange::tripledh::TripleDh;
use opaque_ke::rand::{RngCore, CryptoRng, Error};

pub struct Tape { pub data: Vec<u8>, pub pos: usize }
impl Tape { fn new(seed: u64, n: usize) -> Self { let mut s = seed; let mut d = Vec::new(); for _ in 0..n { s = s.wrapping_mul(6364136223846793005).wrapping_add(1442695040888963407); d.push((s >> 33) as u8);} Tape{data:d,pos:0} } }
impl RngCore for Tape {
    fn next_u32(&mut self) -> u32 { panic!("next_u32") }
    fn next_u64(&mut self) -> u64 { panic!("next_u64") }
    fn fill_bytes(&mut self, dest: &mut [u8]) { for b in dest.iter_mut() { *b = self.data[self.pos]; self.pos+=1; } }
    fn try_fill_bytes(&mut self, dest: &mut [u8]) -> Result<(), Error> { self.fill_bytes(dest); Ok(()) }
}
impl CryptoRng for Tape {}
fn h(b: &[u8]) -> String { hex::encode(b) }

macro_rules! suite { ($name:ident, $oprf:ty, $ke:ty, $on:expr, $kn:expr) => {
    pub mod $name {
        use super::*;
        pub struct CS;
        impl CipherSuite for CS { type OprfCs = $oprf; type KeGroup = $ke; type KeyExchange = TripleDh; type Ksf = Identity; }
        pub fn run(seed: u64, pw: &[u8], cred: &[u8], ctx: Option<&[u8]>, idu: Option<&[u8]>, ids: Option<&[u8]>) {
            let mut rng = Tape::new(seed, 200000);
            let tape = h(&rng.data[..]);
            let setup = ServerSetup::<CS>::new(&mut rng); let p_setup = rng.pos;
            let crs = ClientRegistration::<CS>::start(&mut rng, pw).unwrap(); let p_crs = rng.pos;
            let srs = ServerRegistration::<CS>::start(&setup, crs.message.clone(), cred).unwrap();
            let ids_ = Identifiers{client: idu, server: ids};
            let crf = crs.state.clone().finish(&mut rng, pw, srs.message.clone(), ClientRegistrationFinishParameters::new(ids_, None)).unwrap(); let p_crf = rng.pos;
            let file = ServerRegistration::<CS>::finish(crf.message.clone());
            let cls = ClientLogin::<CS>::start(&mut rng, pw).unwrap(); let p_cls = rng.pos;
            let sls = ServerLogin::start(&mut rng, &setup, Some(file.clone()), cls.message.clone(), cred, ServerLoginStartParameters{context: ctx, identifiers: ids_}).unwrap(); let p_sls = rng.pos;
            let clf = cls.state.clone().finish(pw, sls.message.clone(), ClientLoginFinishParameters::new(ctx, ids_, None)).unwrap();
            let slf = sls.state.clone().finish(clf.message.clone()).unwrap();
            let cls2 = ClientLogin::<CS>::start(&mut rng, pw).unwrap(); let p_cls2 = rng.pos;
            let sls2 = ServerLogin::start(&mut rng, &setup, None, cls2.message.clone(), cred, ServerLoginStartParameters{context: ctx, identifiers: ids_}).unwrap(); let p_sls2 = rng.pos;
            let o = |x: Option<&[u8]>| match x { Some(b) => format!("\"{}\"", h(b)), None => "null".to_string() };
            println!("{{\"oprf\":\"{}\",\"ke\":\"{}\",\"tape\":\"{}\",\"pw\":\"{}\",\"cred\":\"{}\",\"ctx\":{},\"idu\":{},\"ids\":{},\"pos\":[{},{},{},{},{},{},{}],\"setup\":\"{}\",\"creg_state\":\"{}\",\"reg_request\":\"{}\",\"reg_response\":\"{}\",\"upload\":\"{}\",\"export_reg\":\"{}\",\"clogin_state\":\"{}\",\"ke1\":\"{}\",\"ke2\":\"{}\",\"slogin_state\":\"{}\",\"ke3\":\"{}\",\"session_key\":\"{}\",\"export_login\":\"{}\",\"server_session_key\":\"{}\",\"ke1_b\":\"{}\",\"fake_ke2\":\"{}\",\"fake_state\":\"{}\"}}",
              $on, $kn, &tape[..2*p_sls2], h(pw), h(cred), o(ctx), o(idu), o(ids), p_setup, p_crs, p_crf, p_cls, p_sls, p_cls2, p_sls2,
              h(&setup.serialize()), h(&crs.state.serialize()), h(&crs.message.serialize()), h(&srs.message.serialize()), h(&crf.message.serialize()), h(&crf.export_key),
              h(&cls.state.serialize()), h(&cls.message.serialize()), h(&sls.message.serialize()), h(&sls.state.serialize()), h(&clf.message.serialize()), h(&clf.session_key), h(&clf.export_key), h(&slf.session_key),
              h(&cls2.message.serialize()), h(&sls2.message.serialize()), h(&sls2.state.serialize()));
        }
    }
}}
type R = Ristretto255; type C = Curve25519;
suite!(r_r, R, R, "ristretto255-SHA512", "ristretto255"); suite!(r_p256, R, p256::NistP256, "ristretto255-SHA512", "P256"); suite!(r_p384, R, p384::NistP384, "ristretto255-SHA512", "P384"); suite!(r_p521, R, p521::NistP521, "ristretto255-SHA512", "P521"); suite!(r_c, R, C, "ristretto255-SHA512", "curve25519");
suite!(p256_r, p256::NistP256, R, "P256-SHA256", "ristretto255"); suite!(p256_p256, p256::NistP256, p256::NistP256, "P256-SHA256", "P256"); suite!(p256_p384, p256::NistP256, p384::NistP384, "P256-SHA256", "P384"); suite!(p256_p521, p256::NistP256, p521::NistP521, "P256-SHA256", "P521"); suite!(p256_c, p256::NistP256, C, "P256-SHA256", "curve25519");
suite!(p384_r, p384::NistP384, R, "P384-SHA384", "ristretto255"); suite!(p384_p256, p384::NistP384, p256::NistP256, "P384-SHA384", "P256"); suite!(p384_p384, p384::NistP384, p384::NistP384, "P384-SHA384", "P384"); suite!(p384_p521, p384::NistP384, p521::NistP521, "P384-SHA384", "P521"); suite!(p384_c, p384::NistP384, C, "P384-SHA384", "curve25519");
suite!(p521_r, p521::NistP521, R, "P521-SHA512", "ristretto255"); suite!(p521_p256, p521::NistP521, p256::NistP256, "P521-SHA512", "P256"); suite!(p521_p384, p521::NistP521, p384::NistP384, "P521-SHA512", "P384"); suite!(p521_p521, p521::NistP521, p521::NistP521, "P521-SHA512", "P521"); suite!(p521_c, p521::NistP521, C, "P521-SHA512", "curve25519");

fn main() {
    let fs: Vec<fn(u64,&[u8],&[u8],Option<&[u8]>,Option<&[u8]>,Option<&[u8]>)> = vec![r_r::run, r_p256::run, r_p384::run, r_p521::run, r_c::run, p256_r::run, p256_p256::run, p256_p384::run, p256_p521::run, p256_c::run, p384_r::run, p384_p256::run, p384_p384::run, p384_p521::run, p384_c::run, p521_r::run, p521_p256::run, p521_p384::run, p521_p521::run, p521_c::run];
    let long = vec![0x61u8; 300];
    for (i,f) in fs.iter().enumerate() { f(1000+i as u64, b"pass\x00word", b"user-1", None, None, None); }
    for (i,f) in fs.iter().enumerate() { f(2000+i as u64, b"", b"", Some(b"ctx"), Some(&long), Some(b"")); }
}
